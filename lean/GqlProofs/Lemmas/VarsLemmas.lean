import GqlModel.Vars.Model
import GqlModel.Vars.Spec
import GqlProofs.Lemmas.ArgMapLemmas
/- helper lemmas for C14 -/
namespace Gql
open Gql.Strconv

theorem GoVal.type?_none_iff (v : GoVal) : v.type? = none ↔ v = .nil := by
  cases v <;> simp [GoVal.type?]

theorem GoVal.isNil_iff (v : GoVal) : v.isNil = true ↔ v = .nil := by
  cases v <;> simp [GoVal.isNil]

theorem GoVal.isNil_false_iff (v : GoVal) : v.isNil = false ↔ v ≠ .nil := by
  cases v <;> simp [GoVal.isNil]

/- ---------- the representation invariant `wfB` ---------- -/

theorem wfFields_lookup (b : Bool) : ∀ (kvs : GoFields) (k : Bytes) (x : GoVal),
    wfFieldsB b kvs = true → kvs.lookup k = some x → wfB x = true ∧ (b || !x.isNil) = true
  | .nil, _, _, _, h => by simp [GoFields.lookup] at h
  | .cons a w r, k, x, hs, h => by
    simp only [wfFieldsB, Bool.and_eq_true] at hs
    simp only [GoFields.lookup] at h
    split at h
    · cases h; exact ⟨hs.1.2, hs.1.1.2⟩
    · exact wfFields_lookup b r k x hs.2 h

theorem wfFields_set (b : Bool) : ∀ (kvs : GoFields) (k : Bytes) (x : GoVal),
    wfFieldsB b kvs = true → wfB x = true → (b || !x.isNil) = true → wfFieldsB b (kvs.set k x) = true
  | .nil, k, x, _, hx, hn => by
    simp only [GoFields.set, wfFieldsB, Bool.and_eq_true]
    exact ⟨⟨⟨by simp [GoFields.contains, GoFields.lookup], hn⟩, hx⟩, trivial⟩
  | .cons a w r, k, x, hs, hx, hn => by
    simp only [wfFieldsB, Bool.and_eq_true] at hs
    simp only [GoFields.set]
    split
    · rename_i heq
      simp only [wfFieldsB, Bool.and_eq_true]
      exact ⟨⟨⟨hs.1.1.1, hn⟩, hx⟩, hs.2⟩
    · rename_i hne
      simp only [wfFieldsB, Bool.and_eq_true]
      refine ⟨⟨⟨?_, hs.1.1.2⟩, hs.1.2⟩, wfFields_set b r k x hs.2 hx hn⟩
      have h1 := hs.1.1.1
      simp only [GoFields.contains_set, Bool.not_eq_true', Bool.or_eq_false_iff, decide_eq_false_iff_not]
      exact ⟨fun e => hne e.symm, by simpa using h1⟩

theorem wfItems_mono : ∀ (xs : GoVals) (b : Bool), wfItemsB b xs = true → wfItemsB true xs = true
  | .nil, _, _ => by simp [wfItemsB]
  | .cons x r, b, h => by
    simp only [wfItemsB, Bool.and_eq_true] at h
    simp [wfItemsB, h.1.2, wfItems_mono r b h.2]

theorem wfFields_mono : ∀ (kvs : GoFields) (b : Bool), wfFieldsB b kvs = true → wfFieldsB true kvs = true
  | .nil, _, _ => by simp [wfFieldsB]
  | .cons k x r, b, h => by
    simp only [wfFieldsB, Bool.and_eq_true] at h
    simp [wfFieldsB, h.1.2, h.1.1.1, wfFields_mono r b h.2]

/-- the element type of a result slice is the original one or `interface{}` -/
theorem storeElemType_cases (t : GoType) (a b : GoVals) : storeElemType t a b = t ∨ storeElemType t a b = .iface := by
  unfold storeElemType
  split
  · exact Or.inl rfl
  · exact Or.inr rfl

theorem wfItems_storeElemType {t : GoType} {a b xs : GoVals} (h : wfItemsB (decide (t = .iface)) xs = true) :
    wfItemsB (decide (storeElemType t a b = .iface)) xs = true := by
  rcases storeElemType_cases t a b with e | e
  · rw [e]; exact h
  · rw [e]; simpa using wfItems_mono xs _ h

/-- outcome of a `validateVarType` call on `val` that the totality proof needs: no panic; the
    result is well-formed; a non-null value is not turned into the zero Value -/
def GoodVal (val : GoVal) : Res GoVal → Prop
  | .panic _ => False
  | .ok ret => wfB ret = true ∧ (val ≠ .nil → ret ≠ .nil)
  | _ => True

def GoodItems (nilOK : Bool) : Res GoVals → Prop
  | .panic _ => False
  | .ok xs => wfItemsB nilOK xs = true
  | _ => True

def GoodFields : Res (GoType × GoFields) → Prop
  | .panic _ => False
  | .ok (e, kvs) => wfFieldsB (decide (e = .iface)) kvs = true
  | _ => True

/-- the list loop calls `f` on a null item only when the element type is nullable (the loop itself
    rejects a null item of an `interface{}` slice at a non-null element type, and a typed slice
    holds no null item) -/
theorem listLoop_nil_nullable {b1 b2 : Bool} {x : GoVal} (h1 : (b1 || !x.isNil) = true)
    (hcond : ¬ (b1 && b2 && x.isNil) = true) : x = .nil → b2 = false := by
  intro hx
  subst hx
  cases b1 <;> cases b2 <;> simp_all [GoVal.isNil]

theorem listLoop_good (f : Path → GoVal → Res GoVal) (path : Path) (b1 b2 : Bool)
    (hf : ∀ p x, wfB x = true → (x = .nil → b2 = false) → GoodVal x (f p x)) :
    ∀ (xs : GoVals) (i : Nat), wfItemsB b1 xs = true → GoodItems b1 (listLoop f path b1 b2 i xs)
  | .nil, i, _ => by simp [listLoop, wfItemsB, GoodItems]
  | .cons x rest, i, hs => by
    simp only [wfItemsB, Bool.and_eq_true] at hs
    obtain ⟨⟨hx1, hx2⟩, hr⟩ := hs
    simp only [listLoop]
    split
    · simp [GoodItems]
    · rename_i hcond
      have hg := hf (path ++ [.idx i]) x hx2 (listLoop_nil_nullable hx1 hcond)
      cases hfx : f (path ++ [.idx i]) x with
      | ok ret =>
        simp only [hfx, GoodVal] at hg
        have ih := listLoop_good f path b1 b2 hf rest (i + 1) hr
        cases hl : listLoop f path b1 b2 (i + 1) rest with
        | ok rest' =>
          simp only [hl, GoodItems] at ih
          have hnil : (b1 || !ret.isNil) = true := by
            cases b1
            · simp only [Bool.false_or, Bool.not_eq_true'] at hx1 ⊢
              exact (GoVal.isNil_false_iff ret).mpr (hg.2 ((GoVal.isNil_false_iff x).mp hx1))
            · rfl
          simp only [GoodItems, wfItemsB, Bool.and_eq_true]
          exact ⟨⟨hnil, hg.1⟩, ih⟩
        | err m p a => simp [GoodItems]
        | panic m => simp [hl, GoodItems] at ih
        | outOfFuel => simp [GoodItems]
      | err m p a => simp [GoodItems]
      | panic m => simp [hfx, GoodVal] at hg
      | outOfFuel => simp [GoodItems]

theorem fieldLoop_good (s : Schema) (f : Path → GType → GoVal → Res GoVal) (path : Path)
    (hf : ∀ p t x, InputTypeOK s t → wfB x = true → x ≠ .nil → GoodVal x (f p t x)) :
    ∀ (fields : List FieldDef) (elem : GoType) (kvs : GoFields), (∀ fd ∈ fields, InputTypeOK s fd.type) →
      wfFieldsB (decide (elem = .iface)) kvs = true →
      GoodFields (fieldLoop f path fields elem kvs)
  | [], elem, kvs, _, hs => by simp [fieldLoop, hs, GoodFields]
  | fd :: rest, elem, kvs, ht, hs => by
    have ih := fun elem' kvs' h' => fieldLoop_good s f path hf rest elem' kvs' (fun fd' h => ht fd' (by simp [h])) h'
    simp only [fieldLoop]
    cases hl : kvs.lookup fd.name with
    | none =>
      simp only []
      split <;> (try split) <;> (try split) <;> first | exact ih elem kvs hs | simp [GoodFields]
    | some x =>
      simp only []
      obtain ⟨hx, hxn⟩ := wfFields_lookup _ kvs fd.name x hs hl
      by_cases hn : (decide (elem = .iface) && x.isNil) = true
      · simp only [hn, if_true]
        split
        · simp [GoodFields]
        · exact ih elem kvs hs
      · simp only [hn, Bool.false_eq_true, if_false]
        have hxne : x ≠ .nil := by
          intro e; subst e
          cases h : decide (elem = .iface) <;> simp_all [GoVal.isNil]
        have hg := hf (path ++ [.name fd.name]) fd.type x (ht fd (by simp)) hx hxne
        cases hfx : f (path ++ [.name fd.name]) fd.type x with
        | ok cval =>
          simp only [hfx, GoodVal] at hg
          simp only []
          cases hty : cval.type? with
          | none => exact absurd ((GoVal.type?_none_iff cval).mp hty) (hg.2 hxne)
          | some t =>
            simp only []
            have hcn : cval.isNil = false := (GoVal.isNil_false_iff cval).mpr (hg.2 hxne)
            apply ih
            apply wfFields_set _ kvs fd.name cval _ hg.1 (by simp [hcn])
            split
            · exact hs
            · simpa using wfFields_mono kvs _ hs
        | err m p a => simp [GoodFields]
        | panic m => simp [hfx, GoodVal] at hg
        | outOfFuel => simp [GoodFields]

end Gql

namespace Gql
open Gql.Strconv

theorem GoodVal_self {v : GoVal} (h1 : wfB v = true) : GoodVal v (.ok v) := by
  simp [GoodVal, h1]

/-- `validateVarType` does not panic on a well-formed value (typed slices and typed maps
    included), PROVIDED a null value only meets a nullable type — which every caller (the loop of
    `VariableValues`, the list loop, the field loop) establishes before the call -/
theorem validateVarType_good (s : Schema) (hc : InputsClosed s) :
    ∀ (fuel : Nat) (path : Path) (typ : GType) (val : GoVal),
      InputTypeOK s typ → wfB val = true → (val = .nil → typ.nonNull = false) →
      GoodVal val (validateVarType s fuel path typ val)
  | 0, _, _, _, _, _, _ => by simp [validateVarType, GoodVal]
  | fuel + 1, path, typ, val, ht, hs, hn => by
    have ih := validateVarType_good s hc fuel
    cases typ with
    | list e nn p =>
      have hte : InputTypeOK s e := by simpa [InputTypeOK, GType.name] using ht
      by_cases hnil : val.isNil = true
      · -- a null where a list is expected is returned as it is
        simp only [validateVarType, hnil, if_true]
        exact GoodVal_self hs
      · have hnil' : val.isNil = false := by simpa using hnil
        have hvn : val ≠ .nil := (GoVal.isNil_false_iff val).mp hnil'
        simp only [validateVarType, hnil', Bool.false_eq_true, if_false]
        cases val with
        | nil => exact absurd rfl hvn
        | slice t xs =>
          simp only []
          have hxs : wfItemsB (decide (t = .iface)) xs = true := by simpa [wfB] using hs
          have hl := listLoop_good (fun p x => validateVarType s fuel p e x) path (decide (t = .iface)) e.nonNull
            (fun p x h1 h2 => ih p e x hte h1 h2) xs 0 hxs
          cases hr : listLoop (fun p x => validateVarType s fuel p e x) path (decide (t = .iface)) e.nonNull 0 xs with
          | ok xs' =>
            simp only [hr, GoodItems] at hl
            have := wfItems_storeElemType (a := xs) (b := xs') hl
            simp [GoodVal, wfB, this]
          | err m p a => simp [GoodVal]
          | panic m => simp [hr, GoodItems] at hl
          | outOfFuel => simp [GoodVal]
        | _ =>
          simp only [GoVal.type?]
          have hg := ih (path ++ [.idx 0]) e _ hte hs (fun h => absurd h hvn)
          revert hg
          cases validateVarType s fuel (path ++ [.idx 0]) e _ with
          | ok ret =>
            intro hg
            simp only [GoodVal] at hg
            have h2 := (GoVal.isNil_false_iff _).mpr (hg.2 hvn)
            simp [GoodVal, wfB, wfItemsB, hg.1, h2]
          | err m p a => simp [GoodVal]
          | panic m => simp [GoodVal]
          | outOfFuel => simp [GoodVal]
    | named n nn p =>
      obtain ⟨d, hd, hk⟩ := ht
      simp only [GType.name] at hd
      simp only [validateVarType, hd]
      by_cases hnil : (!nn && val.isNil) = true
      · simp only [hnil, if_true]
        exact GoodVal_self hs
      · simp only [hnil, Bool.false_eq_true, if_false]
        have hvn : val ≠ .nil := by
          intro h
          have h1 := hn h
          simp only [GType.nonNull] at h1
          subst h; subst h1
          simp [GoVal.isNil] at hnil
        obtain ⟨t, hty⟩ : ∃ t, val.type? = some t := by
          cases h : val.type? with
          | none => exact absurd ((GoVal.type?_none_iff val).mp h) hvn
          | some t => exact ⟨t, rfl⟩
        rcases hk with hk | hk | hk
        · -- scalar
          simp only [hk, hty]
          split <;> first | exact GoodVal_self hs | simp [GoodVal]
        · -- enum
          simp only [hk, hty]
          split
          · simp [GoodVal]
          · split <;> first | exact GoodVal_self hs | simp [GoodVal]
        · -- input object
          simp only [hk]
          cases val with
          | map elem kvs =>
            simp only []
            have hkvs : wfFieldsB (decide (elem = .iface)) kvs = true := by simpa [wfB] using hs
            split
            · simp [GoodVal]
            · have hl := fieldLoop_good s (fun p t x => validateVarType s fuel p t x) path
                (fun p t x h0 h1 h2 => ih p t x h0 h1 (fun h => absurd h h2)) d.fields elem kvs (hc n d hd hk) hkvs
              revert hl
              cases fieldLoop (fun p t x => validateVarType s fuel p t x) path d.fields elem kvs with
              | ok pr => obtain ⟨e', kvs'⟩ := pr; intro hl; simp only [GoodFields] at hl; simp [GoodVal, wfB, hl]
              | err m p a => simp [GoodVal]
              | panic m => simp [GoodFields]
              | outOfFuel => simp [GoodVal]
          | _ => simp [GoodVal]

end Gql

namespace Gql
open Gql.Strconv

/- ---------- converted literals (default values) are well-formed ---------- -/

mutual
  theorem vvw_wf (dflt : Name → Option (ConvRes GoVal)) (vars : VarMap)
      (hv : wfFieldsB true vars = true) (hd : ∀ n x, dflt n = some (.ok x) → wfB x = true) :
      (v : Value) → ∀ x, valueValueWith dflt vars v = .ok x → wfB x = true
    | .mk kind raw ch p, x, h => by
      cases kind
      case «variable» =>
        simp only [valueValueWith] at h
        cases h1 : vars.lookup raw with
        | some y => simp only [h1] at h; cases h; exact (wfFields_lookup true vars raw _ hv h1).1
        | none =>
          simp only [h1] at h
          cases h2 : dflt raw with
          | none => simp only [h2] at h; cases h; rfl
          | some r => simp only [h2] at h; subst h; exact hd raw x h2
      case int => simp only [valueValueWith] at h; split at h <;> first | (cases h; rfl) | simp at h
      case float => simp only [valueValueWith] at h; split at h <;> first | (cases h; rfl) | simp at h
      case string => simp only [valueValueWith] at h; cases h; rfl
      case block => simp only [valueValueWith] at h; cases h; rfl
      case enum => simp only [valueValueWith] at h; cases h; rfl
      case boolean => simp only [valueValueWith] at h; split at h <;> first | (cases h; rfl) | simp at h
      case null => simp only [valueValueWith] at h; cases h; rfl
      case list =>
        simp only [valueValueWith] at h
        cases hl : listValueWith dflt vars ch with
        | ok xs =>
          simp only [hl] at h; cases h
          simpa [wfB] using lvw_wf dflt vars hv hd ch xs hl
        | err e => simp [hl] at h
        | diverge => simp [hl] at h
      case object =>
        simp only [valueValueWith] at h
        cases hl : objectValueWith dflt vars ch .nil with
        | ok kvs =>
          simp only [hl] at h; cases h
          simpa [wfB] using ovw_wf dflt vars hv hd ch .nil kvs (by simp [wfFieldsB]) hl
        | err e => simp [hl] at h
        | diverge => simp [hl] at h
  theorem lvw_wf (dflt : Name → Option (ConvRes GoVal)) (vars : VarMap)
      (hv : wfFieldsB true vars = true) (hd : ∀ n x, dflt n = some (.ok x) → wfB x = true) :
      (c : Children) → ∀ xs, listValueWith dflt vars c = .ok xs → wfItemsB true xs = true
    | .nil, xs, h => by simp only [listValueWith] at h; cases h; simp [wfItemsB]
    | .cons n v p rest, xs, h => by
      simp only [listValueWith] at h
      cases h1 : valueValueWith dflt vars v with
      | ok x =>
        simp only [h1] at h
        cases h2 : listValueWith dflt vars rest with
        | ok ys =>
          simp only [h2] at h; cases h
          simp [wfItemsB, vvw_wf dflt vars hv hd v x h1, lvw_wf dflt vars hv hd rest ys h2]
        | err e => simp [h2] at h
        | diverge => simp [h2] at h
      | err e => simp [h1] at h
      | diverge => simp [h1] at h
  theorem ovw_wf (dflt : Name → Option (ConvRes GoVal)) (vars : VarMap)
      (hv : wfFieldsB true vars = true) (hd : ∀ n x, dflt n = some (.ok x) → wfB x = true) :
      (c : Children) → ∀ acc kvs, wfFieldsB true acc = true → objectValueWith dflt vars c acc = .ok kvs → wfFieldsB true kvs = true
    | .nil, acc, kvs, ha, h => by simp only [objectValueWith] at h; cases h; exact ha
    | .cons n v p rest, acc, kvs, ha, h => by
      simp only [objectValueWith] at h
      cases h1 : valueValueWith dflt vars v with
      | ok x =>
        simp only [h1] at h
        exact ovw_wf dflt vars hv hd rest (acc.set n x) kvs
          (wfFields_set true acc n x ha (vvw_wf dflt vars hv hd v x h1) rfl) h
      | err e => simp [h1] at h
      | diverge => simp [h1] at h
end

/-- every converted constant literal (a default value) is well-formed: literal conversion only builds
    `[]interface{}` / `map[string]interface{}` containers -/
theorem valueValueConst_wf (dv : Value) (x : GoVal) (h : valueValueConst dv = .ok x) : wfB x = true := by
  unfold valueValueConst valueValue at h
  simp only [List.length_nil, valueValueLvl] at h
  exact vvw_wf _ .nil (by simp [wfFieldsB]) (by intro n x h; simp [findVarDef] at h) dv x h

theorem jsonNumberPre_good {typ : GType} {val rv : GoVal} (hs : wfB val = true) (hn : val ≠ .nil)
    (h : jsonNumberPre typ val = .ok rv) : wfB rv = true ∧ rv ≠ .nil := by
  unfold jsonNumberPre at h
  cases val with
  | jsonNumber t =>
    simp only [] at h
    split at h
    · split at h <;> first | (cases h; simp [wfB]) | simp at h
    · split at h
      · split at h <;> first | (cases h; simp [wfB]) | simp at h
      · cases h; simp [wfB]
  | nil => exact absurd rfl hn
  | _ => simp only [] at h; cases h; exact ⟨hs, hn⟩

def NoPanic {α : Type} : Res α → Prop
  | .panic _ => False
  | _ => True

theorem isInputType_kind {d : Definition} (h : d.isInputType = true) :
    d.kind = .scalar ∨ d.kind = .enum ∨ d.kind = .inputObject := by
  simpa [Definition.isInputType, or_assoc] using h

theorem coerceSupplied_noPanic (s : Schema) (op : OperationDef) (v : VarDef) (coerced : GoFields) (val : GoVal)
    (hc : InputsClosed s) (hty : InputTypeOK s v.type) (hs : wfB val = true) :
    NoPanic (coerceSupplied s op v coerced val) := by
  unfold coerceSupplied
  by_cases hn : val.isNil = true
  · simp only [hn, if_true]; split <;> simp [NoPanic]
  · have hn' : val ≠ .nil := fun e => hn ((GoVal.isNil_iff val).mpr e)
    simp only [hn]
    cases hj : jsonNumberPre v.type val with
    | error m => simp [NoPanic]
    | ok rv =>
      obtain ⟨h1, h2⟩ := jsonNumberPre_good hs hn' hj
      have hg := validateVarType_good s hc (fuelFor s op rv) (varPath v) v.type rv hty h1 (fun h => absurd h h2)
      revert hg
      simp only []
      cases validateVarType s (fuelFor s op rv) (varPath v) v.type rv with
      | ok rval =>
        intro hg
        simp only [GoodVal] at hg
        simp [(GoVal.isNil_false_iff rval).mpr (hg.2 h2), NoPanic]
      | err m p a => simp [NoPanic]
      | panic m => simp [GoodVal]
      | outOfFuel => simp [NoPanic]

theorem suppliedValue_wf {vars : VarMap} {v : VarDef} {x : GoVal}
    (hvars : wfFieldsB true vars = true)
    (h : suppliedValue vars v = .ok (some x)) : wfB x = true := by
  unfold suppliedValue at h
  cases hl : vars.lookup v.var with
  | some y => simp only [hl] at h; cases h; exact (wfFields_lookup true vars v.var _ hvars hl).1
  | none =>
    simp only [hl] at h
    cases hdv : v.default with
    | none => simp only [hdv] at h; split at h <;> simp at h
    | some dv =>
      simp only [hdv] at h
      cases hvv : valueValueConst dv with
      | ok y => simp only [hvv] at h; cases h; exact valueValueConst_wf dv _ hvv
      | err e => simp [hvv] at h
      | diverge => simp [hvv] at h

theorem suppliedValue_noPanic (vars : VarMap) (v : VarDef) : NoPanic (suppliedValue vars v) := by
  unfold suppliedValue
  repeat' split
  all_goals simp [NoPanic]

theorem coerceVar_noPanic (s : Schema) (op : OperationDef) (vars : VarMap) (v : VarDef) (coerced : GoFields)
    (hc : InputsClosed s) (hop : ∃ d, s.type? v.type.name = some d)
    (hvars : wfFieldsB true vars = true) :
    NoPanic (coerceVar s op vars v coerced) := by
  obtain ⟨d, hd⟩ := hop
  unfold coerceVar
  simp only [hd]
  by_cases hin : d.isInputType = true
  · simp only [hin, Bool.not_true, Bool.false_eq_true, if_false]
    have hty : InputTypeOK s v.type := ⟨d, hd, isInputType_kind hin⟩
    have hsp := suppliedValue_noPanic vars v
    cases hsv : suppliedValue vars v with
    | ok o =>
      cases o with
      | none => simp [NoPanic]
      | some x => exact coerceSupplied_noPanic s op v coerced x hc hty (suppliedValue_wf hvars hsv)
    | err m p a => simp [NoPanic]
    | panic m => simp [hsv, NoPanic] at hsp
    | outOfFuel => simp [NoPanic]
  · simp [hin, NoPanic]

theorem coerceLoop_noPanic (s : Schema) (op : OperationDef) (vars : VarMap)
    (hc : InputsClosed s) (hvars : wfFieldsB true vars = true) :
    ∀ (vs : List VarDef) (coerced : GoFields),
      (∀ v ∈ vs, ∃ d, s.type? v.type.name = some d) →
      NoPanic (coerceLoop s op vars vs coerced)
  | [], coerced, _ => by simp [coerceLoop, NoPanic]
  | v :: rest, coerced, hop => by
    have h1 := coerceVar_noPanic s op vars v coerced hc (hop v (by simp)) hvars
    simp only [coerceLoop]
    revert h1
    cases coerceVar s op vars v coerced with
    | ok c =>
      intro _
      exact coerceLoop_noPanic s op vars hc hvars rest c (fun v' h => hop v' (by simp [h]))
    | err m p a => simp [NoPanic]
    | panic m => simp [NoPanic]
    | outOfFuel => simp [NoPanic]

end Gql

namespace Gql
open Gql.Strconv

/- ---------- defaults ---------- -/

theorem coerceSupplied_shape {s : Schema} {op : OperationDef} {v : VarDef} {coerced c : GoFields} {val : GoVal}
    (h : coerceSupplied s op v coerced val = .ok c) : ∃ y, c = coerced.set v.var y := by
  unfold coerceSupplied at h
  split at h
  · split at h
    · simp at h
    · cases h; exact ⟨_, rfl⟩
  · split at h
    · simp at h
    · split at h
      · split at h
        · simp at h
        · cases h; exact ⟨_, rfl⟩
      all_goals simp at h

theorem coerceVar_shape {s : Schema} {op : OperationDef} {vars : VarMap} {v : VarDef} {coerced c : GoFields}
    (h : coerceVar s op vars v coerced = .ok c) :
    (c = coerced ∧ suppliedValue vars v = .ok none) ∨
      (∃ x y, suppliedValue vars v = .ok (some x) ∧ coerceSupplied s op v coerced x = .ok c ∧ c = coerced.set v.var y) := by
  unfold coerceVar at h
  split at h
  · simp at h
  · split at h
    · simp at h
    · split at h
      · simp at h
      · simp at h
      · simp at h
      · cases h; left; exact ⟨rfl, by assumption⟩
      · rename_i val hsv
        obtain ⟨y, hy⟩ := coerceSupplied_shape h
        right; exact ⟨val, y, hsv, h, hy⟩

theorem coerceLoop_contains_mono {s : Schema} {op : OperationDef} {vars : VarMap} :
    ∀ (vs : List VarDef) (coerced m : GoFields), coerceLoop s op vars vs coerced = .ok m →
      ∀ k, coerced.contains k = true → m.contains k = true
  | [], coerced, m, h, k, hk => by simp only [coerceLoop] at h; cases h; exact hk
  | v :: rest, coerced, m, h, k, hk => by
    simp only [coerceLoop] at h
    cases hv : coerceVar s op vars v coerced with
    | ok c =>
      simp only [hv] at h
      apply coerceLoop_contains_mono rest c m h k
      rcases coerceVar_shape hv with ⟨e, _⟩ | ⟨x, y, _, _, e⟩
      · rw [e]; exact hk
      · rw [e, GoFields.contains_set]; simp [hk]
    | err a b c => simp [hv] at h
    | panic a => simp [hv] at h
    | outOfFuel => simp [hv] at h

theorem suppliedValue_default {vars : VarMap} {v : VarDef} (hd : v.default.isSome = true) :
    suppliedValue vars v ≠ .ok none := by
  unfold suppliedValue
  cases hl : vars.lookup v.var with
  | some x => simp
  | none =>
    cases hdv : v.default with
    | none => simp [hdv] at hd
    | some dv => simp only []; split <;> simp

/-- after the loop every variable that has a default is in the result -/
theorem coerceLoop_defaults {s : Schema} {op : OperationDef} {vars : VarMap} :
    ∀ (vs : List VarDef) (coerced m : GoFields), coerceLoop s op vars vs coerced = .ok m →
      ∀ v ∈ vs, v.default.isSome = true → m.contains v.var = true
  | [], _, _, _, v, hv, _ => by simp at hv
  | v0 :: rest, coerced, m, h, v, hv, hd => by
    simp only [coerceLoop] at h
    cases hc : coerceVar s op vars v0 coerced with
    | ok c =>
      simp only [hc] at h
      rcases List.mem_cons.mp hv with e | hv'
      · subst e
        apply coerceLoop_contains_mono rest c m h
        rcases coerceVar_shape hc with ⟨_, e2⟩ | ⟨x, y, _, _, e⟩
        · exact absurd e2 (suppliedValue_default hd)
        · rw [e, GoFields.contains_set]; simp
      · exact coerceLoop_defaults rest c m h v hv' hd
    | err a b c => simp [hc] at h
    | panic a => simp [hc] at h
    | outOfFuel => simp [hc] at h

theorem coerceLoop_lookup_other {s : Schema} {op : OperationDef} {vars : VarMap} :
    ∀ (vs : List VarDef) (coerced m : GoFields), coerceLoop s op vars vs coerced = .ok m →
      ∀ k, (∀ v ∈ vs, v.var ≠ k) → m.lookup k = coerced.lookup k
  | [], coerced, m, h, k, _ => by simp only [coerceLoop] at h; cases h; rfl
  | v :: rest, coerced, m, h, k, hk => by
    simp only [coerceLoop] at h
    cases hv : coerceVar s op vars v coerced with
    | ok c =>
      simp only [hv] at h
      rw [coerceLoop_lookup_other rest c m h k (fun v' h' => hk v' (by simp [h']))]
      rcases coerceVar_shape hv with ⟨e, _⟩ | ⟨x, y, _, _, e⟩
      · rw [e]
      · rw [e, GoFields.lookup_set]; simp [hk v (by simp)]
    | err a b c => simp [hv] at h
    | panic a => simp [hv] at h
    | outOfFuel => simp [hv] at h

/-- with unique variable names: the entry of a declared variable is what its own iteration stored -/
theorem coerceLoop_entry {s : Schema} {op : OperationDef} {vars : VarMap} :
    ∀ (vs : List VarDef) (coerced m : GoFields), (vs.map (·.var)).Nodup →
      coerceLoop s op vars vs coerced = .ok m →
      ∀ v ∈ vs, ∃ acc c, coerceVar s op vars v acc = .ok c ∧ m.lookup v.var = c.lookup v.var
        ∧ (acc.lookup v.var = coerced.lookup v.var)
  | [], _, _, _, _, v, hv => by simp at hv
  | v0 :: rest, coerced, m, hnd, h, v, hv => by
    simp only [coerceLoop] at h
    simp only [List.map_cons, List.nodup_cons, List.mem_map, not_exists, not_and] at hnd
    cases hc : coerceVar s op vars v0 coerced with
    | ok c =>
      simp only [hc] at h
      rcases List.mem_cons.mp hv with e | hv'
      · subst e
        exact ⟨coerced, c, hc, coerceLoop_lookup_other rest c m h v.var (fun v' h' e => hnd.1 v' h' e), rfl⟩
      · obtain ⟨acc, c', h1, h2, h3⟩ := coerceLoop_entry rest c m hnd.2 h v hv'
        refine ⟨acc, c', h1, h2, ?_⟩
        rw [h3]
        have hne : v0.var ≠ v.var := fun e => hnd.1 v hv' e.symm
        rcases coerceVar_shape hc with ⟨e, _⟩ | ⟨x, y, _, _, e⟩
        · rw [e]
        · rw [e, GoFields.lookup_set]; simp [hne]
    | err a b c => simp [hc] at h
    | panic a => simp [hc] at h
    | outOfFuel => simp [hc] at h

end Gql
