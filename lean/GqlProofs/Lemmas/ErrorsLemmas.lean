import GqlModel.Errors
/- helper lemmas for C20 (paths through float64, the JSON shape of errors) -/
namespace Gql.Errors
open Gql Gql.Json

theorem two53 : (2 : Nat) ^ 53 = 9007199254740992 := by decide
theorem two63 : (2 : Int) ^ 63 = 9223372036854775808 := by decide

theorem roundNat53_le (n : Nat) (h : n ≤ 2 ^ 53) : roundNat53 n = n := by
  by_cases hlt : n < 2 ^ 53
  · simp [roundNat53, hlt]
  · have : n = 2 ^ 53 := by omega
    subst this
    decide

theorem indexThroughFloat_small (i : Int) (h : i.natAbs ≤ 2 ^ 53) : indexThroughFloat i = i := by
  have hr := roundNat53_le i.natAbs h
  have h53 := two53
  have h63 := two63
  unfold indexThroughFloat float64OfInt goIntOfFloat
  rw [hr]
  by_cases hneg : i < 0
  · simp only [hneg, if_true]
    have : -(i.natAbs : Int) = i := by omega
    rw [this, h63]
    have : ¬(i < -9223372036854775808 ∨ 9223372036854775808 ≤ i) := by omega
    simp [this]
  · simp only [hneg, if_false]
    have : (i.natAbs : Int) = i := by omega
    rw [this, h63]
    have : ¬(i < -9223372036854775808 ∨ 9223372036854775808 ≤ i) := by omega
    simp [this]

/-- every Go `int` (an int64) is read back exactly -/
theorem indexOfNumber_int64 (i : Int) (h : -(2 ^ 63 : Int) ≤ i ∧ i < (2 ^ 63 : Int)) : indexOfNumber i = i := by
  unfold indexOfNumber
  rw [if_pos h]

theorem toList_ofList (xs : List Json) : (JList.ofList xs).toList = xs := by
  induction xs with
  | nil => rfl
  | cons x rest ih => simp [JList.ofList, JList.toList, ih]

/-- an element that survives the trip: a UTF-8 clean name, or an index that is a Go `int` -/
def ElemInDomain : PathElem → Prop
  | .name n => sanitize n = n
  | .index i => -(2 ^ 63 : Int) ≤ i ∧ i < (2 ^ 63 : Int)

theorem decElem_encElem (e : PathElem) (h : ElemInDomain e) : decElem (encElem e) = .ok e := by
  cases e with
  | name n => simp [encElem, decElem, show sanitize n = n from h]
  | index i => simp [encElem, decElem, indexOfNumber_int64 i h]

theorem decElems_enc (p : Path) (h : ∀ e ∈ p, ElemInDomain e) : decElems (p.map encElem) = .ok p := by
  induction p with
  | nil => rfl
  | cons e rest ih =>
    have h1 := decElem_encElem e (h e (List.mem_cons_self ..))
    have h2 := ih (fun x hx => h x (List.mem_cons_of_mem _ hx))
    simp [decElems, h1, h2, bind, Except.bind, pure, Except.pure]

/- ---------------- shape ---------------- -/

theorem isLocationObj_enc (l : Location) (h1 : 1 ≤ l.line) (h2 : 1 ≤ l.column) :
    isLocationObj (encLocation l) = true := by
  have a : l.line ≠ 0 := by omega
  have b : l.column ≠ 0 := by omega
  simp [encLocation, a, b, JFields.ofList, isLocationObj, h1, h2]

theorem isPathElemJson_enc (e : PathElem) : isPathElemJson (encElem e) = true := by
  cases e <;> rfl

theorem all_ofList_map {α} (f : α → Json) (p : Json → Bool) (xs : List α) (h : ∀ x ∈ xs, p (f x) = true) :
    (JList.ofList (xs.map f)).toList.all p = true := by
  rw [toList_ofList]
  simp only [List.all_eq_true, List.mem_map]
  rintro _ ⟨x, hx, rfl⟩
  exact h x hx

theorem extGet_extSet (k : Bytes) (v : Json) (l : List (Bytes × Json)) : extGet k (extSet k v l) = some v := by
  induction l with
  | nil => simp [extSet, extGet]
  | cons kv rest ih =>
    obtain ⟨k', v'⟩ := kv
    unfold extSet
    by_cases h1 : k' = k
    · simp [h1, extGet]
    · by_cases h2 : k < k'
      · simp [h1, h2, extGet]
      · simp [h1, h2, extGet, ih]

end Gql.Errors
