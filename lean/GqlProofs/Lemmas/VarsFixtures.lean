import GqlModel.Vars.Model
import GqlModel.Vars.Spec
/-
  A tiny schema and a few operations, as Lean terms, for the kernel-checked witnesses of
  GqlProofs/Props/C14.lean and C15.lean (non-vacuity examples and counterexamples).

    scalar Int  scalar Float  scalar String  scalar Custom
    enum Color { RED }
    input In { a: Int  l: [[Int]] }
-/
namespace Gql.Fixtures
open Gql

def mkDef (k : DefKind) (n : String) (fields : List FieldDef := []) (evs : List EnumValDef := []) : Definition :=
  { kind := k, desc := [], name := str n, dirs := [], interfaces := [], fields := fields, types := [],
    enumValues := evs, pos := Pos.zero, builtIn := false }

def named (n : String) (nn : Bool := false) : GType := .named (str n) nn Pos.zero
def listOf (e : GType) (nn : Bool := false) : GType := .list e nn Pos.zero

def mkField (n : String) (t : GType) (dflt : Option Value := none) : FieldDef :=
  { desc := [], name := str n, args := [], default := dflt, type := t, dirs := [], pos := Pos.zero }

def inDef : Definition := mkDef .inputObject "In" [mkField "a" (named "Int"), mkField "l" (listOf (listOf (named "Int")))]
def colorDef : Definition := mkDef .enum "Color" [] [{ desc := [], name := str "RED", dirs := [], pos := Pos.zero }]

def schema : Schema :=
  { Schema.empty with
    types := [(str "Int", mkDef .scalar "Int"), (str "Float", mkDef .scalar "Float"), (str "String", mkDef .scalar "String"),
              (str "Custom", mkDef .scalar "Custom"), (str "Color", colorDef), (str "In", inDef)] }

def lit (k : ValueKind) (raw : String) : Value := .mk k (str raw) .nil Pos.zero

/-- `query ($v: T [= default]) { … }` -/
def opWith (t : GType) (dflt : Option Value := none) : OperationDef :=
  { op := str "query", name := [], vars := [{ var := str "v", type := t, default := dflt, dirs := [], pos := Pos.zero }],
    dirs := [], sel := .nil, pos := Pos.zero }

/-- the variables map `{"v": x}` -/
def varsV (x : GoVal) : VarMap := .cons (str "v") x .nil

def islice (xs : List GoVal) : GoVal := .slice .iface (GoVals.ofList xs)
def imap (kvs : List (Bytes × GoVal)) : GoVal := .map .iface (GoFields.ofList kvs)
def int (n : Int) : GoVal := .int .int n

def argDef (n : String) (t : GType) (dflt : Option Value := none) : ArgDef :=
  { desc := [], name := str n, default := dflt, type := t, dirs := [], pos := Pos.zero }
def arg (n : String) (v : Value) : Argument := { name := str n, value := v, pos := Pos.zero }

end Gql.Fixtures
