import GqlModel.Vars.Spec
/-
  A FloatValue token of the grammar (`floatLexeme`) is never a SYNTAX error for the model of
  `strconv.ParseFloat` (it is `ok` or a range error): `parseFloat_lexeme_not_syntax`.
-/
namespace Gql
open Gql.Strconv

/-- what follows a run of digits is the end of the text or an exponent marker -/
def ExpOrEnd (s : Bytes) : Prop := s = [] ∨ ∃ e r, s = e :: r ∧ (e = 101 ∨ e = 69)

theorem isDigit_bounds {c : Nat} (h : isDigit c = true) : 48 ≤ c ∧ c ≤ 57 := by
  simpa [isDigit] using h

/-- the mantissa loop over `[0-9]*` followed by the end or an exponent marker -/
theorem rfDigits_run : ∀ (s : Bytes) (st : RF), ExpOrEnd (dropDigits s) →
    ∃ st', rfDigits false s st = (st', dropDigits s) ∧ st'.underscores = st.underscores ∧
      (st.sawdigits = true ∨ (digits1 s).isSome = true → st'.sawdigits = true)
  | [], st, _ => ⟨st, by simp [rfDigits, dropDigits], rfl, by simp [digits1]⟩
  | c :: r, st, h => by
    by_cases hd : isDigit c = true
    · have hb := isDigit_bounds hd
      have h95 : c ≠ 95 := by omega
      have h46 : c ≠ 46 := by omega
      simp only [dropDigits, hd, if_true] at h ⊢
      by_cases hz : c = 48 ∧ st.nd = 0
      · obtain ⟨st', e, u, sd⟩ := rfDigits_run r { st with sawdigits := true, dp := st.dp - 1 } h
        exact ⟨st', by rw [rfDigits, if_neg h95, if_neg h46, if_pos hd, if_pos hz]; exact e, u, fun _ => sd (Or.inl rfl)⟩
      · obtain ⟨st', e, u, sd⟩ := rfDigits_run r
          { st with sawdigits := true, nd := st.nd + 1, mant := st.mant * (if false = true then 16 else 10) + (c - 48) } h
        exact ⟨st', by rw [rfDigits, if_neg h95, if_neg h46, if_pos hd, if_neg hz]; exact e, u, fun _ => sd (Or.inl rfl)⟩
    · have hd' : isDigit c = false := by simpa using hd
      simp only [dropDigits, hd', Bool.false_eq_true, if_false] at h ⊢
      have hc : c = 101 ∨ c = 69 := by
        rcases h with h | ⟨e, r', h, he⟩
        · cases h
        · cases h; exact he
      have h95 : c ≠ 95 := by omega
      have h46 : c ≠ 46 := by omega
      refine ⟨st, by simp [rfDigits, h95, h46, hd'], rfl, ?_⟩
      simp [digits1, hd']

/-- the mantissa loop over `[0-9]*\.[0-9]*` followed by the end or an exponent marker -/
theorem rfDigits_dot : ∀ (s : Bytes) (st : RF) (r2 : Bytes), st.sawdot = false → dropDigits s = 46 :: r2 →
    ExpOrEnd (dropDigits r2) →
    ∃ st', rfDigits false s st = (st', dropDigits r2) ∧ st'.underscores = st.underscores ∧
      (st.sawdigits = true ∨ (digits1 s).isSome = true → st'.sawdigits = true)
  | [], st, r2, _, h, _ => by simp [dropDigits] at h
  | c :: r, st, r2, hdot, h, hx => by
    by_cases hd : isDigit c = true
    · have hb := isDigit_bounds hd
      have h95 : c ≠ 95 := by omega
      have h46 : c ≠ 46 := by omega
      simp only [dropDigits, hd, if_true] at h
      by_cases hz : c = 48 ∧ st.nd = 0
      · obtain ⟨st', e, u, sd⟩ := rfDigits_dot r { st with sawdigits := true, dp := st.dp - 1 } r2 hdot h hx
        exact ⟨st', by rw [rfDigits, if_neg h95, if_neg h46, if_pos hd, if_pos hz]; exact e, u, fun _ => sd (Or.inl rfl)⟩
      · obtain ⟨st', e, u, sd⟩ := rfDigits_dot r
          { st with sawdigits := true, nd := st.nd + 1, mant := st.mant * (if false = true then 16 else 10) + (c - 48) } r2 hdot h hx
        exact ⟨st', by rw [rfDigits, if_neg h95, if_neg h46, if_pos hd, if_neg hz]; exact e, u, fun _ => sd (Or.inl rfl)⟩
    · have hd' : isDigit c = false := by simpa using hd
      simp only [dropDigits, hd', Bool.false_eq_true, if_false] at h
      cases h
      obtain ⟨st', e, u, sd⟩ := rfDigits_run r { st with sawdot := true, dp := st.nd } hx
      refine ⟨st', by simp only [rfDigits, hdot]; simpa using e, u, ?_⟩
      intro hs
      apply sd
      rcases hs with hs | hs
      · exact Or.inl hs
      · simp [digits1, hd'] at hs

/-- the exponent loop over `[0-9]*` up to the end -/
theorem rfExp_run : ∀ (s : Bytes) (e : Nat) (us : Bool), dropDigits s = [] → ∃ e', rfExp s e us = (e', us, [])
  | [], e, us, _ => ⟨e, by simp [rfExp]⟩
  | c :: r, e, us, h => by
    by_cases hd : isDigit c = true
    · have hb := isDigit_bounds hd
      have h95 : c ≠ 95 := by omega
      simp only [dropDigits, hd, if_true] at h
      obtain ⟨e', he⟩ := rfExp_run r (if e < 10000 then e * 10 + (c - 48) else e) us h
      exact ⟨e', by simp only [rfExp, h95, hd, if_true, if_false]; exact he⟩
    · have hd' : isDigit c = false := by simpa using hd
      simp [dropDigits, hd'] at h

end Gql

namespace Gql
open Gql.Strconv

/-- what may follow the mantissa of a float lexeme: the end, or `[eE][+-]?[0-9]+` up to the end -/
def TailOK (t : Bytes) : Prop := t = [] ∨ ∃ e r3, t = e :: r3 ∧ (e = 101 ∨ e = 69) ∧ exponentTail r3 = true

theorem TailOK.expOrEnd {t : Bytes} (h : TailOK t) : ExpOrEnd t := by
  rcases h with h | ⟨e, r3, h, he, _⟩
  · exact Or.inl h
  · exact Or.inr ⟨e, r3, h, he⟩

theorem digits1_some {s x : Bytes} (h : digits1 s = some x) : dropDigits s = x ∧ ∃ c r, s = c :: r ∧ isDigit c = true := by
  cases s with
  | nil => simp [digits1] at h
  | cons c r =>
    by_cases hd : isDigit c = true
    · simp only [digits1, hd, if_true, Option.some.injEq] at h
      exact ⟨by simp [dropDigits, hd, h], c, r, rfl, hd⟩
    · simp [digits1, hd] at h

/-- the exponent part of `readFloat`, entered at the marker -/
theorem exponentTail_shape {r3 : Bytes} (h : exponentTail r3 = true) :
    ∃ sg r2, r3 = sg :: r2 ∧
      ∃ d r4, (if sg = 43 ∨ sg = 45 then r2 else r3) = d :: r4 ∧ isDigit d = true ∧ dropDigits (d :: r4) = [] := by
  cases r3 with
  | nil => simp [exponentTail, digits1] at h
  | cons sg r2 =>
    refine ⟨sg, r2, rfl, ?_⟩
    simp only [exponentTail] at h
    split at h
    · rename_i x hx
      obtain ⟨a, d, r4, e, hd⟩ := digits1_some hx
      exact ⟨d, r4, e, hd, by rw [← e]; exact a⟩
    · cases h

/-- `readFloat` on `-?` mantissa tail: the mantissa loop stops at `rest`, which is the end or a complete exponent -/
theorem readFloat_of (c : Nat) (r0 : Bytes) (st : RF) (rest : Bytes)
    (hnohex : ∀ a b c3 r, (if c = 43 ∨ c = 45 then r0 else c :: r0) = a :: b :: c3 :: r → ¬(a = 48 ∧ lower b = 120))
    (hrf : rfDigits false (if c = 43 ∨ c = 45 then r0 else c :: r0) {} = (st, rest))
    (hsd : st.sawdigits = true) (hus : st.underscores = false) (ht : TailOK rest) :
    ∃ neg ovf integral, readFloat (c :: r0) = some ([], neg, ovf, integral) := by
  have tail : ∀ (sg : Nat) (r2 : Bytes), exponentTail (sg :: r2) = true →
      ∃ d r4 ev, (if sg = 43 then ((1 : Int), r2) else if sg = 45 then (-1, r2) else (1, sg :: r2)).snd = d :: r4 ∧
        isDigit d = true ∧ rfExp (d :: r4) 0 false = (ev, false, []) := by
    intro sg r2 hx
    obtain ⟨sg', r2', e1, d, r4, e2, hd, hdd⟩ := exponentTail_shape hx
    cases e1
    obtain ⟨ev, hev⟩ := rfExp_run (d :: r4) 0 false hdd
    refine ⟨d, r4, ev, ?_, hd, hev⟩
    rw [← e2]
    by_cases h43 : sg = 43
    · simp [h43]
    · by_cases h45 : sg = 45
      · simp [h45]
      · simp [h43, h45]
  unfold readFloat
  simp only []
  split
  · rename_i a b c3 r heq
    simp only [if_neg (hnohex a b c3 r heq), hrf, hsd, hus]
    rcases ht with ht | ⟨e, r3, ht, he, hx⟩
    · subst ht
      simp
    · subst ht
      have hl : lower e = 101 := by rcases he with he | he <;> subst he <;> decide
      cases r3 with
      | nil => simp [exponentTail, digits1] at hx
      | cons sg r2 =>
        obtain ⟨d, r4, ev, e1, hd, hev⟩ := tail sg r2 hx
        simp [hl, e1, hd, hev]
  · simp only [hrf, hsd, hus]
    rcases ht with ht | ⟨e, r3, ht, he, hx⟩
    · subst ht
      simp
    · subst ht
      have hl : lower e = 101 := by rcases he with he | he <;> subst he <;> decide
      cases r3 with
      | nil => simp [exponentTail, digits1] at hx
      | cons sg r2 =>
        obtain ⟨d, r4, ev, e1, hd, hev⟩ := tail sg r2 hx
        simp [hl, e1, hd, hev]
theorem lower_digit {b : Nat} (h : isDigit b = true) : lower b = b := by
  have := isDigit_bounds h
  simp only [lower]; split <;> omega

/-- the body of a float lexeme (after the optional `-`): `[0-9]+` then a fraction and/or exponent -/
theorem floatLexeme_body {raw : Bytes} (h : floatLexeme raw = true) :
    ∃ c r0 d0 rb, raw = c :: r0 ∧ (if c = 43 ∨ c = 45 then r0 else c :: r0) = d0 :: rb ∧ isDigit d0 = true ∧
      ((∃ r2, dropDigits rb = 46 :: r2 ∧ (digits1 r2).isSome = true ∧ TailOK (dropDigits r2)) ∨
       (dropDigits rb ≠ [] ∧ TailOK (dropDigits rb))) := by
  cases raw with
  | nil => simp [floatLexeme, digits1] at h
  | cons c r0 =>
    simp only [floatLexeme] at h
    have hbody : (if c = 45 then r0 else c :: r0) = (if c = 43 ∨ c = 45 then r0 else c :: r0) := by
      by_cases h45 : c = 45
      · simp [h45]
      · simp only [h45, if_false, or_false] at h ⊢
        by_cases h43 : c = 43
        · subst h43; simp [digits1, isDigit] at h
        · simp [h43]
    rw [hbody] at h
    split at h
    · cases h
    · cases h
    · rename_i x c1 r2 hx
      obtain ⟨hdd, d0, rb, hb, hd0⟩ := digits1_some hx
      refine ⟨c, r0, d0, rb, rfl, hb, hd0, ?_⟩
      rw [hb] at hdd
      simp only [dropDigits, hd0, if_true] at hdd
      rw [hdd]
      by_cases h46 : c1 = 46
      · subst h46
        left
        simp only [if_true] at h
        refine ⟨r2, rfl, ?_⟩
        split at h
        · cases h
        · rename_i hy
          obtain ⟨e1, _⟩ := digits1_some hy
          exact ⟨by simp [hy], by rw [e1]; exact Or.inl rfl⟩
        · rename_i e r3 hy
          obtain ⟨e1, _⟩ := digits1_some hy
          simp only [Bool.and_eq_true, Bool.or_eq_true, decide_eq_true_eq] at h
          exact ⟨by simp [hy], by rw [e1]; exact Or.inr ⟨e, r3, rfl, h.1, h.2⟩⟩
      · right
        simp only [h46, if_false, Bool.and_eq_true, Bool.or_eq_true, decide_eq_true_eq] at h
        exact ⟨by simp, Or.inr ⟨c1, r2, rfl, h.1, h.2⟩⟩

theorem special_of_body (c d0 : Nat) (r0 rb : Bytes)
    (hb : (if c = 43 ∨ c = 45 then r0 else c :: r0) = d0 :: rb) (hd : isDigit d0 = true) : special (c :: r0) = none := by
  have hbd := isDigit_bounds hd
  by_cases hs : c = 43 ∨ c = 45
  · simp only [hs, if_true] at hb
    subst hb
    have : commonPrefixLen (d0 :: rb) (str "infinity") = 0 := by
      have hne : lower d0 ≠ 105 := by rw [lower_digit hd]; omega
      simp [commonPrefixLen, str, hne]
    simp [special, hs, this]
  · simp only [hs, if_false] at hb
    cases hb
    have h1 : ¬(c = 105 ∨ c = 73) := by omega
    have h2 : ¬(c = 110 ∨ c = 78) := by omega
    simp [special, hs, h1, h2]

theorem parseFloat_lexeme_not_syntax {raw : Bytes} (h : floatLexeme raw = true) : parseFloat raw ≠ .syntax := by
  obtain ⟨c, r0, d0, rb, hraw, hb, hd0, hshape⟩ := floatLexeme_body h
  subst hraw
  have hsp := special_of_body c d0 r0 rb hb hd0
  have hnohex : ∀ a b c3 r, (if c = 43 ∨ c = 45 then r0 else c :: r0) = a :: b :: c3 :: r → ¬(a = 48 ∧ lower b = 120) := by
    intro a b c3 r heq
    rw [hb] at heq
    cases heq
    intro ⟨_, hl⟩
    by_cases hbd : isDigit b = true
    · rw [lower_digit hbd] at hl
      have := isDigit_bounds hbd
      omega
    · have hbd' : isDigit b = false := by simpa using hbd
      simp only [dropDigits, hbd', Bool.false_eq_true, if_false] at hshape
      rcases hshape with ⟨r2, e, _⟩ | ⟨_, ht⟩
      · cases e; simp [lower] at hl
      · rcases ht with ht | ⟨e, r3, ht, he, _⟩
        · cases ht
        · cases ht
          rcases he with he | he <;> subst he <;> simp [lower] at hl
  have hrun : ∃ st rest, rfDigits false (d0 :: rb) {} = (st, rest) ∧ st.sawdigits = true ∧ st.underscores = false ∧ TailOK rest := by
    have hds : (digits1 (d0 :: rb)).isSome = true := by simp [digits1, hd0]
    have hdrop : dropDigits (d0 :: rb) = dropDigits rb := by simp [dropDigits, hd0]
    rcases hshape with ⟨r2, e, _, ht⟩ | ⟨_, ht⟩
    · obtain ⟨st', e1, u, sd⟩ := rfDigits_dot (d0 :: rb) {} r2 rfl (by rw [hdrop]; exact e) ht.expOrEnd
      exact ⟨st', _, e1, sd (Or.inr hds), u, ht⟩
    · obtain ⟨st', e1, u, sd⟩ := rfDigits_run (d0 :: rb) {} (by rw [hdrop]; exact ht.expOrEnd)
      exact ⟨st', _, e1, sd (Or.inr hds), u, by rw [hdrop]; exact ht⟩
  obtain ⟨st, rest, hrf, hsd, hus, ht⟩ := hrun
  obtain ⟨neg, ovf, integral, hr⟩ := readFloat_of c r0 st rest hnohex (by rw [hb]; exact hrf) hsd hus ht
  simp only [parseFloat, hsp, hr]
  cases ovf <;> simp

end Gql
