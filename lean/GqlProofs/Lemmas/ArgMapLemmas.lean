import GqlModel.ArgMap
import GqlModel.Vars.Spec
import GqlProofs.Lemmas.FloatLexeme
/- helper lemmas for C15 -/
namespace Gql
open Gql.Strconv

/- ---------- association lists ---------- -/

theorem GoFields.lookup_set (m : GoFields) (k k' : Bytes) (v : GoVal) :
    (m.set k v).lookup k' = if k = k' then some v else m.lookup k' := by
  fun_induction GoFields.set k v m with
  | case1 => simp [GoFields.lookup]
  | case2 w r => simp only [GoFields.lookup]; split <;> simp_all
  | case3 a w r h ih =>
    simp only [GoFields.lookup, ih]
    by_cases h2 : a = k'
    · subst h2; simp [Ne.symm h]
    · simp [h2]

theorem GoFields.contains_set (m : GoFields) (k k' : Bytes) (v : GoVal) :
    (m.set k v).contains k' = (decide (k = k') || m.contains k') := by
  simp only [GoFields.contains, GoFields.lookup_set]
  by_cases h : k = k' <;> simp [h]

end Gql

namespace Gql
open Gql.Strconv

/- ---------- literal conversion succeeds when the leaves convert ---------- -/

def DfltOk (dflt : Name → Option (ConvRes GoVal)) : Prop := ∀ n r, dflt n = some r → ∃ x, r = .ok x

mutual
  theorem vvw_ok (dflt : Name → Option (ConvRes GoVal)) (vars : VarMap) :
      (v : Value) → syntaxOkB v = true → (constB v = true ∨ DfltOk dflt) → ∃ x, valueValueWith dflt vars v = .ok x
    | .mk kind raw ch p, hv, hd => by
      cases kind
      case «variable» =>
        simp only [valueValueWith]
        cases h1 : vars.lookup raw with
        | some x => exact ⟨x, rfl⟩
        | none =>
          cases h2 : dflt raw with
          | none => exact ⟨.nil, rfl⟩
          | some r =>
            rcases hd with hd | hd
            · simp [constB] at hd
            · obtain ⟨x, hx⟩ := hd raw r h2; exact ⟨x, by simp [hx]⟩
      case int =>
        simp only [syntaxOkB] at hv
        simp only [valueValueWith]
        cases h : parseInt raw <;> simp_all
      case float =>
        simp only [syntaxOkB] at hv
        simp only [valueValueWith]
        cases h : parseFloat raw <;> simp_all
      case string => exact ⟨.str raw, by simp [valueValueWith]⟩
      case block => exact ⟨.str raw, by simp [valueValueWith]⟩
      case enum => exact ⟨.str raw, by simp [valueValueWith]⟩
      case boolean =>
        simp only [syntaxOkB] at hv
        simp only [valueValueWith]
        cases h : parseBool raw <;> simp_all
      case null => exact ⟨.nil, by simp [valueValueWith]⟩
      case list =>
        simp only [syntaxOkB] at hv
        have hd' : childrenConstB ch = true ∨ DfltOk dflt := by
          rcases hd with hd | hd
          · left; simpa [constB] using hd
          · right; exact hd
        obtain ⟨xs, hxs⟩ := lvw_ok dflt vars ch hv hd'
        exact ⟨.slice .iface xs, by simp [valueValueWith, hxs]⟩
      case object =>
        simp only [syntaxOkB] at hv
        have hd' : childrenConstB ch = true ∨ DfltOk dflt := by
          rcases hd with hd | hd
          · left; simpa [constB] using hd
          · right; exact hd
        obtain ⟨xs, hxs⟩ := ovw_ok dflt vars ch hv hd' .nil
        exact ⟨.map .iface xs, by simp [valueValueWith, hxs]⟩
  theorem lvw_ok (dflt : Name → Option (ConvRes GoVal)) (vars : VarMap) :
      (c : Children) → childrenSyntaxOkB c = true → (childrenConstB c = true ∨ DfltOk dflt) →
        ∃ xs, listValueWith dflt vars c = .ok xs
    | .nil, _, _ => ⟨.nil, by simp [listValueWith]⟩
    | .cons n v p rest, hv, hd => by
      simp only [childrenSyntaxOkB, Bool.and_eq_true] at hv
      have hd1 : constB v = true ∨ DfltOk dflt := by
        rcases hd with hd | hd
        · left; simp only [childrenConstB, Bool.and_eq_true] at hd; exact hd.1
        · right; exact hd
      have hd2 : childrenConstB rest = true ∨ DfltOk dflt := by
        rcases hd with hd | hd
        · left; simp only [childrenConstB, Bool.and_eq_true] at hd; exact hd.2
        · right; exact hd
      obtain ⟨x, hx⟩ := vvw_ok dflt vars v hv.1 hd1
      obtain ⟨xs, hxs⟩ := lvw_ok dflt vars rest hv.2 hd2
      exact ⟨.cons x xs, by simp [listValueWith, hx, hxs]⟩
  theorem ovw_ok (dflt : Name → Option (ConvRes GoVal)) (vars : VarMap) :
      (c : Children) → childrenSyntaxOkB c = true → (childrenConstB c = true ∨ DfltOk dflt) →
        ∀ acc, ∃ kvs, objectValueWith dflt vars c acc = .ok kvs
    | .nil, _, _, acc => ⟨acc, by simp [objectValueWith]⟩
    | .cons n v p rest, hv, hd, acc => by
      simp only [childrenSyntaxOkB, Bool.and_eq_true] at hv
      have hd1 : constB v = true ∨ DfltOk dflt := by
        rcases hd with hd | hd
        · left; simp only [childrenConstB, Bool.and_eq_true] at hd; exact hd.1
        · right; exact hd
      have hd2 : childrenConstB rest = true ∨ DfltOk dflt := by
        rcases hd with hd | hd
        · left; simp only [childrenConstB, Bool.and_eq_true] at hd; exact hd.2
        · right; exact hd
      obtain ⟨x, hx⟩ := vvw_ok dflt vars v hv.1 hd1
      obtain ⟨kvs, hk⟩ := ovw_ok dflt vars rest hv.2 hd2 (acc.set n x)
      exact ⟨kvs, by simp [objectValueWith, hx, hk]⟩
end

end Gql

namespace Gql
open Gql.Strconv

theorem valueValueLvl_const_ok (vdefs : List VarDef) (vars : VarMap) (k : Nat) (dv : Value)
    (hc : syntaxOkB dv = true) (hk : constB dv = true) : ∃ x, valueValueLvl vdefs vars k dv = .ok x := by
  cases k <;> exact vvw_ok _ vars dv hc (Or.inl hk)

theorem findVarDef_mem {vdefs : List VarDef} {n : Name} {d : VarDef} (h : findVarDef vdefs n = some d) : d ∈ vdefs :=
  List.mem_of_find?_eq_some h

theorem valueValue_ok (vdefs : List VarDef) (vars : VarMap) (v : Value)
    (hv : syntaxOkB v = true) (hd : DefaultsSyntaxOk vdefs) : ∃ x, valueValue vdefs vars v = .ok x := by
  unfold valueValue
  simp only [valueValueLvl]
  apply vvw_ok _ vars v hv
  right
  intro n r h
  cases hf : findVarDef vdefs n with
  | none => simp [hf] at h
  | some d =>
    cases hdv : d.default with
    | none => simp [hf, hdv] at h
    | some dv =>
      simp only [hf, hdv, Option.some.injEq] at h
      obtain ⟨hc, hk⟩ := hd d (findVarDef_mem hf) dv hdv
      obtain ⟨x, hx⟩ := valueValueLvl_const_ok vdefs vars vdefs.length dv hc hk
      exact ⟨x, by rw [← h, hx]⟩

end Gql

namespace Gql
open Gql.Strconv

/- ---------- one step of arg2map ---------- -/

theorem arg2mapStep_keys {vdefs : List VarDef} {args : List Argument} {vars : VarMap} {d : ArgDef}
    {result r : GoFields} (h : arg2mapStep vdefs args vars d result = .ok r) (k : Bytes) :
    r.contains k = (result.contains k || (decide (d.name = k) && argHasValue args vars d)) := by
  unfold arg2mapStep at h
  unfold argHasValue
  cases hf : findArg args d.name with
  | none =>
    simp only [hf, argDefaultRes] at h
    cases hd : d.default with
    | none => simp only [hd] at h; cases h; simp
    | some dv =>
      simp only [hd] at h
      cases hv : valueValue vdefs vars dv with
      | ok x => simp only [hv] at h; cases h; simp [GoFields.contains_set, Bool.or_comm]
      | err e => simp [hv] at h
      | diverge => simp [hv] at h
  | some a =>
    simp only [hf] at h
    by_cases hk : a.value.kind = .variable
    · simp only [hk, if_true] at h
      cases hl : vars.lookup a.value.raw with
      | some x =>
        simp only [hl] at h; cases h
        rw [GoFields.contains_set]
        simp [GoFields.contains, hl, hk, Bool.or_comm]
      | none =>
        simp only [hl, argDefaultRes] at h
        cases hd : d.default with
        | none => simp only [hd] at h; cases h; simp [GoFields.contains, hl, hk]
        | some dv =>
          simp only [hd] at h
          cases hv : valueValue vdefs vars dv with
          | ok x => simp only [hv] at h; cases h; simp [GoFields.contains_set, Bool.or_comm]
          | err e => simp [hv] at h
          | diverge => simp [hv] at h
    · simp only [hk, if_false] at h
      cases hv : valueValue vdefs vars a.value with
      | ok x => simp only [hv] at h; cases h; simp [GoFields.contains_set, hk, Bool.or_comm]
      | err e => simp [hv] at h
      | diverge => simp [hv] at h

end Gql

namespace Gql
open Gql.Strconv

/- ---------- the integer a lexeme denotes vs. strconv.ParseInt ---------- -/

theorem parseUintLoop_val : ∀ (ds : Bytes) (n v : Nat),
    parseUintLoop ds n = some (v, false) → v = ds.foldl (fun acc c => acc * 10 + (c - 48)) n
  | [], n, v, h => by simp [parseUintLoop] at h; simp [h]
  | c :: r, n, v, h => by
    simp only [parseUintLoop] at h
    split at h
    · split at h
      · simp at h
      · split at h
        · simp at h
        · simpa using parseUintLoop_val r _ v h
    · simp at h

theorem parseInt_decimalLiteral {raw : Bytes} {n : Int} (hl : intLexeme raw = true)
    (h : parseInt raw = .ok n) : decimalLiteral raw = some n ∧ fitsInt64 n = true := by
  cases raw with
  | nil => simp [parseInt] at h
  | cons c rest =>
    by_cases hc : c = 45
    · subst hc
      simp only [intLexeme, Bool.and_eq_true, Bool.not_eq_true', List.isEmpty_eq_false_iff] at hl
      cases rest with
      | nil => simp at hl
      | cons c2 r2 =>
        cases hp : parseUintLoop (c2 :: r2) 0 with
        | none => simp [parseInt, hp] at h
        | some p =>
          obtain ⟨un, ovf⟩ := p
          cases ovf
          · have hv := parseUintLoop_val _ _ _ hp
            simp [parseInt, hp] at h
            split at h
            · simp at h
            · rename_i hle
              simp only [IntRes.ok.injEq] at h
              subst h
              constructor
              · simp [decimalLiteral, hl.2, hv]
              · simp only [fitsInt64, Bool.and_eq_true, decide_eq_true_eq]; omega
          · simp [parseInt, hp] at h
    · have hl' : (c :: rest).all isDigit = true := by
        simp only [intLexeme] at hl
        split at hl
        · rename_i ds heq; cases heq; exact absurd rfl hc
        · simpa using hl
      have hcd : isDigit c = true := by simp only [List.all_cons, Bool.and_eq_true] at hl'; exact hl'.1
      have hc43 : c ≠ 43 := by
        intro h43; subst h43; simp [isDigit] at hcd
      cases hp : parseUintLoop (c :: rest) 0 with
      | none => simp [parseInt, hc, hc43, hp] at h
      | some p =>
        obtain ⟨un, ovf⟩ := p
        cases ovf
        · have hv := parseUintLoop_val _ _ _ hp
          simp [parseInt, hc, hc43, hp] at h
          split at h
          · simp at h
          · rename_i hle
            simp only [IntRes.ok.injEq] at h
            subst h
            constructor
            · simp only [decimalLiteral]
              split
              · rename_i ds heq; cases heq; exact absurd rfl hc
              · rename_i ds hne
                simp [hl', hv]
            · simp only [fitsInt64, Bool.and_eq_true, decide_eq_true_eq]; omega
        · simp [parseInt, hc, hc43, hp] at h

/-- the accumulator only grows -/
theorem foldl_digits_ge : ∀ (ds : Bytes) (n : Nat), n ≤ ds.foldl (fun acc c => acc * 10 + (c - 48)) n
  | [], n => by simp
  | c :: r, n => by
    simp only [List.foldl_cons]
    exact Nat.le_trans (by omega) (foldl_digits_ge r (n * 10 + (c - 48)))

/-- the loop of `ParseUint` on a run of digits: never a syntax error; the value, or overflow
    exactly when the number denoted exceeds 2^64 − 1 -/
theorem parseUintLoop_digits : ∀ (ds : Bytes) (n : Nat), ds.all isDigit = true →
    ∃ v ovf, parseUintLoop ds n = some (v, ovf) ∧
      (ovf = false → v = ds.foldl (fun acc c => acc * 10 + (c - 48)) n) ∧
      (ovf = true → maxU64 < ds.foldl (fun acc c => acc * 10 + (c - 48)) n)
  | [], n, _ => ⟨n, false, by simp [parseUintLoop]⟩
  | c :: r, n, h => by
    simp only [List.all_cons, Bool.and_eq_true] at h
    simp only [parseUintLoop, h.1, if_true, List.foldl_cons]
    by_cases h1 : n ≥ cutoffU64
    · refine ⟨maxU64, true, by simp [h1], by simp, fun _ => ?_⟩
      have := foldl_digits_ge r (n * 10 + (c - 48))
      simp only [cutoffU64, maxU64] at *
      omega
    · by_cases h2 : n * 10 + (c - 48) > maxU64
      · refine ⟨maxU64, true, by simp [h1, h2], by simp, fun _ => ?_⟩
        have := foldl_digits_ge r (n * 10 + (c - 48))
        omega
      · obtain ⟨v, ovf, e, a, b⟩ := parseUintLoop_digits r (n * 10 + (c - 48)) h.2
        exact ⟨v, ovf, by simp [h1, h2, e], a, b⟩

/-- an integer lexeme has a decimal value `i`; `ParseInt` returns `i`, or a range error exactly when
    `i` does not fit int64 — never a syntax error -/
theorem parseInt_lexeme {raw : Bytes} (hl : intLexeme raw = true) :
    ∃ i, decimalLiteral raw = some i ∧
      ((parseInt raw = .ok i ∧ fitsInt64 i = true) ∨ (∃ c, parseInt raw = .range c) ∧ fitsInt64 i = false) := by
  cases raw with
  | nil => simp [intLexeme] at hl
  | cons c rest =>
    by_cases hc : c = 45
    · subst hc
      simp only [intLexeme, Bool.and_eq_true, Bool.not_eq_true', List.isEmpty_eq_false_iff] at hl
      cases rest with
      | nil => simp at hl
      | cons c2 r2 =>
        obtain ⟨v, ovf, e, a, b⟩ := parseUintLoop_digits (c2 :: r2) 0 hl.2
        refine ⟨-((c2 :: r2).foldl (fun acc c => acc * 10 + (c - 48)) 0 : Nat), by simp [decimalLiteral, hl.2], ?_⟩
        generalize List.foldl (fun acc c => acc * 10 + (c - 48)) 0 (c2 :: r2) = N at a b ⊢
        cases ovf
        · have hv := a rfl
          subst hv
          by_cases hgt : v > 9223372036854775808
          · right
            refine ⟨⟨_, by simp [parseInt, e, hgt]; rfl⟩, ?_⟩
            simp only [fitsInt64, Bool.and_eq_false_iff, decide_eq_false_iff_not]; omega
          · left
            refine ⟨by simp [parseInt, e, hgt], ?_⟩
            simp only [fitsInt64, Bool.and_eq_true, decide_eq_true_eq]; omega
        · have hv := b rfl
          right
          refine ⟨⟨_, by simp [parseInt, e]; rfl⟩, ?_⟩
          simp only [maxU64] at hv
          simp only [fitsInt64, Bool.and_eq_false_iff, decide_eq_false_iff_not]; omega
    · have hl' : (c :: rest).all isDigit = true := by
        simp only [intLexeme] at hl
        split at hl
        · rename_i ds heq; cases heq; exact absurd rfl hc
        · simpa using hl
      have hcd : isDigit c = true := by simp only [List.all_cons, Bool.and_eq_true] at hl'; exact hl'.1
      have hc43 : c ≠ 43 := by
        intro h43; subst h43; simp [isDigit] at hcd
      obtain ⟨v, ovf, e, a, b⟩ := parseUintLoop_digits (c :: rest) 0 hl'
      have hdl : decimalLiteral (c :: rest) = some (((c :: rest).foldl (fun acc c => acc * 10 + (c - 48)) 0 : Nat) : Int) := by
        simp only [decimalLiteral]
        split
        · rename_i ds heq; cases heq; exact absurd rfl hc
        · simp [hl']
      refine ⟨_, hdl, ?_⟩
      generalize List.foldl (fun acc c => acc * 10 + (c - 48)) 0 (c :: rest) = N at a b ⊢
      cases ovf
      · have hv := a rfl
        subst hv
        by_cases hge : v ≥ 9223372036854775808
        · right
          refine ⟨⟨_, by simp [parseInt, hc, hc43, e, hge]; rfl⟩, ?_⟩
          simp only [fitsInt64, Bool.and_eq_false_iff, decide_eq_false_iff_not]; omega
        · left
          refine ⟨by simp [parseInt, hc, hc43, e, hge], ?_⟩
          simp only [fitsInt64, Bool.and_eq_true, decide_eq_true_eq]; omega
      · have hv := b rfl
        right
        refine ⟨⟨_, by simp [parseInt, hc, hc43, e]; rfl⟩, ?_⟩
        simp only [maxU64] at hv
        simp only [fitsInt64, Bool.and_eq_false_iff, decide_eq_false_iff_not]; omega

theorem parseInt_range_decimalLiteral {raw : Bytes} {c : Int} (hl : intLexeme raw = true)
    (h : parseInt raw = .range c) : ∃ i, decimalLiteral raw = some i ∧ fitsInt64 i = false := by
  obtain ⟨i, a, b | b⟩ := parseInt_lexeme hl
  · rw [h] at b; simp at b
  · exact ⟨i, a, b.2⟩

theorem parseInt_lexeme_not_syntax {raw : Bytes} (hl : intLexeme raw = true) : parseInt raw ≠ .syntax := by
  obtain ⟨i, _, ⟨b, _⟩ | ⟨⟨c, b⟩, _⟩⟩ := parseInt_lexeme hl <;> simp [b]

end Gql

namespace Gql
open Gql.Strconv

/- ---------- the code's literal conversion agrees with the specification ---------- -/

/-- both default oracles are silent on every variable that is missing from the map -/
def DfltSilent (vars : VarMap) (d1 : Name → Option (ConvRes GoVal)) (d2 : Name → Option GoVal) : Prop :=
  ∀ n, vars.lookup n = none → d1 n = none ∧ d2 n = none

theorem parseBool_lexeme {raw : Bytes} {b : Bool} (hl : (raw = str "true" || raw = str "false") = true)
    (h : parseBool raw = some b) :
    (if raw = str "true" then some (GoVal.bool true) else if raw = str "false" then some (GoVal.bool false) else none)
      = some (GoVal.bool b) := by
  simp only [Bool.or_eq_true, decide_eq_true_eq] at hl
  rcases hl with hl | hl
  · subst hl
    have : parseBool (str "true") = some true := by decide
    rw [this] at h; cases h; simp
  · subst hl
    have : parseBool (str "false") = some false := by decide
    rw [this] at h; cases h
    have hne : str "false" ≠ str "true" := by decide
    simp [hne]

mutual
  theorem vvw_agree (d1 : Name → Option (ConvRes GoVal)) (d2 : Name → Option GoVal) (vars : VarMap)
      (hs : DfltSilent vars d1 d2) :
      (v : Value) → (x : GoVal) → wellLexedB v = true → valueValueWith d1 vars v = .ok x → literalSpec d2 vars v = some x
    | .mk kind raw ch p, x, hl, h => by
      cases kind
      case «variable» =>
        simp only [valueValueWith] at h
        simp only [literalSpec]
        cases h1 : vars.lookup raw with
        | some y => simp only [h1] at h; cases h; rfl
        | none =>
          obtain ⟨e1, e2⟩ := hs raw h1
          simp only [h1, e1] at h; cases h
          simp [e2]
      case int =>
        simp only [valueValueWith] at h
        simp only [wellLexedB] at hl
        cases hp : parseInt raw with
        | ok n =>
          simp only [hp] at h; cases h
          obtain ⟨a, b⟩ := parseInt_decimalLiteral hl hp
          simp [literalSpec, a, b]
        | «syntax» => simp [hp] at h
        | range c =>
          simp only [hp] at h; cases h
          obtain ⟨i, a, b⟩ := parseInt_range_decimalLiteral hl hp
          simp [literalSpec, a, b]
      case float =>
        simp only [valueValueWith] at h
        simp only [wellLexedB] at hl
        cases hp : parseFloat raw with
        | ok => simp only [hp] at h; cases h; simp [literalSpec, hl]
        | «syntax» => simp [hp] at h
        | range c => simp only [hp] at h; cases h; simp [literalSpec, hl]
      case string => simp only [valueValueWith] at h; cases h; simp [literalSpec]
      case block => simp only [valueValueWith] at h; cases h; simp [literalSpec]
      case enum => simp only [valueValueWith] at h; cases h; simp [literalSpec]
      case boolean =>
        simp only [valueValueWith] at h
        simp only [wellLexedB] at hl
        cases hp : parseBool raw with
        | none => simp [hp] at h
        | some b =>
          simp only [hp] at h; cases h
          simp only [literalSpec]
          exact parseBool_lexeme hl hp
      case null => simp only [valueValueWith] at h; cases h; simp [literalSpec]
      case list =>
        simp only [valueValueWith] at h
        simp only [wellLexedB] at hl
        cases hr : listValueWith d1 vars ch with
        | ok xs =>
          simp only [hr] at h; cases h
          simp [literalSpec, lvw_agree d1 d2 vars hs ch xs hl hr]
        | err e => simp [hr] at h
        | diverge => simp [hr] at h
      case object =>
        simp only [valueValueWith] at h
        simp only [wellLexedB] at hl
        cases hr : objectValueWith d1 vars ch .nil with
        | ok kvs =>
          simp only [hr] at h; cases h
          simp [literalSpec, ovw_agree d1 d2 vars hs ch .nil kvs hl hr]
        | err e => simp [hr] at h
        | diverge => simp [hr] at h
  theorem lvw_agree (d1 : Name → Option (ConvRes GoVal)) (d2 : Name → Option GoVal) (vars : VarMap)
      (hs : DfltSilent vars d1 d2) :
      (c : Children) → (xs : GoVals) → childrenWellLexedB c = true → listValueWith d1 vars c = .ok xs →
        literalListSpec d2 vars c = some xs
    | .nil, xs, _, h => by simp only [listValueWith] at h; cases h; simp [literalListSpec]
    | .cons n v p rest, xs, hl, h => by
      simp only [childrenWellLexedB, Bool.and_eq_true] at hl
      simp only [listValueWith] at h
      cases hv : valueValueWith d1 vars v with
      | ok x =>
        simp only [hv] at h
        cases hr : listValueWith d1 vars rest with
        | ok ys =>
          simp only [hr] at h; cases h
          simp [literalListSpec, vvw_agree d1 d2 vars hs v x hl.1 hv, lvw_agree d1 d2 vars hs rest ys hl.2 hr]
        | err e => simp [hr] at h
        | diverge => simp [hr] at h
      | err e => simp [hv] at h
      | diverge => simp [hv] at h
  theorem ovw_agree (d1 : Name → Option (ConvRes GoVal)) (d2 : Name → Option GoVal) (vars : VarMap)
      (hs : DfltSilent vars d1 d2) :
      (c : Children) → (acc kvs : GoFields) → childrenWellLexedB c = true → objectValueWith d1 vars c acc = .ok kvs →
        literalObjectSpec d2 vars c acc = some kvs
    | .nil, acc, kvs, _, h => by simp only [objectValueWith] at h; cases h; simp [literalObjectSpec]
    | .cons n v p rest, acc, kvs, hl, h => by
      simp only [childrenWellLexedB, Bool.and_eq_true] at hl
      simp only [objectValueWith] at h
      cases hv : valueValueWith d1 vars v with
      | ok x =>
        simp only [hv] at h
        simp [literalObjectSpec, vvw_agree d1 d2 vars hs v x hl.1 hv, ovw_agree d1 d2 vars hs rest (acc.set n x) kvs hl.2 h]
      | err e => simp [hv] at h
      | diverge => simp [hv] at h
end

end Gql

namespace Gql
open Gql.Strconv

/- ---------- literals as the lexer writes them have no syntax errors for strconv ---------- -/

mutual
  theorem wellLexed_syntaxOk : (v : Value) → wellLexedB v = true → syntaxOkB v = true
    | .mk kind raw ch p, h => by
      cases kind
      case int =>
        simp only [wellLexedB] at h
        have := parseInt_lexeme_not_syntax h
        cases hp : parseInt raw <;> simp_all [syntaxOkB]
      case float =>
        simp only [wellLexedB] at h
        have := parseFloat_lexeme_not_syntax h
        cases hp : parseFloat raw <;> simp_all [syntaxOkB]
      case boolean =>
        simp only [wellLexedB, Bool.or_eq_true, decide_eq_true_eq] at h
        simp only [syntaxOkB]
        rcases h with h | h <;> subst h <;> decide
      case list => simp only [wellLexedB] at h; simp only [syntaxOkB]; exact childrenWellLexed_syntaxOk ch h
      case object => simp only [wellLexedB] at h; simp only [syntaxOkB]; exact childrenWellLexed_syntaxOk ch h
      all_goals simp [syntaxOkB]
  theorem childrenWellLexed_syntaxOk : (c : Children) → childrenWellLexedB c = true → childrenSyntaxOkB c = true
    | .nil, _ => by simp [childrenSyntaxOkB]
    | .cons n v p rest, h => by
      simp only [childrenWellLexedB, Bool.and_eq_true] at h
      simp only [childrenSyntaxOkB, Bool.and_eq_true]
      exact ⟨wellLexed_syntaxOk v h.1, childrenWellLexed_syntaxOk rest h.2⟩
end

theorem defaultsLexed_syntaxOk {vdefs : List VarDef} (h : DefaultsLexed vdefs) : DefaultsSyntaxOk vdefs :=
  fun d hd dv hdv => ⟨wellLexed_syntaxOk dv (h d hd dv hdv).1, (h d hd dv hdv).2⟩

end Gql

namespace Gql
open Gql.Strconv

theorem findArg_mem {args : List Argument} {n : Name} {a : Argument} (h : findArg args n = some a) : a ∈ args :=
  List.mem_of_find?_eq_some h

/- ---------- totality of one step / of the loop ---------- -/

theorem arg2mapStep_ok (vdefs : List VarDef) (args : List Argument) (vars : VarMap) (d : ArgDef) (result : GoFields)
    (hargs : ∀ a ∈ args, syntaxOkB a.value = true)
    (hdef : ∀ dv, d.default = some dv → syntaxOkB dv = true)
    (hv : DefaultsSyntaxOk vdefs) : ∃ r, arg2mapStep vdefs args vars d result = .ok r := by
  unfold arg2mapStep
  have dflt : ∃ r, argDefaultRes vdefs vars d result = .ok r := by
    unfold argDefaultRes
    cases hd : d.default with
    | none => exact ⟨result, rfl⟩
    | some dv =>
      obtain ⟨x, hx⟩ := valueValue_ok vdefs vars dv (hdef dv hd) hv
      exact ⟨result.set d.name x, by simp [hx]⟩
  cases hf : findArg args d.name with
  | none => simpa using dflt
  | some a =>
    by_cases hk : a.value.kind = .variable
    · cases hl : vars.lookup a.value.raw with
      | some x => exact ⟨result.set d.name x, by simp [hk, hl]⟩
      | none => simpa [hk, hl] using dflt
    · obtain ⟨x, hx⟩ := valueValue_ok vdefs vars a.value (hargs a (findArg_mem hf)) hv
      exact ⟨result.set d.name x, by simp [hk, hx]⟩

theorem arg2mapLoop_ok (vdefs : List VarDef) (args : List Argument) (vars : VarMap)
    (hargs : ∀ a ∈ args, syntaxOkB a.value = true) (hv : DefaultsSyntaxOk vdefs) :
    ∀ (defs : List ArgDef) (result : GoFields),
      (∀ d ∈ defs, ∀ dv, d.default = some dv → syntaxOkB dv = true) →
      ∃ m, arg2mapLoop vdefs args vars defs result = .ok m
  | [], result, _ => ⟨result, rfl⟩
  | d :: rest, result, hd => by
    obtain ⟨r, hr⟩ := arg2mapStep_ok vdefs args vars d result hargs (hd d (by simp)) hv
    obtain ⟨m, hm⟩ := arg2mapLoop_ok vdefs args vars hargs hv rest r (fun d' h' => hd d' (by simp [h']))
    exact ⟨m, by simp [arg2mapLoop, hr, hm]⟩

theorem arg2mapLoop_keys {vdefs : List VarDef} {args : List Argument} {vars : VarMap} :
    ∀ (defs : List ArgDef) (result m : GoFields), arg2mapLoop vdefs args vars defs result = .ok m → ∀ k,
      m.contains k = (result.contains k || defs.any (fun d => decide (d.name = k) && argHasValue args vars d))
  | [], result, m, h, k => by simp only [arg2mapLoop] at h; cases h; simp
  | d :: rest, result, m, h, k => by
    simp only [arg2mapLoop] at h
    cases hs : arg2mapStep vdefs args vars d result with
    | ok r =>
      simp only [hs] at h
      rw [arg2mapLoop_keys rest r m h k, arg2mapStep_keys hs k]
      simp [Bool.or_assoc]
    | panic msg => simp [hs] at h
    | diverge => simp [hs] at h

/- ---------- the value of one argument ---------- -/

theorem dfltSilent_of_supplied (vdefs : List VarDef) (vars : VarMap) (k : Nat) (hs : DefaultsSupplied vdefs vars) :
    DfltSilent vars (fun n =>
      match findVarDef vdefs n with
      | some d => match d.default with
        | some dv => some (valueValueLvl vdefs vars k dv)
        | none => none
      | none => none) (varDefaultSpec vdefs) := by
  intro n hn
  unfold varDefaultSpec
  cases hf : findVarDef vdefs n with
  | none => simp [hf]
  | some d =>
    cases hd : d.default with
    | none => simp [hf, hd]
    | some dv =>
      have := hs n d hf (by simp [hd])
      simp [GoFields.contains, hn] at this

theorem valueValue_agree {vdefs : List VarDef} {vars : VarMap} {v : Value} {x : GoVal}
    (hs : DefaultsSupplied vdefs vars) (hl : wellLexedB v = true) (h : valueValue vdefs vars v = .ok x) :
    literalSpec (varDefaultSpec vdefs) vars v = some x := by
  unfold valueValue at h
  simp only [valueValueLvl] at h
  exact vvw_agree _ _ vars (dfltSilent_of_supplied vdefs vars vdefs.length hs) v x hl h

/-- what one iteration of `arg2map` does, in terms of the specification of that argument -/
theorem arg2mapStep_spec {vdefs : List VarDef} {args : List Argument} {vars : VarMap} {d : ArgDef}
    {result r : GoFields} (hs : DefaultsSupplied vdefs vars)
    (hargs : ∀ a ∈ args, wellLexedB a.value = true)
    (hdef : ∀ dv, d.default = some dv → wellLexedB dv = true)
    (h : arg2mapStep vdefs args vars d result = .ok r) :
    (∃ x, argValueSpec vdefs args vars d = some (some x) ∧ r = result.set d.name x)
      ∨ (argValueSpec vdefs args vars d = none ∧ r = result) := by
  unfold arg2mapStep at h
  unfold argValueSpec
  have dflt : ∀ r, argDefaultRes vdefs vars d result = .ok r →
      (∃ x, d.default.map (literalSpec (varDefaultSpec vdefs) vars) = some (some x) ∧ r = result.set d.name x)
        ∨ (d.default.map (literalSpec (varDefaultSpec vdefs) vars) = none ∧ r = result) := by
    intro r h
    unfold argDefaultRes at h
    cases hd : d.default with
    | none => simp only [hd] at h; cases h; right; simp
    | some dv =>
      simp only [hd] at h
      cases hv : valueValue vdefs vars dv with
      | ok x =>
        simp only [hv] at h; cases h
        left; exact ⟨x, by simp [valueValue_agree hs (hdef dv hd) hv], rfl⟩
      | err e => simp [hv] at h
      | diverge => simp [hv] at h
  cases hf : findArg args d.name with
  | none => simp only [hf] at h ⊢; exact dflt r h
  | some a =>
    simp only [hf] at h ⊢
    by_cases hk : a.value.kind = .variable
    · simp only [hk, if_true] at h ⊢
      cases hl : vars.lookup a.value.raw with
      | some x => simp only [hl] at h; cases h; left; exact ⟨x, by simp [firstSome], rfl⟩
      | none =>
        simp only [hl] at h
        have hvd : varDefaultSpec vdefs a.value.raw = none :=
          ((dfltSilent_of_supplied vdefs vars 0 hs) a.value.raw hl).2
        simp only [hvd, firstSome]
        exact dflt r h
    · simp only [hk, if_false] at h ⊢
      cases hv : valueValue vdefs vars a.value with
      | ok x =>
        simp only [hv] at h; cases h
        left; exact ⟨x, by simp [valueValue_agree hs (hargs a (findArg_mem hf)) hv], rfl⟩
      | err e => simp [hv] at h
      | diverge => simp [hv] at h

end Gql

namespace Gql
open Gql.Strconv

theorem arg2mapStep_shape {vdefs : List VarDef} {args : List Argument} {vars : VarMap} {d : ArgDef}
    {result r : GoFields} (h : arg2mapStep vdefs args vars d result = .ok r) :
    r = result ∨ ∃ x, r = result.set d.name x := by
  unfold arg2mapStep at h
  have dflt : ∀ r, argDefaultRes vdefs vars d result = .ok r → r = result ∨ ∃ x, r = result.set d.name x := by
    intro r h
    unfold argDefaultRes at h
    cases hd : d.default with
    | none => simp only [hd] at h; cases h; left; rfl
    | some dv =>
      simp only [hd] at h
      cases hv : valueValue vdefs vars dv with
      | ok x => simp only [hv] at h; cases h; right; exact ⟨x, rfl⟩
      | err e => simp [hv] at h
      | diverge => simp [hv] at h
  cases hf : findArg args d.name with
  | none => simp only [hf] at h; exact dflt r h
  | some a =>
    simp only [hf] at h
    by_cases hk : a.value.kind = .variable
    · simp only [hk, if_true] at h
      cases hl : vars.lookup a.value.raw with
      | some x => simp only [hl] at h; cases h; right; exact ⟨x, rfl⟩
      | none => simp only [hl] at h; exact dflt r h
    · simp only [hk, if_false] at h
      cases hv : valueValue vdefs vars a.value with
      | ok x => simp only [hv] at h; cases h; right; exact ⟨x, rfl⟩
      | err e => simp [hv] at h
      | diverge => simp [hv] at h

theorem arg2mapLoop_lookup_other {vdefs : List VarDef} {args : List Argument} {vars : VarMap} :
    ∀ (defs : List ArgDef) (result m : GoFields), arg2mapLoop vdefs args vars defs result = .ok m →
      ∀ k, (∀ d ∈ defs, d.name ≠ k) → m.lookup k = result.lookup k
  | [], result, m, h, k, _ => by simp only [arg2mapLoop] at h; cases h; rfl
  | d :: rest, result, m, h, k, hk => by
    simp only [arg2mapLoop] at h
    cases hs : arg2mapStep vdefs args vars d result with
    | ok r =>
      simp only [hs] at h
      rw [arg2mapLoop_lookup_other rest r m h k (fun d' h' => hk d' (by simp [h']))]
      rcases arg2mapStep_shape hs with e | ⟨x, e⟩
      · rw [e]
      · rw [e, GoFields.lookup_set]; simp [hk d (by simp)]
    | panic msg => simp [hs] at h
    | diverge => simp [hs] at h

theorem arg2mapLoop_spec {vdefs : List VarDef} {args : List Argument} {vars : VarMap}
    (hs : DefaultsSupplied vdefs vars) (hargs : ∀ a ∈ args, wellLexedB a.value = true) :
    ∀ (defs : List ArgDef) (result m : GoFields),
      (defs.map (·.name)).Nodup →
      (∀ d ∈ defs, ∀ dv, d.default = some dv → wellLexedB dv = true) →
      (∀ d ∈ defs, result.lookup d.name = none) →
      arg2mapLoop vdefs args vars defs result = .ok m →
      ∀ d ∈ defs, argValueSpec vdefs args vars d = (m.lookup d.name).map some
  | [], _, _, _, _, _, _, d, hd => by simp at hd
  | d0 :: rest, result, m, hnd, hdef, hfresh, h, d, hd => by
    simp only [arg2mapLoop] at h
    simp only [List.map_cons, List.nodup_cons, List.mem_map, not_exists, not_and] at hnd
    cases hstep : arg2mapStep vdefs args vars d0 result with
    | ok r =>
      simp only [hstep] at h
      have hfresh' : ∀ d' ∈ rest, r.lookup d'.name = none := by
        intro d' hd'
        have hne : d0.name ≠ d'.name := fun e => hnd.1 d' hd' e.symm
        rcases arg2mapStep_shape hstep with e | ⟨x, e⟩
        · rw [e]; exact hfresh d' (by simp [hd'])
        · rw [e, GoFields.lookup_set]; simp [hne, hfresh d' (by simp [hd'])]
      rcases List.mem_cons.mp hd with e | hd'
      · subst e
        have hother := arg2mapLoop_lookup_other rest r m h d.name (fun d' hd' e => hnd.1 d' hd' e)
        rw [hother]
        rcases arg2mapStep_spec hs hargs (hdef d (by simp)) hstep with ⟨x, e1, e2⟩ | ⟨e1, e2⟩
        · rw [e1, e2, GoFields.lookup_set]; simp
        · rw [e1, e2, hfresh d (by simp)]; rfl
      · exact arg2mapLoop_spec hs hargs rest r m hnd.2 (fun d' h' => hdef d' (by simp [h'])) hfresh' h d hd'
    | panic msg => simp [hstep] at h
    | diverge => simp [hstep] at h

/-- `varDefaultSpec` only looks at the default of the definition found -/
theorem varDefaultSpec_congr {linked opDefs : List VarDef} (h : LinksAgree linked opDefs) :
    varDefaultSpec linked = varDefaultSpec opDefs := by
  funext n
  have := h n
  simp only [varDefaultSpec]
  cases h1 : findVarDef linked n <;> cases h2 : findVarDef opDefs n <;> simp_all [Option.bind]
  rw [← this]

end Gql
