import GqlProofs.Parser.Fuel
import GqlProofs.Json.RoundTrip
set_option linter.unusedSimpArgs false
set_option linter.unusedVariables false
/-
  The parser model puts into the tree only bytes that are token values (or constants): if every
  token the lexer model hands out has a well-formed UTF-8 value, the parsed document satisfies the
  hypothesis of the JSON round-trip theorem (C19).

  `Sat L Q p`: run from a state whose tokens (`prev`, the look-ahead) are clean and whose remaining
  input only lexes to clean tokens, the program `p` ends in such a state and its result satisfies `Q`
  (whether or not the sticky error got set on the way).
-/
namespace Gql.Parser
open Gql Gql.Lexer Gql.Json

/-- the token's value is fixed by the UTF-8 coercion of `json.Marshal` -/
def TokClean (t : Token) : Prop := sanitize t.value = t.value

/-- the next `k` tokens read from `(rest, cur)` are clean -/
def LexCleanK : Nat → Bytes → Cur → Prop
  | 0, _, _ => True
  | k + 1, rest, cur =>
    match readToken rest cur with
    | .tok t r c => TokClean t ∧ LexCleanK k r c
    | .err _ => True

/-- every token the lexer will ever hand out from `(rest, cur)` is clean -/
def LexClean (rest : Bytes) (cur : Cur) : Prop := ∀ k, LexCleanK k rest cur

theorem LexClean.step {rest : Bytes} {cur : Cur} (h : LexClean rest cur) {t : Token} {r : Bytes} {c : Cur}
    (hr : readToken rest cur = .tok t r c) : TokClean t ∧ LexClean r c := by
  constructor
  · have := h 1
    simp only [LexCleanK, hr] at this
    exact this.1
  · intro k
    have := h (k + 1)
    simp only [LexCleanK, hr] at this
    exact this.2

structure SInv (s : PState) : Prop where
  prev : TokClean s.prev
  peekTok : TokClean s.peekTok
  lex : LexClean s.rest s.cur

theorem tokClean_zero : TokClean zeroTok := by simp [TokClean, zeroTok, sanitize_nil]
theorem tokClean_invalid (e : LexErr) : TokClean (invalidTok e) := by simp [TokClean, invalidTok, sanitize_nil]

theorem SInv.init (src : Nat) (inp : Bytes) (h : LexClean inp Cur.init) : SInv (PState.init src inp) :=
  ⟨tokClean_zero, tokClean_zero, h⟩

/-! ### the state primitives keep the invariant -/

theorem SInv.lexRead {s : PState} (h : SInv s) : TokClean s.lexRead.1 ∧ SInv s.lexRead.2.2 := by
  unfold PState.lexRead
  split
  · rename_i t rest c hr
    obtain ⟨h1, h2⟩ := h.lex.step hr
    exact ⟨h1, ⟨h.prev, h.peekTok, h2⟩⟩
  · exact ⟨tokClean_invalid _, ⟨h.prev, h.peekTok, h.lex⟩⟩

theorem SInv.readPeek {s : PState} (h : SInv s) : SInv s.readPeek := by
  obtain ⟨h1, h2⟩ := h.lexRead
  exact ⟨h2.prev, h1, h2.lex⟩

theorem SInv.readPrev {s : PState} (h : SInv s) : SInv s.readPrev := by
  obtain ⟨h1, h2⟩ := h.lexRead
  exact ⟨h1, h2.peekTok, h2.lex⟩

theorem SInv.trip (L : Nat) {s : PState} (h : SInv s) : SInv (s.trip L) := ⟨h.prev, h.peekTok, h.lex⟩
theorem SInv.takePeeked {s : PState} (h : SInv s) : SInv s.takePeeked := ⟨h.peekTok, h.peekTok, h.lex⟩

theorem SInv.peekNC {s : PState} (h : SInv s) : TokClean s.peekNC.1 ∧ SInv s.peekNC.2 := by
  unfold PState.peekNC
  split
  · exact ⟨h.prev, h⟩
  · split
    · exact ⟨h.peekTok, h⟩
    · exact ⟨h.readPeek.peekTok, h.readPeek⟩

theorem SInv.nextNC (L : Nat) {s : PState} (h : SInv s) : TokClean (s.nextNC L).1 ∧ SInv (s.nextNC L).2 := by
  unfold PState.nextNC
  split
  · exact ⟨h.prev, h⟩
  · split
    · exact ⟨h.prev, h.trip L⟩
    · split
      · exact ⟨h.peekTok, h.takePeeked⟩
      · exact ⟨h.readPrev.prev, h.readPrev⟩

theorem SInv.commentLoop (L : Nat) : ∀ (n : Nat) {s : PState}, SInv s → SInv (commentLoop L n s)
  | 0, s, h => ⟨h.prev, h.peekTok, h.lex⟩
  | n + 1, s, h => by
    unfold Gql.Parser.commentLoop
    split
    · exact h
    · dsimp only
      split
      · exact h.peekNC.2
      · exact SInv.commentLoop L n (h.peekNC.2.nextNC L).2

theorem SInv.consumeCommentGroup (L : Nat) {s : PState} (h : SInv s) : SInv (s.consumeCommentGroup L) := by
  unfold PState.consumeCommentGroup
  split
  · exact h
  · exact h.commentLoop L _

theorem SInv.groupIf (L : Nat) (t : Token) {s : PState} (h : SInv s) : SInv (s.groupIf L t) := by
  unfold PState.groupIf
  split
  · exact h.consumeCommentGroup L
  · exact h

theorem SInv.peek (L : Nat) {s : PState} (h : SInv s) : TokClean (s.peek L).1 ∧ SInv (s.peek L).2 := by
  unfold PState.peek
  split
  · exact ⟨h.prev, h⟩
  · split
    · exact ⟨h.peekTok, h⟩
    · have := h.readPeek.groupIf L s.readPeek.peekTok
      exact ⟨this.peekTok, this⟩

theorem SInv.next (L : Nat) {s : PState} (h : SInv s) : TokClean (s.next L).1 ∧ SInv (s.next L).2 := by
  unfold PState.next
  split
  · exact ⟨h.prev, h⟩
  · split
    · exact ⟨h.prev, h.trip L⟩
    · split
      · exact ⟨h.peekTok, h.takePeeked⟩
      · have := h.readPrev.groupIf L s.readPrev.prev
        exact ⟨this.prev, this⟩

theorem SInv.error {s : PState} (h : SInv s) (tok : Token) (msg : Bytes) : SInv (s.error tok msg) := by
  unfold PState.error
  split
  · exact h
  · split <;> exact ⟨h.prev, h.peekTok, h.lex⟩

/-! ### programs -/

def Sat {α : Type} (L : Nat) (Q : α → Prop) (p : Prog α) : Prop :=
  ∀ s, SInv s → SInv (run L p s).2 ∧ Q (run L p s).1

theorem Sat.pure {α : Type} {L : Nat} {Q : α → Prop} {a : α} (h : Q a) : Sat L Q (Pure.pure a : Prog α) := by
  intro s hs; exact ⟨by simpa [run] using hs, by simpa [run] using h⟩

theorem Sat.bind {α β : Type} {L : Nat} {Q1 : α → Prop} {Q : β → Prop} {p : Prog α} {f : α → Prog β}
    (h1 : Sat L Q1 p) (h2 : ∀ a, Q1 a → Sat L Q (f a)) : Sat L Q (p >>= f) := by
  intro s hs
  rw [run_bind']
  obtain ⟨hs1, hq1⟩ := h1 s hs
  exact h2 _ hq1 _ hs1

theorem Sat.pure_bind {α β : Type} {L : Nat} {Q : β → Prop} {a : α} {f : α → Prog β} (h : Sat L Q (f a)) :
    Sat L Q (Pure.pure a >>= f) := h

theorem Sat.mono {α : Type} {L : Nat} {Q Q' : α → Prop} {p : Prog α} (h : Sat L Q p) (hq : ∀ a, Q a → Q' a) :
    Sat L Q' p := fun s hs => ⟨(h s hs).1, hq _ (h s hs).2⟩

theorem Sat.peek {L : Nat} : Sat L TokClean peek := by
  intro s hs
  have := hs.peek L
  simpa [Gql.Parser.peek, run] using And.intro this.2 this.1

theorem Sat.next {L : Nat} : Sat L TokClean next := by
  intro s hs
  have := hs.next L
  simpa [Gql.Parser.next, run] using And.intro this.2 this.1

theorem Sat.getPrev {L : Nat} : Sat L TokClean getPrev := by
  intro s hs; simpa [Gql.Parser.getPrev, run] using And.intro hs hs.prev

theorem Sat.hasErr {L : Nat} : Sat L (fun _ => True) hasErr := by
  intro s hs; simpa [Gql.Parser.hasErr, run] using hs

theorem Sat.getSrc {L : Nat} : Sat L (fun _ => True) getSrc := by
  intro s hs; simpa [Gql.Parser.getSrc, run] using hs

theorem Sat.failAt {L : Nat} (tok : Token) (msg : Bytes) : Sat L (fun _ => True) (failAt tok msg) := by
  intro s hs; simpa [Gql.Parser.failAt, run] using hs.error tok msg

theorem Sat.outOfFuel {α : Type} {L : Nat} {Q : α → Prop} {a : α} (h : Q a) : Sat L Q (outOfFuel a) := by
  intro s hs
  refine ⟨?_, by simpa [Gql.Parser.outOfFuel, run] using h⟩
  simpa [Gql.Parser.outOfFuel, run] using (⟨hs.prev, hs.peekTok, hs.lex⟩ : SInv { s with oof := true })

/-! ### the remaining primitives of parser.go -/

theorem Sat.expect {L : Nat} (k : Kind) : Sat L TokClean (expect k) := by
  unfold Gql.Parser.expect
  refine Sat.bind Sat.peek fun tok htok => ?_
  split
  · exact Sat.next
  · exact Sat.bind (Sat.failAt _ _) fun _ _ => Sat.pure htok

theorem Sat.expectKeyword {L : Nat} (v : Bytes) : Sat L TokClean (expectKeyword v) := by
  unfold Gql.Parser.expectKeyword
  refine Sat.bind Sat.peek fun tok htok => ?_
  split
  · exact Sat.next
  · exact Sat.bind (Sat.failAt _ _) fun _ _ => Sat.pure htok

theorem Sat.skip {L : Nat} (k : Kind) : Sat L (fun _ => True) (skip k) := by
  unfold Gql.Parser.skip
  refine Sat.bind Sat.hasErr fun e _ => ?_
  split
  · exact Sat.pure trivial
  · refine Sat.bind Sat.peek fun tok _ => ?_
    split
    · exact Sat.pure trivial
    · exact Sat.bind Sat.next fun _ _ => Sat.pure trivial

theorem Sat.unexpectedToken {L : Nat} (tok : Token) : Sat L (fun _ => True) (unexpectedToken tok) :=
  Sat.failAt _ _

theorem Sat.unexpectedError {L : Nat} : Sat L (fun _ => True) unexpectedError := by
  unfold Gql.Parser.unexpectedError
  exact Sat.bind Sat.peek fun tok _ => Sat.unexpectedToken tok

theorem Sat.peekPos {L : Nat} : Sat L (fun _ => True) peekPos := by
  unfold Gql.Parser.peekPos
  refine Sat.bind Sat.hasErr fun e _ => ?_
  split
  · exact Sat.pure trivial
  · exact Sat.bind Sat.peek fun _ _ => Sat.bind Sat.getSrc fun _ _ => Sat.pure trivial

theorem Sat.itemsLoop {α : Type} {L : Nat} {Q : α → Prop} (stop : Kind) {cb : Prog α} (h : Sat L Q cb) :
    ∀ (n : Nat) (acc : List α), (∀ x ∈ acc, Q x) → Sat L (fun xs => ∀ x ∈ xs, Q x) (itemsLoop stop cb n acc)
  | 0, acc, ha => by unfold Gql.Parser.itemsLoop; exact Sat.outOfFuel ha
  | n + 1, acc, ha => by
    unfold Gql.Parser.itemsLoop
    refine Sat.bind Sat.peek fun t _ => Sat.bind Sat.hasErr fun e _ => ?_
    split
    · refine Sat.bind h fun a hq => Sat.itemsLoop stop h n (a :: acc) ?_
      intro x hx
      rcases List.mem_cons.mp hx with rfl | hx
      · exact hq
      · exact ha x hx
    · exact Sat.pure ha

theorem Sat.pMany {α : Type} {L : Nat} {Q : α → Prop} (start stop : Kind) (n : Nat) {cb : Prog α} (h : Sat L Q cb) :
    Sat L (fun xs => ∀ x ∈ xs, Q x) (pMany start stop n cb) := by
  unfold Gql.Parser.pMany
  refine Sat.bind (Sat.skip _) fun b _ => ?_
  split
  · exact Sat.pure (by simp)
  · refine Sat.bind (Sat.itemsLoop stop h n [] (by simp)) fun xs hxs => Sat.bind Sat.next fun _ _ => Sat.pure ?_
    intro x hx; exact hxs x (List.mem_reverse.mp hx)

theorem Sat.pSome {α : Type} {L : Nat} {Q : α → Prop} (start stop : Kind) (n : Nat) {cb : Prog α} (h : Sat L Q cb) :
    Sat L (fun xs => ∀ x ∈ xs, Q x) (pSome start stop n cb) := by
  unfold Gql.Parser.pSome
  refine Sat.bind (Sat.skip _) fun b _ => ?_
  split
  · exact Sat.pure (by simp)
  · refine Sat.bind (Sat.itemsLoop stop h n [] (by simp)) fun xs hxs => ?_
    split
    · exact Sat.bind Sat.peek fun _ _ => Sat.bind Sat.peek fun _ _ => Sat.bind (Sat.failAt _ _) fun _ _ =>
        Sat.pure (by simp)
    · refine Sat.bind Sat.next fun _ _ => Sat.pure ?_
      intro x hx; exact hxs x (List.mem_reverse.mp hx)

/-! ### query.go -/

abbrev CleanB (b : Bytes) : Prop := sanitize b = b

theorem cleanB_nil : CleanB [] := sanitize_nil

theorem Sat.parseName {L : Nat} : Sat L CleanB parseName := by
  unfold Gql.Parser.parseName
  exact Sat.bind (Sat.expect _) fun t ht => Sat.pure ht

theorem Sat.parseVariable {L : Nat} : Sat L CleanB parseVariable := by
  unfold Gql.Parser.parseVariable
  exact Sat.bind (Sat.expect _) fun _ _ => Sat.parseName

theorem fixChildren_ofList : ∀ (vs : List (Name × Value × Pos)),
    (∀ x ∈ vs, CleanB x.1 ∧ FixValue sanitize x.2.1) → FixChildren sanitize (Children.ofList vs)
  | [], _ => by simp [Children.ofList, FixChildren]
  | (n, v, p) :: rest, h => by
    have h1 := h (n, v, p) (by simp)
    have h2 := fixChildren_ofList rest (fun x hx => h x (by simp [hx]))
    simp only [Children.ofList, FixChildren]
    exact ⟨h1.1, h1.2, h2⟩

theorem fixSels_ofList : ∀ (xs : List Selection), (∀ x ∈ xs, FixSel sanitize x) → FixSels sanitize (Selections.ofList xs)
  | [], _ => by simp [Selections.ofList, FixSels]
  | s :: rest, h => by
    simp only [Selections.ofList, FixSels]
    exact ⟨h s (by simp), fixSels_ofList rest (fun x hx => h x (by simp [hx]))⟩

theorem fixValue_default : FixValue sanitize (default : Value) := by
  show FixValue sanitize (Value.mk _ _ _ _)
  simp [FixValue, FixChildren, sanitize_nil]

theorem Sat.litValue {L : Nat} (src : Nat) (t : Token) (k : ValueKind) (ht : TokClean t) :
    Sat L (FixValue sanitize) (litValue src t k) := by
  unfold Gql.Parser.litValue
  refine Sat.bind Sat.next fun _ _ => Sat.pure ?_
  simp only [FixValue, FixChildren]
  exact ⟨ht, trivial⟩

theorem Sat.parseObjectFieldWith {L : Nat} {pv : Prog Value} (h : Sat L (FixValue sanitize) pv) :
    Sat L (fun x => CleanB x.1 ∧ FixValue sanitize x.2.1) (parseObjectFieldWith pv) := by
  unfold Gql.Parser.parseObjectFieldWith
  exact Sat.bind Sat.peekPos fun _ _ => Sat.bind Sat.parseName fun nm hn => Sat.bind (Sat.expect _) fun _ _ =>
    Sat.bind h fun v hv => Sat.pure ⟨hn, hv⟩

theorem Sat.parseListWith {L : Nat} {pv : Prog Value} (h : Sat L (FixValue sanitize) pv) (n : Nat) :
    Sat L (FixValue sanitize) (parseListWith pv n) := by
  unfold Gql.Parser.parseListWith
  refine Sat.bind Sat.peekPos fun _ _ => Sat.bind (Sat.pMany _ _ n
    (Q := fun x => CleanB x.1 ∧ FixValue sanitize x.2.1) ?_) fun vs hvs => Sat.pure ?_
  · exact Sat.bind h fun v hv => Sat.pure ⟨cleanB_nil, hv⟩
  · simp only [FixValue]
    exact ⟨sanitize_nil, fixChildren_ofList vs hvs⟩

theorem Sat.parseObjectWith {L : Nat} {pv : Prog Value} (h : Sat L (FixValue sanitize) pv) (n : Nat) :
    Sat L (FixValue sanitize) (parseObjectWith pv n) := by
  unfold Gql.Parser.parseObjectWith
  refine Sat.bind Sat.peekPos fun _ _ => Sat.bind (Sat.pMany _ _ n (Sat.parseObjectFieldWith h)) fun vs hvs =>
    Sat.pure ?_
  simp only [FixValue]
  exact ⟨sanitize_nil, fixChildren_ofList vs hvs⟩

theorem Sat.parseValueLiteral {L : Nat} : ∀ (n : Nat) (c : Bool), Sat L (FixValue sanitize) (parseValueLiteral n c)
  | 0, c => by unfold Gql.Parser.parseValueLiteral; exact Sat.outOfFuel fixValue_default
  | n + 1, c => by
    have ih := Sat.parseValueLiteral (L := L) n c
    unfold Gql.Parser.parseValueLiteral
    refine Sat.bind Sat.peek fun token htok => Sat.bind Sat.getSrc fun src _ => ?_
    split
    · exact Sat.parseListWith ih _
    · exact Sat.parseObjectWith ih _
    · split
      · exact Sat.bind Sat.unexpectedError fun _ _ => Sat.pure fixValue_default
      · refine Sat.bind Sat.parseVariable fun raw hraw => Sat.pure ?_
        simp only [FixValue, FixChildren]
        exact ⟨hraw, trivial⟩
    · exact Sat.litValue _ _ _ htok
    · exact Sat.litValue _ _ _ htok
    · exact Sat.litValue _ _ _ htok
    · exact Sat.litValue _ _ _ htok
    · exact Sat.litValue _ _ _ htok
    · exact Sat.bind Sat.unexpectedError fun _ _ => Sat.pure fixValue_default

theorem Sat.parseArgument {L : Nat} (n : Nat) (c : Bool) : Sat L (FixArg sanitize) (parseArgument n c) := by
  unfold Gql.Parser.parseArgument
  exact Sat.bind Sat.peekPos fun _ _ => Sat.bind Sat.parseName fun nm hn => Sat.bind (Sat.expect _) fun _ _ =>
    Sat.bind (Sat.parseValueLiteral n c) fun v hv => Sat.pure ⟨hn, hv⟩

theorem Sat.parseArguments {L : Nat} (n : Nat) (c : Bool) :
    Sat L (fun as => ∀ a ∈ as, FixArg sanitize a) (parseArguments n c) := by
  unfold Gql.Parser.parseArguments
  exact Sat.pSome _ _ n (Sat.parseArgument n c)

theorem Sat.parseDirective {L : Nat} (n : Nat) (c : Bool) : Sat L (FixDir sanitize) (parseDirective n c) := by
  unfold Gql.Parser.parseDirective
  exact Sat.bind (Sat.expect _) fun _ _ => Sat.bind Sat.peekPos fun _ _ => Sat.bind Sat.parseName fun nm hn =>
    Sat.bind (Sat.parseArguments n c) fun as has => Sat.pure ⟨hn, has⟩

theorem Sat.directivesLoop {L : Nat} {pd : Prog Directive} (h : Sat L (FixDir sanitize) pd) :
    ∀ (n : Nat) (acc : List Directive), (∀ d ∈ acc, FixDir sanitize d) →
      Sat L (fun ds => ∀ d ∈ ds, FixDir sanitize d) (directivesLoop pd n acc)
  | 0, acc, ha => by unfold Gql.Parser.directivesLoop; exact Sat.outOfFuel ha
  | n + 1, acc, ha => by
    unfold Gql.Parser.directivesLoop
    refine Sat.bind Sat.peek fun t _ => ?_
    split
    · refine Sat.bind Sat.hasErr fun e _ => ?_
      split
      · exact Sat.pure ha
      · refine Sat.bind h fun d hd => Sat.directivesLoop h n (d :: acc) ?_
        intro x hx
        rcases List.mem_cons.mp hx with rfl | hx
        · exact hd
        · exact ha x hx
    · exact Sat.pure ha

theorem Sat.parseDirectives {L : Nat} (n : Nat) (c : Bool) :
    Sat L (fun ds => ∀ d ∈ ds, FixDir sanitize d) (parseDirectives n c) := by
  unfold Gql.Parser.parseDirectives
  refine Sat.bind (Sat.directivesLoop (Sat.parseDirective n c) n [] (by simp)) fun ds hds => Sat.pure ?_
  intro d hd; exact hds d (List.mem_reverse.mp hd)

theorem fixType_default : FixType sanitize (default : GType) := by
  show sanitize ([] : Bytes) = []
  exact sanitize_nil

theorem Sat.parseTypeReference {L : Nat} : ∀ (n : Nat), Sat L (FixType sanitize) (parseTypeReference n)
  | 0 => by unfold Gql.Parser.parseTypeReference; exact Sat.outOfFuel fixType_default
  | n + 1 => by
    have ih := Sat.parseTypeReference (L := L) n
    unfold Gql.Parser.parseTypeReference
    refine Sat.bind (Sat.skip _) fun b _ => ?_
    split
    · exact Sat.bind Sat.peekPos fun _ _ => Sat.bind ih fun e he => Sat.bind (Sat.expect _) fun _ _ =>
        Sat.bind (Sat.skip _) fun _ _ => Sat.pure (by simpa [FixType] using he)
    · exact Sat.bind Sat.peekPos fun _ _ => Sat.bind Sat.parseName fun nm hn => Sat.bind (Sat.skip _) fun _ _ =>
        Sat.pure (by simpa [FixType] using hn)

theorem Sat.parseVariableDefinition {L : Nat} (n : Nat) : Sat L (FixVarDef sanitize) (parseVariableDefinition n) := by
  unfold Gql.Parser.parseVariableDefinition
  refine Sat.bind Sat.peekPos fun _ _ => Sat.bind Sat.parseVariable fun var hvar => Sat.bind (Sat.expect _) fun _ _ =>
    Sat.bind (Sat.parseTypeReference n) fun ty hty => Sat.bind (Sat.skip _) fun b _ => ?_
  dsimp only
  split
  · refine Sat.bind (Sat.parseValueLiteral n true) fun v hv => Sat.pure_bind ?_
    exact Sat.bind (Sat.parseDirectives n true) fun ds hds =>
      Sat.pure (by exact ⟨hvar, hty, (by intro x hx; cases hx; exact hv), hds⟩)
  · refine Sat.pure_bind ?_
    exact Sat.bind (Sat.parseDirectives n true) fun ds hds =>
      Sat.pure (by exact ⟨hvar, hty, (by intro x hx; cases hx), hds⟩)

theorem Sat.parseVariableDefinitions {L : Nat} (n : Nat) :
    Sat L (fun vs => ∀ v ∈ vs, FixVarDef sanitize v) (parseVariableDefinitions n) := by
  unfold Gql.Parser.parseVariableDefinitions
  exact Sat.pSome _ _ n (Sat.parseVariableDefinition n)

theorem Sat.parseOptionalSelectionSetWith {L : Nat} {sel : Prog Selection} (h : Sat L (FixSel sanitize) sel) (n : Nat) :
    Sat L (FixSels sanitize) (parseOptionalSelectionSetWith sel n) := by
  unfold Gql.Parser.parseOptionalSelectionSetWith
  exact Sat.bind (Sat.pSome _ _ n h) fun xs hxs => Sat.pure (fixSels_ofList xs hxs)

theorem Sat.parseRequiredSelectionSetWith {L : Nat} {sel : Prog Selection} (h : Sat L (FixSel sanitize) sel) (n : Nat) :
    Sat L (FixSels sanitize) (parseRequiredSelectionSetWith sel n) := by
  unfold Gql.Parser.parseRequiredSelectionSetWith
  refine Sat.bind Sat.peek fun t _ => ?_
  split
  · exact Sat.bind Sat.peek fun _ _ => Sat.bind Sat.peek fun _ _ => Sat.bind (Sat.failAt _ _) fun _ _ =>
      Sat.pure (by simp [FixSels])
  · exact Sat.bind (Sat.pSome _ _ n h) fun xs hxs => Sat.pure (fixSels_ofList xs hxs)

theorem fieldTail_sat {L : Nat} {sel : Prog Selection} (h : Sat L (FixSel sanitize) sel) (n : Nat)
    (al nm : Name) (pos : Pos) (hal : CleanB al) (hnm : CleanB nm) :
    Sat L (FixSel sanitize) (do
      let args ← parseArguments n false
      let dirs ← parseDirectives n false
      let t ← peek
      let ss ← do
        if t.kind = .braceL then parseOptionalSelectionSetWith sel n else pure Selections.nil
      pure (.field al nm args dirs ss pos)) := by
  refine Sat.bind (Sat.parseArguments n false) fun as has => Sat.bind (Sat.parseDirectives n false) fun ds hds =>
    Sat.bind Sat.peek fun t _ => ?_
  dsimp only
  split
  · exact Sat.bind (Sat.parseOptionalSelectionSetWith h n) fun ss hss =>
      Sat.pure (by simp only [FixSel]; exact ⟨hal, hnm, has, hds, hss⟩)
  · exact Sat.pure (by simp only [FixSel, FixSels]; exact ⟨hal, hnm, has, hds, trivial⟩)

theorem Sat.parseFieldWith {L : Nat} {sel : Prog Selection} (h : Sat L (FixSel sanitize) sel) (n : Nat) :
    Sat L (FixSel sanitize) (parseFieldWith sel n) := by
  unfold Gql.Parser.parseFieldWith
  refine Sat.bind Sat.peekPos fun pos _ => Sat.bind Sat.parseName fun al hal => Sat.bind (Sat.skip _) fun b _ => ?_
  dsimp only
  split
  · exact Sat.bind Sat.parseName fun nm hnm => fieldTail_sat h n al nm pos hal hnm
  · exact fieldTail_sat h n al al pos hal hal

theorem Sat.parseFragmentName {L : Nat} : Sat L CleanB parseFragmentName := by
  unfold Gql.Parser.parseFragmentName
  refine Sat.bind Sat.peek fun t _ => ?_
  split
  · exact Sat.bind Sat.unexpectedError fun _ _ => Sat.pure cleanB_nil
  · exact Sat.parseName

theorem inlineTail_sat {L : Nat} {sel : Prog Selection} (h : Sat L (FixSel sanitize) sel) (n : Nat)
    (tc : Name) (pos : Pos) (htc : CleanB tc) :
    Sat L (FixSel sanitize) (do
      let dirs ← parseDirectives n false
      let ss ← parseRequiredSelectionSetWith sel n
      pure (.inline tc dirs ss pos)) :=
  Sat.bind (Sat.parseDirectives n false) fun ds hds => Sat.bind (Sat.parseRequiredSelectionSetWith h n) fun ss hss =>
    Sat.pure (by simp only [FixSel]; exact ⟨htc, hds, hss⟩)

theorem Sat.parseFragmentWith {L : Nat} {sel : Prog Selection} (h : Sat L (FixSel sanitize) sel) (n : Nat) :
    Sat L (FixSel sanitize) (parseFragmentWith sel n) := by
  unfold Gql.Parser.parseFragmentWith
  refine Sat.bind (Sat.expect _) fun _ _ => Sat.bind Sat.peek fun pk _ => ?_
  split
  · exact Sat.bind Sat.peekPos fun _ _ => Sat.bind Sat.parseFragmentName fun nm hnm =>
      Sat.bind (Sat.parseDirectives n false) fun ds hds =>
      Sat.pure (by simp only [FixSel]; exact ⟨hnm, hds⟩)
  · refine Sat.bind Sat.peekPos fun pos _ => Sat.bind Sat.peek fun t _ => ?_
    dsimp only
    split
    · exact Sat.bind Sat.next fun _ _ => Sat.bind Sat.parseName fun tc htc => inlineTail_sat h n tc pos htc
    · exact inlineTail_sat h n [] pos cleanB_nil

theorem fixSel_default : FixSel sanitize (default : Selection) := by
  show FixSel sanitize (Selection.spread _ _ _)
  simp [FixSel, sanitize_nil]

theorem Sat.parseSelection {L : Nat} : ∀ (n : Nat), Sat L (FixSel sanitize) (parseSelection n)
  | 0 => by unfold Gql.Parser.parseSelection; exact Sat.outOfFuel fixSel_default
  | n + 1 => by
    have ih := Sat.parseSelection (L := L) n
    unfold Gql.Parser.parseSelection
    refine Sat.bind Sat.peek fun t _ => ?_
    split
    · exact Sat.parseFragmentWith ih _
    · exact Sat.parseFieldWith ih _

theorem Sat.parseRequiredSelectionSet {L : Nat} (n : Nat) : Sat L (FixSels sanitize) (parseRequiredSelectionSet n) := by
  unfold Gql.Parser.parseRequiredSelectionSet
  exact Sat.parseRequiredSelectionSetWith (Sat.parseSelection n) n

theorem cleanB_query : CleanB kwQuery := by decide
theorem cleanB_mutation : CleanB kwMutation := by decide
theorem cleanB_subscription : CleanB kwSubscription := by decide

theorem Sat.parseOperationType {L : Nat} : Sat L CleanB parseOperationType := by
  unfold Gql.Parser.parseOperationType
  refine Sat.bind Sat.next fun tok _ => ?_
  split
  · exact Sat.pure cleanB_query
  · split
    · exact Sat.pure cleanB_mutation
    · split
      · exact Sat.pure cleanB_subscription
      · exact Sat.bind (Sat.unexpectedToken _) fun _ _ => Sat.pure cleanB_nil

theorem opTail_sat {L : Nat} (n : Nat) (op : Operation) (nm : Name) (pos : Pos) (hop : CleanB op) (hnm : CleanB nm) :
    Sat L (FixOp sanitize) (do
      let vars ← parseVariableDefinitions n
      let dirs ← parseDirectives n false
      let ss ← parseRequiredSelectionSet n
      pure { op := op, name := nm, vars := vars, dirs := dirs, sel := ss, pos := pos }) :=
  Sat.bind (Sat.parseVariableDefinitions n) fun vs hvs => Sat.bind (Sat.parseDirectives n false) fun ds hds =>
    Sat.bind (Sat.parseRequiredSelectionSet n) fun ss hss => Sat.pure ⟨hop, hnm, hvs, hds, hss⟩

theorem Sat.parseOperationDefinition {L : Nat} (n : Nat) : Sat L (FixOp sanitize) (parseOperationDefinition n) := by
  unfold Gql.Parser.parseOperationDefinition
  refine Sat.bind Sat.peek fun t _ => ?_
  split
  · refine Sat.bind Sat.peekPos fun _ _ => Sat.bind (Sat.parseRequiredSelectionSet n) fun ss hss => Sat.pure ?_
    exact ⟨cleanB_query, sanitize_nil, by simp, by simp, hss⟩
  · refine Sat.bind Sat.peekPos fun pos _ => Sat.bind Sat.parseOperationType fun op hop => Sat.bind Sat.peek fun t _ => ?_
    dsimp only
    split
    · exact Sat.bind Sat.next fun tk htk => opTail_sat n op tk.value pos hop htk
    · exact opTail_sat n op [] pos hop cleanB_nil

theorem Sat.parseFragmentDefinition {L : Nat} (n : Nat) : Sat L (FixFrag sanitize) (parseFragmentDefinition n) := by
  unfold Gql.Parser.parseFragmentDefinition
  exact Sat.bind Sat.peekPos fun _ _ => Sat.bind (Sat.expectKeyword _) fun _ _ =>
    Sat.bind Sat.parseFragmentName fun nm hnm => Sat.bind (Sat.parseVariableDefinitions n) fun vs hvs =>
    Sat.bind (Sat.expectKeyword _) fun _ _ => Sat.bind Sat.parseName fun tc htc =>
    Sat.bind (Sat.parseDirectives n false) fun ds hds => Sat.bind (Sat.parseRequiredSelectionSet n) fun ss hss =>
    Sat.pure ⟨hnm, hvs, htc, hds, hss⟩

theorem fixDoc_addOp {d : QueryDoc} {o : OperationDef} (hd : FixDoc sanitize d) (ho : FixOp sanitize o) :
    FixDoc sanitize { d with ops := d.ops ++ [o] } := by
  refine ⟨?_, hd.2⟩
  intro x hx
  rcases List.mem_append.mp hx with hx | hx
  · exact hd.1 x hx
  · rw [List.mem_singleton.mp hx]; exact ho

theorem fixDoc_addFrag {d : QueryDoc} {f : FragmentDef} (hd : FixDoc sanitize d) (hf : FixFrag sanitize f) :
    FixDoc sanitize { d with frags := d.frags ++ [f] } := by
  refine ⟨hd.1, ?_⟩
  intro x hx
  rcases List.mem_append.mp hx with hx | hx
  · exact hd.2 x hx
  · rw [List.mem_singleton.mp hx]; exact hf

theorem Sat.queryDocLoop {L : Nat} (m : Nat) : ∀ (n : Nat) (doc : QueryDoc), FixDoc sanitize doc →
    Sat L (FixDoc sanitize) (queryDocLoop m n doc)
  | 0, doc, hd => by unfold Gql.Parser.queryDocLoop; exact Sat.outOfFuel hd
  | n + 1, doc, hd => by
    unfold Gql.Parser.queryDocLoop
    refine Sat.bind Sat.peek fun t _ => ?_
    split
    · refine Sat.bind Sat.hasErr fun e _ => ?_
      split
      · exact Sat.pure hd
      · refine Sat.bind Sat.peekPos fun _ _ => Sat.bind Sat.peek fun t1 _ => ?_
        split
        · refine Sat.bind Sat.peek fun t2 _ => ?_
          split
          · exact Sat.bind (Sat.parseOperationDefinition m) fun od hod =>
              Sat.queryDocLoop m n _ (fixDoc_addOp hd hod)
          · split
            · exact Sat.bind (Sat.parseFragmentDefinition m) fun fd hfd =>
                Sat.queryDocLoop m n _ (fixDoc_addFrag hd hfd)
            · exact Sat.bind Sat.unexpectedError fun _ _ => Sat.queryDocLoop m n doc hd
        · exact Sat.bind (Sat.parseOperationDefinition m) fun od hod =>
            Sat.queryDocLoop m n _ (fixDoc_addOp hd hod)
        · exact Sat.bind Sat.unexpectedError fun _ _ => Sat.queryDocLoop m n doc hd
    · exact Sat.pure hd

theorem Sat.parseQueryDocument {L : Nat} (n : Nat) : Sat L (FixDoc sanitize) (parseQueryDocument n) := by
  unfold Gql.Parser.parseQueryDocument
  exact Sat.queryDocLoop n n _ ⟨by simp, by simp⟩

/-- Whatever `ParseQuery` returns for a source whose tokens all have well-formed UTF-8 values is
    `Utf8Clean` (with or without an error on the way). -/
theorem runQuery_clean (limit : Nat) (inp : Bytes) (h : LexClean inp Cur.init) :
    Utf8Clean (runQuery limit inp).1 :=
  (Sat.parseQueryDocument (fuelFor inp) _ (SInv.init 0 inp h)).2

theorem parseQuery_clean (limit : Nat) (inp : Bytes) (d : QueryDoc) (h : LexClean inp Cur.init)
    (hp : parseQuery limit inp = .ok d) : utf8CleanB d = true := by
  have hc := runQuery_clean limit inp h
  unfold Gql.Parser.parseQuery Result.ofRun at hp
  split at hp
  · cases hp
  · split at hp
    · cases hp
    · cases hp
      exact (utf8CleanB_iff _).mpr hc

/-! ### an executable sufficient condition on the source -/

theorem lexClean_of_fixpoint {rest : Bytes} {cur : Cur} {t : Token} (hr : readToken rest cur = .tok t rest cur)
    (ht : TokClean t) : LexClean rest cur := by
  intro k
  induction k with
  | zero => trivial
  | succ k ih => simp only [LexCleanK, hr]; exact ⟨ht, ih⟩

theorem lexCleanB_sound : ∀ (n : Nat) (rest : Bytes) (cur : Cur), lexCleanB n rest cur = true → LexClean rest cur
  | 0, _, _, h => by simp [lexCleanB] at h
  | n + 1, rest, cur, h => by
    unfold lexCleanB at h
    split at h
    · rename_i e he
      intro k
      cases k with
      | zero => trivial
      | succ k => simp only [LexCleanK, he]
    · rename_i t r c hr
      simp only [Bool.and_eq_true, decide_eq_true_eq] at h
      obtain ⟨ht, h2⟩ := h
      split at h2
      · rename_i hfix
        obtain ⟨h3, h4⟩ := hfix
        subst h3; subst h4
        exact lexClean_of_fixpoint hr ht
      · have ih := lexCleanB_sound n r c h2
        intro k
        cases k with
        | zero => trivial
        | succ k => simp only [LexCleanK, hr]; exact ⟨ht, ih k⟩

theorem sourceCleanB_sound (inp : Bytes) (h : sourceCleanB inp = true) : LexClean inp Cur.init :=
  lexCleanB_sound _ _ _ h

end Gql.Parser
