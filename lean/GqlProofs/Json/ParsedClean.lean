import GqlProofs.Parser.Fuel
import GqlProofs.Json.RoundTrip
set_option linter.unusedSimpArgs false
set_option linter.unusedVariables false
/-
  The parser model puts into the tree only bytes that are token values (or constants): if every
  token the lexer model hands out has a well-formed UTF-8 value, the parsed document satisfies the
  hypothesis of the JSON round-trip theorem (C19).

  `Sat L Q p`: run from a state whose tokens (`prev`, the look-ahead) are clean and whose remaining
  input only lexes to clean tokens, the program `p` ends in such a state and its result satisfies `Q`
  (whether or not the sticky error got set on the way).
-/
namespace Gql.Parser
open Gql Gql.Lexer Gql.Json

/-- the token's value is fixed by the UTF-8 coercion of `json.Marshal` -/
def TokClean (t : Token) : Prop := sanitize t.value = t.value

/-- the next `k` tokens read from `(rest, cur)` are clean -/
def LexCleanK : Nat → Bytes → Cur → Prop
  | 0, _, _ => True
  | k + 1, rest, cur =>
    match readToken rest cur with
    | .tok t r c => TokClean t ∧ LexCleanK k r c
    | .err _ => True

/-- every token the lexer will ever hand out from `(rest, cur)` is clean -/
def LexClean (rest : Bytes) (cur : Cur) : Prop := ∀ k, LexCleanK k rest cur

theorem LexClean.step {rest : Bytes} {cur : Cur} (h : LexClean rest cur) {t : Token} {r : Bytes} {c : Cur}
    (hr : readToken rest cur = .tok t r c) : TokClean t ∧ LexClean r c := by
  constructor
  · have := h 1
    simp only [LexCleanK, hr] at this
    exact this.1
  · intro k
    have := h (k + 1)
    simp only [LexCleanK, hr] at this
    exact this.2

structure SInv (s : PState) : Prop where
  prev : TokClean s.prev
  peekTok : TokClean s.peekTok
  lex : LexClean s.rest s.cur

theorem tokClean_zero : TokClean zeroTok := by simp [TokClean, zeroTok, sanitize_nil]
theorem tokClean_invalid (e : LexErr) : TokClean (invalidTok e) := by simp [TokClean, invalidTok, sanitize_nil]

theorem SInv.init (src : Nat) (inp : Bytes) (h : LexClean inp Cur.init) : SInv (PState.init src inp) :=
  ⟨tokClean_zero, tokClean_zero, h⟩

/-! ### the state primitives keep the invariant -/

theorem SInv.lexRead {s : PState} (h : SInv s) : TokClean s.lexRead.1 ∧ SInv s.lexRead.2.2 := by
  unfold PState.lexRead
  split
  · rename_i t rest c hr
    obtain ⟨h1, h2⟩ := h.lex.step hr
    exact ⟨h1, ⟨h.prev, h.peekTok, h2⟩⟩
  · exact ⟨tokClean_invalid _, ⟨h.prev, h.peekTok, h.lex⟩⟩

theorem SInv.readPeek {s : PState} (h : SInv s) : SInv s.readPeek := by
  obtain ⟨h1, h2⟩ := h.lexRead
  exact ⟨h2.prev, h1, h2.lex⟩

theorem SInv.readPrev {s : PState} (h : SInv s) : SInv s.readPrev := by
  obtain ⟨h1, h2⟩ := h.lexRead
  exact ⟨h1, h2.peekTok, h2.lex⟩

theorem SInv.trip (L : Nat) {s : PState} (h : SInv s) : SInv (s.trip L) := ⟨h.prev, h.peekTok, h.lex⟩
theorem SInv.takePeeked {s : PState} (h : SInv s) : SInv s.takePeeked := ⟨h.peekTok, h.peekTok, h.lex⟩

theorem SInv.peekNC {s : PState} (h : SInv s) : TokClean s.peekNC.1 ∧ SInv s.peekNC.2 := by
  unfold PState.peekNC
  split
  · exact ⟨h.prev, h⟩
  · split
    · exact ⟨h.peekTok, h⟩
    · exact ⟨h.readPeek.peekTok, h.readPeek⟩

theorem SInv.nextNC (L : Nat) {s : PState} (h : SInv s) : TokClean (s.nextNC L).1 ∧ SInv (s.nextNC L).2 := by
  unfold PState.nextNC
  split
  · exact ⟨h.prev, h⟩
  · split
    · exact ⟨h.prev, h.trip L⟩
    · split
      · exact ⟨h.peekTok, h.takePeeked⟩
      · exact ⟨h.readPrev.prev, h.readPrev⟩

theorem SInv.commentLoop (L : Nat) : ∀ (n : Nat) {s : PState}, SInv s → SInv (commentLoop L n s)
  | 0, s, h => ⟨h.prev, h.peekTok, h.lex⟩
  | n + 1, s, h => by
    unfold Gql.Parser.commentLoop
    split
    · exact h
    · split
      · exact h.peekNC.2
      · exact SInv.commentLoop L n (h.peekNC.2.nextNC L).2

theorem SInv.consumeCommentGroup (L : Nat) {s : PState} (h : SInv s) : SInv (s.consumeCommentGroup L) := by
  unfold PState.consumeCommentGroup
  split
  · exact h
  · exact h.commentLoop L _

theorem SInv.groupIf (L : Nat) (t : Token) {s : PState} (h : SInv s) : SInv (s.groupIf L t) := by
  unfold PState.groupIf
  split
  · exact h.consumeCommentGroup L
  · exact h

theorem SInv.peek (L : Nat) {s : PState} (h : SInv s) : TokClean (s.peek L).1 ∧ SInv (s.peek L).2 := by
  unfold PState.peek
  split
  · exact ⟨h.prev, h⟩
  · split
    · exact ⟨h.peekTok, h⟩
    · have := h.readPeek.groupIf L s.readPeek.peekTok
      exact ⟨this.peekTok, this⟩

theorem SInv.next (L : Nat) {s : PState} (h : SInv s) : TokClean (s.next L).1 ∧ SInv (s.next L).2 := by
  unfold PState.next
  split
  · exact ⟨h.prev, h⟩
  · split
    · exact ⟨h.prev, h.trip L⟩
    · split
      · exact ⟨h.peekTok, h.takePeeked⟩
      · have := h.readPrev.groupIf L s.readPrev.prev
        exact ⟨this.prev, this⟩

theorem SInv.error {s : PState} (h : SInv s) (tok : Token) (msg : Bytes) : SInv (s.error tok msg) := by
  unfold PState.error
  split
  · exact h
  · split <;> exact ⟨h.prev, h.peekTok, h.lex⟩

/-! ### programs -/

def Sat {α : Type} (L : Nat) (Q : α → Prop) (p : Prog α) : Prop :=
  ∀ s, SInv s → SInv (run L p s).2 ∧ Q (run L p s).1

theorem Sat.pure {α : Type} {L : Nat} {Q : α → Prop} {a : α} (h : Q a) : Sat L Q (Pure.pure a : Prog α) := by
  intro s hs; exact ⟨by simpa [run] using hs, by simpa [run] using h⟩

theorem Sat.bind {α β : Type} {L : Nat} {Q1 : α → Prop} {Q : β → Prop} {p : Prog α} {f : α → Prog β}
    (h1 : Sat L Q1 p) (h2 : ∀ a, Q1 a → Sat L Q (f a)) : Sat L Q (p >>= f) := by
  intro s hs
  rw [run_bind']
  obtain ⟨hs1, hq1⟩ := h1 s hs
  exact h2 _ hq1 _ hs1

theorem Sat.mono {α : Type} {L : Nat} {Q Q' : α → Prop} {p : Prog α} (h : Sat L Q p) (hq : ∀ a, Q a → Q' a) :
    Sat L Q' p := fun s hs => ⟨(h s hs).1, hq _ (h s hs).2⟩

theorem Sat.peek {L : Nat} : Sat L TokClean peek := by
  intro s hs
  have := hs.peek L
  simpa [Gql.Parser.peek, run] using And.intro this.2 this.1

theorem Sat.next {L : Nat} : Sat L TokClean next := by
  intro s hs
  have := hs.next L
  simpa [Gql.Parser.next, run] using And.intro this.2 this.1

theorem Sat.getPrev {L : Nat} : Sat L TokClean getPrev := by
  intro s hs; simpa [Gql.Parser.getPrev, run] using And.intro hs hs.prev

theorem Sat.hasErr {L : Nat} : Sat L (fun _ => True) hasErr := by
  intro s hs; simpa [Gql.Parser.hasErr, run] using hs

theorem Sat.getSrc {L : Nat} : Sat L (fun _ => True) getSrc := by
  intro s hs; simpa [Gql.Parser.getSrc, run] using hs

theorem Sat.failAt {L : Nat} (tok : Token) (msg : Bytes) : Sat L (fun _ => True) (failAt tok msg) := by
  intro s hs; simpa [Gql.Parser.failAt, run] using hs.error tok msg

theorem Sat.outOfFuel {α : Type} {L : Nat} {Q : α → Prop} {a : α} (h : Q a) : Sat L Q (outOfFuel a) := by
  intro s hs
  refine ⟨?_, by simpa [Gql.Parser.outOfFuel, run] using h⟩
  simpa [Gql.Parser.outOfFuel, run] using (⟨hs.prev, hs.peekTok, hs.lex⟩ : SInv { s with oof := true })

end Gql.Parser
