import GqlModel.Json.Spec
set_option linter.unusedSimpArgs false
/-
  decode ∘ encode = image, level by level (C19).  `f = sanitize` throughout; the selection level is
  proved once for both discriminators (`discOf legacy`).
-/
namespace Gql.Json
open Gql

theorem sanitize_nil : sanitize [] = [] := by decide

@[simp] theorem decLink_null : decLink .null = .ok () := rfl

/-- the discriminator that goes with the `legacy` flag of the image -/
def discOf (legacy : Bool) : Disc := if legacy then legacyDisc else repairedDisc

/- ---------------- types ---------------- -/

theorem decType_encType (t : GType) : decType (encType t) = .ok (some (imgType sanitize t)) := by
  induction t with
  | named n nn p =>
    simp (config := {decide := true}) [encType, mkObj, JFields.ofList, decType, decTypeKeys, decString,
      decBool, encStr, mkType, imgType, bind, Except.bind, pure, Except.pure]
  | list e nn p ih =>
    simp (config := {decide := true}) [encType, mkObj, JFields.ofList, decType, decTypeKeys, decString,
      decBool, encStr, mkType, imgType, ih, bind, Except.bind, pure, Except.pure, sanitize_nil]

/- ---------------- values ---------------- -/

theorem decChildren_nullIfEmpty (xs : JList) : decChildren (nullIfEmpty xs) = decChildItems xs := by
  cases xs <;> simp [nullIfEmpty, decChildren, decChildItems]

mutual
  theorem decValue_encValue (v : Value) : decValue (encValue v) = .ok (some (imgValue sanitize v)) := by
    match v with
    | .mk k raw ch p =>
      have ih := decChildItems_encChildren ch
      have hk : decKind ValueKind.variable (Json.num (k.toNat : Int)) = .ok k := by
        cases k <;> rfl
      simp (config := {decide := true}) [encValue, mkObj, JFields.ofList, decValue, decValueKeys, decString,
        encStr, imgValue, decChildren_nullIfEmpty, ih, hk, bind, Except.bind, pure, Except.pure]
  theorem decChildItems_encChildren (ch : Children) :
      decChildItems (encChildren ch) = .ok (imgChildren sanitize ch) := by
    match ch with
    | .nil => simp [encChildren, decChildItems, imgChildren]
    | .cons n v p rest =>
      have ih1 := decValue_encValue v
      have ih2 := decChildItems_encChildren rest
      simp (config := {decide := true}) [encChildren, decChildItems, decChild, decChildKeys, mkObj,
        JFields.ofList, decString, encStr, imgChildren, ih1, ih2, bind, Except.bind, pure, Except.pure]
end

/- ---------------- lists of leaves ---------------- -/

theorem decElem_of_ne_null {α} (f : Json → Dec α) (j : Json) (h : j ≠ .null) : decElem f j = f j := by
  cases j <;> simp_all [decElem]

/-- a list of objects (never `null`) decodes element-wise -/
theorem decList_ofList {α β} (enc : α → Json) (dec : Json → Dec β) (img : α → β)
    (hnn : ∀ a, enc a ≠ .null) (h : ∀ a, dec (enc a) = .ok (img a)) (xs : List α) :
    decList dec (nullIfEmpty (JList.ofList (xs.map enc))) = .ok (xs.map img) := by
  have key : ∀ ys : List α,
      (JList.ofList (ys.map enc)).toList.mapM (decElem dec) = .ok (ys.map img) := by
    intro ys
    induction ys with
    | nil => simp [JList.ofList, JList.toList, pure, Except.pure]
    | cons y ys ih =>
      simp [JList.ofList, JList.toList, List.mapM_cons, decElem_of_ne_null _ _ (hnn y), h y, ih, bind,
        Except.bind, pure, Except.pure]
  cases xs with
  | nil => simp [JList.ofList, nullIfEmpty, decList]
  | cons a rest =>
    have := key (a :: rest)
    simpa [JList.ofList, nullIfEmpty, decList] using this

theorem decArgument_enc (a : Argument) : decArgument (encArgument a) = .ok (imgArg sanitize a) := by
  simp (config := {decide := true}) [encArgument, decArgument, decArgumentKeys, mkObj, JFields.ofList,
    decString, encStr, imgArg, decValue_encValue, bind, Except.bind, pure, Except.pure]

theorem decArgs_enc (as : List Argument) : decArgs (encArgs as) = .ok (as.map (imgArg sanitize)) :=
  decList_ofList encArgument decArgument (imgArg sanitize) (by intro a; simp [encArgument, mkObj])
    decArgument_enc as

theorem decDirective_enc (d : Directive) : decDirective (encDirective d) = .ok (imgDir sanitize d) := by
  simp (config := {decide := true}) [encDirective, decDirective, decDirectiveKeys, mkObj, JFields.ofList,
    decString, encStr, imgDir, decArgs_enc, bind, Except.bind, pure, Except.pure]

theorem decDirs_enc (ds : List Directive) : decDirs (encDirs ds) = .ok (ds.map (imgDir sanitize)) :=
  decList_ofList encDirective decDirective (imgDir sanitize) (by intro a; simp [encDirective, mkObj])
    decDirective_enc ds

theorem decVarDef_enc (v : VarDef) : decVarDef (encVarDef v) = .ok (imgVarDef sanitize v) := by
  have hd : decValue (encOptValue v.default) = .ok (v.default.map (imgValue sanitize)) := by
    cases h : v.default <;> simp [encOptValue, decValue, decValue_encValue]
  simp (config := {decide := true}) [encVarDef, decVarDef, decVarDefKeys, mkObj, JFields.ofList,
    decString, decBool, encStr, imgVarDef, decType_encType, hd, decDirs_enc, bind, Except.bind, pure,
    Except.pure]

theorem decVarDefs_enc (vs : List VarDef) : decVarDefs (encVarDefs vs) = .ok (vs.map (imgVarDef sanitize)) :=
  decList_ofList encVarDef decVarDef (imgVarDef sanitize) (by intro a; simp [encVarDef, mkObj])
    decVarDef_enc vs

/- ---------------- selections ---------------- -/

theorem decSelectionSet_nullIfEmpty (disc : Disc) (xs : JList) :
    decSelectionSet disc (nullIfEmpty xs) = .ok (decSelItems disc xs) := by
  cases xs <;> simp [nullIfEmpty, decSelectionSet, decSelItems]

mutual
  theorem decSelItems_cons_enc (legacy : Bool) (s : Selection) (rest : JList) :
      decSelItems (discOf legacy) (.cons (encSelection s) rest)
        = .cons (imgSel sanitize legacy s) (decSelItems (discOf legacy) rest) := by
    match s with
    | .field al nm args ds sel p =>
      have ih := decSelItems_encSelections legacy sel
      cases legacy <;>
      simp (config := {decide := true}) [encSelection, decSelItems, mkObj, JFields.ofList, discOf, legacyDisc,
        repairedDisc, JFields.hasKey, pick, consOpt, decFieldKeys, decString, encStr, decArgs_enc, decDirs_enc,
        decSelectionSet_nullIfEmpty, imgSel, FieldAcc.toSel, Except.map, bind, Except.bind, pure,
        Except.pure] <;>
      simpa [discOf] using ih
    | .spread nm ds p =>
      cases legacy <;>
      simp (config := {decide := true}) [encSelection, decSelItems, mkObj, JFields.ofList, discOf, legacyDisc,
        repairedDisc, JFields.hasKey, pick, consOpt, decFieldKeys, decSpreadKeys, spreadOf, decString, encStr,
        decDirs_enc, imgSel, FieldAcc.toSel, Except.map, bind, Except.bind, pure, Except.pure]
    | .inline tc ds sel p =>
      have ih := decSelItems_encSelections legacy sel
      cases legacy <;>
      simp (config := {decide := true}) [encSelection, decSelItems, mkObj, JFields.ofList, discOf, legacyDisc,
        repairedDisc, JFields.hasKey, pick, consOpt, decFieldKeys, decInlineKeys, decString, encStr, decDirs_enc,
        decSelectionSet_nullIfEmpty, imgSel, FieldAcc.toSel, InlineAcc.toSel, Except.map, bind, Except.bind,
        pure, Except.pure] <;>
      simpa [discOf] using ih
  theorem decSelItems_encSelections (legacy : Bool) (ss : Selections) :
      decSelItems (discOf legacy) (encSelections ss) = imgSels sanitize legacy ss := by
    match ss with
    | .nil => simp [encSelections, decSelItems, imgSels]
    | .cons s rest =>
      have ih1 := decSelItems_cons_enc legacy s (encSelections rest)
      have ih2 := decSelItems_encSelections legacy rest
      simp [encSelections, imgSels, ih1, ih2]
end

/- ---------------- definitions and the document ---------------- -/

theorem decOperation_enc (legacy : Bool) (o : OperationDef) :
    decOperation (discOf legacy) (encOperation o) = .ok (imgOp sanitize legacy o) := by
  simp (config := {decide := true}) [encOperation, decOperation, decOperationKeys, emptyOperation, mkObj,
    JFields.ofList, decString, encStr, imgOp, decVarDefs_enc, decDirs_enc, decSelectionSet_nullIfEmpty,
    decSelItems_encSelections, bind, Except.bind, pure, Except.pure]

theorem decFragment_enc (legacy : Bool) (fr : FragmentDef) :
    decFragment (discOf legacy) (encFragment fr) = .ok (imgFrag sanitize legacy fr) := by
  simp (config := {decide := true}) [encFragment, decFragment, decFragmentKeys, emptyFragment, mkObj,
    JFields.ofList, decString, encStr, imgFrag, decVarDefs_enc, decDirs_enc, decSelectionSet_nullIfEmpty,
    decSelItems_encSelections, bind, Except.bind, pure, Except.pure]

/-- decode ∘ encode is the image, for the legacy and for the repaired discriminator -/
theorem decodeWith_encode (legacy : Bool) (d : QueryDoc) :
    decodeQueryDocWith (discOf legacy) (encodeQueryDoc d) = .ok (imgDoc sanitize legacy d) := by
  have h1 := decList_ofList encOperation (decOperation (discOf legacy)) (imgOp sanitize legacy)
    (by intro a; simp [encOperation, mkObj]) (decOperation_enc legacy) d.ops
  have h2 := decList_ofList encFragment (decFragment (discOf legacy)) (imgFrag sanitize legacy)
    (by intro a; simp [encFragment, mkObj]) (decFragment_enc legacy) d.frags
  simp (config := {decide := true}) [encodeQueryDoc, decodeQueryDocWith, decDocKeys, mkObj, JFields.ofList,
    h1, h2, imgDoc, bind, Except.bind, pure, Except.pure]

theorem decode_repaired_encode (d : QueryDoc) :
    decodeQueryDocWith repairedDisc (encodeQueryDoc d) = .ok (imgDoc sanitize false d) :=
  decodeWith_encode false d

theorem decode_legacy_encode (d : QueryDoc) :
    decodeQueryDocWith legacyDisc (encodeQueryDoc d) = .ok (imgDoc sanitize true d) :=
  decodeWith_encode true d

theorem decSelItems_repaired_single (s : Selection) :
    decSelItems repairedDisc (.cons (encSelection s) .nil) = .cons (imgSel sanitize false s) .nil := by
  have h : decSelItems repairedDisc (.cons (encSelection s) .nil)
      = .cons (imgSel sanitize false s) (decSelItems repairedDisc .nil) := decSelItems_cons_enc false s .nil
  rw [h]; simp [decSelItems]

/- ---------------- strings fixed by f: the image is the stripped document ---------------- -/

theorem imgType_fix (f : Bytes → Bytes) (t : GType) (h : FixType f t) : imgType f t = imgType id t := by
  induction t with
  | named n nn p => simp_all [imgType, FixType]
  | list e nn p ih => simp_all [imgType, FixType]

mutual
  theorem imgValue_fix (f : Bytes → Bytes) (v : Value) (h : FixValue f v) : imgValue f v = imgValue id v := by
    match v with
    | .mk k raw ch p =>
      have ih := imgChildren_fix f ch
      simp_all [imgValue, FixValue]
  theorem imgChildren_fix (f : Bytes → Bytes) (ch : Children) (h : FixChildren f ch) :
      imgChildren f ch = imgChildren id ch := by
    match ch with
    | .nil => simp [imgChildren]
    | .cons n v p rest =>
      have ih1 := imgValue_fix f v
      have ih2 := imgChildren_fix f rest
      simp_all [imgChildren, FixChildren]
end

theorem imgArg_fix (f : Bytes → Bytes) (a : Argument) (h : FixArg f a) : imgArg f a = imgArg id a := by
  simp_all [imgArg, FixArg, imgValue_fix f a.value h.2]

theorem imgArgs_fix (f : Bytes → Bytes) (as : List Argument) (h : ∀ a ∈ as, FixArg f a) :
    as.map (imgArg f) = as.map (imgArg id) :=
  List.map_congr_left fun a ha => imgArg_fix f a (h a ha)

theorem imgDir_fix (f : Bytes → Bytes) (d : Directive) (h : FixDir f d) : imgDir f d = imgDir id d := by
  simp_all [imgDir, FixDir, imgArgs_fix f d.args h.2]

theorem imgDirs_fix (f : Bytes → Bytes) (ds : List Directive) (h : ∀ d ∈ ds, FixDir f d) :
    ds.map (imgDir f) = ds.map (imgDir id) :=
  List.map_congr_left fun d hd => imgDir_fix f d (h d hd)

mutual
  theorem imgSel_fix (f : Bytes → Bytes) (l : Bool) (s : Selection) (h : FixSel f s) :
      imgSel f l s = imgSel id l s := by
    match s with
    | .field al nm args ds sel p =>
      have ih := imgSels_fix f l sel
      simp only [FixSel] at h
      simp [imgSel, h.1, h.2.1, imgArgs_fix f args h.2.2.1, imgDirs_fix f ds h.2.2.2.1, ih h.2.2.2.2]
    | .spread nm ds p =>
      simp only [FixSel] at h
      simp [imgSel, h.1, imgDirs_fix f ds h.2]
    | .inline tc ds sel p =>
      have ih := imgSels_fix f l sel
      simp only [FixSel] at h
      simp [imgSel, h.1, imgDirs_fix f ds h.2.1, ih h.2.2]
  theorem imgSels_fix (f : Bytes → Bytes) (l : Bool) (ss : Selections) (h : FixSels f ss) :
      imgSels f l ss = imgSels id l ss := by
    match ss with
    | .nil => simp [imgSels]
    | .cons s rest =>
      have ih1 := imgSel_fix f l s
      have ih2 := imgSels_fix f l rest
      simp only [FixSels] at h
      simp [imgSels, ih1 h.1, ih2 h.2]
end

theorem imgVarDef_fix (f : Bytes → Bytes) (v : VarDef) (h : FixVarDef f v) : imgVarDef f v = imgVarDef id v := by
  obtain ⟨h1, h2, h3, h4⟩ := h
  have hd : v.default.map (imgValue f) = v.default.map (imgValue id) := by
    cases hv : v.default with
    | none => rfl
    | some x => simp [imgValue_fix f x (h3 x hv)]
  simp [imgVarDef, h1, imgType_fix f v.type h2, hd, imgDirs_fix f v.dirs h4]

theorem imgVarDefs_fix (f : Bytes → Bytes) (vs : List VarDef) (h : ∀ v ∈ vs, FixVarDef f v) :
    vs.map (imgVarDef f) = vs.map (imgVarDef id) :=
  List.map_congr_left fun v hv => imgVarDef_fix f v (h v hv)

theorem imgOp_fix (f : Bytes → Bytes) (l : Bool) (o : OperationDef) (h : FixOp f o) : imgOp f l o = imgOp id l o := by
  obtain ⟨h1, h2, h3, h4, h5⟩ := h
  simp [imgOp, h1, h2, imgVarDefs_fix f o.vars h3, imgDirs_fix f o.dirs h4, imgSels_fix f l o.sel h5]

theorem imgFrag_fix (f : Bytes → Bytes) (l : Bool) (fr : FragmentDef) (h : FixFrag f fr) :
    imgFrag f l fr = imgFrag id l fr := by
  obtain ⟨h1, h2, h3, h4, h5⟩ := h
  simp [imgFrag, h1, h3, imgVarDefs_fix f fr.vars h2, imgDirs_fix f fr.dirs h4, imgSels_fix f l fr.sel h5]

theorem imgDoc_fix (f : Bytes → Bytes) (l : Bool) (d : QueryDoc) (h : FixDoc f d) : imgDoc f l d = imgDoc id l d := by
  have h1 : d.ops.map (imgOp f l) = d.ops.map (imgOp id l) :=
    List.map_congr_left fun o ho => imgOp_fix f l o (h.1 o ho)
  have h2 : d.frags.map (imgFrag f l) = d.frags.map (imgFrag id l) :=
    List.map_congr_left fun fr hfr => imgFrag_fix f l fr (h.2 fr hfr)
  simp [imgDoc, h1, h2]

/- ---------------- fields only: the legacy image is the faithful one ---------------- -/

mutual
  theorem imgSel_fieldsOnly (f : Bytes → Bytes) (s : Selection) (h : fieldsOnlySel s = true) :
      imgSel f true s = imgSel f false s := by
    match s with
    | .field al nm args ds sel p =>
      have ih := imgSels_fieldsOnly f sel
      simp only [fieldsOnlySel] at h
      simp [imgSel, ih h]
    | .spread nm ds p => simp [fieldsOnlySel] at h
    | .inline tc ds sel p => simp [fieldsOnlySel] at h
  theorem imgSels_fieldsOnly (f : Bytes → Bytes) (ss : Selections) (h : fieldsOnlySels ss = true) :
      imgSels f true ss = imgSels f false ss := by
    match ss with
    | .nil => simp [imgSels]
    | .cons s rest =>
      have ih1 := imgSel_fieldsOnly f s
      have ih2 := imgSels_fieldsOnly f rest
      simp only [fieldsOnlySels, Bool.and_eq_true] at h
      simp [imgSels, ih1 h.1, ih2 h.2]
end

theorem imgDoc_fieldsOnly (f : Bytes → Bytes) (d : QueryDoc) (h : FieldsOnly d) :
    imgDoc f true d = imgDoc f false d := by
  have h1 : d.ops.map (imgOp f true) = d.ops.map (imgOp f false) :=
    List.map_congr_left fun o ho => by simp [imgOp, imgSels_fieldsOnly f o.sel (h.1 o ho)]
  have h2 : d.frags.map (imgFrag f true) = d.frags.map (imgFrag f false) :=
    List.map_congr_left fun fr hfr => by simp [imgFrag, imgSels_fieldsOnly f fr.sel (h.2 fr hfr)]
  simp [imgDoc, h1, h2]

/- ---------------- kinds ---------------- -/

mutual
  theorem selKinds_img (f : Bytes → Bytes) (s : Selection) : selKinds (imgSel f false s) = selKinds s := by
    match s with
    | .field al nm args ds sel p => simp [imgSel, selKinds, selsKinds_img f sel]
    | .spread nm ds p => simp [imgSel, selKinds]
    | .inline tc ds sel p => simp [imgSel, selKinds, selsKinds_img f sel]
  theorem selsKinds_img (f : Bytes → Bytes) (ss : Selections) : selsKinds (imgSels f false ss) = selsKinds ss := by
    match ss with
    | .nil => simp [imgSels]
    | .cons s rest => simp [imgSels, selsKinds, selKinds_img f s, selsKinds_img f rest]
end

theorem docKinds_img (f : Bytes → Bytes) (d : QueryDoc) : docKinds (imgDoc f false d) = docKinds d := by
  simp [docKinds, imgDoc, List.flatMap_map, imgOp, imgFrag, selsKinds_img]

mutual
  /-- under the legacy discriminator every selection comes back as a field -/
  theorem selKinds_img_legacy (f : Bytes → Bytes) (s : Selection) :
      ∀ k ∈ selKinds (imgSel f true s), k = SelKind.field := by
    match s with
    | .field al nm args ds sel p =>
      have ih := selsKinds_img_legacy f sel
      intro k hk
      simp [imgSel, selKinds] at hk
      rcases hk with hk | hk
      · exact hk
      · exact ih k hk
    | .spread nm ds p => simp [imgSel, selKinds, selsKinds]
    | .inline tc ds sel p =>
      have ih := selsKinds_img_legacy f sel
      intro k hk
      simp [imgSel, selKinds] at hk
      rcases hk with hk | hk
      · exact hk
      · exact ih k hk
  theorem selsKinds_img_legacy (f : Bytes → Bytes) (ss : Selections) :
      ∀ k ∈ selsKinds (imgSels f true ss), k = SelKind.field := by
    match ss with
    | .nil => simp [imgSels, selsKinds]
    | .cons s rest =>
      have ih1 := selKinds_img_legacy f s
      have ih2 := selsKinds_img_legacy f rest
      intro k hk
      simp [imgSels, selsKinds] at hk
      rcases hk with hk | hk
      · exact ih1 k hk
      · exact ih2 k hk
end

/- ---------------- the decision procedure decides `Fix…` ---------------- -/

theorem fixTypeB_iff (f : Bytes → Bytes) (t : GType) : fixTypeB f t = true ↔ FixType f t := by
  induction t with
  | named n nn p => simp [fixTypeB, FixType]
  | list e nn p ih => simpa [fixTypeB, FixType] using ih

mutual
  theorem fixValueB_iff (f : Bytes → Bytes) (v : Value) : fixValueB f v = true ↔ FixValue f v := by
    match v with
    | .mk k raw ch p =>
      have ih := fixChildrenB_iff f ch
      simp [fixValueB, FixValue, ih]
  theorem fixChildrenB_iff (f : Bytes → Bytes) (ch : Children) : fixChildrenB f ch = true ↔ FixChildren f ch := by
    match ch with
    | .nil => simp [fixChildrenB, FixChildren]
    | .cons n v p rest =>
      have ih1 := fixValueB_iff f v
      have ih2 := fixChildrenB_iff f rest
      simp [fixChildrenB, FixChildren, ih1, ih2]
end

theorem fixArgB_iff (f : Bytes → Bytes) (a : Argument) : fixArgB f a = true ↔ FixArg f a := by
  simp [fixArgB, FixArg, fixValueB_iff]

theorem fixArgsB_iff (f : Bytes → Bytes) (as : List Argument) : as.all (fixArgB f) = true ↔ ∀ a ∈ as, FixArg f a := by
  simp [List.all_eq_true, fixArgB_iff]

theorem fixDirB_iff (f : Bytes → Bytes) (d : Directive) : fixDirB f d = true ↔ FixDir f d := by
  simp only [fixDirB, FixDir, Bool.and_eq_true, decide_eq_true_eq, fixArgsB_iff]

theorem fixDirsB_iff (f : Bytes → Bytes) (ds : List Directive) : ds.all (fixDirB f) = true ↔ ∀ d ∈ ds, FixDir f d := by
  simp [List.all_eq_true, fixDirB_iff]

mutual
  theorem fixSelB_iff (f : Bytes → Bytes) (s : Selection) : fixSelB f s = true ↔ FixSel f s := by
    match s with
    | .field al nm args ds sel p =>
      have ih := fixSelsB_iff f sel
      simp only [fixSelB, FixSel, Bool.and_eq_true, decide_eq_true_eq, fixArgsB_iff, fixDirsB_iff, ih]
    | .spread nm ds p =>
      simp only [fixSelB, FixSel, Bool.and_eq_true, decide_eq_true_eq, fixDirsB_iff]
    | .inline tc ds sel p =>
      have ih := fixSelsB_iff f sel
      simp only [fixSelB, FixSel, Bool.and_eq_true, decide_eq_true_eq, fixDirsB_iff, ih]
  theorem fixSelsB_iff (f : Bytes → Bytes) (ss : Selections) : fixSelsB f ss = true ↔ FixSels f ss := by
    match ss with
    | .nil => simp [fixSelsB, FixSels]
    | .cons s rest =>
      have ih1 := fixSelB_iff f s
      have ih2 := fixSelsB_iff f rest
      simp only [fixSelsB, FixSels, Bool.and_eq_true, ih1, ih2]
end

theorem fixVarDefB_iff (f : Bytes → Bytes) (v : VarDef) : fixVarDefB f v = true ↔ FixVarDef f v := by
  have hd : fixOptValueB f v.default = true ↔ ∀ x, v.default = some x → FixValue f x := by
    cases v.default with
    | none => simp [fixOptValueB]
    | some x => simp [fixOptValueB, fixValueB_iff]
  simp only [fixVarDefB, FixVarDef, Bool.and_eq_true, decide_eq_true_eq, fixTypeB_iff, hd, fixDirsB_iff]

theorem fixOpB_iff (f : Bytes → Bytes) (o : OperationDef) : fixOpB f o = true ↔ FixOp f o := by
  have hv : o.vars.all (fixVarDefB f) = true ↔ ∀ v ∈ o.vars, FixVarDef f v := by
    simp [List.all_eq_true, fixVarDefB_iff]
  simp only [fixOpB, FixOp, Bool.and_eq_true, decide_eq_true_eq, hv, fixDirsB_iff, fixSelsB_iff]

theorem fixFragB_iff (f : Bytes → Bytes) (fr : FragmentDef) : fixFragB f fr = true ↔ FixFrag f fr := by
  have hv : fr.vars.all (fixVarDefB f) = true ↔ ∀ v ∈ fr.vars, FixVarDef f v := by
    simp [List.all_eq_true, fixVarDefB_iff]
  simp only [fixFragB, FixFrag, Bool.and_eq_true, decide_eq_true_eq, hv, fixDirsB_iff, fixSelsB_iff]

theorem fixDocB_iff (f : Bytes → Bytes) (d : QueryDoc) : fixDocB f d = true ↔ FixDoc f d := by
  simp [fixDocB, FixDoc, List.all_eq_true, fixOpB_iff, fixFragB_iff]

theorem utf8CleanB_iff (d : QueryDoc) : utf8CleanB d = true ↔ Utf8Clean d := fixDocB_iff sanitize d

instance (d : QueryDoc) : Decidable (Utf8Clean d) := decidable_of_iff _ (utf8CleanB_iff d)

/- ---------------- addressing: the image commutes with `selAt` ---------------- -/

theorem nth?_imgSels (f : Bytes → Bytes) (l : Bool) :
    ∀ (ss : Selections) (i : Nat), nth? (imgSels f l ss) i = (nth? ss i).map (imgSel f l)
  | .nil, i => by simp [imgSels, nth?]
  | .cons s rest, 0 => by simp [imgSels, nth?]
  | .cons s rest, i + 1 => by simpa [imgSels, nth?] using nth?_imgSels f l rest i

theorem subsOf_imgSel (f : Bytes → Bytes) (s : Selection) :
    subsOf (imgSel f false s) = imgSels f false (subsOf s) := by
  cases s <;> simp [imgSel, subsOf, imgSels]

theorem kindOf_imgSel (f : Bytes → Bytes) (s : Selection) : kindOf (imgSel f false s) = kindOf s := by
  cases s <;> simp [imgSel, kindOf]

theorem selAt_imgSels (f : Bytes → Bytes) (path : List Nat) :
    ∀ (ss : Selections) (i : Nat),
      selAt (imgSels f false ss) i path = (selAt ss i path).map (imgSel f false) := by
  induction path with
  | nil => intro ss i; simp [selAt, nth?_imgSels]
  | cons j path ih =>
    intro ss i
    simp only [selAt, nth?_imgSels]
    cases h : nth? ss i with
    | none => simp
    | some s => simp [subsOf_imgSel, ih]

theorem docRoot_imgDoc (f : Bytes → Bytes) (d : QueryDoc) (r : Root) :
    docRoot (imgDoc f false d) r = (docRoot d r).map (imgSels f false) := by
  cases r with
  | op i =>
    simp only [docRoot, imgDoc, List.getElem?_map]
    cases d.ops[i]? <;> simp [imgOp]
  | frag i =>
    simp only [docRoot, imgDoc, List.getElem?_map]
    cases d.frags[i]? <;> simp [imgFrag]

theorem docSelAt_imgDoc (f : Bytes → Bytes) (d : QueryDoc) (r : Root) (i : Nat) (path : List Nat) :
    docSelAt (imgDoc f false d) r i path = (docSelAt d r i path).map (imgSel f false) := by
  simp only [docSelAt, docRoot_imgDoc]
  cases docRoot d r with
  | none => simp
  | some ss => simp [selAt_imgSels]

/- ---------------- ASCII strings are fixed by the coercion ---------------- -/

theorem sanitizeFuel_ascii : ∀ (fuel : Nat) (bs : Bytes), bs.length ≤ fuel → (∀ x ∈ bs, x < 128) →
    sanitizeFuel fuel bs = bs
  | 0, bs, hl, _ => by
    have : bs = [] := List.length_eq_zero_iff.mp (Nat.le_zero.mp hl)
    subst this; simp [sanitizeFuel]
  | fuel + 1, [], _, _ => by simp [sanitizeFuel]
  | fuel + 1, b :: rest, hl, ha => by
    have hb : b < 128 := ha b (by simp)
    have ih := sanitizeFuel_ascii fuel rest (by simpa using hl) (fun x hx => ha x (by simp [hx]))
    have hd : decodeRune (b :: rest) = (b, 1) := by simp [decodeRune]; omega
    have hne : b ≠ runeError := by simp [runeError]; omega
    simp [sanitizeFuel, hd, hne, ih]

theorem sanitize_ascii (b : Bytes) (h : ∀ x ∈ b, x < 128) : sanitize b = b :=
  sanitizeFuel_ascii b.length b (Nat.le_refl _) h

/- ---------------- zeroing positions is idempotent ---------------- -/

theorem imgType_idem (t : GType) : imgType id (imgType id t) = imgType id t := by
  induction t with
  | named n nn p => simp [imgType]
  | list e nn p ih => simp [imgType, ih]

mutual
  theorem imgValue_idem (v : Value) : imgValue id (imgValue id v) = imgValue id v := by
    match v with
    | .mk k raw ch p => simp [imgValue, imgChildren_idem ch]
  theorem imgChildren_idem (ch : Children) : imgChildren id (imgChildren id ch) = imgChildren id ch := by
    match ch with
    | .nil => simp [imgChildren]
    | .cons n v p rest => simp [imgChildren, imgValue_idem v, imgChildren_idem rest]
end

theorem imgArg_idem (a : Argument) : imgArg id (imgArg id a) = imgArg id a := by
  simp [imgArg, imgValue_idem]

theorem imgArgs_idem (as : List Argument) : (as.map (imgArg id)).map (imgArg id) = as.map (imgArg id) := by
  simp [List.map_map, Function.comp_def, imgArg_idem]

theorem imgDir_idem (d : Directive) : imgDir id (imgDir id d) = imgDir id d := by
  simp [imgDir, imgArg_idem]

theorem imgDirs_idem (ds : List Directive) : (ds.map (imgDir id)).map (imgDir id) = ds.map (imgDir id) := by
  simp [List.map_map, Function.comp_def, imgDir_idem]

mutual
  theorem imgSel_idem (s : Selection) : imgSel id false (imgSel id false s) = imgSel id false s := by
    match s with
    | .field al nm args ds sel p => simp [imgSel, imgArg_idem, imgDir_idem, imgSels_idem sel]
    | .spread nm ds p => simp [imgSel, imgDir_idem]
    | .inline tc ds sel p => simp [imgSel, imgDir_idem, imgSels_idem sel]
  theorem imgSels_idem (ss : Selections) : imgSels id false (imgSels id false ss) = imgSels id false ss := by
    match ss with
    | .nil => simp [imgSels]
    | .cons s rest => simp [imgSels, imgSel_idem s, imgSels_idem rest]
end

theorem imgVarDef_idem (v : VarDef) : imgVarDef id (imgVarDef id v) = imgVarDef id v := by
  have hd : (v.default.map (imgValue id)).map (imgValue id) = v.default.map (imgValue id) := by
    cases v.default <;> simp [imgValue_idem]
  simp [imgVarDef, imgType_idem, hd, imgDir_idem]

theorem imgVarDefs_idem (vs : List VarDef) : (vs.map (imgVarDef id)).map (imgVarDef id) = vs.map (imgVarDef id) := by
  simp [List.map_map, Function.comp_def, imgVarDef_idem]

theorem stripDoc_idem (d : QueryDoc) : stripDoc (stripDoc d) = stripDoc d := by
  have ho : ∀ o : OperationDef, imgOp id false (imgOp id false o) = imgOp id false o := by
    intro o; simp [imgOp, imgVarDef_idem, imgDir_idem, imgSels_idem]
  have hf : ∀ fr : FragmentDef, imgFrag id false (imgFrag id false fr) = imgFrag id false fr := by
    intro fr; simp [imgFrag, imgVarDef_idem, imgDir_idem, imgSels_idem]
  simp [stripDoc, imgDoc, List.map_map, Function.comp_def, ho, hf]

/- ---------------- any selection object: its kind is decided by its keys ---------------- -/

theorem decSelItems_obj_kind (kvs : JFields) (s : Selection) (rest : Selections)
    (h : decSelItems currentDisc (.cons (.obj kvs) .nil) = .cons s rest) :
    rest = .nil ∧
    kindOf s = (if kvs.hasKey kAlias then SelKind.field
                else if kvs.hasKey kTypeCondition then SelKind.inline else SelKind.spread) := by
  by_cases hA : kvs.hasKey kAlias = true
  · cases hf : decFieldKeys repairedDisc kvs {} with
    | error e => simp [decSelItems, currentDisc, repairedDisc, hA, pick, consOpt, hf, Except.map] at h
    | ok a =>
      simp [decSelItems, currentDisc, repairedDisc, hA, pick, consOpt, hf, Except.map] at h
      obtain ⟨h1, h2⟩ := h
      subst h1
      exact ⟨h2.symm, by simp [hA, FieldAcc.toSel, kindOf]⟩
  · by_cases hT : kvs.hasKey kTypeCondition = true
    · cases hf : decInlineKeys repairedDisc kvs {} with
      | error e => simp [decSelItems, currentDisc, repairedDisc, hA, hT, pick, consOpt, hf, Except.map] at h
      | ok a =>
        simp [decSelItems, currentDisc, repairedDisc, hA, hT, pick, consOpt, hf, Except.map] at h
        obtain ⟨h1, h2⟩ := h
        subst h1
        exact ⟨h2.symm, by simp [hA, hT, InlineAcc.toSel, kindOf]⟩
    · cases hf : decSpreadKeys kvs ([], []) with
      | error e => simp [decSelItems, currentDisc, repairedDisc, hA, hT, pick, consOpt, hf, Except.map] at h
      | ok a =>
        simp [decSelItems, currentDisc, repairedDisc, hA, hT, pick, consOpt, hf, Except.map] at h
        obtain ⟨h1, h2⟩ := h
        subst h1
        exact ⟨h2.symm, by simp [hA, hT, spreadOf, kindOf]⟩

end Gql.Json
