import GqlModel.Effects
/- the commutation argument behind C11_interleaving_equiv -/
namespace Gql.Effects

variable {σ ρ : Type}

theorem applyWrites_other (h : Heap) (ws : List Write) (l : Loc) (hl : ∀ w ∈ ws, w.1 ≠ l) :
    applyWrites h ws l = h l := by
  induction ws generalizing h with
  | nil => rfl
  | cons w rest ih =>
    obtain ⟨l', v⟩ := w
    have h1 : l' ≠ l := hl (l', v) (List.mem_cons_self ..)
    have h2 : ∀ w ∈ rest, w.1 ≠ l := fun w hw => hl w (List.mem_cons_of_mem _ hw)
    simp only [applyWrites]
    rw [ih _ h2]
    simp [Ne.symm h1]

/-- writes applied to two heaps that agree on a location give heaps that agree on it -/
theorem applyWrites_congr (h h' : Heap) (ws : List Write) (l : Loc) (e : h l = h' l) :
    applyWrites h ws l = applyWrites h' ws l := by
  induction ws generalizing h h' with
  | nil => exact e
  | cons w rest ih =>
    obtain ⟨l', v⟩ := w
    simp only [applyWrites]
    apply ih
    by_cases hl : l = l' <;> simp [hl, e]

theorem owns_not_readable_other {i k : Nat} (hik : k ≠ i) {l : Loc} (h : owns k l) : ¬ readable i l := by
  intro hr
  rcases h with h | h | h <;> rcases hr with hr | hr | hr | hr <;> rw [h] at hr <;>
    first
      | exact Owner.noConfusion hr
      | (injection hr with e; exact hik e)

theorem owns_not_schema {k : Nat} {l : Loc} (h : owns k l) : l.owner ≠ .schema := by
  rcases h with h | h | h <;> rw [h] <;> intro e <;> exact Owner.noConfusion e

/-- Lemma A: the same step from configurations that look the same to `i` -/
theorem stepCall_agree (calls : Nat → Call σ ρ) (i : Nat) (hd : Disciplined i (calls i))
    (c c' : Config σ) (ha : Agree i c c') : Agree i (stepCall calls i c) (stepCall calls i c') := by
  obtain ⟨hst, hheap⟩ := ha
  have hstep : (calls i).step (c.st i) c.heap = (calls i).step (c'.st i) c'.heap := by
    rw [hst]; exact hd.reads _ _ _ hheap
  unfold stepCall
  rw [← hstep]
  cases hs : (calls i).step (c.st i) c.heap with
  | none => exact ⟨hst, hheap⟩
  | some r =>
    obtain ⟨s', ws⟩ := r
    refine ⟨by simp [setSt], ?_⟩
    intro l hl
    exact applyWrites_congr _ _ ws l (hheap l hl)

/-- Lemma B: a step of another call is invisible to `i` -/
theorem stepCall_other (calls : Nat → Call σ ρ) (i k : Nat) (hik : k ≠ i) (hd : Disciplined k (calls k))
    (c : Config σ) : Agree i (stepCall calls k c) c := by
  unfold stepCall
  cases hs : (calls k).step (c.st k) c.heap with
  | none => exact ⟨rfl, fun _ _ => rfl⟩
  | some r =>
    obtain ⟨s', ws⟩ := r
    refine ⟨by simp [setSt, Ne.symm hik], ?_⟩
    intro l hl
    apply applyWrites_other
    intro w hw e
    exact owns_not_readable_other hik (e ▸ hd.writes _ _ _ _ hs w hw) hl

theorem Agree.trans {i : Nat} {a b c : Config σ} (h1 : Agree i a b) (h2 : Agree i b c) : Agree i a c :=
  ⟨h1.1.trans h2.1, fun l hl => (h1.2 l hl).trans (h2.2 l hl)⟩

theorem Agree.refl (i : Nat) (a : Config σ) : Agree i a a := ⟨rfl, fun _ _ => rfl⟩

/-- the interleaved run and the solo run look the same to `i`, from any pair of configurations
    that look the same to `i` -/
theorem run_agree_alone (calls : Nat → Call σ ρ) (hd : ∀ k, Disciplined k (calls k)) (i : Nat)
    (sched : List Nat) : ∀ c c' : Config σ, Agree i c c' →
      Agree i (run calls sched c) (runAlone calls i (sched.count i) c') := by
  induction sched with
  | nil => intro c c' h; simpa [run, runAlone] using h
  | cons k ks ih =>
    intro c c' h
    by_cases hk : k = i
    · subst hk
      have h' := stepCall_agree calls k (hd k) c c' h
      have := ih _ _ h'
      simpa [run, runAlone, List.count_cons_self, List.replicate_succ] using this
    · have h' : Agree i (stepCall calls k c) c' := (stepCall_other calls i k hk (hd k) c).trans h
      have := ih _ _ h'
      have hc : (k :: ks).count i = ks.count i := by
        simp [List.count_cons, hk]
      simpa [run, hc] using this

/-- no step writes a schema location -/
theorem stepCall_schema (calls : Nat → Call σ ρ) (k : Nat) (hd : Disciplined k (calls k)) (c : Config σ)
    (l : Loc) (hl : l.owner = .schema) : (stepCall calls k c).heap l = c.heap l := by
  unfold stepCall
  cases hs : (calls k).step (c.st k) c.heap with
  | none => rfl
  | some r =>
    obtain ⟨s', ws⟩ := r
    apply applyWrites_other
    intro w hw e
    exact owns_not_schema (hd.writes _ _ _ _ hs w hw) (e ▸ hl)

theorem run_schema (calls : Nat → Call σ ρ) (hd : ∀ k, Disciplined k (calls k)) (sched : List Nat) :
    ∀ c : Config σ, ∀ l : Loc, l.owner = .schema → (run calls sched c).heap l = c.heap l := by
  induction sched with
  | nil => intro c l _; rfl
  | cons k ks ih =>
    intro c l hl
    simp only [run]
    rw [ih _ l hl, stepCall_schema calls k (hd k) c l hl]

end Gql.Effects
