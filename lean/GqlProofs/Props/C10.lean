import GqlProofs.Gen.Accounted
import GqlProofs.Validate.Determinism
/-
  C10 — validation is deterministic and repeatable (model side).

  The model of `Validate` is a function; the only places where the Go code's result could depend
  on an order that the language leaves open are (i) `for … range` over a Go map and (ii)
  `sort.Slice` (unstable).  In the modelled code these are:
    * `known_type_names.go`: ranges over `Schema.Types` to collect the suggestion options;
    * `suggestionList.go`: `sort.Slice` of the options by distance (ties!).
  All other map uses are look-ups by key.  The model represents the schema's maps as association
  lists and reads them only through `Schema.view`: look-ups, plus ONE list derived from a map —
  `SV.typeNames`, consumed through `sortNames`, a sort by a total order.
-/
open Gql Gql.Validate Gql.Validate.Rules

/-- the comparator through which the only map-derived list is consumed is a total order -/
theorem C10_typeNames_comparator_total_order :
    (∀ a b : Bytes, (bytesLe a b || bytesLe b a) = true) ∧
    (∀ a b c : Bytes, bytesLe a b = true → bytesLe b c = true → bytesLe a c = true) ∧
    (∀ a b : Bytes, bytesLe a b = true → bytesLe b a = true → a = b) :=
  ⟨bytesLe_total, bytesLe_trans, bytesLe_antisymm⟩

/-- `suggestionList` applied to bytewise-sorted options (what the model of KnownTypeNames does,
    and what the R10 repair makes the Go code do) is invariant under permutation of the options -/
theorem C10_suggestions_stable (input : Bytes) (options options' : List Bytes) (h : options.Perm options') :
    suggestionList input (sortNames options) = suggestionList input (sortNames options') := by
  rw [sortNames_perm h]

/-- without the pre-sort, `suggestionList` (a stable sort by distance) is invariant under
    permutation of the options exactly as far as there are no ties: if equal distance implies
    equal option, the result does not depend on the order of the options -/
theorem C10_suggestions_perm_no_ties (input : Bytes) (options options' : List Bytes) (h : options.Perm options')
    (noTies : ∀ a ∈ options, ∀ b ∈ options, lexicalDistance input a = lexicalDistance input b → a = b) :
    suggestionList input options = suggestionList input options' := by
  unfold suggestionList
  apply stableSort_eq_of_perm
  · intro a b c h1 h2
    simp only [decide_eq_true_eq] at *
    exact Nat.le_trans h1 h2
  · intro a b
    simp only [Bool.or_eq_true, decide_eq_true_eq]
    exact Nat.le_total _ _
  · intro a b ha hb h1 h2
    simp only [decide_eq_true_eq] at h1 h2
    exact noTies a (List.mem_filter.1 ha).1 b (List.mem_filter.1 hb).1 (Nat.le_antisymm h1 h2)
  · exact h.filter _

/-- ties are real: with two options at the same distance the unsorted result follows the input
    order (this is the order dependence R10 exhibits in the Go code, where the input order is a
    map iteration order) -/
theorem C10_suggestions_order_dependent_counterexample :
    ¬ ∀ (input : Bytes) (options options' : List Bytes), options.Perm options' →
        suggestionList input options = suggestionList input options' := by
  intro h
  have := h (str "Dag") [str "Dog", str "Dig"] [str "Dig", str "Dog"] (List.Perm.swap _ _ _)
  revert this
  decide

/-- the view the validator reads does not depend on the order of the maps -/
theorem C10_view_order_irrelevant (s s' : Schema) (h : SameMaps s s') : s.view = s'.view := by
  unfold Schema.view
  have e1 : s.type? = s'.type? := by
    funext n; exact lookup_perm n h.types h.typeKeys
  have e2 : s.directive? = s'.directive? := by
    funext n; exact lookup_perm n h.directives h.directiveKeys
  have e3 : s.possible = s'.possible := by
    funext n; unfold Schema.possible; rw [lookup_perm n h.possibleTypes h.possibleKeys]
  have e4 : sortNames (s.types.map (·.2.name)) = sortNames (s'.types.map (·.2.name)) :=
    sortNames_perm (h.types.map _)
  rw [h.query, h.mutation, h.subscription, e1, e2, e3, e4]

/-- Determinism: `validate` takes no order oracle — its result is a function of the rule list,
    the document and the schema *as a collection of maps*: permuting the association lists that
    represent `Schema.Types`, `Schema.Directives` and `Schema.PossibleTypes` changes nothing
    (errors, their order, messages — suggestions included — and locations). -/
theorem C10_validate_deterministic (rs : List Rule) (s s' : Schema) (d : QueryDoc) (h : SameMaps s s') :
    validate rs s d = validate rs s' d := by
  unfold validate
  rw [C10_view_order_irrelevant s s' h]

/-- non-vacuity: `SameMaps` relates a schema to a genuinely reordered copy -/
example : SameMaps
    { Schema.empty with types := [(str "A", default), (str "B", default)] }
    { Schema.empty with types := [(str "B", default), (str "A", default)] } :=
  { query := rfl, mutation := rfl, subscription := rfl, types := List.Perm.swap _ _ _, typeKeys := by decide,
    directives := List.Perm.refl _, directiveKeys := by decide, possibleTypes := List.Perm.refl _, possibleKeys := by decide }

#print axioms C10_typeNames_comparator_total_order
#print axioms C10_suggestions_stable
#print axioms C10_suggestions_perm_no_ties
#print axioms C10_suggestions_order_dependent_counterexample
#print axioms C10_view_order_irrelevant
#print axioms C10_validate_deterministic

/-! ### facts regenerated from /repo's sources on every run (GqlModel/Gen/Facts.lean) -/

/-- Every `range` over a map and every reflect MapKeys/MapRange in the library's non-test code is
    one of the classified sites of `Gen.accountedMapRanges` (none is order-relevant for a result). -/
theorem C10_gen_map_ranges_accounted :
    ∀ s ∈ Gql.Gen.mapRanges, (Gql.Gen.accountedMapRanges.lookup s).isSome := by decide

/-- Every call into package sort is a deterministic one (Strings / SliceStable): no unstable sort. -/
theorem C10_gen_sorts_stable :
    ∀ s ∈ Gql.Gen.sortCalls, s.2 ∈ Gql.Gen.stableSortFuncs := by decide
