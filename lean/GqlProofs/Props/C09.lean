import GqlProofs.ValSpec.Spreads
import GqlProofs.ValSpec.LeafFrag
import GqlProofs.ValSpec.DefDirs
import GqlProofs.ValSpec.LinkWitness
import GqlProofs.ValSpec.DumpLine
import GqlProofs.Props.C08
import GqlModel.Validate.Spec.Links
/-
  C09 — validated documents are completely and correctly linked.

  The specification side is `Spec.linksComplete s d dump` (`GqlModel/Validate/Spec/Links.lean`): every
  node of the document carries the links that the declarative typing demands; the check
  `vcheck -prop C09` judges the link dump of the REAL walker with it (op `linkscheck`).

  Proved here for the walker model, for the link kinds that do not depend on the parent type of
  the node (so without `walk_parent_type`), and for ALL documents, valid or not:
    C09_links_correct_partial     whenever one of these links is set it is the one the spec demands:
                                  spread → fragment definition of that name, variable definition →
                                  definition of its named type, fragment definition → definition of
                                  its type condition, directive → directive definition of that name
    C09_spreads_linked            every spread written in the document has been linked (has an event)
    C09_fragment_definitions_linked   every fragment definition has been linked

    C09_field_links_correct       (through `walk_parent_type`, for well-parented documents — every
                                  document that validates is one) every field event carries the
                                  declarative parent type of its node and the definition of the
                                  field on that type, and every field node has such an event
    C09_directive_links_correct   every directive written in the document is linked to the definition
                                  of its name and to the location it is written at
    C09_fragment_definition_directives_walked_per_operation
                                  for every operation and every spread written in its selection set
                                  whose fragment exists, the directives of the fragment DEFINITION
                                  are walked on behalf of that operation (events with
                                  `CurrentOperation` = the operation, location FRAGMENT_DEFINITION,
                                  parent = definition of the type condition) — this is what links
                                  the variables used there to the operation's variable definitions

    C09_value_links_correct       (a) the value events of a run are exactly the value nodes the
                                  specification lists, with the expected type and definition it
                                  demands (list items, input-object fields, list-coerced single
                                  values, custom-scalar contents excepted, variable defaults)
    C09_variable_use_links_correct (b) `Value.VariableDefinition`: own event, last write wins (which
                                  operation wins when a fragment is shared — the C15 finding), never
                                  written, every use in the scope of an operation is walked on its
                                  behalf (fragments reached transitively included);
    C09_variable_use_links_agreeing   one operation / identically declaring operations
    C09_variable_definition_links_correct (c)
    C09_inline_fragment_link_is_parent, C09_inline_fragment_link_counterexample (d) the known finding
    C09_links_correct             (e) the capstone: `Spec.expectedLinks` is the rendering of the
                                  structured demands `docDemands`; for a valid document on a closed
                                  schema every demand is met by an event, every variable use shows an
                                  admissible candidate, and every demanded link is present
    C09_expected_links_met        (e) in the terms of `linkscheck`: every expected link has an event
                                  whose dump line (`Event.linkFields`, printed by `Event.linkLine`)
                                  carries its start, kind and every demanded field
    C09_untyped_values_only_in_custom_scalars   under ValuesOfCorrectType the only values without a
                                  demanded expected type are the contents of custom-scalar literals
    C09_default_rule_reports_nothing, C09_link_rules_of_valid   validity → the rule predicates used
  Proof files: `GqlProofs/ValSpec/{ValueLinks,Built,Reach,VarLinks,ValueDoc,VarUses,Demands,Capstone,
  ReachSpec,VarCands,Present,CustomScalar,DumpLine,LinkWitness}.lean`.

  What is still NOT proved (kept as the goal):
    C09_links_complete : Closed s → validate defaultRules s d = .ok [] →
        Spec.linksComplete s d (linkDump evs) = true
  It is FALSE as it stands for the current tree — an inline fragment carries the ENCLOSING type, not
  its type condition's definition (`link-wrong:inlineFragment:obj`, reported by the check on the real
  walker: known finding).  Apart from that finding, what separates `C09_links_correct` from it is
  (1) the string layer: `linkDump` prints one line per node and `linkscheck` parses it again (the
  theorem is about the events and the structured demands on both sides of that printing);
  (2) node identity: the dump keeps the LAST event of every (start offset, kind) — the theorem gives
  an event about the very node; that all events about one node carry the same context-determined
  link needs "distinct nodes start at distinct offsets", which only the variable-use theorems state
  (`VarStartsDistinct`, `FragPosDistinct`); for `Value.VariableDefinition`, the one link that is not
  context-determined, the final state is described exactly by `C09_variable_use_links_correct`;
  (3) `Spec.wellParented`, KnownRootType and KnownTypeNames are hypotheses, not yet consequences of
  `validate … = .ok []` (no C08 equivalence for these rules yet).
  END TO END (bottom of this file): `C09_known_root_type_of_valid`, `C09_known_type_names_of_valid`
  discharge the two named hypotheses from validity (the C08 equivalences exist now);
  `C09_links_correct_parsed_loaded` is the capstone for a document PARSED from a source text against
  a schema that `load` returned: operation kinds, distinct fragment positions (parser), closedness and
  the `String` type (loader) are discharged; what is left is validity, `Spec.wellParented`, the
  prelude being part of the schema document (the former non-object-root hypothesis is an invariant of
  `load` since the repair of the root kinds).
  `C09_wellParented_of_valid` then derives `Spec.wellParented` from validity, and
  `C09_links_correct_sources` is the statement over schema and query SOURCE TEXTS with nothing left but
  the prelude.
-/
open Gql Gql.Validate Gql.Validate.Rules

/-- the link carried by an event is the one `Spec.expectedLinks` demands (context-free link kinds) -/
def LinkSound (s : Schema) (d : QueryDoc) : Payload → Prop
  | .fragmentSpread f dfn _ => dfn = Spec.fragByName d f.name
  | .variable v dfn => dfn = s.type? v.type.name
  | .fragment f dfn => dfn = s.type? f.typeCond
  | .directive dir dfn _ _ => dfn = s.directive? dir.name
  | _ => True

theorem linkSound_docSites (s : Schema) (d : QueryDoc) : DocSites s.view d (fun _ => True) (LinkSound s d) :=
  { value := fun _ _ _ => trivial, directive := fun _ _ _ => rfl, directiveList := fun _ => trivial,
    field := fun _ _ _ => trivial, inline := fun _ _ => trivial, spread := fun _ _ _ => rfl,
    frags := fun _ _ _ _ => trivial, ops := fun _ _ _ _ => trivial,
    varDef := fun _ => rfl, operation := fun _ _ _ => trivial, fragment := fun _ _ => rfl }

/-- whenever a spread / variable-definition / fragment-definition / directive link is set, it is
    the right one — for every document, valid or not -/
theorem C09_links_correct_partial (s : Schema) (d : QueryDoc) (evs : List Event)
    (h : walkDoc s.view d = some evs) : ∀ e ∈ evs, LinkSound s d e.p :=
  walkDoc_all (linkSound_docSites s d) evs h

/-- every spread written in the document is reached by the walker and carries the fragment
    definition of its name (`none` exactly when there is no such fragment) -/
theorem C09_spreads_linked (s : Schema) (d : QueryDoc) (evs : List Event) (h : walkDoc s.view d = some evs) :
    ∀ n ∈ Spec.allSpreadNames d, ∃ e ∈ evs, ∃ f par, e.p = .fragmentSpread f (Spec.fragByName d n) par ∧ f.name = n :=
  walkDoc_spreads_complete s.view d evs h

/-- every fragment definition is reached and carries the definition of its type condition -/
theorem C09_fragment_definitions_linked (s : Schema) (d : QueryDoc) (evs : List Event)
    (h : walkDoc s.view d = some evs) :
    ∀ f ∈ d.frags, ∃ e ∈ evs, e.p = .fragment f (s.type? f.typeCond) := by
  intro f hf
  rw [← (walkDoc_events s.view d evs h).2] at hf
  obtain ⟨e, he, dfn, hp⟩ := mem_fragDefEvents.1 hf
  have := C09_links_correct_partial s d evs h e he
  rw [hp] at this
  exact ⟨e, he, by rw [hp]; exact congrArg _ this⟩

/-- fields: `ObjectDefinition` is the type the field is selected on, `Definition` the field's
    definition on it — soundness (every field event) and completeness (every field node) -/
theorem C09_field_links_correct (s : Schema) (d : QueryDoc) (evs : List Event) (h : walkDoc s.view d = some evs)
    (hwp : Spec.wellParented s d = true) :
    (∀ e ∈ evs, ∀ f par dfn, e.p = .field f par dfn →
      (⟨par, .field f.alias f.name f.args f.dirs f.sel f.pos⟩ : Spec.TSel) ∈ Spec.docSels s d ∧
        dfn = par.bind (Spec.fieldDefOn · f.name)) ∧
    (∀ t ∈ Spec.docSels s d, ∀ al nm args dirs sub p, t.sel = .field al nm args dirs sub p →
      ∃ e ∈ evs, e.p = .field ⟨al, nm, args, dirs, sub, p⟩ t.parent (t.parent.bind (Spec.fieldDefOn · nm))) :=
  ⟨fun e he f par dfn hp => walk_parent_type s d evs h hwp e he f par dfn hp,
   fun t ht al nm args dirs sub p hs => walk_parent_type_complete s d evs h hwp t ht al nm args dirs sub p hs⟩

/-- directives: every directive written at a location of the document has an event that carries
    the definition of its name and that location; and every directive event is such a directive -/
theorem C09_directive_links_correct (s : Schema) (d : QueryDoc) (evs : List Event) (h : walkDoc s.view d = some evs)
    (hk : ∀ op ∈ d.ops, op.op ∈ parserOpKinds) :
    (∀ loc ds, (loc, ds) ∈ Spec.directiveSites s d → ∀ dir ∈ ds,
      ∃ e ∈ evs, ∃ par, e.p = .directive dir (s.directive? dir.name) par loc) ∧
    (∀ e ∈ evs, ∀ dir dfn par loc, e.p = .directive dir dfn par loc →
      dfn = s.directive? dir.name ∧ ∃ ds, (loc, ds) ∈ Spec.directiveSites s d ∧ dir ∈ ds) :=
  ⟨fun loc ds hs dir hd => directive_event_complete s d evs h hk loc ds hs dir hd,
   fun e he dir dfn par loc hp => directive_event_sound s d evs h hk e he dir dfn par loc hp⟩

/-- the directives of a fragment DEFINITION are walked once more for every operation that spreads
    the fragment: the run has, with `CurrentOperation` = that operation, the `directiveList` event of
    the definition's directive list and a `directive` event for each of its directives, carrying the
    directive definition of its name, the definition of the fragment's type condition as parent and
    the location FRAGMENT_DEFINITION.  (The value events of their arguments — where variables are
    linked and marked used — are fired by the same `walkDirectives` call.) -/
theorem C09_fragment_definition_directives_walked_per_operation (s : Schema) (d : QueryDoc) (evs : List Event)
    (h : walkDoc s.view d = some evs) :
    ∀ op ∈ d.ops, ∀ nm dirs p f, InSels op.sel (.sel (.spread nm dirs p)) → fragForName d nm = some f →
      (∃ e ∈ evs, e.cur = some op ∧ e.p = .directiveList f.dirs) ∧
      ∀ dir ∈ f.dirs, ∃ e ∈ evs, e.cur = some op ∧
        e.p = .directive dir (s.directive? dir.name) (s.type? f.typeCond) locFragmentDefinition :=
  fun op hop nm dirs p f hs hf => walkDoc_defDirs s.view d evs h op hop nm f ⟨dirs, p, hs⟩ hf

/-- non-vacuity: an operation that spreads a fragment whose definition carries a directive with a
    variable — the variable use is linked to the operation's definition and marked used -/
example :
    let dir : Directive := { name := str "skip", args := [{ name := str "if", value := .mk .variable (str "v") .nil Pos.zero, pos := Pos.zero }], pos := Pos.zero }
    let f : FragmentDef := { name := str "F", vars := [], typeCond := str "Q", dirs := [dir], sel := .nil, pos := Pos.zero }
    let v : VarDef := { var := str "v", type := .named (str "Boolean") true Pos.zero, default := none, dirs := [], pos := Pos.zero }
    let op : OperationDef := { op := opQuery, name := [], vars := [v], dirs := [], sel := .cons (.spread (str "F") [] Pos.zero) .nil, pos := Pos.zero }
    let d : QueryDoc := { ops := [op], frags := [f] }
    (walkDoc Schema.empty.view d).map (fun evs => evs.filterMap fun e => match e.p with
      | .operation _ used => some used
      | _ => none) = some [[true]] := by
  decide

/-- the walk always succeeds (C02), so the statements above are not vacuous -/
example (s : Schema) (d : QueryDoc) : ∃ evs, walkDoc s.view d = some evs := walkDoc_isSome s.view d

/-! ## Values, variable uses, variable definitions, inline fragments -/

/-- (a) VALUES.  For a well-parented document (every document that validates is one) the value
    events of a run are exactly the value nodes the specification lists (`SpecValOcc`: every node of
    every argument value of `Spec.argSites` and of every variable default value, with the context
    `Spec.valueLinks` computes — `valueLinks_eq`, `argLinks_eq`), and wherever the specification
    demands `ExpectedType` / `Definition` (`o.typed`: argument values, and values nested in list /
    input-object literals of a declared type; not the contents of custom-scalar literals) the event
    carries exactly the demanded pair:
      * items of a list literal: the element type and the SAME definition as the list;
      * fields of an input-object literal: the declared type of the field and its definition;
      * a single value where a list type is expected keeps the list type (and the definition of
        the innermost named type) — the walker does not unwrap, neither does the specification;
      * the default value of a variable: the variable's type and its definition (more than the
        specification's `opLinks` asks of the top-level default value). -/
theorem C09_value_links_correct (s : Schema) (d : QueryDoc) (evs : List Event) (hw : walkDoc s.view d = some evs)
    (hwp : Spec.wellParented s d = true) (hk : ∀ op ∈ d.ops, op.op ∈ parserOpKinds) :
    (∀ e ∈ evs, ∀ v exp dfn, e.p = .value v exp dfn →
      ∃ o, SpecValOcc s d o ∧ o.v = v ∧ (o.typed = true → exp = o.exp ∧ dfn = o.dfn)) ∧
    (∀ o, SpecValOcc s d o →
      ∃ e ∈ evs, ∃ exp dfn, e.p = .value o.v exp dfn ∧ (o.typed = true → exp = o.exp ∧ dfn = o.dfn)) := by
  constructor
  · intro e he v exp dfn hp
    obtain ⟨_, o, ho, _, exp', dfn', hp', hag⟩ := walkDoc_values_soundW s d evs hw e he (by rw [hp]; trivial)
    rw [hp] at hp'
    injection hp' with h1 h2 h3
    subst h2 h3
    exact ⟨o, (wValOcc_iff s d hwp hk o).1 ho, h1.symm, fun ht => hag.demanded ht⟩
  · intro o ho
    obtain ⟨e, he, _, exp', dfn', hp', hag⟩ := walkDoc_values_completeW s d evs hw o ((wValOcc_iff s d hwp hk o).2 ho)
    exact ⟨e, he, exp', dfn', hp', fun ht => hag.demanded ht⟩

/-- (b) VARIABLE USES.  `Value.VariableDefinition` of a variable use is written whenever the use is
    walked while `CurrentOperation = op`, with `op`'s definition of that name (`nil` if it has none),
    and it is only written then.  So
    (own)   at its own event a use walked on behalf of `op` (an operation of the document) shows
            `op`'s definition;
    (last)  every later event shows, for that node (key: start offset), the definition written by
            the LAST such walk — in particular the stand-alone walk of a fragment definition
            (`CurrentOperation = nil`) shows what the last operation that walked the fragment
            wrote: with several operations spreading one fragment that is the last one in document
            order, whatever the others declare (the recorded C15 finding, `docS` below);
    (never) a use that no operation has walked shows no definition (a fragment no operation reaches);
    (scope) every variable use in the scope of an operation — its own selection set and directives,
            the directives of its variable definitions, and the directives and selection sets of
            all fragments it reaches transitively through spreads (`OpArgCall`) — is walked on
            behalf of that operation (and then shows its definition, by (own)). -/
theorem C09_variable_use_links_correct (s : Schema) (d : QueryDoc) (evs : List Event) (hw : walkDoc s.view d = some evs) :
    (∀ e ∈ evs, ∀ op raw ch p exp dfn, e.cur = some op → e.p = .value (.mk .variable raw ch p) exp dfn →
      op ∈ d.ops ∧ e.links.varDef p.start = Spec.varDefByName op raw) ∧
    (∀ pre e mid e' post, evs = pre ++ e :: (mid ++ e' :: post) →
      ∀ op raw ch p exp dfn, e.cur = some op → e.p = .value (.mk .variable raw ch p) exp dfn →
        NoWrite p.start (mid ++ [e']) → e'.links.varDef p.start = Spec.varDefByName op raw) ∧
    (∀ pre e' post, evs = pre ++ e' :: post → ∀ k, NoWrite k (pre ++ [e']) → e'.links.varDef k = none) ∧
    (∀ op ∈ d.ops, ∀ defs args, OpArgCall s.view d op defs args → ∀ o ∈ argOccs s defs args,
      ∃ e ∈ evs, e.cur = some op ∧ ∃ exp dfn, e.p = .value o.v exp dfn) := by
  obtain ⟨l, ht⟩ := walkDoc_trace s.view d evs hw
  refine ⟨?_, ?_, ?_, ?_⟩
  · intro e he op raw ch p exp dfn hc hp
    refine ⟨(walkDoc_values_soundW s d evs hw e he (by rw [hp]; trivial)).1 op hc, ?_⟩
    obtain ⟨pre, post, hsplit⟩ := List.append_of_mem he
    rw [hsplit] at ht
    exact trace_own pre e post ht op raw ch p exp dfn hc hp
  · intro pre e mid e' post hsplit op raw ch p exp dfn hc hp hn
    rw [hsplit] at ht
    exact trace_last pre e mid e' post ht op raw ch p exp dfn hc hp hn
  · intro pre e' post hsplit k hn
    rw [hsplit] at ht
    exact trace_none pre e' post ht k hn
  · intro op hop defs args hc o ho
    obtain ⟨e, he, hcur, exp, dfn, hp, _⟩ := walkDoc_scope_values s d evs hw op hop defs args hc o ho
    exact ⟨e, he, hcur, exp, dfn, hp⟩

/-- (b), the case in which the link is the specified one whatever the order of the operations: if
    all operations declare every variable identically (in particular: a document with one
    operation) and distinct variable uses start at distinct offsets (every parse), then every event
    about a use of `$raw` shows the definition of `raw` of ANY operation of the document — or
    nothing, and that only while no operation has walked the use. -/
theorem C09_variable_use_links_agreeing (s : Schema) (d : QueryDoc) (evs : List Event) (hw : walkDoc s.view d = some evs)
    (hagree : ∀ op ∈ d.ops, ∀ op' ∈ d.ops, ∀ raw, Spec.varDefByName op raw = Spec.varDefByName op' raw)
    (huniq : VarStartsDistinct evs) :
    ∀ pre e' post, evs = pre ++ e' :: post → ∀ raw ch p exp dfn, e'.p = .value (.mk .variable raw ch p) exp dfn →
      (e'.links.varDef p.start = none ∧ NoWrite p.start (pre ++ [e'])) ∨
      ∀ op ∈ d.ops, e'.links.varDef p.start = Spec.varDefByName op raw :=
  walkDoc_varlinks_agreeing s d evs hw hagree huniq

/-- (c) VARIABLE DEFINITIONS: every variable-definition event is about a variable definition of an
    operation of the document and carries the definition of its named type; every variable
    definition has such an event. -/
theorem C09_variable_definition_links_correct (s : Schema) (d : QueryDoc) (evs : List Event)
    (hw : walkDoc s.view d = some evs) :
    (∀ e ∈ evs, ∀ v dfn, e.p = .variable v dfn → (∃ op ∈ d.ops, v ∈ op.vars) ∧ dfn = s.type? v.type.name) ∧
    (∀ op ∈ d.ops, ∀ v ∈ op.vars, ∃ e ∈ evs, e.p = .variable v (s.type? v.type.name)) := by
  constructor
  · intro e he v dfn hp
    obtain ⟨l, hb⟩ := walkDoc_built s.view d evs hw
    obtain ⟨op, hop, hv, _, hd⟩ := hb.varDef_sound e he v dfn hp
    exact ⟨⟨op, hop, hv⟩, hd⟩
  · intro op hop v hv
    obtain ⟨e, he, _, hp⟩ := ((walkDoc_reach s.view d evs hw).1 op hop).varDefs v hv
    exact ⟨e, he, hp⟩

/-- (d) INLINE FRAGMENTS: `InlineFragment.ObjectDefinition` is the ENCLOSING type (the declarative
    parent type of the node, `t.parent`) — for every inline-fragment event and every inline fragment
    of the document — not the definition of the type condition (`Spec.inlineType s t.parent tc`),
    which is what the property text and `Spec.selLinks` ask for. -/
theorem C09_inline_fragment_link_is_parent (s : Schema) (d : QueryDoc) (evs : List Event)
    (hw : walkDoc s.view d = some evs) (hwp : Spec.wellParented s d = true) :
    (∀ e ∈ evs, ∀ f par, e.p = .inlineFragment f par →
      (⟨par, .inline f.typeCond f.dirs f.sel f.pos⟩ : Spec.TSel) ∈ Spec.docSels s d) ∧
    (∀ t ∈ Spec.docSels s d, ∀ tc dirs sub p, t.sel = .inline tc dirs sub p →
      ∃ e ∈ evs, e.p = .inlineFragment ⟨tc, dirs, sub, p⟩ t.parent) := by
  constructor
  · intro e he f par hp
    have := walkDoc_w s.view d evs hw e he
    rw [hp] at this
    exact (inDocW_iff s d hwp _ _).1 this
  · intro t ht tc dirs sub p hs
    have ht' : (⟨t.parent, .inline tc dirs sub p⟩ : Spec.TSel) ∈ Spec.docSels s d := by
      rw [← hs]
      exact ht
    exact walkDoc_hasW s.view d evs hw _ _ ((inDocW_iff s d hwp t.parent _).2 ht')

open Gql.Validate.LinkWitness in
/-- (d), the counterexample to the property's wording, kernel-checked: the document
    `{ ab { ... on A { o { id } } } }` passes validation against
    `type Query { ab: AB } type T { id: ID } type A { o: T } union AB = A`; its one inline fragment
    (offset 7) is linked to `AB`, the enclosing type; the specification demands the definition of
    the type condition, `A` (`linkscheck` reports `WRONG,inlineFragment,obj,7,A,AB`, and so does
    `vcheck -prop C09` on the real walker: the recorded known finding). -/
theorem C09_inline_fragment_link_counterexample :
    validate defaultRules schemaI docI = .ok [] ∧
    (walkDoc schemaI.view docI).map (fun evs => evs.filterMap fun e =>
      match e.p with
      | .inlineFragment f par => some (f.pos.start, par.map (·.name))
      | _ => none) = some [(7, some (str "AB"))] ∧
    (Spec.inlineType schemaI (schemaI.type? (str "AB")) (str "A")).map (·.name) = some (str "A") ∧
    str "A" ≠ str "AB" := by
  refine ⟨by decide +kernel, by decide +kernel, by decide +kernel, by decide⟩

/-! ## The capstone -/

/-- a rule of the default rule set reports nothing on a document that validates (C18) -/
theorem C09_default_rule_reports_nothing (s : Schema) (d : QueryDoc) (h : validate defaultRules s d = .ok [])
    (r : Rule) (hmem : r ∈ defaultRules) : validate [r] s d = .ok [] := by
  have hd : (defaultRules.map (·.name)).Nodup := by decide
  unfold validate at *
  obtain ⟨evs, hw, hrun⟩ := validateV_ok_iff.1 h
  apply validateV_ok_iff.2
  refine ⟨evs, hw, ?_⟩
  exact runAll_filter hrun (by rw [rnames_start]; exact hd) (Rule.start r) (List.mem_map.2 ⟨_, hmem, rfl⟩)

/-- what validity says about links: FieldsOnCorrectType, KnownFragmentNames, KnownDirectives and
    KnownArgumentNames through their C08 equivalences; KnownRootType and KnownTypeNames (no
    equivalence yet) as the hypotheses `hKnownRootType`, `hKnownTypeNames` -/
theorem C09_link_rules_of_valid (s : Schema) (d : QueryDoc) (hvalid : validate defaultRules s d = .ok [])
    (hwp : Spec.wellParented s d = true) (hk : ∀ op ∈ d.ops, op.op ∈ parserOpKinds)
    (hKnownRootType : Spec.knownRootType s d = true)
    (hKnownTypeNames : Spec.variableTypesExist s d = true ∧ Spec.fragmentSpreadTypeExistence s d = true) :
    LinkRules s d :=
  { knownRootType := hKnownRootType
    fieldSelections := (C08_FieldsOnCorrectType s d hwp).1
      (C09_default_rule_reports_nothing s d hvalid _ (List.mem_filterMap.2 ⟨"FieldsOnCorrectType", by decide, rfl⟩))
    typeConditions := hKnownTypeNames.2
    variableTypes := hKnownTypeNames.1
    spreads := (C08_KnownFragmentNames s d).1
      (C09_default_rule_reports_nothing s d hvalid _ (List.mem_filterMap.2 ⟨"KnownFragmentNames", by decide, rfl⟩))
    directives := ((C08_KnownDirectives s d hk).1
      (C09_default_rule_reports_nothing s d hvalid _ (List.mem_filterMap.2 ⟨"KnownDirectives", by decide, rfl⟩))).1
    argumentNames := (C08_KnownArgumentNames s d hwp hk).1
      (C09_default_rule_reports_nothing s d hvalid _ (List.mem_filterMap.2 ⟨"KnownArgumentNames", by decide, rfl⟩)) }

/-- (e) THE CAPSTONE over all node kinds, for documents that pass validation (`errors = []`) against
    a closed schema.

    `Spec.expectedLinks s d` — the demanded links the `linkscheck` op compares a link dump with — is
    the rendering (`Demand.render`) of the structured demands `docDemands s d`: one demand per
    field, fragment spread, inline fragment, directive, variable definition, fragment definition
    and value node of the document (nodes of fragment definitions included, in the context of
    their definition), each with the node itself and its declarative context.  For every demand
      (met)     the run has an event about that node which carries exactly the demanded link:
                field → parent type and the field's definition on it; spread → fragment definition;
                directive → definition and location; variable definition / fragment definition →
                definition of the type / type condition; value → expected type and definition
                wherever demanded.  EXCEPTION (recorded known finding): an inline fragment carries
                the enclosing type, not the definition of its type condition
                (`C09_inline_fragment_link_is_parent`, `C09_inline_fragment_link_counterexample`);
      (var)     a variable use has an event that shows a variable definition among the admissible
                candidates (the operation's own definition; for a use inside a fragment definition
                a definition of an operation in whose scope the fragment lies), unless there is no
                candidate at all (then `linkscheck` does not judge it).  WHICH candidate the document
                keeps after the run is `C09_variable_use_links_correct`: the one of the operation
                that walked the use last;
      (present) the demanded link exists: validity excludes unknown fields, fragments, directives,
                arguments (C08 equivalences of FieldsOnCorrectType, KnownFragmentNames,
                KnownDirectives, KnownArgumentNames), unknown root types and type names
                (hypotheses named after the rules KnownRootType and KnownTypeNames, which have no
                equivalence theorem yet), and the closed schema resolves every field, argument and
                input-field type.
    Hypotheses besides validity: `hwp` — every selection is written where the type in scope is
    composite (every document that validates is such; it is what ScalarLeafs, FragmentsOnComposite-
    Types and KnownTypeNames enforce together); `hk` — operation kinds the parser produces; `hpos` —
    fragment definitions have distinct positions (every parse); `hString` — the schema has the
    built-in `String` (the type of `__typename`; every loaded schema).
    That the contents of a list / object literal are untyped ONLY inside a custom-scalar literal is
    `C09_untyped_values_only_in_custom_scalars` (hypothesis ValuesOfCorrectType); the same statement
    in the terms of `linkscheck` (dump lines) is `C09_expected_links_met`. -/
theorem C09_links_correct (s : Schema) (d : QueryDoc) (evs : List Event) (hw : walkDoc s.view d = some evs)
    (hvalid : validate defaultRules s d = .ok []) (hs : Gql.Spec.Closed s)
    (hString : (s.type? (str "String")).isSome) (hwp : Spec.wellParented s d = true)
    (hk : ∀ op ∈ d.ops, op.op ∈ parserOpKinds) (hpos : FragPosDistinct d)
    (hKnownRootType : Spec.knownRootType s d = true)
    (hKnownTypeNames : Spec.variableTypesExist s d = true ∧ Spec.fragmentSpreadTypeExistence s d = true) :
    Spec.expectedLinks s d = (docDemands s d).map (Demand.render s d) ∧
    (∀ dm ∈ docDemands s d, dm.Met s d evs) ∧
    (∀ dm ∈ docDemands s d, ∀ cands o raw ch p, dm = .value cands o → o.v = .mk .variable raw ch p →
      cands raw = [] ∨
      ∃ e ∈ evs, (∃ exp dfn, e.p = .value o.v exp dfn ∧ (o.typed = true → exp = o.exp ∧ dfn = o.dfn)) ∧
        varText (e.links.varDef p.start) ∈ cands raw) ∧
    (∀ dm ∈ docDemands s d, dm.Present s d) :=
  ⟨expectedLinks_eq s d, docDemands_met s d evs hw hwp hk, docDemands_var_met s d evs hw hwp hpos,
   docDemands_present s d hs hString (C09_link_rules_of_valid s d hvalid hwp hk hKnownRootType hKnownTypeNames)⟩

/-- (e) in the terms of `linkscheck`: for every expected link `x` of `Spec.expectedLinks s d` other
    than an inline fragment's (the known finding) the run has an event whose dump line — as data,
    `Event.linkFields`; `Event.linkLine`, which `linkDump` prints, is its formatting (`linkLine_eq`) —
    has the start offset and kind of `x` and contains every demanded field with exactly the
    demanded text; and if `x` is a variable use with at least one admissible candidate, such an
    event shows one of the candidates as `var=`.  (What `linkscheck` adds to this is parsing the
    printed lines back and choosing the LAST line of every node, see the header.) -/
theorem C09_expected_links_met (s : Schema) (d : QueryDoc) (evs : List Event) (hw : walkDoc s.view d = some evs)
    (hwp : Spec.wellParented s d = true) (hk : ∀ op ∈ d.ops, op.op ∈ parserOpKinds) (hpos : FragPosDistinct d) :
    ∀ x ∈ Spec.expectedLinks s d, x.kind ≠ "I" →
      (∃ e ∈ evs, ∃ fs, e.linkFields = some (x.start, x.kind, fs) ∧
        e.linkLine = some (x.start, fmtLine x.kind fs) ∧ ∀ kv ∈ x.fields, kv ∈ fs) ∧
      (∀ cs, x.varCands = some cs → cs ≠ [] →
        ∃ e ∈ evs, ∃ fs, e.linkFields = some (x.start, x.kind, fs) ∧ (∀ kv ∈ x.fields, kv ∈ fs) ∧
          ∃ got, ("var", got) ∈ fs ∧ got ∈ cs) := by
  intro x hx hkind
  rw [expectedLinks_eq, List.mem_map] at hx
  obtain ⟨dm, hdm, rfl⟩ := hx
  have hni : ∀ f parent, dm ≠ .inline f parent := by
    intro f parent heq
    subst heq
    exact hkind rfl
  constructor
  · obtain ⟨e, he, fs, hf, hall⟩ := met_line s d evs dm (docDemands_met s d evs hw hwp hk dm hdm) hni
    exact ⟨e, he, fs, hf, by rw [linkLine_eq, hf]; rfl, hall⟩
  · intro cs hcs hne
    cases dm with
    | value cands o =>
      cases hv : o.v with
      | mk k raw ch p =>
        simp only [Demand.render, ValOcc.toExpLink, hv, Value.kind, Value.raw] at hcs
        split at hcs
        · rename_i hk'
          injection hcs with hcs
          have hkv : k = .variable := by simpa using hk'
          subst hkv
          rcases docDemands_var_met s d evs hw hwp hpos _ hdm cands o raw ch p rfl hv with hnil | ⟨e, he, ⟨exp, dfn, hp, hag⟩, hmem⟩
          · rw [hnil] at hcs
            exact absurd hcs.symm hne
          · refine ⟨e, he, [("def", optDefName dfn), ("exp", typeText exp), ("var", varText (e.links.varDef p.start))], ?_, ?_, ?_⟩
            · unfold Event.linkFields
              rw [hp, hv]
              simp only [Demand.render, ValOcc.toExpLink, hv, Value.pos]
            · intro kv hkv
              simp only [Demand.render, ValOcc.toExpLink] at hkv
              cases ht : o.typed with
              | false => rw [ht] at hkv; simp at hkv
              | true =>
                rw [ht] at hkv
                obtain ⟨h1, h2⟩ := hag ht
                subst h1 h2
                simp only [if_true, List.mem_cons, List.not_mem_nil, or_false] at hkv
                rcases hkv with hkv | hkv
                · subst hkv
                  simp [optDefName_eq]
                · subst hkv
                  cases o.exp <;> simp [typeText]
            · exact ⟨varText (e.links.varDef p.start), by simp, by rw [← hcs]; exact hmem⟩
        · cases hcs
    | field f parent => simp [Demand.render] at hcs
    | spread f => simp [Demand.render] at hcs
    | inline f parent => simp [Demand.render] at hcs
    | directive dir loc => simp [Demand.render] at hcs
    | varDef v => simp [Demand.render] at hcs
    | fragDef f => simp [Demand.render] at hcs

/-- (a)/(e), "contents of custom-scalar literals excepted": in a document that passes validation
    and satisfies ValuesOfCorrectType (hypothesis named after the rule, which has no equivalence
    theorem yet) the ONLY value nodes of which the specification demands no expected type and
    definition are those nested in a list / object literal written where a type that takes any
    literal is expected (`Spec.structuredAtNamed`: a custom scalar) — every other value node of
    every argument and default value is typed, with present links (`C09_links_correct`). -/
theorem C09_untyped_values_only_in_custom_scalars (s : Schema) (d : QueryDoc)
    (hvalid : validate defaultRules s d = .ok []) (hs : Gql.Spec.Closed s)
    (hString : (s.type? (str "String")).isSome) (hwp : Spec.wellParented s d = true)
    (hk : ∀ op ∈ d.ops, op.op ∈ parserOpKinds) (hKnownRootType : Spec.knownRootType s d = true)
    (hKnownTypeNames : Spec.variableTypesExist s d = true ∧ Spec.fragmentSpreadTypeExistence s d = true)
    (hValuesOfCorrectType : Spec.valuesOfCorrectType s d = true) :
    ∀ o, SpecValOcc s d o → o.typed = false →
      ∃ r, SpecValOcc s d r ∧ r.typed = true ∧ (∃ dd, r.dfn = some dd ∧ Spec.structuredAtNamed dd = true) ∧
        o ∈ valOccs s r.typed r.exp r.dfn r.v := by
  have hr := C09_link_rules_of_valid s d hvalid hwp hk hKnownRootType hKnownTypeNames
  have hpar := parents_present s d hs.fieldTypes hString hr.knownRootType hr.fieldSelections hr.typeConditions
  have hsites := argSites_present s d hs hpar hr.fieldSelections hr.directives hr.argumentNames
  intro o ho hot
  obtain ⟨r, hr', ⟨hrt, hcust⟩, hin⟩ := untyped_only_in_custom s d hsites hValuesOfCorrectType o ho hot
  have hpres := (specValOcc_present s d hs.fieldTypes hsites hr.variableTypes r hr' hrt).2
  cases hdd : r.dfn with
  | none => rw [hdd] at hpres; cases hpres
  | some dd => exact ⟨r, hr', hrt, ⟨dd, hdd, hcust dd hdd⟩, hin⟩

/-! ## Non-vacuity: the hypotheses are satisfiable (kernel-checked documents) -/

section NonVacuity
open Gql.Validate.LinkWitness Gql.Validate.Witness

/-- `docV` — `query ($v: Int = 3, $b: Boolean!) { f(l: {xs: [1, $v]}, a: {k: [1]}, n: 5) @include(if: $b) }`
    against `scalar Any  input In { xs: [Int] any: Any sub: In }  type Query { f(l: [In], i: In, a: Any, n: [Int]): Int }` —
    satisfies every hypothesis of `C09_links_correct` (and of the theorems (a)–(d)) -/
example :
    validate defaultRules schemaV docV = .ok [] ∧ Gql.Spec.Closed schemaV ∧
    (schemaV.type? (str "String")).isSome ∧ Spec.wellParented schemaV docV = true ∧
    (∀ op ∈ docV.ops, op.op ∈ parserOpKinds) ∧ FragPosDistinct docV ∧ Spec.knownRootType schemaV docV = true ∧
    (Spec.variableTypesExist schemaV docV = true ∧ Spec.fragmentSpreadTypeExistence schemaV docV = true) ∧
    (∀ op ∈ docV.ops, ∀ op' ∈ docV.ops, ∀ raw, Spec.varDefByName op raw = Spec.varDefByName op' raw) ∧
    ((walkDoc schemaV.view docV).map varStartsDistinctB = some true) ∧
    Spec.valuesOfCorrectType schemaV docV = true := by
  refine ⟨by decide +kernel, ?_, by decide +kernel, by decide +kernel, by decide +kernel, ?_, by decide +kernel,
    ⟨by decide +kernel, by decide +kernel⟩, ?_, by decide +kernel, by decide +kernel⟩
  · refine ⟨by decide +kernel, by decide +kernel, by decide +kernel, by decide +kernel, by decide +kernel,
      by decide +kernel, by decide +kernel, ⟨fun n h => ?_, fun n h => ?_, fun n h => ?_⟩, by decide +kernel,
      by decide +kernel⟩
    · cases h; decide +kernel
    · cases h
    · cases h
  · intro f hf
    cases hf
  · intro op hop op' hop' raw
    simp only [docV, List.mem_singleton] at hop hop'
    rw [hop, hop']

/-- what the specification lists for the argument `l: {xs: [1, $v]}` where `[In]` is expected (a
    single value in a list position): the object keeps the LIST type `[In]` with the definition of
    `In`; its field `xs` gets `[Int]` / `Int`; the items `1` and `$v` get the element type `Int` and
    the same definition.  By `C09_value_links_correct` the walker's events carry exactly these. -/
example :
    (valOccs schemaV true (some (tList (tNamed "In"))) (schemaV.type? (str "In")) valL).map
      (fun o => (o.v.pos.start, o.typed, o.exp.map (·.render), o.dfn.map (·.name))) =
    [(30, true, some (str "[In]"), some (str "In")), (35, true, some (str "[Int]"), some (str "Int")),
     (36, true, some (str "Int"), some (str "Int")), (39, true, some (str "Int"), some (str "Int"))] := by
  decide +kernel

/-- … and for `a: {k: [1]}` where the custom scalar `Any` is expected: the literal itself is typed,
    its contents are not demanded -/
example :
    (valOccs schemaV true (some (tNamed "Any")) (schemaV.type? (str "Any")) valA).map
      (fun o => (o.v.pos.start, o.typed, o.exp.map (·.render), o.dfn.map (·.name))) =
    [(47, true, some (str "Any"), some (str "Any")), (51, false, none, none), (52, false, none, none)] := by
  decide +kernel

/-- the walker on `docV`: every value event with its expected type and definition (custom-scalar
    contents at 51, 52 carry nothing; the single value `5` where `[Int]` is expected keeps `[Int]`) -/
example :
    (walkDoc schemaV.view docV).map (fun evs => evs.filterMap fun e =>
      match e.p with
      | .value v exp dfn => some (v.pos.start, exp.map (·.render), dfn.map (·.name))
      | _ => none) =
    some [(17, some (str "Int"), some (str "Int")), (36, some (str "Int"), some (str "Int")),
          (39, some (str "Int"), some (str "Int")), (35, some (str "[Int]"), some (str "Int")),
          (30, some (str "[In]"), some (str "In")), (52, none, none), (51, none, none),
          (47, some (str "Any"), some (str "Any")), (61, some (str "[Int]"), some (str "Int")),
          (77, some (str "Boolean!"), some (str "Boolean"))] := by
  decide +kernel

/-- `docS` — `query A($v: Int) { ...F } query B($v: Int = 2) { ...F } fragment F on Query { args(l: [$v], c: {v: $v}) }` —
    satisfies the hypotheses of `C09_links_correct` with TWO operations sharing a fragment.  (The
    model of NoFragmentCycles is defined by well-founded recursion, which the kernel does not
    evaluate in reasonable time on a document with a fragment; its verdict is given through the
    specification predicate.  `vcheck -prop C09` validates this very document with the real library.) -/
example :
    validate (defaultRules.filter fun r => r.name != str "NoFragmentCycles") schemaS docS = .ok [] ∧
    Spec.noFragmentCycles docS = true ∧ Gql.Spec.Closed schemaS ∧
    Spec.wellParented schemaS docS = true ∧ FragPosDistinct docS ∧ Spec.knownRootType schemaS docS = true ∧
    (Spec.variableTypesExist schemaS docS = true ∧ Spec.fragmentSpreadTypeExistence schemaS docS = true) := by
  refine ⟨by decide +kernel, by decide +kernel, ?_, by decide +kernel, ?_, by decide +kernel,
    ⟨by decide +kernel, by decide +kernel⟩⟩
  · refine ⟨by decide +kernel, by decide +kernel, by decide +kernel, by decide +kernel, by decide +kernel,
      by decide +kernel, by decide +kernel, ⟨fun n h => ?_, fun n h => ?_, fun n h => ?_⟩, by decide +kernel,
      by decide +kernel⟩
    · cases h; decide +kernel
    · cases h
    · cases h
  · intro f hf g hg _
    simp only [docS, List.mem_singleton] at hf hg
    rw [hf, hg]

/-- which operation wins (the recorded C15 finding), kernel-checked on `docS`: the two uses of `$v`
    inside the shared fragment `F` (offsets 90 and 102) are walked three times — on behalf of `A`
    (they show `A`'s definition, offset 8), on behalf of `B` (they show `B`'s, offset 36) and
    stand-alone (`CurrentOperation = nil`: they keep `B`'s).  After the run the document is linked to
    the definition of the operation walked LAST; both are among the specification's candidates. -/
example :
    (walkDoc schemaS.view docS).map (fun evs => evs.filterMap fun e =>
      match e.p with
      | .value (.mk .variable _ _ p) _ _ =>
        some (p.start, e.cur.map (·.name), (e.links.varDef p.start).map (·.pos.start))
      | _ => none) =
    some [(90, some (str "A"), some 8), (102, some (str "A"), some 8),
          (90, some (str "B"), some 36), (102, some (str "B"), some 36),
          (90, none, some 36), (102, none, some 36)] := by
  decide +kernel

end NonVacuity

#print axioms C09_value_links_correct
#print axioms C09_variable_use_links_correct
#print axioms C09_variable_use_links_agreeing
#print axioms C09_variable_definition_links_correct
#print axioms C09_inline_fragment_link_is_parent
#print axioms C09_inline_fragment_link_counterexample
#print axioms C09_links_correct
#print axioms C09_expected_links_met
#print axioms C09_untyped_values_only_in_custom_scalars
#print axioms C09_default_rule_reports_nothing
#print axioms C09_link_rules_of_valid


/- ======================= END TO END: parsed documents, loaded schemas ======================= -/

/-- validity gives the hypothesis `hKnownRootType` of `C09_links_correct` (C08_KnownRootType) -/
theorem C09_known_root_type_of_valid (s : Schema) (d : QueryDoc) (hvalid : validate defaultRules s d = .ok []) :
    Spec.knownRootType s d = true :=
  (C08_KnownRootType s d).1
    (C09_default_rule_reports_nothing s d hvalid _ (List.mem_filterMap.2 ⟨"KnownRootType", by decide, rfl⟩))

/-- validity gives the hypothesis `hKnownTypeNames` of `C09_links_correct` (C08_KnownTypeNames) -/
theorem C09_known_type_names_of_valid (s : Schema) (d : QueryDoc) (hvalid : validate defaultRules s d = .ok []) :
    Spec.variableTypesExist s d = true ∧ Spec.fragmentSpreadTypeExistence s d = true := by
  have := (C08_KnownTypeNames s d).1
    (C09_default_rule_reports_nothing s d hvalid _ (List.mem_filterMap.2 ⟨"KnownTypeNames", by decide, rfl⟩))
  exact ⟨this.2, this.1⟩

/-- `C09_links_correct` without the two rule-named hypotheses -/
theorem C09_links_correct_of_valid (s : Schema) (d : QueryDoc) (evs : List Event) (hw : walkDoc s.view d = some evs)
    (hvalid : validate defaultRules s d = .ok []) (hs : Gql.Spec.Closed s)
    (hString : (s.type? (str "String")).isSome) (hwp : Spec.wellParented s d = true)
    (hk : ∀ op ∈ d.ops, op.op ∈ parserOpKinds) (hpos : FragPosDistinct d) :
    Spec.expectedLinks s d = (docDemands s d).map (Demand.render s d) ∧
    (∀ dm ∈ docDemands s d, dm.Met s d evs) ∧
    (∀ dm ∈ docDemands s d, ∀ cands o raw ch p, dm = .value cands o → o.v = .mk .variable raw ch p →
      cands raw = [] ∨
      ∃ e ∈ evs, (∃ exp dfn, e.p = .value o.v exp dfn ∧ (o.typed = true → exp = o.exp ∧ dfn = o.dfn)) ∧
        varText (e.links.varDef p.start) ∈ cands raw) ∧
    (∀ dm ∈ docDemands s d, dm.Present s d) :=
  C09_links_correct s d evs hw hvalid hs hString hwp hk hpos (C09_known_root_type_of_valid s d hvalid)
    (C09_known_type_names_of_valid s d hvalid)

/-- **C09 END TO END**: the schema document `sd` loads to `s`, the source text `inp` parses (any token
    limit) to `d`, `d` validates against `s`.  Then every demanded link is met, every variable use
    shows an admissible candidate and every demanded link is present.  Discharged from the models:
    operation kinds and distinct fragment positions (parser), `Closed s` and the `String` type
    (loader), KnownRootType / KnownTypeNames (validity).  Left: `Spec.wellParented s d` (every document
    that validates is such, not yet derived) and the prelude being part of `sd`. -/
theorem C09_links_correct_parsed_loaded {sd : SchemaDoc} {s : Schema} (hl : Gql.Load.load sd = .ok s)
    (hprel : PreludeDeclared sd)
    {L : Nat} {inp : Bytes} {d : QueryDoc} (hp : Parser.parseQuery L inp = .ok d)
    (evs : List Event) (hw : walkDoc s.view d = some evs)
    (hvalid : validate defaultRules s d = .ok []) (hwp : Spec.wellParented s d = true) :
    Spec.expectedLinks s d = (docDemands s d).map (Demand.render s d) ∧
    (∀ dm ∈ docDemands s d, dm.Met s d evs) ∧
    (∀ dm ∈ docDemands s d, ∀ cands o raw ch p, dm = .value cands o → o.v = .mk .variable raw ch p →
      cands raw = [] ∨
      ∃ e ∈ evs, (∃ exp dfn, e.p = .value o.v exp dfn ∧ (o.typed = true → exp = o.exp ∧ dfn = o.dfn)) ∧
        varText (e.links.varDef p.start) ∈ cands raw) ∧
    (∀ dm ∈ docDemands s d, dm.Present s d) :=
  C09_links_correct_of_valid s d evs hw hvalid
    (Gql.EndToEnd.loaded_closed hl (Gql.EndToEnd.preludeDeclared_introspection hprel))
    (Gql.EndToEnd.loaded_hasString_of_prelude hl hprel) hwp (Gql.EndToEnd.parsed_kinds hp)
    (Gql.EndToEnd.parsed_fragPosDistinct hp)

/-- the same in the terms of `linkscheck` (dump lines) for a parsed document -/
theorem C09_expected_links_met_parsed {L : Nat} {inp : Bytes} {d : QueryDoc} (hp : Parser.parseQuery L inp = .ok d)
    (s : Schema) (evs : List Event) (hw : walkDoc s.view d = some evs) (hwp : Spec.wellParented s d = true) :
    ∀ x ∈ Spec.expectedLinks s d, x.kind ≠ "I" →
      (∃ e ∈ evs, ∃ fs, e.linkFields = some (x.start, x.kind, fs) ∧
        e.linkLine = some (x.start, fmtLine x.kind fs) ∧ ∀ kv ∈ x.fields, kv ∈ fs) ∧
      (∀ cs, x.varCands = some cs → cs ≠ [] →
        ∃ e ∈ evs, ∃ fs, e.linkFields = some (x.start, x.kind, fs) ∧ (∀ kv ∈ x.fields, kv ∈ fs) ∧
          ∃ got, ("var", got) ∈ fs ∧ got ∈ cs) :=
  C09_expected_links_met s d evs hw hwp (Gql.EndToEnd.parsed_kinds hp) (Gql.EndToEnd.parsed_fragPosDistinct hp)


/-- **every document that validates is well parented** (on a schema with the loader's invariants): the
    hypothesis `hwp` of the C09 theorems follows from validity — KnownRootType, KnownTypeNames,
    FragmentsOnCompositeTypes, FieldsOnCorrectType and ScalarLeafs report nothing
    (`C08_wellParented_of_rules`, proof in `GqlProofs/EndToEnd/WellParented.lean`) -/
theorem C09_wellParented_of_valid {s : Schema} (W : Gql.EndToEnd.WPSchema s) (hE : s.type? [] = none) (d : QueryDoc)
    (hvalid : validate defaultRules s d = .ok []) : Spec.wellParented s d = true :=
  C08_wellParented_of_rules W hE d
    (C09_default_rule_reports_nothing s d hvalid _ (List.mem_filterMap.2 ⟨"KnownRootType", by decide, rfl⟩))
    (C09_default_rule_reports_nothing s d hvalid _ (List.mem_filterMap.2 ⟨"KnownTypeNames", by decide, rfl⟩))
    (C09_default_rule_reports_nothing s d hvalid _ (List.mem_filterMap.2 ⟨"FragmentsOnCompositeTypes", by decide, rfl⟩))
    (C09_default_rule_reports_nothing s d hvalid _ (List.mem_filterMap.2 ⟨"FieldsOnCorrectType", by decide, rfl⟩))
    (C09_default_rule_reports_nothing s d hvalid _ (List.mem_filterMap.2 ⟨"ScalarLeafs", by decide, rfl⟩))

/-- **C09 END TO END over source texts, `Spec.wellParented` discharged.**  The schema sources are
    well-formed UTF-8, `ParseSchemas` merges them into `sd`, `sd` loads to `s`; the query source `inp`
    parses (any token limit) to `d`; `d` validates against `s`.  Then every demanded link is met, every
    variable use shows an admissible candidate, every demanded link is present.  Hypothesis left: the
    prelude is among the sources (`PreludeDeclared sd`). -/
theorem C09_links_correct_sources {Ls : Nat} {srcs : List (Bool × Bytes)} {sd : SchemaDoc} {s : Schema}
    (hsrc : ∀ src ∈ srcs, Lexer.Utf8.valid src.2) (hps : Parser.parseSchemas Ls srcs = .ok sd)
    (hl : Gql.Load.load sd = .ok s) (hprel : PreludeDeclared sd)
    {L : Nat} {inp : Bytes} {d : QueryDoc} (hp : Parser.parseQuery L inp = .ok d)
    (evs : List Event) (hw : walkDoc s.view d = some evs) (hvalid : validate defaultRules s d = .ok []) :
    Spec.expectedLinks s d = (docDemands s d).map (Demand.render s d) ∧
    (∀ dm ∈ docDemands s d, dm.Met s d evs) ∧
    (∀ dm ∈ docDemands s d, ∀ cands o raw ch p, dm = .value cands o → o.v = .mk .variable raw ch p →
      cands raw = [] ∨
      ∃ e ∈ evs, (∃ exp dfn, e.p = .value o.v exp dfn ∧ (o.typed = true → exp = o.exp ∧ dfn = o.dfn)) ∧
        varText (e.links.varDef p.start) ∈ cands raw) ∧
    (∀ dm ∈ docDemands s d, dm.Present s d) :=
  have T := Gql.EndToEnd.parseSchemas_treeHyps hsrc hps
  C09_links_correct_parsed_loaded hl hprel hp evs hw hvalid
    (C09_wellParented_of_valid (Gql.EndToEnd.loaded_wpSchema hl hprel T.unions)
      (Gql.EndToEnd.loaded_noEmptyTypeName hl T.names) d hvalid)

/-- **C09 for the API as it is called**: prelude first, any user sources; no hypothesis about the prelude left -/
theorem C09_links_correct_loadSchema {Ls : Nat} {user : List (Bool × Bytes)} {sd : SchemaDoc} {s : Schema}
    (huser : ∀ src ∈ user, Lexer.Utf8.valid src.2)
    (hps : Parser.parseSchemas Ls ((true, Gen.preludeBytes) :: user) = .ok sd)
    (hl : Gql.Load.load sd = .ok s)
    {L : Nat} {inp : Bytes} {d : QueryDoc} (hp : Parser.parseQuery L inp = .ok d)
    (evs : List Event) (hw : walkDoc s.view d = some evs) (hvalid : validate defaultRules s d = .ok []) :
    Spec.expectedLinks s d = (docDemands s d).map (Demand.render s d) ∧
    (∀ dm ∈ docDemands s d, dm.Met s d evs) ∧
    (∀ dm ∈ docDemands s d, dm.Present s d) :=
  have h := C09_links_correct_sources
    (fun src h => by
      rcases List.mem_cons.1 h with rfl | h
      · exact Gql.EndToEnd.Prelude.prelude_utf8
      · exact huser src h)
    hps hl (Gql.EndToEnd.Prelude.sources_with_prelude_declared hps) hp evs hw hvalid
  ⟨h.1, h.2.1, h.2.2.2⟩

#print axioms C09_wellParented_of_valid
#print axioms C09_links_correct_sources
#print axioms C09_known_root_type_of_valid
#print axioms C09_known_type_names_of_valid
#print axioms C09_links_correct_of_valid
#print axioms C09_links_correct_parsed_loaded
#print axioms C09_expected_links_met_parsed
