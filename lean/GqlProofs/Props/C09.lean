import GqlProofs.ValSpec.Spreads
import GqlProofs.ValSpec.LeafFrag
import GqlProofs.ValSpec.DefDirs
import GqlModel.Validate.Spec.Links
/-
  C09 — validated documents are completely and correctly linked.

  The specification side is `Spec.linksComplete s d dump` (`GqlModel/Validate/Spec/Links.lean`): every
  node of the document carries the links that the declarative typing demands; the check
  `vcheck -prop C09` judges the link dump of the REAL walker with it (op `linkscheck`).

  Proved here for the walker model, for the link kinds that do not depend on the parent type of
  the node (so without `walk_parent_type`), and for ALL documents, valid or not:
    C09_links_correct_partial     whenever one of these links is set it is the one the spec demands:
                                  spread → fragment definition of that name, variable definition →
                                  definition of its named type, fragment definition → definition of
                                  its type condition, directive → directive definition of that name
    C09_spreads_linked            every spread written in the document has been linked (has an event)
    C09_fragment_definitions_linked   every fragment definition has been linked

    C09_field_links_correct       (through `walk_parent_type`, for well-parented documents — every
                                  document that validates is one) every field event carries the
                                  declarative parent type of its node and the definition of the
                                  field on that type, and every field node has such an event
    C09_directive_links_correct   every directive written in the document is linked to the definition
                                  of its name and to the location it is written at
    C09_fragment_definition_directives_walked_per_operation
                                  for every operation and every spread written in its selection set
                                  whose fragment exists, the directives of the fragment DEFINITION
                                  are walked on behalf of that operation (events with
                                  `CurrentOperation` = the operation, location FRAGMENT_DEFINITION,
                                  parent = definition of the type condition) — this is what links
                                  the variables used there to the operation's variable definitions

  NOT finished (kept as the goal):
    C09_links_complete : Closed s → validate defaultRules s d = .ok [] →
        Spec.linksComplete s d (linkDump evs) = true
  One part of it is FALSE for the current tree and is reported by the check on the real walker
  (known finding): an inline fragment carries the ENCLOSING type, not its type condition's
  definition (`link-wrong:inlineFragment:obj`).  (A variable used in the directives of a fragment
  definition used to be never linked — `link-missing:value:var`; the walker now walks those
  directives on the first visit of the fragment in every operation, `walkSelection` `.spread`.)
  For field / value links the missing lemma is `walk_parent_type` (see C08.lean).
-/
open Gql Gql.Validate

/-- the link carried by an event is the one `Spec.expectedLinks` demands (context-free link kinds) -/
def LinkSound (s : Schema) (d : QueryDoc) : Payload → Prop
  | .fragmentSpread f dfn _ => dfn = Spec.fragByName d f.name
  | .variable v dfn => dfn = s.type? v.type.name
  | .fragment f dfn => dfn = s.type? f.typeCond
  | .directive dir dfn _ _ => dfn = s.directive? dir.name
  | _ => True

theorem linkSound_docSites (s : Schema) (d : QueryDoc) : DocSites s.view d (fun _ => True) (LinkSound s d) :=
  { value := fun _ _ _ => trivial, directive := fun _ _ _ => rfl, directiveList := fun _ => trivial,
    field := fun _ _ _ => trivial, inline := fun _ _ => trivial, spread := fun _ _ _ => rfl,
    frags := fun _ _ _ _ => trivial, ops := fun _ _ _ _ => trivial,
    varDef := fun _ => rfl, operation := fun _ _ _ => trivial, fragment := fun _ _ => rfl }

/-- whenever a spread / variable-definition / fragment-definition / directive link is set, it is
    the right one — for every document, valid or not -/
theorem C09_links_correct_partial (s : Schema) (d : QueryDoc) (evs : List Event)
    (h : walkDoc s.view d = some evs) : ∀ e ∈ evs, LinkSound s d e.p :=
  walkDoc_all (linkSound_docSites s d) evs h

/-- every spread written in the document is reached by the walker and carries the fragment
    definition of its name (`none` exactly when there is no such fragment) -/
theorem C09_spreads_linked (s : Schema) (d : QueryDoc) (evs : List Event) (h : walkDoc s.view d = some evs) :
    ∀ n ∈ Spec.allSpreadNames d, ∃ e ∈ evs, ∃ f par, e.p = .fragmentSpread f (Spec.fragByName d n) par ∧ f.name = n :=
  walkDoc_spreads_complete s.view d evs h

/-- every fragment definition is reached and carries the definition of its type condition -/
theorem C09_fragment_definitions_linked (s : Schema) (d : QueryDoc) (evs : List Event)
    (h : walkDoc s.view d = some evs) :
    ∀ f ∈ d.frags, ∃ e ∈ evs, e.p = .fragment f (s.type? f.typeCond) := by
  intro f hf
  rw [← (walkDoc_events s.view d evs h).2] at hf
  obtain ⟨e, he, dfn, hp⟩ := mem_fragDefEvents.1 hf
  have := C09_links_correct_partial s d evs h e he
  rw [hp] at this
  exact ⟨e, he, by rw [hp]; exact congrArg _ this⟩

/-- fields: `ObjectDefinition` is the type the field is selected on, `Definition` the field's
    definition on it — soundness (every field event) and completeness (every field node) -/
theorem C09_field_links_correct (s : Schema) (d : QueryDoc) (evs : List Event) (h : walkDoc s.view d = some evs)
    (hwp : Spec.wellParented s d = true) :
    (∀ e ∈ evs, ∀ f par dfn, e.p = .field f par dfn →
      (⟨par, .field f.alias f.name f.args f.dirs f.sel f.pos⟩ : Spec.TSel) ∈ Spec.docSels s d ∧
        dfn = par.bind (Spec.fieldDefOn · f.name)) ∧
    (∀ t ∈ Spec.docSels s d, ∀ al nm args dirs sub p, t.sel = .field al nm args dirs sub p →
      ∃ e ∈ evs, e.p = .field ⟨al, nm, args, dirs, sub, p⟩ t.parent (t.parent.bind (Spec.fieldDefOn · nm))) :=
  ⟨fun e he f par dfn hp => walk_parent_type s d evs h hwp e he f par dfn hp,
   fun t ht al nm args dirs sub p hs => walk_parent_type_complete s d evs h hwp t ht al nm args dirs sub p hs⟩

/-- directives: every directive written at a location of the document has an event that carries
    the definition of its name and that location; and every directive event is such a directive -/
theorem C09_directive_links_correct (s : Schema) (d : QueryDoc) (evs : List Event) (h : walkDoc s.view d = some evs)
    (hk : ∀ op ∈ d.ops, op.op ∈ parserOpKinds) :
    (∀ loc ds, (loc, ds) ∈ Spec.directiveSites s d → ∀ dir ∈ ds,
      ∃ e ∈ evs, ∃ par, e.p = .directive dir (s.directive? dir.name) par loc) ∧
    (∀ e ∈ evs, ∀ dir dfn par loc, e.p = .directive dir dfn par loc →
      dfn = s.directive? dir.name ∧ ∃ ds, (loc, ds) ∈ Spec.directiveSites s d ∧ dir ∈ ds) :=
  ⟨fun loc ds hs dir hd => directive_event_complete s d evs h hk loc ds hs dir hd,
   fun e he dir dfn par loc hp => directive_event_sound s d evs h hk e he dir dfn par loc hp⟩

/-- the directives of a fragment DEFINITION are walked once more for every operation that spreads
    the fragment: the run has, with `CurrentOperation` = that operation, the `directiveList` event of
    the definition's directive list and a `directive` event for each of its directives, carrying the
    directive definition of its name, the definition of the fragment's type condition as parent and
    the location FRAGMENT_DEFINITION.  (The value events of their arguments — where variables are
    linked and marked used — are fired by the same `walkDirectives` call.) -/
theorem C09_fragment_definition_directives_walked_per_operation (s : Schema) (d : QueryDoc) (evs : List Event)
    (h : walkDoc s.view d = some evs) :
    ∀ op ∈ d.ops, ∀ nm dirs p f, InSels op.sel (.sel (.spread nm dirs p)) → fragForName d nm = some f →
      (∃ e ∈ evs, e.cur = some op ∧ e.p = .directiveList f.dirs) ∧
      ∀ dir ∈ f.dirs, ∃ e ∈ evs, e.cur = some op ∧
        e.p = .directive dir (s.directive? dir.name) (s.type? f.typeCond) locFragmentDefinition :=
  fun op hop nm dirs p f hs hf => walkDoc_defDirs s.view d evs h op hop nm f ⟨dirs, p, hs⟩ hf

/-- non-vacuity: an operation that spreads a fragment whose definition carries a directive with a
    variable — the variable use is linked to the operation's definition and marked used -/
example :
    let dir : Directive := { name := str "skip", args := [{ name := str "if", value := .mk .variable (str "v") .nil Pos.zero, pos := Pos.zero }], pos := Pos.zero }
    let f : FragmentDef := { name := str "F", vars := [], typeCond := str "Q", dirs := [dir], sel := .nil, pos := Pos.zero }
    let v : VarDef := { var := str "v", type := .named (str "Boolean") true Pos.zero, default := none, dirs := [], pos := Pos.zero }
    let op : OperationDef := { op := opQuery, name := [], vars := [v], dirs := [], sel := .cons (.spread (str "F") [] Pos.zero) .nil, pos := Pos.zero }
    let d : QueryDoc := { ops := [op], frags := [f] }
    (walkDoc Schema.empty.view d).map (fun evs => evs.filterMap fun e => match e.p with
      | .operation _ used => some used
      | _ => none) = some [[true]] := by
  decide

/-- the walk always succeeds (C02), so the statements above are not vacuous -/
example (s : Schema) (d : QueryDoc) : ∃ evs, walkDoc s.view d = some evs := walkDoc_isSome s.view d
