import GqlProofs.ValSpec.Spreads
import GqlModel.Validate.Spec.Links
/-
  C09 — validated documents are completely and correctly linked.

  The specification side is `Spec.linksComplete s d dump` (`GqlModel/Validate/Spec/Links.lean`): every
  node of the document carries the links that the declarative typing demands; the check
  `vcheck -prop C09` judges the link dump of the REAL walker with it (op `linkscheck`).

  Proved here for the walker model, for the link kinds that do not depend on the parent type of
  the node (so without `walk_parent_type`), and for ALL documents, valid or not:
    C09_links_correct_partial     whenever one of these links is set it is the one the spec demands:
                                  spread → fragment definition of that name, variable definition →
                                  definition of its named type, fragment definition → definition of
                                  its type condition, directive → directive definition of that name
    C09_spreads_linked            every spread written in the document has been linked (has an event)
    C09_fragment_definitions_linked   every fragment definition has been linked

  NOT finished (kept as the goal):
    C09_links_complete : Closed s → validate defaultRules s d = .ok [] →
        Spec.linksComplete s d (linkDump evs) = true
  Two parts of it are FALSE for the current tree and are reported by the check on the real walker:
  an inline fragment carries the ENCLOSING type, not its type condition's definition
  (`link-wrong:inlineFragment:obj`), and a variable used in the directives of a fragment definition
  is never linked (`link-missing:value:var`).  For field / value links the missing lemma is
  `walk_parent_type` (see C08.lean).
-/
open Gql Gql.Validate

/-- the link carried by an event is the one `Spec.expectedLinks` demands (context-free link kinds) -/
def LinkSound (s : Schema) (d : QueryDoc) : Payload → Prop
  | .fragmentSpread f dfn _ => dfn = Spec.fragByName d f.name
  | .variable v dfn => dfn = s.type? v.type.name
  | .fragment f dfn => dfn = s.type? f.typeCond
  | .directive dir dfn _ _ => dfn = s.directive? dir.name
  | _ => True

theorem linkSound_docSites (s : Schema) (d : QueryDoc) : DocSites s.view d (fun _ => True) (LinkSound s d) :=
  { value := fun _ _ _ => trivial, directive := fun _ _ _ => rfl, directiveList := fun _ => trivial,
    field := fun _ _ _ => trivial, inline := fun _ _ => trivial, spread := fun _ _ _ => rfl,
    frags := fun _ _ _ _ => trivial, ops := fun _ _ _ _ => trivial,
    varDef := fun _ => rfl, operation := fun _ _ _ => trivial, fragment := fun _ _ => rfl }

/-- whenever a spread / variable-definition / fragment-definition / directive link is set, it is
    the right one — for every document, valid or not -/
theorem C09_links_correct_partial (s : Schema) (d : QueryDoc) (evs : List Event)
    (h : walkDoc s.view d = some evs) : ∀ e ∈ evs, LinkSound s d e.p :=
  walkDoc_all (linkSound_docSites s d) evs h

/-- every spread written in the document is reached by the walker and carries the fragment
    definition of its name (`none` exactly when there is no such fragment) -/
theorem C09_spreads_linked (s : Schema) (d : QueryDoc) (evs : List Event) (h : walkDoc s.view d = some evs) :
    ∀ n ∈ Spec.allSpreadNames d, ∃ e ∈ evs, ∃ f par, e.p = .fragmentSpread f (Spec.fragByName d n) par ∧ f.name = n :=
  walkDoc_spreads_complete s.view d evs h

/-- every fragment definition is reached and carries the definition of its type condition -/
theorem C09_fragment_definitions_linked (s : Schema) (d : QueryDoc) (evs : List Event)
    (h : walkDoc s.view d = some evs) :
    ∀ f ∈ d.frags, ∃ e ∈ evs, e.p = .fragment f (s.type? f.typeCond) := by
  intro f hf
  rw [← (walkDoc_events s.view d evs h).2] at hf
  obtain ⟨e, he, dfn, hp⟩ := mem_fragEvents.1 hf
  have := C09_links_correct_partial s d evs h e he
  rw [hp] at this
  exact ⟨e, he, by rw [hp]; exact congrArg _ this⟩

/-- the walk always succeeds (C02), so the statements above are not vacuous -/
example (s : Schema) (d : QueryDoc) : ∃ evs, walkDoc s.view d = some evs := walkDoc_isSome s.view d
