import GqlProofs.Gen.Accounted
import GqlProofs.Validate.WalkBound
import GqlProofs.Validate.NoPanic
import GqlProofs.Validate.RuleFuel
import GqlProofs.Validate.OpEvents
import GqlProofs.Validate.Witness
/-
  C02 — validation never crashes and terminates (the part that concerns `validator.Validate`
  and all rules except OverlappingFieldsCanBeMerged).

  The model `validate` has three outcomes: `ok errs`, `panic msg` (a Go run-time panic or explicit
  `panic(...)`, which `Validate` does not recover) and `outOfFuel` (the bounded-recursion device
  of the walker model).
-/
open Gql Gql.Validate Gql.Validate.Rules

/-- The walker terminates: the recursion through fragment spreads is bounded by the per-operation
    visited set, `frags.length + 1` nested jumps always suffice (the walker model is structurally
    recursive in everything else), so the event list always exists. -/
theorem C02_walk_terminates (s : Schema) (d : QueryDoc) : ∃ evs, walkDoc s.view d = some evs :=
  walkDoc_isSome s.view d

/-- … hence no rule list ever makes `validate` run out of fuel. -/
theorem C02_validate_fuel_suffices (rs : List Rule) (s : Schema) (d : QueryDoc) : validate rs s d ≠ .outOfFuel := by
  obtain ⟨evs, h⟩ := C02_walk_terminates s d
  unfold validate validateV
  rw [h]
  simp only
  split <;> simp

/-- Number of observer calls: at most one per node and walk.  With `docEvents d` the number of
    events of one pass over every node of the document and `fragEvents d` that of all fragment
    bodies, the walker fires at most
      docEvents d + (#operations + #fragments) · fragEvents d  ≤  docEvents d · (#operations + #fragments + 1)
    events (each fragment body is re-walked at most once per operation and once per stand-alone
    fragment walk). -/
theorem C02_walk_events_bound (s : Schema) (d : QueryDoc) (evs : List Event) (h : walkDoc s.view d = some evs) :
    evs.length ≤ docEvents d + (d.ops.length + d.frags.length) * fragEvents d ∧
    evs.length ≤ docEvents d * (d.ops.length + d.frags.length + 1) := by
  have b := walkDoc_bound s.view d evs h
  refine ⟨b, ?_⟩
  have hle := fragEvents_le_docEvents d
  have : (d.ops.length + d.frags.length) * fragEvents d ≤ (d.ops.length + d.frags.length) * docEvents d :=
    Nat.mul_le_mul_left _ hle
  rw [Nat.mul_add, Nat.mul_one, Nat.mul_comm (docEvents d)]
  omega

/-
  Full statement (NOT provable for the code as it is — see the two counterexamples below):

    theorem C02_validate_no_panic (s : Schema) (d : QueryDoc) (hs : Closed s) :
        ∀ m, validate defaultRules s d ≠ .panic m
-/

/-- Partial version: every rule list drawn from the 27 modelled rules other than
    ValuesOfCorrectType, its `…WithoutSuggestions` twin and KnownRootType (`panicFreeRules'`)
    returns an error list on every schema and document — no panic and no fuel exhaustion; in
    particular the bounded searches inside MaxIntrospectionDepth (exponential, but terminating:
    the chain of fragments being visited has pairwise distinct names), SingleFieldSubscriptions
    and NoFragmentCycles never run out of fuel.
    Missing for the full statement: ValuesOfCorrectType (its former crash witnesses R2a/R2b return
    normally since the repair, theorems below; its remaining panic site is `Definition.Fields[0]` of a
    `@oneOf` input object without fields, which a loaded schema cannot contain);
    KnownRootType panics exactly on an operation kind other than query/mutation/subscription,
    which the parser never produces (see `C02_validate_no_panic_parsed_partial`). -/
theorem C02_validate_no_panic_partial (rs : List Rule) (s : Schema) (d : QueryDoc)
    (h : ∀ r ∈ rs, r ∈ panicFreeRules') : ∃ errs, validate rs s d = .ok errs :=
  validateV_neverPanics rs s.view d fun r hr => panicFreeRules'_neverPanic r (h r hr)

/-- the rules covered by `C02_validate_no_panic_partial`, by name -/
theorem C02_panic_free_rule_names :
    panicFreeRules'.map (·.name) =
      [ "FieldsOnCorrectType", "FragmentsOnCompositeTypes", "KnownArgumentNames", "KnownDirectives",
        "KnownFragmentNames", "KnownTypeNames", "LoneAnonymousOperation", "NoUndefinedVariables",
        "NoUnusedFragments", "NoUnusedVariables", "PossibleFragmentSpreads", "ProvidedRequiredArguments",
        "ScalarLeafs", "UniqueArgumentNames", "UniqueDirectivesPerLocation", "UniqueFragmentNames",
        "UniqueInputFieldNames", "UniqueOperationNames", "UniqueVariableNames", "VariablesAreInputTypes",
        "VariablesInAllowedPosition", "FieldsOnCorrectTypeWithoutSuggestions",
        "KnownArgumentNamesWithoutSuggestions", "KnownTypeNamesWithoutSuggestions",
        "MaxIntrospectionDepth", "SingleFieldSubscriptions", "NoFragmentCycles" ].map str := by
  decide

/-- … and with KnownRootType as well, for documents whose operations have a kind the parser can
    produce (`query`, `mutation`, `subscription`; the explicit `panic` of known_root_type.go is
    unreachable from parsed documents).  So of the 30 modelled rules only ValuesOfCorrectType and
    its twin can make `Validate` panic. -/
theorem C02_validate_no_panic_parsed_partial (rs : List Rule) (s : Schema) (d : QueryDoc)
    (hd : ∀ op ∈ d.ops, op.op ∈ parserOpKinds)
    (h : ∀ r ∈ rs, r ∈ panicFreeRules' ∨ r = knownRootType) : ∃ errs, validate rs s d = .ok errs := by
  obtain ⟨evs, hw⟩ := walkDoc_isSome s.view d
  have hev : ∀ e ∈ evs, OpKindOK e := by
    intro e he op u hp
    exact hd op (walkDoc_opsIn s.view d evs hw e he op u hp)
  have hr : ∀ q ∈ rs.map Rule.start, q.rule.NeverPanicsOn OpKindOK := by
    intro q hq
    obtain ⟨r, hr, rfl⟩ := List.mem_map.1 hq
    rcases h r hr with h1 | h1
    · exact (panicFreeRules'_neverPanic r h1).on _
    · subst h1
      exact knownRootType_neverPanicsOn
  obtain ⟨errs, he⟩ := runAll_neverPanicsOn (s := s.view) (d := d) hev hr
  exact ⟨errs, by simp only [validate, validateV, hw, he]⟩

/-- `validate` returned an error list (no panic, fuel not exhausted) -/
def returnsNormally : VResult → Bool
  | .ok _ => true
  | _ => false

/-- R2a after the repair (fixed: 7f... "no nil dereference for an undefined variable in a oneOf input
    object"), kernel-checked: `{ f(one: {a: $undef}) }` with `input One @oneOf { a: String }` no
    longer makes ValuesOfCorrectType panic; it returns normally (NoUndefinedVariables reports `$undef`). -/
theorem C02_validate_R2a_returns :
    returnsNormally (validate [valuesOfCorrectType] Witness.schema Witness.docR2a) = true := by
  decide +kernel

/-- R2b after the repair, kernel-checked: `query($v:String!){f} fragment F on Query { f(one:{a:$v}) }`
    (the fragment is only walked stand-alone, so the variable link is never written) returns normally. -/
theorem C02_validate_R2b_returns :
    returnsNormally (validate [valuesOfCorrectType] Witness.schema Witness.docR2b) = true := by
  decide +kernel

/-- the whole modelled default rule set returns normally on the former crash witness -/
theorem C02_validate_default_R2a_returns :
    returnsNormally (validate defaultRules Witness.schema Witness.docR2a) = true := by
  decide +kernel

/-- non-vacuity of the witnesses: when the operation spreads the fragment the link exists and the
    same rule returns normally (no error: `$v` is non-null) -/
example : validate [valuesOfCorrectType] Witness.schema Witness.docUsed = .ok [] := by decide +kernel

#print axioms C02_walk_terminates
#print axioms C02_validate_fuel_suffices
#print axioms C02_walk_events_bound
#print axioms C02_validate_no_panic_partial
#print axioms C02_panic_free_rule_names
#print axioms C02_validate_no_panic_parsed_partial
#print axioms C02_validate_R2a_returns
#print axioms C02_validate_R2b_returns
#print axioms C02_validate_default_R2a_returns

/-! ### facts regenerated from /repo's sources on every run (GqlModel/Gen/Facts.lean) -/

/-- Every explicit `panic(` of the library's non-test code is one of the classified sites
    (`Gen.accountedPanics`): a new panic site breaks this lemma. -/
theorem C02_gen_panic_sites_accounted :
    ∀ s ∈ Gql.Gen.panicSites, (Gql.Gen.accountedPanics.lookup s).isSome := by decide

/-- reflect is used only where the model accounts for it -/
theorem C02_gen_reflect_calls_accounted :
    ∀ s ∈ Gql.Gen.reflectCalls, s.1 ∈ Gql.Gen.reflectFiles := by decide

/-- the introspection list-depth limit of the model is the source's constant -/
theorem C02_gen_max_lists_depth : Gql.Gen.maxListsDepth = Gql.Validate.Rules.maxListsDepth := by decide
