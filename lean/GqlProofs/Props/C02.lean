import GqlProofs.Validate.WalkBound
import GqlProofs.Validate.NoPanic
import GqlProofs.Validate.RuleFuel
import GqlProofs.Validate.OpEvents
import GqlProofs.Validate.Witness
import GqlProofs.Validate.OverlapSafe
import GqlProofs.Validate.OverlapWitness
/-
  C02 — validation never crashes and terminates (the part that concerns `validator.Validate`
  and the rules; OverlappingFieldsCanBeMerged — the repaired algorithm — is at the end).

  The model `validate` has three outcomes: `ok errs`, `panic msg` (a Go run-time panic or explicit
  `panic(...)`, which `Validate` does not recover) and `outOfFuel` (the bounded-recursion device
  of the walker model).
-/
open Gql Gql.Validate Gql.Validate.Rules

/-- The walker terminates: the recursion through fragment spreads is bounded by the per-operation
    visited set, `frags.length + 1` nested jumps always suffice (the walker model is structurally
    recursive in everything else), so the event list always exists. -/
theorem C02_walk_terminates (s : Schema) (d : QueryDoc) : ∃ evs, walkDoc s.view d = some evs :=
  walkDoc_isSome s.view d

/-- … hence no rule list ever makes `validate` run out of fuel. -/
theorem C02_validate_fuel_suffices (rs : List Rule) (s : Schema) (d : QueryDoc) : validate rs s d ≠ .outOfFuel := by
  obtain ⟨evs, h⟩ := C02_walk_terminates s d
  unfold validate validateV
  rw [h]
  simp only
  split <;> simp

/-- Number of observer calls: at most one per node and walk.  With `docEvents d` the number of
    events of one pass over every node of the document and `fragEvents d` that of all fragment
    bodies, the walker fires at most
      docEvents d + (#operations + #fragments) · fragEvents d  ≤  docEvents d · (#operations + #fragments + 1)
    events (each fragment body is re-walked at most once per operation and once per stand-alone
    fragment walk). -/
theorem C02_walk_events_bound (s : Schema) (d : QueryDoc) (evs : List Event) (h : walkDoc s.view d = some evs) :
    evs.length ≤ docEvents d + (d.ops.length + d.frags.length) * fragEvents d ∧
    evs.length ≤ docEvents d * (d.ops.length + d.frags.length + 1) := by
  have b := walkDoc_bound s.view d evs h
  refine ⟨b, ?_⟩
  have hle := fragEvents_le_docEvents d
  have : (d.ops.length + d.frags.length) * fragEvents d ≤ (d.ops.length + d.frags.length) * docEvents d :=
    Nat.mul_le_mul_left _ hle
  rw [Nat.mul_add, Nat.mul_one, Nat.mul_comm (docEvents d)]
  omega

/-
  Full statement (NOT provable for the code as it is — see the two counterexamples below):

    theorem C02_validate_no_panic (s : Schema) (d : QueryDoc) (hs : Closed s) :
        ∀ m, validate defaultRules s d ≠ .panic m
-/

/-- Partial version: every rule list drawn from the 27 modelled rules other than
    ValuesOfCorrectType, its `…WithoutSuggestions` twin and KnownRootType (`panicFreeRules'`)
    returns an error list on every schema and document — no panic and no fuel exhaustion; in
    particular the bounded searches inside MaxIntrospectionDepth (exponential, but terminating:
    the chain of fragments being visited has pairwise distinct names), SingleFieldSubscriptions
    and NoFragmentCycles never run out of fuel.
    Missing for the full statement: ValuesOfCorrectType is false (counterexamples below);
    KnownRootType panics exactly on an operation kind other than query/mutation/subscription,
    which the parser never produces (see `C02_validate_no_panic_parsed_partial`). -/
theorem C02_validate_no_panic_partial (rs : List Rule) (s : Schema) (d : QueryDoc)
    (h : ∀ r ∈ rs, r ∈ panicFreeRules') : ∃ errs, validate rs s d = .ok errs :=
  validateV_neverPanics rs s.view d fun r hr => panicFreeRules'_neverPanic r (h r hr)

/-- the rules covered by `C02_validate_no_panic_partial`, by name -/
theorem C02_panic_free_rule_names :
    panicFreeRules'.map (·.name) =
      [ "FieldsOnCorrectType", "FragmentsOnCompositeTypes", "KnownArgumentNames", "KnownDirectives",
        "KnownFragmentNames", "KnownTypeNames", "LoneAnonymousOperation", "NoUndefinedVariables",
        "NoUnusedFragments", "NoUnusedVariables", "PossibleFragmentSpreads", "ProvidedRequiredArguments",
        "ScalarLeafs", "UniqueArgumentNames", "UniqueDirectivesPerLocation", "UniqueFragmentNames",
        "UniqueInputFieldNames", "UniqueOperationNames", "UniqueVariableNames", "VariablesAreInputTypes",
        "VariablesInAllowedPosition", "FieldsOnCorrectTypeWithoutSuggestions",
        "KnownArgumentNamesWithoutSuggestions", "KnownTypeNamesWithoutSuggestions",
        "MaxIntrospectionDepth", "SingleFieldSubscriptions", "NoFragmentCycles" ].map str := by
  decide

/-- … and with KnownRootType as well, for documents whose operations have a kind the parser can
    produce (`query`, `mutation`, `subscription`; the explicit `panic` of known_root_type.go is
    unreachable from parsed documents).  So of the 30 modelled rules only ValuesOfCorrectType and
    its twin can make `Validate` panic. -/
theorem C02_validate_no_panic_parsed_partial (rs : List Rule) (s : Schema) (d : QueryDoc)
    (hd : ∀ op ∈ d.ops, op.op ∈ parserOpKinds)
    (h : ∀ r ∈ rs, r ∈ panicFreeRules' ∨ r = knownRootType) : ∃ errs, validate rs s d = .ok errs := by
  obtain ⟨evs, hw⟩ := walkDoc_isSome s.view d
  have hev : ∀ e ∈ evs, OpKindOK e := by
    intro e he op u hp
    exact hd op (walkDoc_opsIn s.view d evs hw e he op u hp)
  have hr : ∀ q ∈ rs.map Rule.start, q.rule.NeverPanicsOn OpKindOK := by
    intro q hq
    obtain ⟨r, hr, rfl⟩ := List.mem_map.1 hq
    rcases h r hr with h1 | h1
    · exact (panicFreeRules'_neverPanic r h1).on _
    · subst h1
      exact knownRootType_neverPanicsOn
  obtain ⟨errs, he⟩ := runAll_neverPanicsOn (s := s.view) (d := d) hev hr
  exact ⟨errs, by simp only [validate, validateV, hw, he]⟩

/-- R2a, kernel-checked: `{ f(one: {a: $undef}) }` with `input One @oneOf { a: String }` makes
    ValuesOfCorrectType dereference the nil `VariableDefinition` of the undefined variable. -/
theorem C02_validate_no_panic_counterexample_R2a :
    validate [valuesOfCorrectType] Witness.schema Witness.docR2a = .panic nilDeref := by
  decide +kernel

/-- R2b, kernel-checked: `query($v:String!){f} fragment F on Query { f(one:{a:$v}) }` — the
    variable IS defined, but the fragment is only walked stand-alone (no current operation), so
    the link is never written. -/
theorem C02_validate_no_panic_counterexample_R2b :
    validate [valuesOfCorrectType] Witness.schema Witness.docR2b = .panic nilDeref := by
  decide +kernel

/-- the whole modelled default rule set panics on these documents as well -/
theorem C02_validate_default_panics_R2a : validate defaultRules Witness.schema Witness.docR2a = .panic nilDeref := by
  decide +kernel

/-- non-vacuity of the witnesses: when the operation spreads the fragment the link exists and the
    same rule returns normally (no error: `$v` is non-null) -/
example : validate [valuesOfCorrectType] Witness.schema Witness.docUsed = .ok [] := by decide +kernel

/- ================= OverlappingFieldsCanBeMerged (the repaired algorithm, DESIGN §7 R2d) ================= -/

/-- (a) The fuel that the entry point `overlapRun` (one `findConflictsWithinSelectionSet` call of an
    observer) hands out is never exhausted: `2·F²+2` nested `findConflict` calls (`F` = field nodes
    of the selection set and of all fragment definitions), `K+2` frames per (E) chain and `2·K²+2`
    frames per `check` recursion (`K` = fragment definitions) — for every schema view, document,
    link state, selection set and every SYMMETRIC `comparedFragmentPairs` (symmetry is an invariant
    of the rule state: it holds initially and the theorem returns it).  So the recursion of the
    real code, which has no fuel, is well-founded on every input, cyclic fragments included. -/
theorem C02_overlap_fuel_suffices (s : SV) (d : QueryDoc) (l : Links) (parent : Option Definition)
    (sels : Selections) (P : Pairs) (hP : PSym P) :
    ∃ P' cs, overlapRun s d l parent sels P = some (P', cs) ∧ PSym P' := by
  obtain ⟨⟨P', cs⟩, h, a⟩ := overlapRun_ok s d l parent sels P hP
  exact ⟨P', cs, h, a.1⟩

/-- The key argument of (a), isolated: (1) `findConflict` at in-progress set `C` consults
    `findConflictsBetweenSubSelectionSets` only at `C` extended by the triple of the two fields it
    compares, and only when that triple is not in `C` (so along the recursion the set strictly
    grows and stays duplicate-free); (2) a duplicate-free set of `(fieldA, fieldB, exclusive)`
    triples over `F` field nodes has at most `2·F²` elements.  Hence the depth of the
    `findConflict` recursion is at most `2·F²`. -/
theorem C02_overlap_depth_bounded :
    (∀ (s : SV) (sub sub' : Bool → FInfo → FInfo → Comparing → Pairs → Option (Pairs × List Conflict))
        (excl0 : Bool) (a b : FInfo) (C : Comparing) (P : Pairs),
        (∀ excl, (a.key, b.key, excl) ∉ C →
          sub excl a b ((a.key, b.key, excl) :: C) P = sub' excl a b ((a.key, b.key, excl) :: C) P) →
        findConflictBody s sub excl0 a b C P = findConflictBody s sub' excl0 a b C P) ∧
    (∀ (U : Univ) (C : Comparing), C.Nodup → (∀ t ∈ C, t ∈ allTriples (U.map (·.1))) →
        C.length ≤ 2 * U.length * U.length) :=
  ⟨findConflictBody_calls_fresh, comparing_length_le⟩

/-- (b) The rule model has no panic outcome: from a symmetric `comparedFragmentPairs` every observer
    call returns an error list (and a symmetric state); and in ANY state the only non-`ok` outcome
    the step function can produce at all is the out-of-fuel marker — there is no Go panic site left
    in the rule (`Schema.Types[...]` is nil-guarded in `doTypesConflict`), so not even `Closed s`
    is needed. -/
theorem C02_overlap_no_panic (s : Schema) (d : QueryDoc) (P : Pairs) (e : Event) :
    (PSym P → ∃ P' errs, overlappingFieldsStep s.view d P e = .ok P' errs ∧ PSym P') ∧
    (∀ m, overlappingFieldsStep s.view d P e = .panic m → m = overlapOutOfFuel) :=
  ⟨overlappingFieldsStep_ok s.view d P e, fun m h => overlappingFieldsStep_panic_only_fuel s.view d P e m h⟩

/-- `C02_validate_no_panic_parsed_partial` with OverlappingFieldsCanBeMerged: every rule list drawn
    from the modelled rules other than ValuesOfCorrectType (+ twin) returns an error list on every
    schema and every document with parser-produced operation kinds — no panic, no fuel exhaustion. -/
theorem C02_validate_no_panic_with_overlap_partial (rs : List Rule) (s : Schema) (d : QueryDoc)
    (hd : ∀ op ∈ d.ops, op.op ∈ parserOpKinds)
    (h : ∀ r ∈ rs, r ∈ panicFreeRules' ∨ r = knownRootType ∨ r = overlappingFieldsCanBeMerged) :
    ∃ errs, validate rs s d = .ok errs :=
  validateV_safe rs s.view d hd fun r hr => (h r hr).imp (panicFreeRules'_neverPanic r) id

/-- non-vacuity: the rule alone, and together with all other panic-free rules, is covered -/
example (s : Schema) (d : QueryDoc) (hd : ∀ op ∈ d.ops, op.op ∈ parserOpKinds) :
    ∃ errs, validate (overlappingFieldsCanBeMerged :: knownRootType :: panicFreeRules') s d = .ok errs :=
  C02_validate_no_panic_with_overlap_partial _ s d hd fun r hr => by
    rcases List.mem_cons.1 hr with h | hr
    · exact Or.inr (Or.inr h)
    · rcases List.mem_cons.1 hr with h | hr
      · exact Or.inr (Or.inl h)
      · exact Or.inl hr

/-
  NOT a theorem (and false for the repaired code as it is): the polynomial cost bound
      C02_overlap_ticks : ticks ≤ c · nodes(d)² · (fragments(d) + 1)²
  of DESIGN C02.  The in-progress set only cuts cycles; a pair of fields that has been compared is
  compared again whenever it is reached along another path.  On
      { u { ...F } }   fragment F on Node { u { u { … u { id ...F } … ...F } ...F } }      (k levels)
  every pair `(u_i, u_j)` is reached along exponentially many paths: the real rule needs 5 s for
  k = 10 (151 bytes), 33 s for k = 11, 214 s for k = 12 (173 bytes), the model 0.65 s / 4.6 s / 29 s
  (X-overlap, family `fragment-cycle-every-level`).  The depth bound above (`2·F²`) is tight for the
  recursion DEPTH only.  The memoisation of completed `(selection set, selection set, exclusive)`
  comparisons proposed in DESIGN C02 (b) would give the polynomial bound.
-/

/-- kernel-checked: on `{ u { ...F } } fragment F on Node { u { id ...F } ...F }` — a fragment that
    reaches itself directly and through a field, the shape of DESIGN §7 R2d — the model of the repaired
    rule terminates with an empty error list (the real rule agrees: X-overlap) -/
theorem C02_overlap_cyclic_witness :
    validate [overlappingFieldsCanBeMerged] OverlapWitness.schema OverlapWitness.docCycle = .ok [] := by
  decide +kernel

#print axioms C02_walk_terminates
#print axioms C02_validate_fuel_suffices
#print axioms C02_walk_events_bound
#print axioms C02_validate_no_panic_partial
#print axioms C02_panic_free_rule_names
#print axioms C02_validate_no_panic_parsed_partial
#print axioms C02_validate_no_panic_counterexample_R2a
#print axioms C02_validate_no_panic_counterexample_R2b
#print axioms C02_validate_default_panics_R2a
#print axioms C02_overlap_fuel_suffices
#print axioms C02_overlap_depth_bounded
#print axioms C02_overlap_no_panic
#print axioms C02_validate_no_panic_with_overlap_partial
#print axioms C02_overlap_cyclic_witness
