import GqlProofs.Gen.Accounted
import GqlProofs.Validate.WalkBound
import GqlProofs.Validate.NoPanic
import GqlProofs.Validate.RuleFuel
import GqlProofs.Validate.OpEvents
import GqlProofs.Validate.Witness
import GqlProofs.Validate.OverlapSafe
import GqlProofs.Validate.OverlapWitness
/-
  C02 — validation never crashes and terminates (the part that concerns `validator.Validate`
  and the rules; OverlappingFieldsCanBeMerged — the repaired algorithm — is at the end).

  The model `validate` has three outcomes: `ok errs`, `panic msg` (a Go run-time panic or explicit
  `panic(...)`, which `Validate` does not recover) and `outOfFuel` (the bounded-recursion device
  of the walker model).
-/
open Gql Gql.Validate Gql.Validate.Rules

/-- The walker terminates: the recursion through fragment spreads is bounded by the per-operation
    visited set, `frags.length + 1` nested jumps always suffice (the walker model is structurally
    recursive in everything else), so the event list always exists. -/
theorem C02_walk_terminates (s : Schema) (d : QueryDoc) : ∃ evs, walkDoc s.view d = some evs :=
  walkDoc_isSome s.view d

/-- … hence no rule list ever makes `validate` run out of fuel. -/
theorem C02_validate_fuel_suffices (rs : List Rule) (s : Schema) (d : QueryDoc) : validate rs s d ≠ .outOfFuel := by
  obtain ⟨evs, h⟩ := C02_walk_terminates s d
  unfold validate validateV
  rw [h]
  simp only
  split <;> simp

/-- Number of observer calls: at most one per node and walk.  With `docEvents d` the number of
    events of one pass over every node of the document and `fragEvents d` that of all fragment
    bodies (per fragment: the directives of the definition and its selection set — both are walked
    on the first visit of the fragment in a walk), the walker fires at most
      docEvents d + (#operations + #fragments) · fragEvents d  ≤  docEvents d · (#operations + #fragments + 1)
    events (each fragment body is re-walked at most once per operation and once per stand-alone
    fragment walk). -/
theorem C02_walk_events_bound (s : Schema) (d : QueryDoc) (evs : List Event) (h : walkDoc s.view d = some evs) :
    evs.length ≤ docEvents d + (d.ops.length + d.frags.length) * fragEvents d ∧
    evs.length ≤ docEvents d * (d.ops.length + d.frags.length + 1) := by
  have b := walkDoc_bound s.view d evs h
  refine ⟨b, ?_⟩
  have hle := fragEvents_le_docEvents d
  have : (d.ops.length + d.frags.length) * fragEvents d ≤ (d.ops.length + d.frags.length) * docEvents d :=
    Nat.mul_le_mul_left _ hle
  rw [Nat.mul_add, Nat.mul_one, Nat.mul_comm (docEvents d)]
  omega

/-- `validate` returned an error list (no panic, fuel not exhausted) -/
def returnsNormally : VResult → Bool
  | .ok _ => true
  | _ => false

/-
  Full statement, for the modelled rules (all default rules except OverlappingFieldsCanBeMerged,
  plus the four `…WithoutSuggestions` twins):

    theorem C02_validate_no_panic (rs ⊆ modelledRules) (s : Schema) (d : QueryDoc) :
        ∃ errs, validate rs s d = .ok errs

  It holds of every document whose operations have a kind the parser can produce
  (`C02_validate_no_panic_parsed`); without that hypothesis KnownRootType's explicit `panic` on an
  unknown operation kind is reachable from a hand-built AST, and only that rule's
  (`C02_validate_no_panic_partial` covers the other 29 rules on EVERY schema and document).
  No hypothesis on the schema is needed.
-/

/-- Every rule list drawn from the 29 modelled rules other than KnownRootType (`panicFreeRules'`)
    returns an error list on every schema and document — no panic and no fuel exhaustion; in
    particular the bounded searches inside MaxIntrospectionDepth (exponential, but terminating:
    the chain of fragments being visited has pairwise distinct names), SingleFieldSubscriptions
    and NoFragmentCycles never run out of fuel.
    ValuesOfCorrectType and its `…WithoutSuggestions` twin are covered since the repairs of
    R2a/R2b (nil `VariableDefinition` in the `@oneOf` branch), of `Definition.Fields[0]` (the
    message names `Children[0].Name`) and of R15 (`Value.Value` converts every number literal): the
    rule body has no panic site left except the `default` of a switch over all ten value kinds.
    Missing for the full statement: KnownRootType panics exactly on an operation kind other than
    query/mutation/subscription, which the parser never produces (`C02_validate_no_panic_parsed`). -/
theorem C02_validate_no_panic_partial (rs : List Rule) (s : Schema) (d : QueryDoc)
    (h : ∀ r ∈ rs, r ∈ panicFreeRules') : ∃ errs, validate rs s d = .ok errs :=
  validateV_neverPanics rs s.view d fun r hr => panicFreeRules'_neverPanic r (h r hr)

/-- the rules covered by `C02_validate_no_panic_partial`, by name -/
theorem C02_panic_free_rule_names :
    panicFreeRules'.map (·.name) =
      [ "FieldsOnCorrectType", "FragmentsOnCompositeTypes", "KnownArgumentNames", "KnownDirectives",
        "KnownFragmentNames", "KnownTypeNames", "LoneAnonymousOperation", "NoUndefinedVariables",
        "NoUnusedFragments", "NoUnusedVariables", "PossibleFragmentSpreads", "ProvidedRequiredArguments",
        "ScalarLeafs", "UniqueArgumentNames", "UniqueDirectivesPerLocation", "UniqueFragmentNames",
        "UniqueInputFieldNames", "UniqueOperationNames", "UniqueVariableNames", "VariablesAreInputTypes",
        "VariablesInAllowedPosition", "FieldsOnCorrectTypeWithoutSuggestions",
        "KnownArgumentNamesWithoutSuggestions", "KnownTypeNamesWithoutSuggestions",
        "ValuesOfCorrectType", "ValuesOfCorrectTypeWithoutSuggestions",
        "MaxIntrospectionDepth", "SingleFieldSubscriptions", "NoFragmentCycles" ].map str := by
  decide

/-- … and with KnownRootType as well, for documents whose operations have a kind the parser can
    produce (`query`, `mutation`, `subscription`; the explicit `panic` of known_root_type.go is
    unreachable from parsed documents). -/
theorem C02_validate_no_panic_parsed_partial (rs : List Rule) (s : Schema) (d : QueryDoc)
    (hd : ∀ op ∈ d.ops, op.op ∈ parserOpKinds)
    (h : ∀ r ∈ rs, r ∈ panicFreeRules' ∨ r = knownRootType) : ∃ errs, validate rs s d = .ok errs := by
  obtain ⟨evs, hw⟩ := walkDoc_isSome s.view d
  have hev : ∀ e ∈ evs, OpKindOK e := by
    intro e he op u hp
    exact hd op (walkDoc_opsIn s.view d evs hw e he op u hp)
  have hr : ∀ q ∈ rs.map Rule.start, q.rule.NeverPanicsOn OpKindOK := by
    intro q hq
    obtain ⟨r, hr, rfl⟩ := List.mem_map.1 hq
    rcases h r hr with h1 | h1
    · exact (panicFreeRules'_neverPanic r h1).on _
    · subst h1
      exact knownRootType_neverPanicsOn
  obtain ⟨errs, he⟩ := runAll_neverPanicsOn (s := s.view) (d := d) hev hr
  exact ⟨errs, by simp only [validate, validateV, hw, he]⟩

/-- the hypothesis on operation kinds cannot be dropped: KnownRootType panics on a hand-built
    operation of kind `fetch` -/
theorem C02_validate_needs_parser_op_kinds :
    validate [knownRootType] Witness.schema
      { ops := [{ op := str "fetch", name := [], vars := [], dirs := [], sel := .nil, pos := Pos.zero }], frags := [] }
      = .panic (str "got unknown operation type \"fetch\"") := by
  decide +kernel

/-- R2a after the repair (fixed: 7f... "no nil dereference for an undefined variable in a oneOf input
    object"), kernel-checked: `{ f(one: {a: $undef}) }` with `input One @oneOf { a: String }` no
    longer makes ValuesOfCorrectType panic; it returns normally (NoUndefinedVariables reports `$undef`). -/
theorem C02_validate_R2a_returns :
    returnsNormally (validate [valuesOfCorrectType] Witness.schema Witness.docR2a) = true := by
  decide +kernel

/-- R2b after the repair, kernel-checked: `query($v:String!){f} fragment F on Query { f(one:{a:$v}) }`
    (the fragment is only walked stand-alone, so the variable link is never written) returns normally. -/
theorem C02_validate_R2b_returns :
    returnsNormally (validate [valuesOfCorrectType] Witness.schema Witness.docR2b) = true := by
  decide +kernel

/-- the whole modelled default rule set returns normally on the former crash witness -/
theorem C02_validate_default_R2a_returns :
    returnsNormally (validate defaultRules Witness.schema Witness.docR2a) = true := by
  decide +kernel

/-- non-vacuity of the witnesses: when the operation spreads the fragment the link exists and the
    same rule returns normally (no error: `$v` is non-null) -/
example : validate [valuesOfCorrectType] Witness.schema Witness.docUsed = .ok [] := by decide +kernel

/- ================= OverlappingFieldsCanBeMerged (the repaired algorithm, DESIGN §7 R2d) ================= -/

/-- (a) The fuel that the entry point `overlapRun` (one `findConflictsWithinSelectionSet` call of an
    observer) hands out is never exhausted — `overlapFuel` nested `findConflict` calls, `K+2` frames
    per (E) recursion and `2·K²+2` frames per `check` recursion (`K` = fragment definitions) — for
    every schema view, document, link state, selection set and every manager state whose
    fragment-pair memo is SYMMETRIC (an invariant of the rule state: it holds initially and the
    theorem returns it; the memo of (selection set, fragment) comparisons may contain anything).
    So the recursion of the real code, which has no fuel, is well-founded on every input, cyclic
    fragments included: termination follows from the two memos alone. -/
theorem C02_overlap_fuel_suffices (s : SV) (d : QueryDoc) (l : Links) (parent : Option Definition)
    (sels : Selections) (st : OSt) (hP : PSym st.pairs) :
    ∃ st' cs, overlapRun s d l parent sels st = some (st', cs) ∧ PSym st'.pairs := by
  obtain ⟨⟨st', cs⟩, h, a, _⟩ := overlapRun_ok s d l parent sels st hP
  exact ⟨st', cs, h, a⟩

/-- The polynomial cost bound (DESIGN C02; impossible before the memo of (selection set, fragment)
    comparisons).  `steps` counts every call of `findConflict`, of
    `collectConflictsBetweenFieldsAndFragment` and of `collectConflictsBetweenFragments.check`.
    ONE observer call (`findConflictsWithinSelectionSet(sels)`) takes at most
        overlapStepBound d sels = (N+1)² · (2·K² + 2·(F+1)·K + 1)
    of them, where `N` / `F` = field-and-spread nodes / field nodes of `sels` and of all fragment
    definitions and `K` = fragment definitions — for EVERY document (cyclic fragments included), every
    link state and every manager state reachable in a validation run (`PSym`; the content of the
    two memos only makes the call cheaper). -/
theorem C02_overlap_ticks (s : SV) (d : QueryDoc) (l : Links) (parent : Option Definition)
    (sels : Selections) (st : OSt) (hP : PSym st.pairs) :
    ∃ st' cs, overlapRun s d l parent sels st = some (st', cs) ∧
      st'.steps ≤ st.steps + overlapStepBound d sels := by
  obtain ⟨⟨st', cs⟩, h, _, _, k⟩ := overlapRun_ok s d l parent sels st hP
  exact ⟨st', cs, h, k⟩

/-- the bound of `C02_overlap_ticks`, spelled out -/
theorem C02_overlap_step_bound_poly (d : QueryDoc) (sels : Selections) :
    overlapStepBound d sels =
      (reachableNodeCount d sels + 1) * (reachableNodeCount d sels + 1) *
        (2 * d.frags.length * d.frags.length + 2 * (reachableFieldCount d sels + 1) * d.frags.length + 1) := rfl

/-- Whole validation: over ANY list of events (in particular the events of `walkDoc`), started from
    the initial manager, the rule returns normally on every event and takes at most the sum of the
    per-observer-call bounds (`eventBound d e = overlapStepBound d sels` for the selection set the
    observer of `e` works on, `0` for the events the rule ignores).  `overlapFold` is the sequence
    of states the engine threads for the rule (`overlap_running_step`). -/
theorem C02_overlap_ticks_validation (s : SV) (d : QueryDoc) (evs : List Event) :
    ∃ st', overlapFold s d OSt.init evs = some st' ∧ st'.steps ≤ sumBounds d evs := by
  obtain ⟨st', h, _, k⟩ := overlapFold_steps s d evs OSt.init PSym_nil
  refine ⟨st', h, ?_⟩
  simpa [OSt.init] using k

/-- … hence a polynomial in the size of the document: if every selection set an observer is called
    for has at most `n` field-and-spread nodes and `f` field nodes (every selection set of the
    document does, for `n` / `f` the node / field count of the document: the events of `walkDoc` carry
    nodes of the document — `walkDoc_opsIn`, `walkDoc_cov`), the whole validation takes at most
        #events · (n + Nf + 1)² · (2·K² + 2·(f + Ff + 1)·K + 1)
    steps (`Nf`/`Ff` = nodes / fields of the fragment definitions; #events is bounded by
    `C02_walk_events_bound`). -/
theorem C02_overlap_ticks_validation_poly (s : SV) (d : QueryDoc) (evs : List Event) (n f : Nat)
    (hin : ∀ e ∈ evs, ∀ sels, eventSels e = some sels → countNodes sels ≤ n ∧ countFields sels ≤ f) :
    ∃ st', overlapFold s d OSt.init evs = some st' ∧
      st'.steps ≤ evs.length *
        ((n + fragNodeCount d + 1) * (n + fragNodeCount d + 1) *
          (2 * d.frags.length * d.frags.length + 2 * (f + fragFieldCount d + 1) * d.frags.length + 1)) := by
  obtain ⟨st', h, k⟩ := C02_overlap_ticks_validation s d evs
  refine ⟨st', h, Nat.le_trans k ?_⟩
  clear k h
  induction evs with
  | nil => simp [sumBounds, sumNat]
  | cons e es ih =>
    have ih' := ih (fun e' he' => hin e' (List.mem_cons_of_mem _ he'))
    have he : eventBound d e ≤ (n + fragNodeCount d + 1) * (n + fragNodeCount d + 1) *
        (2 * d.frags.length * d.frags.length + 2 * (f + fragFieldCount d + 1) * d.frags.length + 1) := by
      unfold eventBound
      cases hs : eventSels e with
      | none => exact Nat.zero_le _
      | some sels =>
        obtain ⟨h1, h2⟩ := hin e (List.mem_cons_self ..) sels hs
        simp only
        rw [C02_overlap_step_bound_poly]
        unfold reachableNodeCount reachableFieldCount
        apply Nat.mul_le_mul
        · exact Nat.mul_le_mul (by omega) (by omega)
        · have : 2 * (countFields sels + fragFieldCount d + 1) * d.frags.length ≤
              2 * (f + fragFieldCount d + 1) * d.frags.length :=
            Nat.mul_le_mul_right _ (Nat.mul_le_mul_left _ (by omega))
          omega
    generalize (n + fragNodeCount d + 1) * (n + fragNodeCount d + 1) *
      (2 * d.frags.length * d.frags.length + 2 * (f + fragFieldCount d + 1) * d.frags.length + 1) = B at he ih' ⊢
    simp only [sumBounds, List.map_cons, sumNat_cons, List.length_cons] at ih' ⊢
    rw [Nat.succ_mul]
    omega

/-- (b) The rule model has no panic outcome: from a manager whose fragment-pair memo is symmetric
    every observer call returns an error list (and such a manager); and in ANY state the only
    non-`ok` outcome the step function can produce at all is the out-of-fuel marker — there is no Go
    panic site left in the rule (`Schema.Types[...]` is nil-guarded in `doTypesConflict`), so not even
    `Closed s` is needed. -/
theorem C02_overlap_no_panic (s : Schema) (d : QueryDoc) (st : OSt) (e : Event) :
    (PSym st.pairs → ∃ st' errs, overlappingFieldsStep s.view d st e = .ok st' errs ∧ PSym st'.pairs) ∧
    (∀ m, overlappingFieldsStep s.view d st e = .panic m → m = overlapOutOfFuel) :=
  ⟨fun h => by
      obtain ⟨st', errs, h1, h2, _⟩ := overlappingFieldsStep_ok s.view d st e h
      exact ⟨st', errs, h1, h2⟩,
   fun m h => overlappingFieldsStep_panic_only_fuel s.view d st e m h⟩

/-- `C02_validate_no_panic_parsed_partial` with OverlappingFieldsCanBeMerged: every rule list drawn
    from the modelled rules other than ValuesOfCorrectType (+ twin) returns an error list on every
    schema and every document with parser-produced operation kinds — no panic, no fuel exhaustion. -/
theorem C02_validate_no_panic_with_overlap_partial (rs : List Rule) (s : Schema) (d : QueryDoc)
    (hd : ∀ op ∈ d.ops, op.op ∈ parserOpKinds)
    (h : ∀ r ∈ rs, r ∈ panicFreeRules' ∨ r = knownRootType ∨ r = overlappingFieldsCanBeMerged) :
    ∃ errs, validate rs s d = .ok errs :=
  validateV_safe rs s.view d hd fun r hr => (h r hr).imp (panicFreeRules'_neverPanic r) id

/-- non-vacuity: the rule alone, and together with all other panic-free rules, is covered -/
example (s : Schema) (d : QueryDoc) (hd : ∀ op ∈ d.ops, op.op ∈ parserOpKinds) :
    ∃ errs, validate (overlappingFieldsCanBeMerged :: knownRootType :: panicFreeRules') s d = .ok errs :=
  C02_validate_no_panic_with_overlap_partial _ s d hd fun r hr => by
    rcases List.mem_cons.1 hr with h | hr
    · exact Or.inr (Or.inr h)
    · rcases List.mem_cons.1 hr with h | hr
      · exact Or.inr (Or.inl h)
      · exact Or.inl hr

/-- every modelled rule is KnownRootType, OverlappingFieldsCanBeMerged or one of the 29 rules that never panic -/
theorem C02_modelled_rules_covered : ∀ r ∈ modelledRules,
    r ∈ panicFreeRules' ∨ r = knownRootType ∨ r = overlappingFieldsCanBeMerged := by
  intro r hr
  simp only [modelledRules, List.mem_cons, List.mem_nil_iff, or_false] at hr
  -- (membership by position in `panicFreeRules'`: no equality test between rules is needed)
  rcases hr with h | h | h | h | h | h | h | h | h | h | h | h | h | h | h | h | h | h | h | h | h | h | h | h | h | h | h | h | h | h | h <;> subst h
  · exact Or.inl (List.mem_of_getElem? (i := 0) rfl)
  · exact Or.inl (List.mem_of_getElem? (i := 1) rfl)
  · exact Or.inl (List.mem_of_getElem? (i := 2) rfl)
  · exact Or.inl (List.mem_of_getElem? (i := 3) rfl)
  · exact Or.inl (List.mem_of_getElem? (i := 4) rfl)
  · exact Or.inr (Or.inl rfl)
  · exact Or.inl (List.mem_of_getElem? (i := 5) rfl)
  · exact Or.inl (List.mem_of_getElem? (i := 6) rfl)
  · exact Or.inl (List.mem_of_getElem? (i := 26) rfl)
  · exact Or.inl (List.mem_of_getElem? (i := 28) rfl)
  · exact Or.inl (List.mem_of_getElem? (i := 7) rfl)
  · exact Or.inl (List.mem_of_getElem? (i := 8) rfl)
  · exact Or.inl (List.mem_of_getElem? (i := 9) rfl)
  · exact Or.inr (Or.inr rfl)
  · exact Or.inl (List.mem_of_getElem? (i := 10) rfl)
  · exact Or.inl (List.mem_of_getElem? (i := 11) rfl)
  · exact Or.inl (List.mem_of_getElem? (i := 12) rfl)
  · exact Or.inl (List.mem_of_getElem? (i := 27) rfl)
  · exact Or.inl (List.mem_of_getElem? (i := 13) rfl)
  · exact Or.inl (List.mem_of_getElem? (i := 14) rfl)
  · exact Or.inl (List.mem_of_getElem? (i := 15) rfl)
  · exact Or.inl (List.mem_of_getElem? (i := 16) rfl)
  · exact Or.inl (List.mem_of_getElem? (i := 17) rfl)
  · exact Or.inl (List.mem_of_getElem? (i := 18) rfl)
  · exact Or.inl (List.mem_of_getElem? (i := 24) rfl)
  · exact Or.inl (List.mem_of_getElem? (i := 19) rfl)
  · exact Or.inl (List.mem_of_getElem? (i := 20) rfl)
  · exact Or.inl (List.mem_of_getElem? (i := 21) rfl)
  · exact Or.inl (List.mem_of_getElem? (i := 22) rfl)
  · exact Or.inl (List.mem_of_getElem? (i := 23) rfl)
  · exact Or.inl (List.mem_of_getElem? (i := 25) rfl)

/-- C02 for ALL 31 modelled rules (all 27 default rules, OverlappingFieldsCanBeMerged included, and the
    four `…WithoutSuggestions` twins), in any selection and order, on EVERY schema: validation of a
    document whose operation kinds are ones the parser produces returns an error list — it neither
    panics nor runs out of fuel.  The only hypothesis is `hd` (operation kinds); it is needed for
    KnownRootType alone. -/
theorem C02_validate_no_panic_parsed (rs : List Rule) (s : Schema) (d : QueryDoc)
    (hd : ∀ op ∈ d.ops, op.op ∈ parserOpKinds)
    (h : ∀ r ∈ rs, r ∈ modelledRules) : ∃ errs, validate rs s d = .ok errs :=
  C02_validate_no_panic_with_overlap_partial rs s d hd fun r hr => C02_modelled_rules_covered r (h r hr)

/-- … in particular the modelled default rule set -/
theorem C02_validate_default_no_panic_parsed (s : Schema) (d : QueryDoc)
    (hd : ∀ op ∈ d.ops, op.op ∈ parserOpKinds) : ∃ errs, validate defaultRules s d = .ok errs := by
  apply C02_validate_no_panic_parsed defaultRules s d hd
  intro r hr
  simp only [defaultRules, List.mem_filterMap] at hr
  obtain ⟨n, _, hn⟩ := hr
  exact List.mem_of_find?_eq_some hn

/-
  History: with the in-progress set of the first repair (R2d) the rule terminated but was exponential —
      { u { ...F } }   fragment F on Node { u { u { … u { id ...F } … ...F } ...F } }      (k levels)
  took 5 s for k = 10, 33 s for k = 11, 214 s for k = 12 (173 bytes).  With the memo of (selection set,
  fragment) comparisons (one per `findConflictsWithinSelectionSet` call) the same family takes 3 ms at
  k = 12, 72 ms at k = 48, 0.7 s at k = 96 (about k³), and the bound is `C02_overlap_ticks` above.
  The memo is per top-level call because the walker links fields as it goes: a comparison cached
  while a fragment was only partly linked must not suppress the same comparison later (with a memo
  per rule instance the rule's verdict changed on 0.2 % of the cyclic documents of X-overlap).
-/

/-- kernel-checked: on `{ u { ...F } } fragment F on Node { u { id ...F } ...F }` — a fragment that
    reaches itself directly and through a field, the shape of DESIGN §7 R2d — the model of the repaired
    rule terminates with an empty error list (the real rule agrees: X-overlap) -/
theorem C02_overlap_cyclic_witness :
    validate [overlappingFieldsCanBeMerged] OverlapWitness.schema OverlapWitness.docCycle = .ok [] := by
  decide +kernel

#print axioms C02_walk_terminates
#print axioms C02_validate_fuel_suffices
#print axioms C02_walk_events_bound
#print axioms C02_validate_no_panic_partial
#print axioms C02_panic_free_rule_names
#print axioms C02_validate_no_panic_parsed_partial
#print axioms C02_overlap_fuel_suffices
#print axioms C02_overlap_ticks
#print axioms C02_overlap_step_bound_poly
#print axioms C02_overlap_ticks_validation
#print axioms C02_overlap_ticks_validation_poly
#print axioms C02_overlap_no_panic
#print axioms C02_validate_no_panic_with_overlap_partial
#print axioms C02_overlap_cyclic_witness
#print axioms C02_modelled_rules_covered
#print axioms C02_validate_no_panic_parsed
#print axioms C02_validate_default_no_panic_parsed
#print axioms C02_validate_needs_parser_op_kinds
#print axioms C02_validate_R2a_returns
#print axioms C02_validate_R2b_returns
#print axioms C02_validate_default_R2a_returns

/-! ### facts regenerated from /repo's sources on every run (GqlModel/Gen/Facts.lean) -/

/-- Every explicit `panic(` of the library's non-test code is one of the classified sites
    (`Gen.accountedPanics`): a new panic site breaks this lemma. -/
theorem C02_gen_panic_sites_accounted :
    ∀ s ∈ Gql.Gen.panicSites, (Gql.Gen.accountedPanics.lookup s).isSome := by decide

/-- reflect is used only where the model accounts for it -/
theorem C02_gen_reflect_calls_accounted :
    ∀ s ∈ Gql.Gen.reflectCalls, s.1 ∈ Gql.Gen.reflectFiles := by decide

/-- the introspection list-depth limit of the model is the source's constant -/
theorem C02_gen_max_lists_depth : Gql.Gen.maxListsDepth = Gql.Validate.Rules.maxListsDepth := by decide
