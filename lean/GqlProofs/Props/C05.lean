import GqlProofs.Grammar.Sound
import GqlProofs.Grammar.Reject
import GqlProofs.Grammar.PrintQuery
/-
  C05 — the query parser accepts exactly the executable grammar, faithfully.

  This file holds the SPECIFICATION-side theorems: they are about the grammar tables `gql`, the
  derivation relation `Derives`, the generic recogniser (`recognises`, `canonical`: what the
  driver ops `gq` / `gqc` run) and the unparser `Print.printQuery` (op `unparseq`).  The tie to
  the real parser is the check `C05` (harness/internal/props/grammarcheck.go): verdict and
  unparse equation against these definitions, input by input.
-/
open Gql Gql.Lexer Gql.Grammar Gql.Print

/-! ### the recogniser is sound: a `1` from `gq` is a derivation -/

theorem C05_recognise_sound (ts : List Tok) (h : isExecutable ts = true) :
    Derivable gql .executableDocument ts :=
  recognises_sound gql _ ts h

/-- the token list printed by `gqc` is the canonical form of a derivation of the input -/
theorem C05_canonical_sound (ts out : List Tok) (h : canonical gql .executableDocument ts = some out) :
    Derives gql (.nt .executableDocument) ts out :=
  canonical_sound gql _ ts out h

/-! ### rejection classes, on the grammar tables -/

/-- the empty token sequence (an input of ignored tokens and comments only) is not a document -/
theorem C05_reject_classes_empty_document : ¬ Derivable gql .executableDocument [] := by
  intro ⟨out, h⟩
  have := minLen_nt 24 h
  revert this; decide

/-- every executable document has at least three tokens (`{ a }`) -/
theorem C05_document_min_length (ts : List Tok) (h : Derivable gql .executableDocument ts) : 3 ≤ ts.length := by
  obtain ⟨out, h⟩ := h
  exact minLen_nt 24 h

/-- `( )`: an argument list has at least five tokens `( name : value )` -/
theorem C05_reject_classes_empty_arguments (c : Bool) (ts out : List Tok)
    (h : Derives gql (.nt (.arguments c)) ts out) : 5 ≤ ts.length := by
  have := minLen_nt 24 h
  cases c <;> exact this

/-- `{ }`: a selection set has at least three tokens -/
theorem C05_reject_classes_empty_selection_set (ts out : List Tok)
    (h : Derives gql (.nt .selectionSet) ts out) : 3 ≤ ts.length :=
  minLen_nt 24 h

/-- `( )`: variable definitions have at least six tokens `( $ name : Type )` -/
theorem C05_reject_classes_empty_variable_definitions (ts out : List Tok)
    (h : Derives gql (.nt .variableDefinitions) ts out) : 6 ≤ ts.length :=
  minLen_nt 24 h

/-- in particular the two-token sequences `( )` and `{ }` are derivable from none of them -/
theorem C05_reject_classes_empty_lists (a b : Tok) (out : List Tok) :
    (∀ c, ¬ Derives gql (.nt (.arguments c)) [a, b] out)
    ∧ ¬ Derives gql (.nt .selectionSet) [a, b] out
    ∧ ¬ Derives gql (.nt .variableDefinitions) [a, b] out := by
  refine ⟨fun c h => ?_, fun h => ?_, fun h => ?_⟩
  · have := C05_reject_classes_empty_arguments c _ _ h; simp at this
  · have := C05_reject_classes_empty_selection_set _ _ h; simp at this
  · have := C05_reject_classes_empty_variable_definitions _ _ h; simp at this

/-- a variable never occurs in a const context: `Value[Const]` (default values),
    `Directives[Const]` (directives of variable definitions), `Arguments[Const]` -/
theorem C05_reject_classes_variable_in_const (ts out : List Tok) :
    (Derives gql (.nt (.value true)) ts out → ∀ t ∈ ts, t.kind ≠ .dollar)
    ∧ (Derives gql (.nt .defaultValue) ts out → ∀ t ∈ ts, t.kind ≠ .dollar)
    ∧ (Derives gql (.nt (.directives true)) ts out → ∀ t ∈ ts, t.kind ≠ .dollar)
    ∧ (Derives gql (.nt (.arguments true)) ts out → ∀ t ∈ ts, t.kind ≠ .dollar) :=
  ⟨const_no_dollar (by simp [constNT]), const_no_dollar (by simp [constNT]), const_no_dollar (by simp [constNT]),
   const_no_dollar (by simp [constNT])⟩

/-- `on` is not a fragment name: the only sentences of FragmentName are single Name tokens
    other than `on` (a String token never is one) -/
theorem C05_reject_classes_fragment_name_on (ts out : List Tok) (h : Derives gql (.nt .fragmentName) ts out) :
    ∃ v, ts = [{ kind := .name, value := v }] ∧ v ≠ str "on" := by
  have h := h.nt_inv
  obtain ⟨t, e1, _, hp⟩ := h.tok_inv
  obtain ⟨k, v⟩ := t
  simp only [Bool.and_eq_true, beq_iff_eq, Bool.not_eq_true', List.contains_cons, List.contains_nil,
    Bool.or_false, beq_eq_false_iff_ne] at hp
  obtain ⟨hk, hv⟩ := hp
  subst hk
  exact ⟨v, e1, hv⟩

/-- keywords are Name tokens: a String (or any non-Name) token is never the keyword `on` of a
    type condition -/
theorem C05_reject_classes_string_token_as_keyword (t : Tok) (rest out : List Tok)
    (h : Derives gql (.nt .typeCondition) (t :: rest) out) : t = { kind := .name, value := str "on" } := by
  have h := h.nt_inv
  obtain ⟨t1, t2, o1, o2, e, _, d1, _⟩ := h.seq_inv'
  obtain ⟨t', e1, _, hp⟩ := d1.tok_inv
  subst e1
  simp only [List.cons_append, List.nil_append, List.cons.injEq] at e
  obtain ⟨rfl, _⟩ := e
  obtain ⟨k, v⟩ := t
  simp only [Bool.and_eq_true, beq_iff_eq] at hp
  obtain ⟨rfl, rfl⟩ := hp
  rfl

/-! ### the unparser stays inside the grammar -/

/-- The print of every well-formed tree (`Print.WFQuery`: at least one definition, operation
    types `query`/`mutation`/`subscription`, non-empty required selection sets, no fragment
    named `on`, no variable in default values and in directives of variable definitions) is a
    sentence of `ExecutableDocument`.  So the unparse equation of the check compares the input
    with a sentence of the grammar, never with something the grammar does not know. -/
theorem C05_print_in_grammar (d : QueryDoc) (h : WFQuery d) :
    Derivable gql .executableDocument (printQuery d) :=
  (printQuery_in_grammar d h).derivable

/-- … and the print is its own canonical form: the unparser never emits one of the spellings the
    canonical form removes (`query {`, `a: a`), so both sides of the unparse equation
    `printQuery tree = canonical (tokens input)` are canonical token sequences. -/
theorem C05_print_canonical (d : QueryDoc) (h : WFQuery d) :
    Derives gql (.nt .executableDocument) (printQuery d) (printQuery d) :=
  printQuery_in_grammar d h

/-- non-vacuity: `query Q($v: Int = 1 @c) @d { a: b(x: $v) { ...F ... on T { c } } } fragment F on T { c }` is well-formed -/
example : WFQuery
    { ops := [{ op := str "query", name := str "Q",
                vars := [{ var := str "v", type := .named (str "Int") false Pos.zero,
                           default := some (.mk .int (str "1") .nil Pos.zero),
                           dirs := [{ name := str "c", args := [], pos := Pos.zero }], pos := Pos.zero }],
                dirs := [{ name := str "d", args := [], pos := Pos.zero }],
                sel := .cons (.field (str "a") (str "b")
                        [{ name := str "x", value := .mk .variable (str "v") .nil Pos.zero, pos := Pos.zero }] []
                        (.cons (.spread (str "F") [] Pos.zero)
                          (.cons (.inline (str "T") [] (.cons (.field (str "c") (str "c") [] [] .nil Pos.zero) .nil) Pos.zero) .nil))
                        Pos.zero) .nil,
                pos := Pos.zero }],
      frags := [{ name := str "F", vars := [], typeCond := str "T", dirs := [],
                  sel := .cons (.field (str "c") (str "c") [] [] .nil Pos.zero) .nil, pos := Pos.zero }] } := by
  refine ⟨Or.inl (by simp), ?_, ?_⟩
  · intro o ho
    simp only [List.mem_singleton] at ho
    subst ho
    refine ⟨Or.inl rfl, ?_, by simp, ?_⟩
    · intro v hv
      simp only [List.mem_singleton] at hv
      subst hv
      refine ⟨?_, ?_⟩
      · intro d hd
        simp only [Option.some.injEq] at hd
        subst hd
        simp [ConstValue, ConstChildren]
      · intro d hd; simp only [List.mem_singleton] at hd; subst hd; intro a ha; simp at ha
    · simp [WFSelections, WFSelection]; decide
  · intro f hf
    simp only [List.mem_singleton] at hf
    subst hf
    refine ⟨by decide, by simp, by simp, by simp [WFSelections, WFSelection]⟩

#print axioms C05_print_in_grammar
#print axioms C05_print_canonical
#print axioms C05_recognise_sound
#print axioms C05_canonical_sound
#print axioms C05_reject_classes_empty_document
#print axioms C05_document_min_length
#print axioms C05_reject_classes_empty_lists
#print axioms C05_reject_classes_variable_in_const
#print axioms C05_reject_classes_fragment_name_on
#print axioms C05_reject_classes_string_token_as_keyword
