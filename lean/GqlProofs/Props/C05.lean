import GqlProofs.Grammar.Sound
import GqlProofs.Grammar.Reject
import GqlProofs.Grammar.PrintQuery
import GqlProofs.Parser.SoundTop
import GqlProofs.Parser.RetQuery
import GqlProofs.Parser.CompleteTop
import GqlProofs.Grammar.Complete
/-
  C05 — the query parser accepts exactly the executable grammar, faithfully.

  First the SPECIFICATION-side theorems: they are about the grammar tables `gql`, the
  derivation relation `Derives`, the generic recogniser (`recognises`, `canonical`: what the
  driver ops `gq` / `gqc` run) and the unparser `Print.printQuery` (op `unparseq`).
  Then (section "the parser is sound") the theorems about the PARSER MODEL
  (`GqlModel/Parser/Query.lean`, op `pq`): every accepted non-empty document is derivable and its
  tree unparses to a canonical form of the input (`C05_parse_sound`, `C05_parse_sound_<nt>`);
  section "completeness": every lexable input whose token sequence is derivable is accepted, and
  the unparse of the tree is the canonical output of EVERY derivation
  (`C05_parse_complete_canonical`, `C05_parse_complete_<nt>`), hence `C05_accepts_exactly`,
  `C05_canonical_unique`, `C05_parse_sound_canonical` (with the recogniser's `canonical`, which
  is complete at its standard fuel: `C05_recognises_iff`) and `C05_accepts_iff_recognises`.
  The tie to the real parser is the check `C05` (harness/internal/props/grammarcheck.go): verdict and
  unparse equation against these definitions, input by input.
-/
open Gql Gql.Lexer Gql.Grammar Gql.Print Gql.Parser

/-! ### the recogniser is sound: a `1` from `gq` is a derivation -/

theorem C05_recognise_sound (ts : List Tok) (h : isExecutable ts = true) :
    Derivable gql .executableDocument ts :=
  recognises_sound gql _ ts h

/-- the token list printed by `gqc` is the canonical form of a derivation of the input -/
theorem C05_canonical_sound (ts out : List Tok) (h : canonical gql .executableDocument ts = some out) :
    Derives gql (.nt .executableDocument) ts out :=
  canonical_sound gql _ ts out h

/-! ### rejection classes, on the grammar tables -/

/-- the empty token sequence (an input of ignored tokens and comments only) is not a document -/
theorem C05_reject_classes_empty_document : ¬ Derivable gql .executableDocument [] := by
  intro ⟨out, h⟩
  have := minLen_nt 24 h
  revert this; decide

/-- every executable document has at least three tokens (`{ a }`) -/
theorem C05_document_min_length (ts : List Tok) (h : Derivable gql .executableDocument ts) : 3 ≤ ts.length := by
  obtain ⟨out, h⟩ := h
  exact minLen_nt 24 h

/-- `( )`: an argument list has at least five tokens `( name : value )` -/
theorem C05_reject_classes_empty_arguments (c : Bool) (ts out : List Tok)
    (h : Derives gql (.nt (.arguments c)) ts out) : 5 ≤ ts.length := by
  have := minLen_nt 24 h
  cases c <;> exact this

/-- `{ }`: a selection set has at least three tokens -/
theorem C05_reject_classes_empty_selection_set (ts out : List Tok)
    (h : Derives gql (.nt .selectionSet) ts out) : 3 ≤ ts.length :=
  minLen_nt 24 h

/-- `( )`: variable definitions have at least six tokens `( $ name : Type )` -/
theorem C05_reject_classes_empty_variable_definitions (ts out : List Tok)
    (h : Derives gql (.nt .variableDefinitions) ts out) : 6 ≤ ts.length :=
  minLen_nt 24 h

/-- in particular the two-token sequences `( )` and `{ }` are derivable from none of them -/
theorem C05_reject_classes_empty_lists (a b : Tok) (out : List Tok) :
    (∀ c, ¬ Derives gql (.nt (.arguments c)) [a, b] out)
    ∧ ¬ Derives gql (.nt .selectionSet) [a, b] out
    ∧ ¬ Derives gql (.nt .variableDefinitions) [a, b] out := by
  refine ⟨fun c h => ?_, fun h => ?_, fun h => ?_⟩
  · have := C05_reject_classes_empty_arguments c _ _ h; simp at this
  · have := C05_reject_classes_empty_selection_set _ _ h; simp at this
  · have := C05_reject_classes_empty_variable_definitions _ _ h; simp at this

/-- a variable never occurs in a const context: `Value[Const]` (default values),
    `Directives[Const]` (directives of variable definitions), `Arguments[Const]` -/
theorem C05_reject_classes_variable_in_const (ts out : List Tok) :
    (Derives gql (.nt (.value true)) ts out → ∀ t ∈ ts, t.kind ≠ .dollar)
    ∧ (Derives gql (.nt .defaultValue) ts out → ∀ t ∈ ts, t.kind ≠ .dollar)
    ∧ (Derives gql (.nt (.directives true)) ts out → ∀ t ∈ ts, t.kind ≠ .dollar)
    ∧ (Derives gql (.nt (.arguments true)) ts out → ∀ t ∈ ts, t.kind ≠ .dollar) :=
  ⟨const_no_dollar (by simp [constNT]), const_no_dollar (by simp [constNT]), const_no_dollar (by simp [constNT]),
   const_no_dollar (by simp [constNT])⟩

/-- `on` is not a fragment name: the only sentences of FragmentName are single Name tokens
    other than `on` (a String token never is one) -/
theorem C05_reject_classes_fragment_name_on (ts out : List Tok) (h : Derives gql (.nt .fragmentName) ts out) :
    ∃ v, ts = [{ kind := .name, value := v }] ∧ v ≠ str "on" := by
  have h := h.nt_inv
  obtain ⟨t, e1, _, hp⟩ := h.tok_inv
  obtain ⟨k, v⟩ := t
  simp only [Bool.and_eq_true, beq_iff_eq, Bool.not_eq_true', List.contains_cons, List.contains_nil,
    Bool.or_false, beq_eq_false_iff_ne] at hp
  obtain ⟨hk, hv⟩ := hp
  subst hk
  exact ⟨v, e1, hv⟩

/-- keywords are Name tokens: a String (or any non-Name) token is never the keyword `on` of a
    type condition -/
theorem C05_reject_classes_string_token_as_keyword (t : Tok) (rest out : List Tok)
    (h : Derives gql (.nt .typeCondition) (t :: rest) out) : t = { kind := .name, value := str "on" } := by
  have h := h.nt_inv
  obtain ⟨t1, t2, o1, o2, e, _, d1, _⟩ := h.seq_inv'
  obtain ⟨t', e1, _, hp⟩ := d1.tok_inv
  subst e1
  simp only [List.cons_append, List.nil_append, List.cons.injEq] at e
  obtain ⟨rfl, _⟩ := e
  obtain ⟨k, v⟩ := t
  simp only [Bool.and_eq_true, beq_iff_eq] at hp
  obtain ⟨rfl, rfl⟩ := hp
  rfl

/-! ### the unparser stays inside the grammar -/

/-- The print of every well-formed tree (`Print.WFQuery`: at least one definition, operation
    types `query`/`mutation`/`subscription`, non-empty required selection sets, no fragment
    named `on`, no variable in default values and in directives of variable definitions) is a
    sentence of `ExecutableDocument`.  So the unparse equation of the check compares the input
    with a sentence of the grammar, never with something the grammar does not know. -/
theorem C05_print_in_grammar (d : QueryDoc) (h : WFQuery d) :
    Derivable gql .executableDocument (printQuery d) :=
  (printQuery_in_grammar d h).derivable

/-- … and the print is its own canonical form: the unparser never emits one of the spellings the
    canonical form removes (`query {`, `a: a`), so both sides of the unparse equation
    `printQuery tree = canonical (tokens input)` are canonical token sequences. -/
theorem C05_print_canonical (d : QueryDoc) (h : WFQuery d) :
    Derives gql (.nt .executableDocument) (printQuery d) (printQuery d) :=
  printQuery_in_grammar d h

/-- non-vacuity: `query Q($v: Int = 1 @c) @d { a: b(x: $v) { ...F ... on T { c } } } fragment F on T { c }` is well-formed -/
example : WFQuery
    { ops := [{ op := str "query", name := str "Q",
                vars := [{ var := str "v", type := .named (str "Int") false Pos.zero,
                           default := some (.mk .int (str "1") .nil Pos.zero),
                           dirs := [{ name := str "c", args := [], pos := Pos.zero }], pos := Pos.zero }],
                dirs := [{ name := str "d", args := [], pos := Pos.zero }],
                sel := .cons (.field (str "a") (str "b")
                        [{ name := str "x", value := .mk .variable (str "v") .nil Pos.zero, pos := Pos.zero }] []
                        (.cons (.spread (str "F") [] Pos.zero)
                          (.cons (.inline (str "T") [] (.cons (.field (str "c") (str "c") [] [] .nil Pos.zero) .nil) Pos.zero) .nil))
                        Pos.zero) .nil,
                pos := Pos.zero }],
      frags := [{ name := str "F", vars := [], typeCond := str "T", dirs := [],
                  sel := .cons (.field (str "c") (str "c") [] [] .nil Pos.zero) .nil, pos := Pos.zero }] } := by
  refine ⟨Or.inl (by simp), ?_, ?_⟩
  · intro o ho
    simp only [List.mem_singleton] at ho
    subst ho
    refine ⟨Or.inl rfl, ?_, by simp, ?_⟩
    · intro v hv
      simp only [List.mem_singleton] at hv
      subst hv
      refine ⟨?_, ?_⟩
      · intro d hd
        simp only [Option.some.injEq] at hd
        subst hd
        simp [ConstValue, ConstChildren]
      · intro d hd; simp only [List.mem_singleton] at hd; subst hd; intro a ha; simp at ha
    · simp [WFSelections, WFSelection]; decide
  · intro f hf
    simp only [List.mem_singleton] at hf
    subst hf
    refine ⟨by decide, by simp, by simp, by simp [WFSelections, WFSelection]⟩

/-! ### the parser is sound: accepted ⇒ derivable, and the tree is faithful

  These theorems are about the parser model itself (`GqlModel/Parser/Query.lean`, the definitions
  the driver op `pq` runs), not only about the specification side.

  Vocabulary (`GqlProofs/Parser/{Stream,Spec}.lean`).  `abs s` is what the proofs see of a parser
  state `s`: whether the one-token look-ahead is filled (`pk`), the stream `σ` of significant
  (non-comment) lexer tokens that `next` has not consumed yet (the look-ahead token included), and
  `cnt = tokenCount + number of raw tokens ahead`.  `Spec p R` says: for every state `s` with a
  consistent look-ahead slot, if the run `run 0 p s` ends live (`err = none`, no fuel exhaustion)
  then `R result (abs s) (abs final)`.  `Eats P result a a'` says: for some token list `used`,
  `a.σ = used ++ a'.σ` (exactly `used` was consumed), no EOF token was consumed, and
  `P result used`.  `tk used` is the grammar's view (`Tok`: kind and value) of `used`.

  So `C05_parse_sound_value` reads: whenever `parseValueLiteral` ends without error, the tokens it
  consumed are derivable from `Value[Const]` and are exactly the unparse of the value it returns. -/

theorem C05_parse_sound_name : Spec parseName (Eats fun n used => tk used = [tName n]) := spec_parseName

theorem C05_parse_sound_value (c : Bool) (n : Nat) :
    Spec (parseValueLiteral n c) (Eats fun v used =>
      Derives gql (.nt (.value c)) (tk used) (printValue v) ∧ tk used = printValue v ∧ (c = true → ConstValue v)) :=
  (spec_parseValueLiteral c n).mono fun _ _ _ _ e => e.mono fun v u ⟨h1, h2⟩ =>
    ⟨by rw [h1]; exact L_value c v h2, h1, h2⟩

theorem C05_parse_sound_type (n : Nat) :
    Spec (parseTypeReference n) (Eats fun ty used =>
      Derives gql (.nt .typ) (tk used) (printType ty) ∧ tk used = printType ty) :=
  (spec_parseTypeReference n).mono fun _ _ _ _ e => e.mono fun ty u h => ⟨by rw [h]; exact L_type ty, h⟩

/-- `Arguments[Const]?`: nothing is consumed for the empty list -/
theorem C05_parse_sound_arguments (c : Bool) (n : Nat) :
    Spec (parseArguments n c) (Eats fun as used =>
      Derives gql (.opt (.nt (.arguments c))) (tk used) (printArguments as) ∧ tk used = printArguments as) :=
  (spec_parseArguments n c).mono fun _ _ _ _ e => e.mono fun as u ⟨h1, h2⟩ =>
    ⟨by rw [h1]; exact L_optArguments c as h2, h1⟩

/-- `Directives[Const]?` -/
theorem C05_parse_sound_directives (c : Bool) (n : Nat) :
    Spec (parseDirectives n c) (Eats fun ds used =>
      Derives gql (.opt (.nt (.directives c))) (tk used) (printDirectives ds) ∧ tk used = printDirectives ds) :=
  (spec_parseDirectives n c).mono fun _ _ _ _ e => e.mono fun ds u ⟨h1, h2⟩ =>
    ⟨by rw [h1]; exact L_optDirectives c ds h2, h1⟩

/-- `VariableDefinitions?` -/
theorem C05_parse_sound_variable_definitions (n : Nat) :
    Spec (parseVariableDefinitions n) (Eats fun vs used =>
      Derives gql (.opt (.nt .variableDefinitions)) (tk used) (printVarDefs vs) ∧ tk used = printVarDefs vs) :=
  (spec_parseVariableDefinitions n).mono fun _ _ _ _ e => e.mono fun vs u ⟨h1, h2⟩ =>
    ⟨by rw [h1]; exact L_optVarDefs vs h2, h1⟩

/-- `Selection`: here the consumed tokens and the unparse differ (`a: a` unparses as `a`); the
    unparse is the canonical form of the derivation -/
theorem C05_parse_sound_selection (n : Nat) :
    Spec (parseSelection n) (Eats fun s used =>
      Derives gql (.nt .selection) (tk used) (printSelection s) ∧ WFSelection s) :=
  spec_parseSelection n

/-- `SelectionSet` (never empty) -/
theorem C05_parse_sound_selection_set (n : Nat) :
    Spec (parseRequiredSelectionSet n) (Eats fun ss used =>
      ss ≠ .nil ∧ WFSelections ss ∧ Derives gql (.nt .selectionSet) (tk used) (printSelectionSet ss) ∧ used ≠ []) :=
  spec_parseRequiredSelectionSet n

/-- `OperationDefinition`; the recorded position is that of the first consumed token -/
theorem C05_parse_sound_operation_definition (n : Nat) :
    Spec (parseOperationDefinition n) (Eats fun o used => (∃ t rest, used = t :: rest ∧ o.pos.start = t.start) ∧
      Derives gql (.nt .operationDefinition) (tk used) (printOperation o) ∧ WFOperation o) :=
  spec_parseOperationDefinition n

/-- `FragmentDefinition` (with the library's optional variable definitions) -/
theorem C05_parse_sound_fragment_definition (n : Nat) :
    Spec (parseFragmentDefinition n) (Eats fun f used => (∃ t rest, used = t :: rest ∧ f.pos.start = t.start) ∧
      Derives gql (.nt .fragmentDefinition) (tk used) (printFragment f) ∧ WFFragment f) :=
  spec_parseFragmentDefinition n

/-- what `Spec … (Eats …)` says, spelled out on runs for one program -/
theorem C05_parse_sound_value_run (c : Bool) (n : Nat) (s : PState) (hs : WF s)
    (hok : (run 0 (parseValueLiteral n c) s).2.err = none ∧ (run 0 (parseValueLiteral n c) s).2.oof = false) :
    ∃ used : List Token,
      (abs s).σ = Stream.app used (abs (run 0 (parseValueLiteral n c) s).2).σ ∧
      Derives gql (.nt (.value c)) (tk used) (printValue (run 0 (parseValueLiteral n c) s).1) := by
  have hl : dead (run 0 (parseValueLiteral n c) s).2 = false := by simp [dead, hok.1, hok.2]
  obtain ⟨_, used, h1, h2, _⟩ := C05_parse_sound_value c n s hs hl
  exact ⟨used, h1.σ, h2⟩

/-- **Soundness of `ParseQuery`.**  If the parser accepts `inp` with a non-empty document `doc`,
    then the lexer model succeeds on `inp`, the comment-free token sequence `ts` of `inp` is
    derivable from `ExecutableDocument`, the unparse of `doc` is a canonical form of `ts` (the
    output of a derivation of `ts`: `printQuery doc` is `ts` with bare `query` keywords and
    self-aliases removed, the definitions in source order), and `doc` is well-formed. -/
theorem C05_parse_sound (inp : Bytes) (doc : QueryDoc) (h : parseQuery 0 inp = .ok doc)
    (hne : doc.ops ≠ [] ∨ doc.frags ≠ []) :
    ∃ ts, tokensOf inp = some ts ∧ Derivable gql .executableDocument ts ∧
      Derives gql (.nt .executableDocument) ts (printQuery doc) ∧ WFQuery doc := by
  obtain ⟨raw, eof, h1, h2, h3, _, h5, _⟩ := parseQuery_sound inp doc h
  obtain ⟨d, wf⟩ := h5 hne
  exact ⟨_, tokensOf_of_done h1 h2 h3, ⟨_, d⟩, d, wf⟩

/- Tree faithfulness with the recogniser's `canonical`: `C05_parse_sound_canonical` below
   (`canonical gql .executableDocument ts = some (printQuery doc)`), through the completeness
   theorem `C05_parse_complete_canonical` and the recogniser's completeness
   `C05_recognises_complete`. -/

/-- … under any token limit (a parse that succeeds under a limit is the unlimited parse) -/
theorem C05_parse_sound_limit (L : Nat) (inp : Bytes) (doc : QueryDoc) (h : parseQuery L inp = .ok doc)
    (hne : doc.ops ≠ [] ∨ doc.frags ≠ []) :
    ∃ ts, tokensOf inp = some ts ∧ Derivable gql .executableDocument ts ∧
      Derives gql (.nt .executableDocument) ts (printQuery doc) ∧ WFQuery doc :=
  C05_parse_sound inp doc (ofRun_mono (stricter_zero L) _ _ doc h) hne

/-- a consequence on the level of `Derivable`: what the parser accepts with a non-empty tree has at
    least the three tokens every executable document has, so it is in none of the "too short"
    rejection classes of the grammar -/
theorem C05_parse_sound_min_length (inp : Bytes) (doc : QueryDoc) (h : parseQuery 0 inp = .ok doc)
    (hne : doc.ops ≠ [] ∨ doc.frags ≠ []) : ∃ ts, tokensOf inp = some ts ∧ 3 ≤ ts.length := by
  obtain ⟨ts, h1, h2, _⟩ := C05_parse_sound inp doc h hne
  exact ⟨ts, h1, C05_document_min_length ts h2⟩

/-- the accepted documents with an empty tree are exactly those the FINDING below is about: the
    input has no significant token at all -/
theorem C05_parse_empty_tree (inp : Bytes) (doc : QueryDoc) (h : parseQuery 0 inp = .ok doc)
    (he : doc.ops = [] ∧ doc.frags = []) : tokensOf inp = some [] := by
  obtain ⟨raw, eof, h1, h2, h3, _, _, h6⟩ := parseQuery_sound inp doc h
  rw [tokensOf_of_done h1 h2 h3, h6 he]; rfl

/-- FINDING (the one exception to "accepts exactly the grammar"): the parser accepts the empty
    document — zero definitions — which `ExecutableDocument : ExecutableDefinition+` does not
    derive.  Inputs: the empty string, or any input of ignored tokens and comments only. -/
theorem C05_parse_empty_counterexample :
    parseQuery 0 [] = .ok { ops := [], frags := [] } ∧ tokensOf [] = some [] ∧
      ¬ Derivable gql .executableDocument [] :=
  ⟨rfl, by decide, C05_reject_classes_empty_document⟩

/-- the same with ignored tokens only: ` ,` -/
theorem C05_parse_ignored_only_counterexample :
    (parseQuery 0 [32, 44]).isOk = true ∧ tokensOf [32, 44] = some [] := ⟨by decide, by decide⟩

/-- non-vacuity of `C05_parse_sound`: `query{a:a}` is accepted with one operation, whose unparse
    is `{ a }` (the bare `query` and the self-alias are not part of the tree) -/
example : (parseQuery 0 [113,117,101,114,121,123,97,58,97,125]).isOk = true ∧
    (runQuery 0 [113,117,101,114,121,123,97,58,97,125]).1.ops.map printOperation
      = [[tP .braceL, tName [97], tP .braceR]] := ⟨by decide, by decide⟩

/-! ### the converse on printed trees: parse ∘ print = id (up to positions)

  `Fwd p a R` (`GqlProofs/Parser/Fwd.lean`) is the forward counterpart of `Spec`: from every live
  state with abstraction `a`, the run of `p` ends live with `R result (abs final)` — unless it
  runs out of fuel, which the C01 theorems exclude at the entry points.  `Starts σ ts σ'`: the
  stream `σ` starts with tokens whose grammar view is `ts`, followed by `σ'`.  `erasePos`
  (`GqlProofs/Parser/ErasePos.lean`) replaces every position by `Pos.zero`.

  Side conditions.  `PrintableQuery d` = every definition is well-formed (`WFOperation`,
  `WFFragment`: exactly the conditions of `C05_print_in_grammar`), the parts of the tree the
  unparser does not print are the ones the parser builds (`OpOK`/`FragOK`/`ValueOK`: a Name
  literal has the kind its text determines, scalar values have no children, list items have no
  names, list and object values have no raw text), and each definition list is in the order of
  its recorded positions.  Names, numbers and strings need no condition of their own: the
  hypothesis "the significant tokens of `inp` are `printQuery d`" already says the lexer
  produced them. -/

/-- **parse ∘ print.**  If the comment-free token sequence of `inp` is the unparse of a printable
    tree `d`, the parser accepts `inp` and returns `d` up to positions. -/
theorem C05_parse_print (d : QueryDoc) (hp : PrintableQuery d) (inp : Bytes)
    (htok : tokensOf inp = some (printQuery d)) :
    ∃ d', parseQuery 0 inp = .ok d' ∧ d'.erasePos = d.erasePos :=
  parseQuery_print d hp inp htok

/-- the same for any sequence of definition blocks in any order (`BlockOK`: an operation written
    as `printOperation o` or in the long form `opLong o` with its keyword, a fragment as
    `printFragment f`): the operations and the fragments come back in block order -/
theorem C05_parse_print_blocks (blocks : List (Def × List Tok)) (hok : ∀ b ∈ blocks, BlockOK b) (inp : Bytes)
    (htok : tokensOf inp = some (blocks.flatMap (·.2))) :
    ∃ d', parseQuery 0 inp = .ok d' ∧
      d'.ops.map OperationDef.erasePos = (opsOf (blocks.map (·.1))).map OperationDef.erasePos ∧
      d'.frags.map FragmentDef.erasePos = (fragsOf (blocks.map (·.1))).map FragmentDef.erasePos :=
  parseQuery_blocks blocks hok inp htok

/-- in particular: all operations first (each with its keyword), then all fragments — the order and
    spelling of a formatter that never uses the query shorthand; no condition on positions -/
theorem C05_parse_print_long (d : QueryDoc) (hops : ∀ o ∈ d.ops, WFOperation o ∧ OpOK o)
    (hfrags : ∀ f ∈ d.frags, WFFragment f ∧ FragOK f) (inp : Bytes)
    (htok : tokensOf inp = some ((d.ops.map opLong ++ d.frags.map printFragment).flatten)) :
    ∃ d', parseQuery 0 inp = .ok d' ∧ d'.erasePos = d.erasePos := by
  let blocks : List (Def × List Tok) := d.ops.map (fun o => (.inl o, opLong o)) ++ d.frags.map (fun f => (.inr f, printFragment f))
  have hflat : blocks.flatMap (·.2) = (d.ops.map opLong ++ d.frags.map printFragment).flatten := by
    simp [blocks, List.flatMap_def, List.map_map, Function.comp_def]
  have hfst : blocks.map (·.1) = d.ops.map Sum.inl ++ d.frags.map Sum.inr := by
    simp [blocks, List.map_map, Function.comp_def]
  have hok : ∀ b ∈ blocks, BlockOK b := by
    intro b hb
    simp only [blocks, List.mem_append, List.mem_map] at hb
    rcases hb with ⟨o, ho, rfl⟩ | ⟨f, hf, rfl⟩
    · exact ⟨(hops o ho).2, (hops o ho).1, .inr rfl⟩
    · exact ⟨(hfrags f hf).2, (hfrags f hf).1, rfl⟩
  obtain ⟨d', h1, h2, h3⟩ := parseQuery_blocks blocks hok inp (by rw [hflat]; exact htok)
  rw [hfst, opsOf_append, opsOf_inl, opsOf_inr, List.append_nil] at h2
  rw [hfst, fragsOf_append, fragsOf_inl, fragsOf_inr, List.nil_append] at h3
  exact ⟨d', h1, by simp [QueryDoc.erasePos, h2, h3]⟩

/-- every tree the parser returns is printable … -/
theorem C05_parse_printable (inp : Bytes) (d : QueryDoc) (h : parseQuery 0 inp = .ok d) : PrintableQuery d :=
  parseQuery_printable inp d h

/-- … so **parse ∘ print ∘ parse = parse**: unparse an accepted tree, write the tokens in any way the
    lexer reads back (`inp'`), parse again: the same tree up to positions -/
theorem C05_parse_print_parse (inp inp' : Bytes) (d : QueryDoc) (h : parseQuery 0 inp = .ok d)
    (htok : tokensOf inp' = some (printQuery d)) :
    ∃ d', parseQuery 0 inp' = .ok d' ∧ d'.erasePos = d.erasePos :=
  parseQuery_print_parse inp inp' d h htok

/-- a printable non-empty tree is well-formed in the sense of `C05_print_in_grammar` -/
theorem C05_printable_wf (d : QueryDoc) (hp : PrintableQuery d) (hne : d.ops ≠ [] ∨ d.frags ≠ []) : WFQuery d :=
  ⟨hne, fun o ho => (hp.1 o ho).1, fun f hf => (hp.2.1 f hf).1⟩

/-- the pieces, bottom-up (each: a run on a stream that starts with the printed tokens of a
    subtree ends live, consumes exactly them and returns the subtree up to positions; optional
    trailing parts need a condition on the token that follows) -/
theorem C05_parse_print_value (c : Bool) (v : Value) (hok : ValueOK v) (hc : c = true → ConstValue v)
    (n : Nat) (a : AS) (σ' : Stream) (hs : Starts a.σ (printValue v) σ') :
    Fwd (parseValueLiteral n c) a (fun v' a' => v'.erasePos = v.erasePos ∧ a'.σ = σ') :=
  fwd_value c v hok hc n a σ' hs

theorem C05_parse_print_type (ty : GType) (n : Nat) (a : AS) (σ' : Stream) (hs : Starts a.σ (printType ty) σ')
    (hfol : ty.nonNull = false → σ'.head.kind ≠ .bang) :
    Fwd (parseTypeReference n) a (fun y a' => y.erasePos = ty.erasePos ∧ a'.σ = σ') :=
  fwd_type ty n a σ' hs hfol

theorem C05_parse_print_arguments (c : Bool) (as : List Argument) (hok : ArgsOK as)
    (hc : c = true → ∀ x ∈ as, ConstValue x.value) (n : Nat) (a : AS) (σ' : Stream)
    (hs : Starts a.σ (printArguments as) σ') (hfol : as = [] → σ'.head.kind ≠ .parenL) :
    Fwd (parseArguments n c) a (fun ys a' => ys.map Argument.erasePos = as.map Argument.erasePos ∧ a'.σ = σ') :=
  fwd_arguments c as hok hc n a σ' hs hfol

theorem C05_parse_print_directives (c : Bool) (ds : List Directive) (hok : DirsOK ds) (hc : c = true → ConstDirectives ds)
    (n : Nat) (a : AS) (σ' : Stream) (hs : Starts a.σ (printDirectives ds) σ')
    (h1 : σ'.head.kind ≠ .at) (h2 : σ'.head.kind ≠ .parenL) :
    Fwd (parseDirectives n c) a (fun ys a' => ys.map Directive.erasePos = ds.map Directive.erasePos ∧ a'.σ = σ') :=
  fwd_directives c ds hok hc n a σ' hs h1 h2

theorem C05_parse_print_variable_definitions (vs : List VarDef) (hok : ∀ v ∈ vs, VarDefOK v) (hwf : ∀ v ∈ vs, WFVarDef v)
    (n : Nat) (a : AS) (σ' : Stream) (hs : Starts a.σ (printVarDefs vs) σ') (hfol : vs = [] → σ'.head.kind ≠ .parenL) :
    Fwd (parseVariableDefinitions n) a (fun ys a' => ys.map VarDef.erasePos = vs.map VarDef.erasePos ∧ a'.σ = σ') :=
  fwd_varDefs vs hok hwf n a σ' hs hfol

/-- `Selection`: what follows must not be `:`, `(`, `@` or `{` (it is a Name, `...` or `}`) -/
theorem C05_parse_print_selection (s : Selection) (hok : SelOK s) (hwf : WFSelection s) (n : Nat) (a : AS) (σ' : Stream)
    (hs : Starts a.σ (printSelection s) σ') (hfol : FolSel σ') :
    Fwd (parseSelection n) a (fun y a' => y.erasePos = s.erasePos ∧ a'.σ = σ') :=
  fwd_selection s hok hwf n a σ' hs hfol

theorem C05_parse_print_selection_set (ss : Selections) (hok : SelsOK ss) (hwf : WFSelections ss) (hne : ss ≠ .nil)
    (n : Nat) (a : AS) (σ' : Stream) (hs : Starts a.σ (printSelectionSet ss) σ') :
    Fwd (parseRequiredSelectionSet n) a (fun y a' => y.erasePos = ss.erasePos ∧ a'.σ = σ') :=
  fwd_requiredSelectionSet ss hok hwf hne n a σ' hs

theorem C05_parse_print_operation_long (o : OperationDef) (hok : OpOK o) (hwf : WFOperation o) (n : Nat) (a : AS) (σ' : Stream)
    (hs : Starts a.σ (opLong o) σ') :
    Fwd (parseOperationDefinition n) a (fun y a' => y.erasePos = o.erasePos ∧ a'.σ = σ') :=
  fwd_opLong o hok hwf n a σ' hs

theorem C05_parse_print_operation_short (o : OperationDef) (hok : OpOK o) (hwf : WFOperation o)
    (hbare : OperationDef.isBare o = true) (n : Nat) (a : AS) (σ' : Stream) (hs : Starts a.σ (printSelectionSet o.sel) σ') :
    Fwd (parseOperationDefinition n) a (fun y a' => y.erasePos = o.erasePos ∧ a'.σ = σ') :=
  fwd_opShort o hok hwf hbare n a σ' hs

theorem C05_parse_print_fragment_definition (f : FragmentDef) (hok : FragOK f) (hwf : WFFragment f) (n : Nat) (a : AS)
    (σ' : Stream) (hs : Starts a.σ (printFragment f) σ') :
    Fwd (parseFragmentDefinition n) a (fun y a' => y.erasePos = f.erasePos ∧ a'.σ = σ') :=
  fwd_fragment f hok hwf n a σ' hs

/-! ### completeness: the parser accepts EXACTLY the grammar

  Derivation-driven counterpart of the soundness section (`GqlProofs/Parser/CompleteQuery.lean`,
  `CompleteTop.lean`): for every nonterminal, a run of its program on a stream that starts with a
  token list the grammar derives (with canonical output `o`) ends live, consumes exactly those
  tokens, and the unparse of its result is `o` — the grammar is LL(1) along the parser's
  decisions.  The theorems are about lexable inputs (`tokensOf inp = some ts`): the tokens are
  then of lexer shape (punctuators carry no text, names are not empty). -/

/-- **Completeness.**  If the comment-free token sequence of `inp` is derivable from
    `ExecutableDocument` with canonical output `o`, then `ParseQuery` accepts `inp`, with a
    non-empty document whose unparse is `o`. -/
theorem C05_parse_complete_canonical (inp : Bytes) (ts o : List Tok) (htok : tokensOf inp = some ts)
    (hd : Derives gql (.nt .executableDocument) ts o) :
    ∃ d, parseQuery 0 inp = .ok d ∧ printQuery d = o ∧ (d.ops ≠ [] ∨ d.frags ≠ []) :=
  parseQuery_complete inp ts o htok hd

theorem C05_parse_complete (inp : Bytes) (ts : List Tok) (htok : tokensOf inp = some ts)
    (hd : Derivable gql .executableDocument ts) : ∃ d, parseQuery 0 inp = .ok d ∧ (d.ops ≠ [] ∨ d.frags ≠ []) := by
  obtain ⟨o, hd⟩ := hd
  obtain ⟨d, h1, _, h3⟩ := parseQuery_complete inp ts o htok hd
  exact ⟨d, h1, h3⟩

/-- **The query parser accepts exactly the executable grammar** (up to the empty document, which it
    also accepts: `C05_parse_empty_counterexample`): `ParseQuery` returns a non-empty document iff
    the lexer succeeds and the comment-free token sequence is derivable from `ExecutableDocument`. -/
theorem C05_accepts_exactly (inp : Bytes) :
    (∃ d, parseQuery 0 inp = .ok d ∧ (d.ops ≠ [] ∨ d.frags ≠ [])) ↔
      ∃ ts, tokensOf inp = some ts ∧ Derivable gql .executableDocument ts := by
  constructor
  · rintro ⟨d, h, hne⟩
    obtain ⟨ts, h1, h2, _⟩ := C05_parse_sound inp d h hne
    exact ⟨ts, h1, h2⟩
  · rintro ⟨ts, h1, h2⟩
    exact C05_parse_complete inp ts h1 h2

/-- canonical outputs are unique on lexable token sequences: all derivations of the token sequence
    of an input have the same canonical output (the grammar is unambiguous up to the spellings that
    `canon` removes) -/
theorem C05_canonical_unique (inp : Bytes) (ts o₁ o₂ : List Tok) (htok : tokensOf inp = some ts)
    (h1 : Derives gql (.nt .executableDocument) ts o₁) (h2 : Derives gql (.nt .executableDocument) ts o₂) : o₁ = o₂ := by
  obtain ⟨d1, p1, e1, _⟩ := parseQuery_complete inp ts o₁ htok h1
  obtain ⟨d2, p2, e2, _⟩ := parseQuery_complete inp ts o₂ htok h2
  rw [p1] at p2
  cases p2
  rw [← e1, ← e2]

/-- **tree faithfulness with the recogniser's `canonical`**: whenever the recogniser returns a
    canonical form for the token sequence of an accepted input, it is the unparse of the tree
    (so the two sides of the unparse equation of the check C05 are provably equal) -/
theorem C05_parse_faithful_canonical (inp : Bytes) (doc : QueryDoc) (h : parseQuery 0 inp = .ok doc) (ts out : List Tok)
    (htok : tokensOf inp = some ts) (hc : canonical gql .executableDocument ts = some out) : out = printQuery doc := by
  obtain ⟨d, p, e, _⟩ := parseQuery_complete inp ts out htok (C05_canonical_sound ts out hc)
  rw [h] at p
  cases p
  exact e.symm

/-- every derivation of the token sequence of an accepted input has the unparse as its output -/
theorem C05_parse_faithful (inp : Bytes) (doc : QueryDoc) (h : parseQuery 0 inp = .ok doc) (ts o : List Tok)
    (htok : tokensOf inp = some ts) (hd : Derives gql (.nt .executableDocument) ts o) : o = printQuery doc := by
  obtain ⟨d, p, e, _⟩ := parseQuery_complete inp ts o htok hd
  rw [h] at p
  cases p
  exact e.symm

/-- the recogniser is complete at its standard fuel `64 * (length + 2)`
    (`GqlProofs/Grammar/Complete.lean`: derivation heights are linear in the number of tokens) … -/
theorem C05_recognises_complete (ts : List Tok) (h : Derivable gql .executableDocument ts) : isExecutable ts = true :=
  recognises_complete _ ts h

/-- … so the executable specification side of the check DECIDES the grammar -/
theorem C05_recognises_iff (ts : List Tok) : isExecutable ts = true ↔ Derivable gql .executableDocument ts :=
  recognises_iff _ ts

/-- **`C05_parse_sound` with the recogniser's `canonical`**: for an accepted non-empty document the
    recogniser returns a canonical form of the token sequence, and it IS the unparse of the tree. -/
theorem C05_parse_sound_canonical (inp : Bytes) (doc : QueryDoc) (h : parseQuery 0 inp = .ok doc)
    (hne : doc.ops ≠ [] ∨ doc.frags ≠ []) :
    ∃ ts, tokensOf inp = some ts ∧ canonical gql .executableDocument ts = some (printQuery doc) ∧ WFQuery doc := by
  obtain ⟨ts, h1, h2, _, h4⟩ := C05_parse_sound inp doc h hne
  obtain ⟨out, ho⟩ := canonical_complete _ ts h2
  exact ⟨ts, h1, by rw [ho, C05_parse_faithful_canonical inp doc h ts out h1 ho], h4⟩

/-- **the runtime comparison of the check C05, proved**: `ParseQuery` returns a non-empty document
    iff the input lexes and the recogniser accepts its token sequence -/
theorem C05_accepts_iff_recognises (inp : Bytes) :
    (∃ d, parseQuery 0 inp = .ok d ∧ (d.ops ≠ [] ∨ d.frags ≠ [])) ↔ ∃ ts, tokensOf inp = some ts ∧ isExecutable ts = true := by
  rw [C05_accepts_exactly]
  constructor
  · rintro ⟨ts, h1, h2⟩; exact ⟨ts, h1, C05_recognises_complete ts h2⟩
  · rintro ⟨ts, h1, h2⟩; exact ⟨ts, h1, (C05_recognises_iff ts).1 h2⟩

/-- the pieces (each: derivable token list at the head of the stream ⇒ the program ends live,
    consumes it, and the unparse of the result is the canonical output of the derivation) -/
theorem C05_parse_complete_value (c : Bool) (n : Nat) (ts o : List Tok) (hok : TsOK ts)
    (hd : Derives gql (.nt (.value c)) ts o) (a : AS) (σ' : Stream) (hs : Starts a.σ ts σ') :
    Fwd (parseValueLiteral n c) a (fun v a' => printValue v = o ∧ a'.σ = σ') :=
  cpl_value c n ts o hok hd a σ' hs

theorem C05_parse_complete_type (n : Nat) (ts o : List Tok) (hok : TsOK ts) (hd : Derives gql (.nt .typ) ts o) (a : AS)
    (σ' : Stream) (hs : Starts a.σ ts σ') (hfol : σ'.head.kind ≠ .bang) :
    Fwd (parseTypeReference n) a (fun ty a' => printType ty = o ∧ a'.σ = σ') :=
  cpl_type n ts o hok hd a σ' hs hfol

theorem C05_parse_complete_arguments (c : Bool) (n : Nat) (ts o : List Tok) (hok : TsOK ts)
    (hd : Derives gql (.opt (.nt (.arguments c))) ts o) (a : AS) (σ' : Stream) (hs : Starts a.σ ts σ')
    (hfol : σ'.head.kind ≠ .parenL) :
    Fwd (parseArguments n c) a (fun as a' => printArguments as = o ∧ a'.σ = σ') :=
  cpl_arguments c n ts o hok hd a σ' hs hfol

theorem C05_parse_complete_directives (c : Bool) (n : Nat) (ts o : List Tok) (hok : TsOK ts)
    (hd : Derives gql (.opt (.nt (.directives c))) ts o) (a : AS) (σ' : Stream) (hs : Starts a.σ ts σ')
    (h1 : σ'.head.kind ≠ .at) (h2 : σ'.head.kind ≠ .parenL) :
    Fwd (parseDirectives n c) a (fun ds a' => printDirectives ds = o ∧ a'.σ = σ') :=
  cpl_directives c n ts o hok hd a σ' hs h1 h2

theorem C05_parse_complete_variable_definitions (n : Nat) (ts o : List Tok) (hok : TsOK ts)
    (hd : Derives gql (.opt (.nt .variableDefinitions)) ts o) (a : AS) (σ' : Stream) (hs : Starts a.σ ts σ')
    (hfol : σ'.head.kind ≠ .parenL) :
    Fwd (parseVariableDefinitions n) a (fun vs a' => printVarDefs vs = o ∧ a'.σ = σ') :=
  cpl_varDefs n ts o hok hd a σ' hs hfol

theorem C05_parse_complete_selection (n : Nat) (ts o : List Tok) (hok : TsOK ts) (hd : Derives gql (.nt .selection) ts o)
    (a : AS) (σ' : Stream) (hs : Starts a.σ ts σ') (hfol : FolSel σ') :
    Fwd (parseSelection n) a (fun s a' => printSelection s = o ∧ a'.σ = σ') :=
  cpl_selection n ts o hok hd a σ' hs hfol

theorem C05_parse_complete_selection_set (n : Nat) (ts o : List Tok) (hok : TsOK ts) (hd : Derives gql (.nt .selectionSet) ts o)
    (a : AS) (σ' : Stream) (hs : Starts a.σ ts σ') :
    Fwd (parseRequiredSelectionSet n) a (fun ss a' => printSelectionSet ss = o ∧ a'.σ = σ') :=
  cpl_requiredSelectionSet n ts o hok hd a σ' hs

theorem C05_parse_complete_operation_definition (n : Nat) (ts o : List Tok) (hok : TsOK ts)
    (hd : Derives gql (.nt .operationDefinition) ts o) (a : AS) (σ' : Stream) (hs : Starts a.σ ts σ') :
    Fwd (parseOperationDefinition n) a (fun y a' => printOperation y = o ∧ y.pos.start = a.σ.head.start ∧ a'.σ = σ') :=
  cpl_operation n ts o hok hd a σ' hs

theorem C05_parse_complete_fragment_definition (n : Nat) (ts o : List Tok) (hok : TsOK ts)
    (hd : Derives gql (.nt .fragmentDefinition) ts o) (a : AS) (σ' : Stream) (hs : Starts a.σ ts σ') :
    Fwd (parseFragmentDefinition n) a (fun y a' => printFragment y = o ∧ y.pos.start = a.σ.head.start ∧ a'.σ = σ') :=
  cpl_fragment n ts o hok hd a σ' hs

#print axioms C05_print_in_grammar
#print axioms C05_print_canonical
#print axioms C05_recognise_sound
#print axioms C05_canonical_sound
#print axioms C05_reject_classes_empty_document
#print axioms C05_document_min_length
#print axioms C05_reject_classes_empty_lists
#print axioms C05_reject_classes_variable_in_const
#print axioms C05_reject_classes_fragment_name_on
#print axioms C05_reject_classes_string_token_as_keyword
#print axioms C05_parse_sound
#print axioms C05_parse_sound_limit
#print axioms C05_parse_sound_value
#print axioms C05_parse_sound_type
#print axioms C05_parse_sound_arguments
#print axioms C05_parse_sound_directives
#print axioms C05_parse_sound_variable_definitions
#print axioms C05_parse_sound_selection
#print axioms C05_parse_sound_selection_set
#print axioms C05_parse_sound_operation_definition
#print axioms C05_parse_sound_fragment_definition
#print axioms C05_parse_empty_tree
#print axioms C05_parse_empty_counterexample
#print axioms C05_parse_print
#print axioms C05_parse_print_blocks
#print axioms C05_parse_print_long
#print axioms C05_parse_printable
#print axioms C05_parse_print_parse
#print axioms C05_parse_print_value
#print axioms C05_parse_print_selection
#print axioms C05_parse_print_operation_long
#print axioms C05_parse_print_fragment_definition
#print axioms C05_parse_complete_canonical
#print axioms C05_parse_complete
#print axioms C05_accepts_exactly
#print axioms C05_canonical_unique
#print axioms C05_parse_faithful_canonical
#print axioms C05_parse_faithful
#print axioms C05_parse_complete_selection
#print axioms C05_recognises_iff
#print axioms C05_parse_sound_canonical
#print axioms C05_accepts_iff_recognises
