import GqlProofs.Json.RoundTrip
import GqlProofs.Json.ParsedClean
import GqlProofs.EndToEnd.LexClean
/-
  C19 — "Encoding any parsed executable document to JSON and decoding it back yields a document
  with the same operations, fragments and selections: fields stay fields, fragment spreads stay
  fragment spreads, inline fragments stay inline fragments, at every nesting depth, with names,
  arguments, values, directives and type conditions intact."

  Model: `GqlModel/Json/Model.lean` — `encodeQueryDoc` = `json.Marshal` of the ast structs,
  `decodeQueryDoc` = /repo/ast/decode.go (with `UnmarshalSelectionSet` choosing the decoder by the
  keys present: `currentDisc = repairedDisc`) + default struct decoding.  Tied to the code by check
  C19: ops `jsonenc` (byte-equal encodings), `jsonrt` (equal round-tripped trees), `jsondec` (equal
  decodings of hand-written and mutated JSON), `jsonwf` (the hypothesis below holds of what the
  parser builds from UTF-8 text).

  WELL-FORMEDNESS.  The one hypothesis of the round-trip theorem is `utf8CleanB d = true`
  (executable; `↔ Utf8Clean d`, `C19_wellformed_decidable`): every string of the tree — operation
  types, names, aliases, variables, type names, type conditions, raw values, object-field names —
  is well-formed UTF-8.  The encoder needs nothing else (it is total on the tree type).
  PARSED DOCUMENTS.  PROVED (`C19_parsed_document_wellformed`, by an invariant of the parser model:
  every byte string it puts into the tree is a token value or a constant): if every token the LEXER
  model produces from the source has a well-formed UTF-8 value (`sourceCleanB inp`, executable, or
  `LexClean`), then whatever `parseQuery` returns is well-formed, hence round-trips
  (`C19_parsed_roundtrip`).  PROVED SINCE (section END TO END at the bottom of this file,
  `C19_valid_source_clean`, `C19_source_roundtrip`; proof in `GqlProofs/EndToEnd/LexClean.lean` from the
  lexer = specification theorems of C03): the lexer model's token values are
  well-formed UTF-8 whenever the source text is valid UTF-8.  (Names and numbers are ASCII; quoted
  and block strings and comments are copied byte by byte between ASCII delimiters, and `\uXXXX`
  escapes are written with `WriteRune`, which never emits ill-formed bytes.)  Check C19 tests the
  assumption on every source it parses (`sourceCleanB` and `utf8CleanB` must hold when the text is
  valid UTF-8: `json-wf-assumption-fails`).  For source text that is NOT valid UTF-8 the property
  fails, in the Go code too (known finding `value-lost/invalid-utf8`,
  `C19_roundtrip_illformed_utf8_counterexample`).

  THE IMAGE.  `stripDoc d` is `d` with every `Pos` field of the tree set to `Pos.zero` (positions are
  `json:"-"`) and nothing else changed: kinds of selections, their order and nesting, names,
  aliases, arguments, values (kind, raw text, children), directives, type conditions, variable
  definitions, operation types are kept (`C19_image_keeps_*`).  What the tree type itself does not
  record, and C19 does not mention: comments (`Comment *CommentGroup`), the validation links (nil in
  a parsed document), and whether an empty list is a nil or an empty Go slice.
-/
open Gql Gql.Json

/- ======================= the current code: full round trip ======================= -/

/-- the modelled `UnmarshalSelectionSet` classifies by the keys present -/
theorem C19_current_discriminator_is_repaired : currentDisc = repairedDisc := rfl

/-- the well-formedness predicate is decidable: `utf8CleanB` decides `Utf8Clean` -/
theorem C19_wellformed_decidable (d : QueryDoc) : utf8CleanB d = true ↔ Utf8Clean d := utf8CleanB_iff d

/-- Without any hypothesis: the round trip never fails and returns the document with positions
    zeroed and every string passed through the UTF-8 coercion of `json.Marshal`; every selection
    keeps its kind (`imgDoc … false`). -/
theorem C19_roundtrip_image (d : QueryDoc) :
    decodeQueryDoc (encodeQueryDoc d) = .ok (imgDoc sanitize false d) :=
  decode_repaired_encode d

/-- MAIN THEOREM.  For every well-formed document the round trip of the current code succeeds and
    returns the same document, positions aside: the same operations and fragments in the same
    order, the same selections of the same kinds at every depth, with the same names, aliases,
    arguments, values, directives, type conditions and variable definitions. -/
theorem C19_roundtrip (d : QueryDoc) (h : utf8CleanB d = true) :
    decodeQueryDoc (encodeQueryDoc d) = .ok (stripDoc d) := by
  rw [C19_roundtrip_image, imgDoc_fix sanitize false d ((utf8CleanB_iff d).mp h)]
  rfl

/-- the same with the hypothesis as a proposition -/
theorem C19_roundtrip_of_Utf8Clean (d : QueryDoc) (h : Utf8Clean d) :
    decodeQueryDoc (encodeQueryDoc d) = .ok (stripDoc d) :=
  C19_roundtrip d ((utf8CleanB_iff d).mpr h)

/-- COROLLARY, in the words of the property (no hypothesis needed for the kinds): the decoded
    document has as many operations and fragments, and at every position `i :: path` below every
    operation / fragment — i.e. at every nesting depth — there is a selection exactly when the
    original has one, and it is of the same kind: fields stay fields, fragment spreads stay fragment
    spreads, inline fragments stay inline fragments. -/
theorem C19_kinds_preserved_at_every_depth (d : QueryDoc) :
    ∃ d', decodeQueryDoc (encodeQueryDoc d) = .ok d' ∧
      d'.ops.length = d.ops.length ∧ d'.frags.length = d.frags.length ∧
      ∀ (r : Root) (i : Nat) (path : List Nat),
        (docSelAt d' r i path).map kindOf = (docSelAt d r i path).map kindOf := by
  refine ⟨_, C19_roundtrip_image d, by simp [imgDoc], by simp [imgDoc], ?_⟩
  intro r i path
  rw [docSelAt_imgDoc]
  cases docSelAt d r i path with
  | none => rfl
  | some s => simp [kindOf_imgSel]

/-- … and for a well-formed document the selection found there IS the original one, positions
    aside: names, aliases, arguments, values, directives and type conditions intact. -/
theorem C19_selections_preserved_at_every_depth (d : QueryDoc) (h : utf8CleanB d = true) :
    ∃ d', decodeQueryDoc (encodeQueryDoc d) = .ok d' ∧
      ∀ (r : Root) (i : Nat) (path : List Nat),
        docSelAt d' r i path = (docSelAt d r i path).map stripSel :=
  ⟨_, C19_roundtrip d h, fun r i path => docSelAt_imgDoc id d r i path⟩

/-- the flat version: the kinds of all selections in document order -/
theorem C19_roundtrip_kinds (d : QueryDoc) :
    ∃ d', decodeQueryDoc (encodeQueryDoc d) = .ok d' ∧ docKinds d' = docKinds d :=
  ⟨_, C19_roundtrip_image d, docKinds_img sanitize d⟩

/-- One selection alone: encoding then decoding gives back the same KIND of selection with the same
    content (strings through the UTF-8 coercion). -/
theorem C19_roundtrip_selection (s : Selection) :
    decodeSelectionRepaired (encSelection s) = some (imgSel sanitize false s) := by
  simp [decodeSelectionRepaired, decSelItems_repaired_single]

/- ---------------- documents produced by the parser model ---------------- -/

/-- Every document the parser model returns for a source whose tokens (as the lexer model produces
    them) all have well-formed UTF-8 values satisfies the well-formedness predicate. -/
theorem C19_parsed_document_wellformed (limit : Nat) (inp : Bytes) (d : QueryDoc)
    (hsrc : sourceCleanB inp = true) (hp : Parser.parseQuery limit inp = .ok d) : utf8CleanB d = true :=
  Parser.parseQuery_clean limit inp d (Parser.sourceCleanB_sound inp hsrc) hp

/-- the same with the hypothesis on the lexer as a proposition (all tokens ever read) -/
theorem C19_parsed_document_wellformed_of_LexClean (limit : Nat) (inp : Bytes) (d : QueryDoc)
    (hsrc : Parser.LexClean inp Lexer.Cur.init) (hp : Parser.parseQuery limit inp = .ok d) : utf8CleanB d = true :=
  Parser.parseQuery_clean limit inp d hsrc hp

/-- C19 for PARSED documents: parse (with or without token limit), encode, decode — the same
    document comes back, positions aside. -/
theorem C19_parsed_roundtrip (limit : Nat) (inp : Bytes) (d : QueryDoc)
    (hsrc : sourceCleanB inp = true) (hp : Parser.parseQuery limit inp = .ok d) :
    decodeQueryDoc (encodeQueryDoc d) = .ok (stripDoc d) :=
  C19_roundtrip d (C19_parsed_document_wellformed limit inp d hsrc hp)

/- ---------------- what the image keeps (it only zeroes positions) ---------------- -/

theorem C19_image_keeps_field (al nm : Name) (args : List Argument) (ds : List Directive) (sel : Selections) (p : Pos) :
    stripSel (.field al nm args ds sel p)
      = .field al nm (args.map (imgArg id)) (ds.map (imgDir id)) (imgSels id false sel) Pos.zero := by
  simp [stripSel, imgSel]

theorem C19_image_keeps_spread (nm : Name) (ds : List Directive) (p : Pos) :
    stripSel (.spread nm ds p) = .spread nm (ds.map (imgDir id)) Pos.zero := by
  simp [stripSel, imgSel]

theorem C19_image_keeps_inline (tc : Name) (ds : List Directive) (sel : Selections) (p : Pos) :
    stripSel (.inline tc ds sel p) = .inline tc (ds.map (imgDir id)) (imgSels id false sel) Pos.zero := by
  simp [stripSel, imgSel]

theorem C19_image_keeps_directive (d : Directive) :
    imgDir id d = { name := d.name, args := d.args.map (imgArg id), pos := Pos.zero } := by
  simp [imgDir]

theorem C19_image_keeps_argument (a : Argument) :
    imgArg id a = { name := a.name, value := imgValue id a.value, pos := Pos.zero } := by
  simp [imgArg]

theorem C19_image_keeps_value (k : ValueKind) (raw : Bytes) (ch : Children) (p : Pos) :
    imgValue id (.mk k raw ch p) = .mk k raw (imgChildren id ch) Pos.zero := by
  simp [imgValue]

theorem C19_image_keeps_object_field (n : Name) (v : Value) (p : Pos) (rest : Children) :
    imgChildren id (.cons n v p rest) = .cons n (imgValue id v) Pos.zero (imgChildren id rest) := by
  simp [imgChildren]

theorem C19_image_keeps_operation (o : OperationDef) :
    imgOp id false o =
      { op := o.op, name := o.name, vars := o.vars.map (imgVarDef id),
        dirs := o.dirs.map (imgDir id), sel := imgSels id false o.sel, pos := Pos.zero } := by
  simp [imgOp]

theorem C19_image_keeps_fragment (fr : FragmentDef) :
    imgFrag id false fr =
      { name := fr.name, vars := fr.vars.map (imgVarDef id), typeCond := fr.typeCond,
        dirs := fr.dirs.map (imgDir id), sel := imgSels id false fr.sel, pos := Pos.zero } := by
  simp [imgFrag]

/-- zeroing positions is a projection: "equal positions aside" (`stripDoc a = stripDoc b`) is an
    equivalence relation, and the round trip of a well-formed document is related to the document -/
theorem C19_image_idempotent (d : QueryDoc) : stripDoc (stripDoc d) = stripDoc d := stripDoc_idem d

/- ---------------- the decoder on ANY selection object ---------------- -/

/-- Whatever object sits in a `SelectionSet` array, the kind it is decoded to is determined by its
    keys alone: `Alias` ⇒ field; else `TypeCondition` ⇒ inline fragment; else fragment spread (or the
    item is dropped, when the chosen decoder rejects it). -/
theorem C19_decoded_kind_by_keys (kvs : JFields) (s : Selection) (rest : Selections)
    (h : decSelItems currentDisc (.cons (.obj kvs) .nil) = .cons s rest) :
    rest = .nil ∧
    kindOf s = (if kvs.hasKey kAlias then SelKind.field
                else if kvs.hasKey kTypeCondition then SelKind.inline else SelKind.spread) :=
  decSelItems_obj_kind kvs s rest h

/- ======================= strings ======================= -/

/-- `{ a(s: "\xff") }`-like value: a raw string that is not UTF-8 -/
def c19IllFormed : QueryDoc :=
  { ops := [{ op := str "query", name := [], vars := [], dirs := [], pos := Pos.zero,
              sel := .cons (.field (str "a") (str "a")
                [{ name := str "s", value := .mk .string [0xFF] .nil Pos.zero, pos := Pos.zero }] [] .nil Pos.zero) .nil }],
    frags := [] }

/-- The hypothesis of `C19_roundtrip` is needed: the byte FF comes back as U+FFFD (EF BF BD). -/
theorem C19_roundtrip_illformed_utf8_counterexample :
    utf8CleanB c19IllFormed = false ∧
    decodeQueryDoc (encodeQueryDoc c19IllFormed) = .ok
      { ops := [{ op := str "query", name := [], vars := [], dirs := [], pos := Pos.zero,
                  sel := .cons (.field (str "a") (str "a")
                    [{ name := str "s", value := .mk .string [0xEF, 0xBF, 0xBD] .nil Pos.zero, pos := Pos.zero }] []
                    .nil Pos.zero) .nil }],
        frags := [] } := by
  constructor
  · decide
  · rw [C19_roundtrip_image]
    have hs : sanitize [0xFF] = [0xEF, 0xBF, 0xBD] := by decide
    have ha : sanitize (str "a") = str "a" := by decide
    have hq : sanitize (str "query") = str "query" := by decide
    have h1 : sanitize (str "s") = str "s" := by decide
    simp [imgDoc, c19IllFormed, imgOp, imgSels, imgSel, imgArg, imgValue, imgChildren, hs, ha, hq, h1,
      sanitize_nil]

/-- strings made of ASCII bytes are well-formed (in particular every name the lexer accepts) -/
theorem C19_ascii_is_wellformed (b : Bytes) (h : ∀ x ∈ b, x < 128) : sanitize b = b := sanitize_ascii b h

/- ======================= HISTORY: the decoder before the repair ======================= -/
/- `legacyDisc` is what `UnmarshalSelectionSet` did before the commit "JSON-decoded selections keep
   their kind": Field decoder first, and it accepts any object.  These theorems are about
   `decodeQueryDocWith legacyDisc`, NOT about the current code. -/

/-- `{ a ...F ... on T { b } }` as the parser builds it -/
def c19Witness : QueryDoc :=
  { ops := [{ op := str "query", name := [], vars := [], dirs := [], pos := Pos.zero,
              sel := .cons (.field (str "a") (str "a") [] [] .nil Pos.zero)
                    (.cons (.spread (str "F") [] Pos.zero)
                    (.cons (.inline (str "T") [] (.cons (.field (str "b") (str "b") [] [] .nil Pos.zero) .nil) Pos.zero)
                     .nil)) }],
    frags := [] }

/-- (history) Complete characterisation of the legacy round trip: it never failed, and what came
    back was the document with positions dropped, strings coerced to UTF-8 and EVERY fragment
    spread / inline fragment replaced by a field. -/
theorem C19_legacy_roundtrip_image (d : QueryDoc) :
    decodeQueryDocWith legacyDisc (encodeQueryDoc d) = .ok (imgDoc sanitize true d) :=
  decode_legacy_encode d

/-- (history) … in particular every selection of the result, at every depth, was a field. -/
theorem C19_legacy_roundtrip_all_fields (d : QueryDoc) :
    ∃ d', decodeQueryDocWith legacyDisc (encodeQueryDoc d) = .ok d' ∧ ∀ k ∈ docKinds d', k = SelKind.field := by
  refine ⟨_, C19_legacy_roundtrip_image d, ?_⟩
  intro k hk
  simp only [docKinds, imgDoc, List.mem_append, List.mem_flatMap, List.mem_map] at hk
  rcases hk with ⟨o, ⟨o', _, rfl⟩, hk⟩ | ⟨fr, ⟨fr', _, rfl⟩, hk⟩
  · exact selsKinds_img_legacy sanitize o'.sel k (by simpa [imgOp] using hk)
  · exact selsKinds_img_legacy sanitize fr'.sel k (by simpa [imgFrag] using hk)

/-- (history) the defect, kernel-checked on the model: with the legacy discriminator the round trip
    of `{ a ...F ... on T { b } }` succeeded and returned selections of kinds field, field, field,
    field instead of field, spread, inline, field. -/
theorem C19_legacy_roundtrip_counterexample :
    ∃ d', decodeQueryDocWith legacyDisc (encodeQueryDoc c19Witness) = .ok d' ∧
      docKinds c19Witness = [.field, .spread, .inline, .field] ∧
      docKinds d' = [.field, .field, .field, .field] ∧ docKinds d' ≠ docKinds c19Witness := by
  refine ⟨_, C19_legacy_roundtrip_image c19Witness, ?_, ?_, ?_⟩ <;> decide

/-- (history) documents whose selections are all fields did round-trip with the legacy decoder. -/
theorem C19_legacy_roundtrip_fields_only (d : QueryDoc) (hf : FieldsOnly d) (hc : Utf8Clean d) :
    decodeQueryDocWith legacyDisc (encodeQueryDoc d) = .ok (stripDoc d) := by
  rw [C19_legacy_roundtrip_image, imgDoc_fieldsOnly sanitize d hf, imgDoc_fix sanitize false d hc]
  rfl

/- ======================= non-vacuity ======================= -/

/-- the witness of the repaired defect is well-formed, and the current code returns it intact -/
example : decodeQueryDoc (encodeQueryDoc c19Witness) = .ok (stripDoc c19Witness) :=
  C19_roundtrip c19Witness (by decide)

example : ∃ d', decodeQueryDoc (encodeQueryDoc c19Witness) = .ok d' ∧
    docKinds d' = [.field, .spread, .inline, .field] := by
  obtain ⟨d', h1, h2⟩ := C19_roundtrip_kinds c19Witness
  exact ⟨d', h1, by rw [h2]; decide⟩

/-- depth 3 below the operation: the `b` inside `... on T` is found at path [2, 0] on both sides -/
example : (docSelAt c19Witness (.op 0) 2 [0]).map kindOf = some SelKind.field := by decide


/-- the source-level hypothesis is satisfiable (kernel-evaluated on a tiny source; check C19
    evaluates `sourceCleanB` with the compiled driver on every source it parses) -/
example : sourceCleanB (str "{a}") = true := by decide


/- ======================= END TO END: over source texts ======================= -/

/-- The hypothesis `sourceCleanB inp` of `C19_parsed_roundtrip` holds for EVERY well-formed UTF-8
    source: each token value the lexer model produces is `utf8Encode` of a list of code points (the
    specification's token value, `C03_step_utf8` / `C03_block_utf8` and `blockStringValue_enc` for
    block strings), and `utf8Encode` only writes well-formed UTF-8 (a `\uXXXX` escape naming a
    surrogate is written as U+FFFD). -/
theorem C19_valid_source_clean (inp : Bytes) (h : Lexer.Utf8.valid inp) : sourceCleanB inp = true :=
  Gql.EndToEnd.valid_source_clean inp h

/-- … in the propositional form (all tokens ever read from any cursor) -/
theorem C19_valid_source_lexClean (inp : Bytes) (h : Lexer.Utf8.valid inp) : Parser.LexClean inp Lexer.Cur.init :=
  Gql.EndToEnd.valid_source_lexClean inp h _

/-- every document parsed from a well-formed UTF-8 source satisfies the well-formedness predicate -/
theorem C19_source_document_wellformed (limit : Nat) (inp : Bytes) (d : QueryDoc) (h : Lexer.Utf8.valid inp)
    (hp : Parser.parseQuery limit inp = .ok d) : utf8CleanB d = true :=
  C19_parsed_document_wellformed limit inp d (C19_valid_source_clean inp h) hp

/-- **C19 END TO END**: parse a well-formed UTF-8 source text (with or without token limit), encode the
    document to JSON, decode it: the same document comes back, positions aside.  No hypothesis on the
    document is left; for a source that is NOT well-formed UTF-8 the statement fails
    (`C19_roundtrip_illformed_utf8_counterexample`). -/
theorem C19_source_roundtrip (limit : Nat) (inp : Bytes) (d : QueryDoc) (h : Lexer.Utf8.valid inp)
    (hp : Parser.parseQuery limit inp = .ok d) :
    decodeQueryDoc (encodeQueryDoc d) = .ok (stripDoc d) :=
  C19_parsed_roundtrip limit inp d (C19_valid_source_clean inp h) hp

/-- non-vacuity: a non-ASCII source (`{a(s:"é")}`) is valid UTF-8 -/
example : Lexer.Utf8.valid (str "{a(s:\"" ++ [0xC3, 0xA9] ++ str "\")}") := by unfold Lexer.Utf8.valid; decide

#print axioms C19_valid_source_clean
#print axioms C19_source_roundtrip
