import GqlModel.Json.Model
/- C19 — JSON round trip of executable documents (theorems follow) -/
