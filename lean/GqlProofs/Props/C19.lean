import GqlProofs.Json.RoundTrip
/-
  C19 — "Encoding any parsed executable document to JSON and decoding it back yields a document
  with the same operations, fragments and selections: fields stay fields, fragment spreads stay
  fragment spreads, inline fragments stay inline fragments, at every nesting depth, with names,
  arguments, values, directives and type conditions intact."

  Model: `GqlModel/Json/Model.lean` (`encodeQueryDoc` = `json.Marshal` of the ast structs,
  `decodeQueryDocWith disc` = /repo/ast/decode.go + default struct decoding), tied to the code by
  check C19 (ops `jsonenc`, `jsonrt`: byte-equal encodings, equal round-tripped trees).
  `stripDoc d` is `d` with every position zeroed (positions are `json:"-"`), i.e. "the same
  document" of the property; `Utf8Clean d` says that every name / raw value of `d` is well-formed
  UTF-8 (true of every document parsed from UTF-8 text; `json.Marshal` rewrites ill-formed bytes
  to U+FFFD, see `C19_roundtrip_illformed_utf8_counterexample`).

  The classification of a selection object is one definition, `currentDisc` (today `legacyDisc`:
  Field decoder first).  Theorems in the LEGACY section are about `decodeQueryDoc` (= the current
  discriminator) and state the defect R19; they are to be deleted when decode.go is repaired and
  `currentDisc` is flipped to `repairedDisc`, at which point `C19_roundtrip` IS the statement
  about `decodeQueryDoc` (`by simpa [decodeQueryDoc, currentDisc] using C19_roundtrip d h`).
-/
open Gql Gql.Json

/- ======================= LEGACY discriminator (the tree as it stands) ======================= -/

theorem C19_current_discriminator_is_legacy : currentDisc = legacyDisc := rfl

/-- Complete characterisation of the current round trip: it never fails, and what comes back is
    the document with positions dropped, strings coerced to UTF-8 and EVERY fragment spread /
    inline fragment replaced by a field (spread `...F @d` ↦ field named `F` with `@d`; inline
    fragment ↦ nameless field carrying its directives and selection set). -/
theorem C19_roundtrip_legacy_image (d : QueryDoc) :
    decodeQueryDoc (encodeQueryDoc d) = .ok (imgDoc sanitize true d) :=
  decode_legacy_encode d

/-- … in particular every selection of the result, at every depth, is a field. -/
theorem C19_roundtrip_legacy_all_fields (d : QueryDoc) :
    ∃ d', decodeQueryDoc (encodeQueryDoc d) = .ok d' ∧ ∀ k ∈ docKinds d', k = SelKind.field := by
  refine ⟨_, C19_roundtrip_legacy_image d, ?_⟩
  intro k hk
  simp only [docKinds, imgDoc, List.mem_append, List.mem_flatMap, List.mem_map] at hk
  rcases hk with ⟨o, ⟨o', _, rfl⟩, hk⟩ | ⟨fr, ⟨fr', _, rfl⟩, hk⟩
  · exact selsKinds_img_legacy sanitize o'.sel k (by simpa [imgOp] using hk)
  · exact selsKinds_img_legacy sanitize fr'.sel k (by simpa [imgFrag] using hk)

/-- `{ a ...F ... on T { b } }` as the parser builds it -/
def c19Witness : QueryDoc :=
  { ops := [{ op := str "query", name := [], vars := [], dirs := [], pos := Pos.zero,
              sel := .cons (.field (str "a") (str "a") [] [] .nil Pos.zero)
                    (.cons (.spread (str "F") [] Pos.zero)
                    (.cons (.inline (str "T") [] (.cons (.field (str "b") (str "b") [] [] .nil Pos.zero) .nil) Pos.zero)
                     .nil)) }],
    frags := [] }

/-- R19, kernel-checked on the model: the round trip of `{ a ...F ... on T { b } }` succeeds and
    returns selections of kinds field, field, field, field instead of field, spread, inline, field. -/
theorem C19_roundtrip_counterexample :
    ∃ d', decodeQueryDoc (encodeQueryDoc c19Witness) = .ok d' ∧
      docKinds c19Witness = [.field, .spread, .inline, .field] ∧
      docKinds d' = [.field, .field, .field, .field] ∧ docKinds d' ≠ docKinds c19Witness := by
  refine ⟨_, C19_roundtrip_legacy_image c19Witness, ?_, ?_, ?_⟩ <;> decide

/-- Documents whose selections are all fields do round-trip with the current code. -/
theorem C19_roundtrip_fields_only_partial (d : QueryDoc) (hf : FieldsOnly d) (hc : Utf8Clean d) :
    decodeQueryDoc (encodeQueryDoc d) = .ok (stripDoc d) := by
  rw [C19_roundtrip_legacy_image, imgDoc_fieldsOnly sanitize d hf, imgDoc_fix sanitize false d hc]
  rfl

/- ======================= REPAIRED discriminator (choose by the keys present) ======================= -/

/-- One selection alone: encoding then decoding with the repaired classification gives back the
    same KIND of selection with the same content (strings through the UTF-8 coercion). -/
theorem C19_roundtrip_selection_repaired (s : Selection) :
    decodeSelectionRepaired (encSelection s) = some (imgSel sanitize false s) := by
  simp [decodeSelectionRepaired, decSelItems_repaired_single]

/-- The full property for the repaired decoder: the round trip never fails and gives back the
    same document (positions aside) — operations, fragments, selections of the same kinds at every
    depth, names, arguments, values, directives, type conditions, variable definitions. -/
theorem C19_roundtrip (d : QueryDoc) (hc : Utf8Clean d) :
    decodeQueryDocWith repairedDisc (encodeQueryDoc d) = .ok (stripDoc d) := by
  rw [decode_repaired_encode, imgDoc_fix sanitize false d hc]
  rfl

/-- Without any assumption on the strings: the repaired round trip never fails and preserves the
    kind of every selection at every depth. -/
theorem C19_roundtrip_kinds_repaired (d : QueryDoc) :
    ∃ d', decodeQueryDocWith repairedDisc (encodeQueryDoc d) = .ok d' ∧ docKinds d' = docKinds d :=
  ⟨_, decode_repaired_encode d, docKinds_img sanitize d⟩

/- ======================= strings ======================= -/

/-- `{ a(s: "\xff") }`-like value: a raw string that is not UTF-8 -/
def c19IllFormed : QueryDoc :=
  { ops := [{ op := str "query", name := [], vars := [], dirs := [], pos := Pos.zero,
              sel := .cons (.field (str "a") (str "a")
                [{ name := str "s", value := .mk .string [0xFF] .nil Pos.zero, pos := Pos.zero }] [] .nil Pos.zero) .nil }],
    frags := [] }

/-- The hypothesis `Utf8Clean` is needed, whatever the discriminator: the byte FF comes back as
    U+FFFD (EF BF BD). -/
theorem C19_roundtrip_illformed_utf8_counterexample :
    ¬ Utf8Clean c19IllFormed ∧
    decodeQueryDocWith repairedDisc (encodeQueryDoc c19IllFormed) = .ok
      { ops := [{ op := str "query", name := [], vars := [], dirs := [], pos := Pos.zero,
                  sel := .cons (.field (str "a") (str "a")
                    [{ name := str "s", value := .mk .string [0xEF, 0xBF, 0xBD] .nil Pos.zero, pos := Pos.zero }] []
                    .nil Pos.zero) .nil }],
        frags := [] } := by
  constructor
  · intro h
    have h1 := h.1 _ (List.mem_singleton.mpr rfl)
    have h2 := h1.2.2.2.2
    simp only [FixSels, FixSel] at h2
    have h3 := h2.1.2.2.1 _ (List.mem_singleton.mpr rfl)
    have h4 := h3.2
    simp only [FixValue] at h4
    exact absurd h4.1 (by decide)
  · rw [decode_repaired_encode]
    have hs : sanitize [0xFF] = [0xEF, 0xBF, 0xBD] := by decide
    have ha : sanitize (str "a") = str "a" := by decide
    have hq : sanitize (str "query") = str "query" := by decide
    have h1 : sanitize (str "s") = str "s" := by decide
    simp [imgDoc, c19IllFormed, imgOp, imgSels, imgSel, imgArg, imgValue, imgChildren, hs, ha, hq, h1,
      sanitize_nil]

/-- non-vacuity: the witness of R19 is UTF-8 clean, so `C19_roundtrip` applies to it -/
example : decodeQueryDocWith repairedDisc (encodeQueryDoc c19Witness) = .ok (stripDoc c19Witness) :=
  C19_roundtrip c19Witness (by
    refine ⟨?_, by simp [c19Witness]⟩
    intro o ho
    simp only [c19Witness, List.mem_singleton] at ho
    subst ho
    simp only [FixOp, FixSels, FixSel, FixArg, FixDir]
    refine ⟨by decide, by decide, by simp, by simp, ?_⟩
    refine ⟨⟨by decide, by decide, by simp, by simp, trivial⟩, ⟨by decide, by simp⟩,
      ⟨by decide, by simp, ⟨by decide, by decide, by simp, by simp, trivial⟩, trivial⟩, trivial⟩)
