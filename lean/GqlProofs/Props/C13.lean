import GqlModel.Format.Model
import GqlModel.Parser.Schema
import GqlProofs.Lexer.Progress
import GqlProofs.Format.Description
import GqlProofs.Format.BlockLex
import GqlProofs.Format.FmtSchemaTokens
import GqlProofs.Format.NormPreserveSchema
import GqlProofs.Format.SchemaDocOf
import GqlProofs.Format.ReloadExamples
import GqlProofs.Format.LoadedPrintableDoc
import GqlProofs.Props.C06
import GqlProofs.EndToEnd.ParsedSchemaShape
/-
  Property C13 — format ∘ load round trip for schemas.

  DESCRIPTIONS.  `WriteDescription` writes a description `d` as a block string whose raw text is
  `descBody ind (escapeTriple d)` (`C13_description_text`; `ind` = the current indentation) when
  `blockStringRepresentable d`, and as a quoted string otherwise (`C13_description_text_quoted`).
  * `C13_description_roundtrip`: for `BlockRepresentable d` and an indentation of spaces and tabs,
    `blockStringValue (descBody ind d) = d`; outside the class the value differs
    (`C13_description_leading_blank_counterexample`, `…_trailing_newline_…`, `…_indented_…`: R13b,
    the reason for the quoted fallback).
  * `C13_description_token`: the lexer model reads the block form — every `"""` escaped — back as
    ONE BlockString token with value `d` (well-formed UTF-8, indentation of spaces and tabs).
    `C13_description_lexes` is the older statement for texts without `"""`;
    `C13_description_triple_quote_counterexample` shows what happened without the escape (R13a).

  THE BRIDGE formatter text → tokens for type-system documents (`FormatSchemaDocument`), for every
  configuration whose indentation consists of spaces and tabs:
    `C13_format_tokens_description … _argument_definition_list … _field_definition … _field_list …
     _enum_value_list … _definition … _directive_definition … _schema_definitions … _schema_extensions`
  and the document theorem
    `C13_format_tokens : tokensOf (fmtSchemaDoc cfg d) = some (printSchemaLongD descTok (normSchemaDoc cfg d))`.
  `printSchemaLongD descTok` is the unparser of C06 with the five definition lists one after the
  other (the formatter's order) and each description as the token the formatter writes (BlockString
  when representable, else String).  `normSchemaDoc cfg` is what the formatter deliberately does
  not keep: block-string VALUES become string values; `WithoutDescription` drops descriptions;
  without `WithBuiltin` built-in definitions and directive definitions of source 0 are skipped;
  all `schema { … }` definitions are MERGED into one, likewise all `extend schema`.

  THE ROUND TRIP with C06's parse ∘ print theorem (`C06_parse_print_items`):
    `C13_format_roundtrip : parseSchemaSrc 0 src b (fmtSchemaDoc cfg d) = .ok d' ∧
        d'.erasePos = (setBuiltIn b (normSchemaDoc cfg d)).erasePos`
    `C13_format_roundtrip_parsed`: the same for every document the parser returned.

  LOADED SCHEMAS (`FormatSchema`, second half of the property):
    `C13_schema_text_is_raw_document_text : fmtSchema cfg s = fmtSchemaDoc cfg (docOfSchemaRaw s)` — `FormatSchema`
      prints a DOCUMENT (schema definition / `extend schema` as the formatter decides, directive and type
      definitions sorted by name), byte for byte, every configuration, every schema;
    `C13_schema_text_is_document_text` — the same for `docOfSchema cfg s` (hidden `__schema`/`__type` fields
      dropped), when no printed definition has ONLY hidden fields (`NoAllHidden`);
    `C13_schema_format_tokens`, `C13_schema_format_parses` — the text lexes to the unparser's tokens and parses back
      to `docOfSchema cfg s` (normalised) up to positions;
    `C13_schema_reload` / `C13_schema_reload_of_sources` / `C13_schema_reload_document` — loading `prelude ⊕` the
      parsed text succeeds and gives a schema `ReloadEquiv` to `s` (same roots; name by name the same types, fields,
      arguments, defaults, directives, descriptions up to positions and string-kind normalisation; same directive
      definitions, schema directives, possible types and implementers up to order), for every configuration
      without `WithBuiltin` (also `WithoutDescription`: then `normDef cfg` drops the descriptions);
    the loader reads SKELETONS only (GqlProofs/Format/LoadSkeleton.lean): `validate…_sk`.
    Exceptions, each a kernel-checked theorem: `C13_schema_description_not_printed` / `…_counterexample` (R13e),
      `C13_builtin_output_not_reloadable`, `C13_schema_not_a_fixpoint_counterexample`,
      `C13_schema_linebreak_indent_counterexample`; `C13_schema_hidden_fields_rejected` (`scalar Query` used to
      load and print `scalar Query {⏎}`; it is rejected since the repair of the root kinds, and `NoAllHidden`
      holds of every loaded schema); NEW FINDING `C13_schema_reload_needs_no_builtin_extension`
      (`extend type __Type { … }` is lost).
  END TO END, over source texts (`EndToEnd/ParsedSchemaShape.lean`: one traversal of the schema parser
  model over the tokens of the lexer model):
    `C13_parsed_formattable`: every document the schema parser returns (any limit, source index,
        `BuiltIn` flag) from a well-formed UTF-8 source is `FormattableSchema`;
    `C13_format_roundtrip_source`: so for every well-formed UTF-8 source text the parser accepts, the
        formatted text of the parsed document parses again to the normalised document up to
        positions — no hypothesis on the document is left.
    The hypothesis "well-formed UTF-8" is needed: the parser accepts the description `"\xFF"` (Lean
    driver: `ps -1 22ff22207363616c61722053` answers a scalar `S` with description `xff`), and
    `FormattableSchema` asks descriptions to be well-formed UTF-8 (`strRaw`).

  NOT proved (kept so that nothing is weakened silently):
    theorem C13_doc_fixpoint … : fmtSchemaDoc cfg d' = fmtSchemaDoc cfg d
      — false as stated: with `WithoutDescription` the comma after an argument that has a description
        is skipped (KNOWN FINDING sd:not-a-fixpoint, `C13_schema_not_a_fixpoint_counterexample`); moreover the
        formatter looks at positions (`fieldSuppressed`: line 0; built-in source 0), so it is not invariant
        under `erasePos`.  The fixpoint for loaded schemas WITHOUT `WithoutDescription`
          theorem C13_schema_fixpoint … : fmtSchema cfg s' = fmtSchema cfg s   (s' the reloaded schema)
        is not proved either: it needs `fmtSchemaDoc` invariant under `erasePos`/`normDef` for documents whose
        fields all have positions, and `sortedByKey` of the reloaded maps (same keys) — lemmas
        `fmtSchemaDoc_erasePos`, `fmtSchemaDoc_norm`, `sortedByKey_congr_keys` are missing.
-/
open Gql Gql.Lexer Gql.Format Gql.Grammar Gql.Print Gql.Parser

/-- What `writeDescription` writes for a non-empty description that a block string can represent
    (`blockStringRepresentable`, the test the repaired formatter makes): the separator that any
    `WriteString` would put first, `"""`, the body with every `"""` escaped, `"""`, a newline. -/
theorem C13_description_text (cfg : Cfg) (d : Bytes) (w : W) (hd : d ≠ []) (ho : cfg.omitDescription = false)
    (hrep : blockStringRepresentable d = true) :
    (writeDescription cfg d w).text =
      w.text ++ lead cfg w ++ tripleQuote ++ descBody (repeatBytes cfg.indent w.indentSize) (escapeTriple d)
        ++ tripleQuote ++ [10] :=
  writeDescription_text cfg d w hd ho hrep

/-- Every other description is written as a quoted string with the GraphQL escapes
    (read back byte for byte by `C12_quote_is_string_token`). -/
theorem C13_description_text_quoted (cfg : Cfg) (d : Bytes) (w : W) (hd : d ≠ []) (ho : cfg.omitDescription = false)
    (hrep : blockStringRepresentable d = false) :
    (writeDescription cfg d w).text = w.text ++ lead cfg w ++ gqlQuote d ++ [10] :=
  writeDescription_text_quoted cfg d w hd ho hrep

/-- The block-string value of the rendered description is the description, for every description
    of the representable class and every indentation made of blanks. -/
theorem C13_description_roundtrip (ind d : Bytes) (hi : AllBlank ind) (hd : BlockRepresentable d) :
    blockStringValue (descBody ind d) = d :=
  blockStringValue_descBody ind d hi hd

/-- Lexing the rendered description with the lexer model yields one BlockString token whose value
    is the description: the raw body must be block-safe text (`blockSafe`, see the file header)
    and the description representable.  `R` is whatever follows the closing quotes (the formatter
    writes a newline there). -/
theorem C13_description_lexes (ind d : Bytes) (hi : AllBlank ind) (hd : BlockRepresentable d)
    (cps : List Nat) (hcps : descBody ind d = utf8Encode cps) (hsafe : blockSafe cps = true)
    (R : Bytes) (hR : R.head? ≠ some 34) (c : Cur) :
    ∃ t c', readToken (tripleQuote ++ descBody ind d ++ tripleQuote ++ R) c = .tok t R c' ∧
      t.kind = .blockString ∧ t.value = d := by
  obtain ⟨t, c', h1, h2, h3⟩ := rbl_blockSafe c R hR cps hsafe (c.adv 3 3) []
  refine ⟨t, c', ?_, h2, ?_⟩
  · have e : tripleQuote ++ descBody ind d ++ tripleQuote ++ R
        = 34 :: 34 :: 34 :: (utf8Encode cps ++ 34 :: 34 :: 34 :: R) := by
      simp [tripleQuote, hcps]
    rw [e]
    unfold readToken
    have hws : ws (34 :: 34 :: 34 :: (utf8Encode cps ++ 34 :: 34 :: 34 :: R)) c
        = (34 :: 34 :: 34 :: (utf8Encode cps ++ 34 :: 34 :: 34 :: R), c) := by
      rw [ws.eq_def]; simp
    rw [hws]
    simp [readTokenBody, Gql.Lexer.punct_quote, isNameStart, isDigit]
    exact h1
  · rw [h3, List.reverse_nil, List.nil_append, ← hcps]
    exact blockStringValue_descBody ind d hi hd

/- ---------- outside the class (findings R13a, R13b) ---------- -/

/-- R13b: a description with a leading blank (`"  lead"`) comes back without it. -/
theorem C13_description_leading_blank_counterexample :
    ¬ (∀ ind d : Bytes, AllBlank ind → d ≠ [] → blockStringValue (descBody ind d) = d) := by
  intro h
  have := h [] [32, 32, 108] (by intro b hb; simp at hb) (by simp)
  revert this; decide

/-- R13b: a trailing newline is lost. -/
theorem C13_description_trailing_newline_counterexample :
    ¬ (∀ ind d : Bytes, AllBlank ind → d ≠ [] → blockStringValue (descBody ind d) = d) := by
  intro h
  have := h [9] [120, 10] (by intro b hb; simp at hb; subst hb; decide) (by simp)
  revert this; decide

/-- R13b: common indentation of the lines is removed (`" a\n b"` comes back as `"a\nb"`). -/
theorem C13_description_indented_counterexample :
    ¬ (∀ ind d : Bytes, AllBlank ind → d ≠ [] → blockStringValue (descBody ind d) = d) := by
  intro h
  have := h [] [32, 97, 10, 32, 98] (by intro b hb; simp at hb) (by simp)
  revert this; decide

/-- R13a: a description containing `"""` is not read back as one token followed by the rest:
    for `d = """` the first token ends at the quotes of the description. -/
theorem C13_description_triple_quote_counterexample :
    ¬ (∀ (d : Bytes), d ≠ [] → ∃ t c',
        readToken (tripleQuote ++ descBody [] d ++ tripleQuote ++ [10]) Cur.init = .tok t [10] c' ∧
        t.value = d) := by
  intro h
  obtain ⟨t, c', h1, _⟩ := h [34, 34, 34] (by simp)
  have e : tripleQuote ++ descBody [] [34, 34, 34] ++ tripleQuote ++ [10]
      = [34, 34, 34, 10, 34, 34, 34, 10, 34, 34, 34, 10] := by decide
  rw [e] at h1
  simp [readToken, readTokenBody, Gql.Lexer.punct_quote, ws, isNameStart, isDigit, readBlockLoop.eq_def, quoteRun, encodeRune] at h1

/-- non-vacuity: an indented, multi-line description with quotes and a backslash is in both
    classes (for a two-space indentation). -/
example : BlockRepresentable [97, 34, 10, 32, 32, 98, 92, 10, 10, 99] := by decide
example : blockSafe ([10, 32, 32] ++ [97, 34, 10, 32, 32] ++ [32, 32, 98, 92, 10, 32, 32, 10, 32, 32, 99, 10, 32, 32]) = true := by decide
example : descBody [32, 32] [97, 34, 10, 32, 32, 98, 92, 10, 10, 99]
    = utf8Encode ([10, 32, 32] ++ [97, 34, 10, 32, 32] ++ [32, 32, 98, 92, 10, 32, 32, 10, 32, 32, 99, 10, 32, 32]) := by decide

/-! ### the description token, with `"""` inside -/

/-- The lexer model reads what `WriteDescription` writes in block form — `"""`, the indented lines
    with every `"""` escaped, `"""` — as ONE BlockString token whose value is the description,
    whatever separator or punctuator follows (the formatter writes a newline). -/
theorem C13_description_token (ind s : Bytes) (hi : AllBlank ind) (hv : strRaw s = true)
    (hrep : blockStringRepresentable s = true) (post : Bytes) (hpost : Follow true post) (c : Cur) :
    ∃ t c', readToken (tripleQuote ++ descBody ind (escapeTriple s) ++ tripleQuote ++ post) c = .tok t post c' ∧
      Tok.ofToken t = { kind := .blockString, value := s } := by
  obtain ⟨t, c', h1, h2, _⟩ := tokText_blockDescription ind s hi hv hrep post hpost c
  exact ⟨t, c', h1, h2⟩

/-- non-vacuity: a description with `"""` and a backslash in front of quotes -/
example : blockStringRepresentable [97, 34, 34, 34, 34, 10, 92, 34, 34, 34, 98] = true := by decide
example : strRaw [97, 34, 34, 34, 34, 10, 92, 34, 34, 34, 98] = true := by decide

/-! ### the bridge: formatter text → tokens -/

section Bridge
variable {cfg : Cfg} (hind : AllBlank cfg.indent)
include hind

theorem C13_format_tokens_description {w : W} {ts : List Tok} (s : Bytes) (h : I false w ts) (hs : strRaw s = true) :
    I false (writeDescription cfg s w) (ts ++ descTok (normDesc cfg s)) := T_description hind s h hs

theorem C13_format_tokens_argument_definition_list {g : Bool} {w : W} {ts : List Tok} (ds : List ArgDef)
    (h : I g w ts) (hd : ds.all argDefOk = true) :
    I g (formatArgumentDefinitionList cfg ds w) (ts ++ printArgDefsD descTok (ds.map (normArgDef cfg))) :=
  T_argDefList hind ds h hd

theorem C13_format_tokens_field_definition {w : W} {ts : List Tok} (f : FieldDef) (h : LexTo w.text ts false)
    (hf : fieldDefOk f = true) :
    LexTo (formatFieldDefinition cfg f w).text (ts ++ genFieldD descTok (normFieldDef cfg f)) false :=
  T_fieldDef hind f h hf

theorem C13_format_tokens_field_list {g : Bool} {w : W} {ts : List Tok} (fs : List FieldDef) (h : I g w ts)
    (hf : fs.all fieldDefOk = true) :
    I g (formatFieldList cfg fs w) (ts ++ printBlock (genFieldD descTok) (fs.map (normFieldDef cfg))) :=
  T_fieldList hind fs h hf

theorem C13_format_tokens_enum_value_list {g : Bool} {w : W} {ts : List Tok} (es : List EnumValDef) (h : I g w ts)
    (he : es.all enumValOk = true) :
    I g (formatEnumValueList cfg es w) (ts ++ printBlock (printEnumValD descTok) (es.map (normEnumVal cfg))) :=
  T_enumValueList hind es h he

/-- `FormatDefinition` (type definition): nothing for a skipped built-in, else the unparse -/
theorem C13_format_tokens_definition {w : W} {ts : List Tok} (d : Definition) (h : LexTo w.text ts false)
    (hd : defOk d = true) :
    LexTo (formatDefinition cfg false d w).text
      (ts ++ (if keepDef cfg d = true then printDefinitionD descTok (normDef cfg d) else [])) false := by
  have hsh : shapeOk d = true := by
    have := hd; simp only [defOk, Bool.and_eq_true] at this; exact this.2
  have := T_definition hind false d h hd (by simp)
  simpa [printDefinitionD, genDefBody_eq cfg d hsh, normDef_desc, normDef_kind] using this

/-- `FormatDefinition` (type extension) -/
theorem C13_format_tokens_extension {w : W} {ts : List Tok} (d : Definition) (h : LexTo w.text ts false)
    (hd : extOk d = true) :
    LexTo (formatDefinition cfg true d w).text
      (ts ++ (if keepDef cfg d = true then printExtensionD descTok (normDef cfg d) else [])) false := by
  simp only [extOk, Bool.and_eq_true, List.isEmpty_iff] at hd
  have hsh : shapeOk d = true := by
    have := hd.1; simp only [defOk, Bool.and_eq_true] at this; exact this.2
  have := T_definition hind true d h hd.1 (fun _ => hd.2)
  simpa [printExtensionD, genDefBody_eq cfg d hsh, normDef_kind] using this

theorem C13_format_tokens_directive_definition {w : W} {ts : List Tok} (d : DirectiveDef) (h : LexTo w.text ts false)
    (hd : dirDefOk d = true) :
    LexTo (formatDirectiveDefinition cfg srcZeroBuiltIn d w).text
      (ts ++ (if keepDirectiveDef cfg d = true then printDirectiveDefD descTok (normDirectiveDef cfg d) else []))
      false := T_directiveDef hind d h hd

theorem C13_format_tokens_schema_definitions {w : W} {ts : List Tok} (ds : List SchemaDef) (h : LexTo w.text ts false)
    (hd : ds.all schemaDefOk = true) :
    LexTo (formatSchemaDefinitionList cfg false ds w).text
      (ts ++ ((mergeSchemaDefs cfg ds).map (printSchemaDefD descTok)).flatten) false := T_schemaDefs hind ds h hd

theorem C13_format_tokens_schema_extensions {w : W} {ts : List Tok} (ds : List SchemaDef) (h : LexTo w.text ts false)
    (hd : ds.all schemaExtOk = true) :
    LexTo (formatSchemaDefinitionList cfg true ds w).text
      (ts ++ ((mergeSchemaDefs cfg ds).map printSchemaExt).flatten) false := T_schemaExts hind ds h hd

/-- THE BRIDGE for type-system documents: the text `FormatSchemaDocument` writes lexes (comments and
    EOF aside) to exactly the tokens of the normalised document, the five lists one after the
    other, each description as the token the formatter chose. -/
theorem C13_format_tokens (d : SchemaDoc) (hd : FormattableSchema d) :
    tokensOf (fmtSchemaDoc cfg d) = some (printSchemaLongD descTok (normSchemaDoc cfg d)) :=
  tokensOf_fmtSchemaDoc hind d hd

/-- THE ROUND TRIP: the formatted text of a formattable, printable type-system document parses (as
    any source `src` with any `BuiltIn` flag `b`), and the result is the normalised document up to
    positions. -/
theorem C13_format_roundtrip (d : SchemaDoc) (hd : FormattableSchema d) (hok : DocAll ItemOK d)
    (src : Nat) (b : Bool) :
    ∃ d', parseSchemaSrc 0 src b (fmtSchemaDoc cfg d) = .ok d' ∧
      d'.erasePos = (setBuiltIn b (normSchemaDoc cfg d)).erasePos := by
  have htok := C13_format_tokens hind d hd
  rw [printSchemaLongD_items] at htok
  obtain ⟨d', h1, h2⟩ := C06_parse_print_items descKind_ok (itemsOf (normSchemaDoc cfg d))
    (itemOK_norm cfg d hok) src b (fmtSchemaDoc cfg d) htok
  refine ⟨d', h1, ?_⟩
  rw [h2]
  have : (itemsOf (normSchemaDoc cfg d)).foldl SchemaDoc.add SchemaDoc.empty = normSchemaDoc cfg d := by
    rw [foldl_add_lists]
    simp [itemsOf, SchemaDoc.empty, List.filterMap_append, List.filterMap_map, Function.comp_def, getSchema,
      getSchemaExt, getDirective, getDefinition, getExtension, filterMap_none']
  rw [this]

/-- the round trip for every document the parser returned -/
theorem C13_format_roundtrip_parsed (src0 : Nat) (b0 : Bool) (inp : Bytes) (d : SchemaDoc)
    (hp : parseSchemaSrc 0 src0 b0 inp = .ok d) (hd : FormattableSchema d) (src : Nat) (b : Bool) :
    ∃ d', parseSchemaSrc 0 src b (fmtSchemaDoc cfg d) = .ok d' ∧
      d'.erasePos = (setBuiltIn b (normSchemaDoc cfg d)).erasePos :=
  C13_format_roundtrip hind d hd (C06_parse_printable src0 b0 inp d hp).1 src b

end Bridge

/-- non-vacuity of `FormattableSchema`: a schema definition, a directive definition with a described
    argument, an object type with a field with arguments, an enum with a described value, a union,
    an input object with a default value, an extension -/
def C13_sampleDoc : SchemaDoc :=
  { schema := [{ desc := [], dirs := [], opTypes := [{ op := str "query", type := str "Q", pos := Pos.zero }], pos := Pos.zero }],
    schemaExt := [],
    directives := [{ desc := str "a \"\"\" b", name := str "d",
                     args := [{ desc := str "x", name := str "a", default := none, type := .named (str "Int") false Pos.zero,
                                dirs := [], pos := Pos.zero }],
                     locations := [str "FIELD", str "QUERY"], repeatable := true, pos := { Pos.zero with src := 1 } }],
    definitions :=
      [{ kind := .object, desc := str "  indented", name := str "Q", dirs := [], interfaces := [str "I", str "J"],
         fields := [{ desc := [], name := str "f",
                      args := [{ desc := [], name := str "a", default := some (.mk .int (str "1") .nil Pos.zero),
                                 type := .named (str "Int") true Pos.zero, dirs := [], pos := Pos.zero }],
                      default := none, type := .list (.named (str "E") false Pos.zero) true Pos.zero, dirs := [],
                      pos := { Pos.zero with line := 3 } }],
         types := [], enumValues := [], pos := Pos.zero, builtIn := false },
       { kind := .enum, desc := [], name := str "E", dirs := [], interfaces := [], fields := [], types := [],
         enumValues := [{ desc := str "v", name := str "A", dirs := [], pos := Pos.zero }], pos := Pos.zero, builtIn := false },
       { kind := .union, desc := [], name := str "U", dirs := [], interfaces := [], fields := [], types := [str "Q", str "R"],
         enumValues := [], pos := Pos.zero, builtIn := false },
       { kind := .inputObject, desc := [], name := str "In", dirs := [], interfaces := [],
         fields := [{ desc := [], name := str "x", args := [], default := some (.mk .block (str "b") .nil Pos.zero),
                      type := .named (str "String") false Pos.zero, dirs := [], pos := { Pos.zero with line := 9 } }],
         types := [], enumValues := [], pos := Pos.zero, builtIn := false }],
    extensions :=
      [{ kind := .scalar, desc := [], name := str "S", dirs := [{ name := str "d", args := [], pos := Pos.zero }],
         interfaces := [], fields := [], types := [], enumValues := [], pos := Pos.zero, builtIn := false }] }

example : FormattableSchema C13_sampleDoc := by decide

/-- FINDING (pathological configuration): the hypothesis "indentation of spaces and tabs" cannot be
    widened to all white space.  With `WithIndent("\n")` (or `"\r"`) an indented two-line description
    `a⏎b` is written with an empty line between its lines and comes back as `a⏎⏎b`; with
    `WithIndent(",")` the comma becomes part of the description.  (Go: `rtsd 0a,0,0,0` on
    `type T { """⏎a⏎b⏎""" f: Int }` answers `tree-differs:DF-FL`; `09` and `2020` answer `ok`.) -/
theorem C13_description_newline_indent_counterexample :
    blockStringValue (descBody [10] [97, 10, 98]) = [97, 10, 10, 98] ∧
    blockStringValue (descBody [44] [101]) = [44, 101, 10, 44] := by decide

/-! ### loaded schemas: `FormatSchema` prints a document -/

/-- (1, raw) The text `FormatSchema` writes for a schema is, byte for byte, the text
    `FormatSchemaDocument` writes for the document `docOfSchemaRaw s`: the schema definition when the
    formatter decides to write one (the roots that are set, the schema directives), else one
    `extend schema @…` when there are schema directives, the directive definitions and the type
    definitions sorted by name.  Every configuration, every schema, no hypothesis. -/
theorem C13_schema_text_is_raw_document_text (cfg : Cfg) (s : Schema) :
    fmtSchema cfg s = fmtSchemaDoc cfg (docOfSchemaRaw s) := by
  unfold fmtSchema fmtSchemaDoc
  rw [formatSchema_eq_raw]

/-- (1) … and the text of `docOfSchema cfg s`, the same document without the fields the formatter
    hides (`__schema`, `__type`), provided no printed definition has ONLY hidden fields. -/
theorem C13_schema_text_is_document_text (cfg : Cfg) (s : Schema) (h : NoAllHidden cfg s) :
    fmtSchema cfg s = fmtSchemaDoc cfg (docOfSchema cfg s) := by
  unfold fmtSchema fmtSchemaDoc
  rw [formatSchema_eq_doc cfg s h]

/-- the text of a loaded schema lexes to the unparser's tokens of the (normalised) document -/
theorem C13_schema_format_tokens {cfg : Cfg} (hind : AllBlank cfg.indent) (s : Schema) (h : NoAllHidden cfg s)
    (hd : FormattableSchema (docOfSchema cfg s)) :
    tokensOf (fmtSchema cfg s) = some (printSchemaLongD descTok (normSchemaDoc cfg (docOfSchema cfg s))) := by
  rw [C13_schema_text_is_document_text cfg s h]
  exact C13_format_tokens hind _ hd

/-- (2) The text `FormatSchema` writes parses (as any source `src` with any `BuiltIn` flag `b`), and the
    parsed document is `docOfSchema cfg s`, normalised, up to positions. -/
theorem C13_schema_format_parses {cfg : Cfg} (hind : AllBlank cfg.indent) (s : Schema) (h : NoAllHidden cfg s)
    (hd : FormattableSchema (docOfSchema cfg s)) (hok : DocAll ItemOK (docOfSchema cfg s)) (src : Nat) (b : Bool) :
    ∃ d', parseSchemaSrc 0 src b (fmtSchema cfg s) = .ok d' ∧
      d'.erasePos = (setBuiltIn b (normSchemaDoc cfg (docOfSchema cfg s))).erasePos := by
  rw [C13_schema_text_is_document_text cfg s h]
  exact C13_format_roundtrip hind _ hd hok src b

/-! ### loaded schemas: format, load again -/

open Gql.Load in
/-- (3) **FORMAT ∘ LOAD ROUND TRIP FOR LOADED SCHEMAS.**  Let `s` be the schema the loader returns for
    `prelude ⊕ u` (`PreludeShape`, `UserShape`: what `ParseSchemas` gives for the built-in source and for
    user sources that do not extend a prelude type).  For every configuration without `WithBuiltin` whose
    indentation consists of spaces and tabs: the text `FormatSchema` writes parses (as a user source `src`),
    the loader accepts `prelude ⊕` the parsed document, and the schema it returns is `ReloadEquiv` to `s`:
    the same root operation types, name by name the same types, fields, arguments, default values,
    directives and descriptions (up to positions; a block-string VALUE comes back as a string value; with
    `WithoutDescription` the descriptions are dropped — `normDef cfg`), the same directive definitions, the
    same schema directives, the same possible types and implementers up to order.
    `Schema.Description` is not kept (`ReloadEquiv.description`, recorded finding).
    Hypotheses on `s` (each decidable, each shown necessary below or guaranteed for parsed sources):
    (`NoAllHidden` — no printed definition has only hidden fields — is no longer one: it holds of every
    loaded schema, `noAllHidden_of_loaded`, since the query root is an object type;
    `C13_schema_hidden_fields_rejected`); `FormattableSchema`, `ItemOK` of the
    printed document — names are names, … (what the lexer and parser guarantee); `RootsPrintable` — when no
    schema definition is printed the roots are the default-named types (always true when the schema
    definitions of the sources list an operation type, as the parser requires). -/
theorem C13_schema_reload {cfg : Cfg} (hind : AllBlank cfg.indent) (hb : cfg.emitBuiltin = false)
    (pre u : SchemaDoc) (s : Schema) (hpre : PreludeShape pre) (hu : UserShape pre u)
    (hload : load (pre.merge u) = .ok s) (hd : FormattableSchema (docOfSchema cfg s))
    (hok : DocAll ItemOK (docOfSchema cfg s)) (hrp : RootsPrintable s) (src : Nat) :
    ∃ P s', parseSchemaSrc 0 src false (fmtSchema cfg s) = .ok P ∧ load (pre.merge P) = .ok s' ∧ ReloadEquiv cfg s s' := by
  obtain ⟨P, hP1, hP2⟩ := C13_schema_format_parses hind s (noAllHidden_of_loaded cfg hload) hd hok src false
  obtain ⟨s', h1, h2⟩ := reload_main hb hpre hu hload (P := P) hP2 hrp
  exact ⟨P, s', hP1, h1, h2⟩

open Gql.Load in
/-- the model-level core of (3), without the parser: any document that is, up to positions, the printed
    one is accepted on top of the prelude and gives an equivalent schema -/
theorem C13_schema_reload_document {cfg : Cfg} (hb : cfg.emitBuiltin = false) (pre u P : SchemaDoc) (s : Schema)
    (hpre : PreludeShape pre) (hu : UserShape pre u) (hload : load (pre.merge u) = .ok s)
    (hP : P.erasePos = (setBuiltIn false (normSchemaDoc cfg (docOfSchema cfg s))).erasePos) (hrp : RootsPrintable s) :
    ∃ s', load (pre.merge P) = .ok s' ∧ ReloadEquiv cfg s s' :=
  reload_main hb hpre hu hload hP hrp

open Gql.Load in
/-- (3′) **the same with hypotheses about the SOURCES only.**  `s` is loaded from `prelude ⊕ u`; the merged
    source document is formattable and satisfies the side conditions of the grammar (`FormattableSchema`,
    `DocAll ItemOK`: both are what the lexer and the parser guarantee, cf. `C06_parse_printable`).
    (The former hypothesis `QueryRootHasFields` — the query root is an object, interface or input object
    type — is an invariant of `load` since the repair of the root kinds, `queryRootHasFields_of_loaded`.)
    Then the formatted text of `s` parses, loads on top of the prelude, and the result is `ReloadEquiv` to
    `s`.  The hypotheses about `s` of `C13_schema_reload` are derived: `docOfSchema_printable`,
    `rootsPrintable_of_loaded`. -/
theorem C13_schema_reload_of_sources {cfg : Cfg} (hind : AllBlank cfg.indent) (hb : cfg.emitBuiltin = false)
    (pre u : SchemaDoc) (s : Schema) (hpre : PreludeShape pre) (hu : UserShape pre u)
    (hload : load (pre.merge u) = .ok s) (hF : FormattableSchema (pre.merge u)) (hI : DocAll ItemOK (pre.merge u))
    (src : Nat) :
    ∃ P s', parseSchemaSrc 0 src false (fmtSchema cfg s) = .ok P ∧ load (pre.merge P) = .ok s' ∧ ReloadEquiv cfg s s' := by
  obtain ⟨hd, hok⟩ := docOfSchema_printable (cfg := cfg) hb hload hF hI
  have hs : SchemaDefsHaveRoots (pre.merge u) := by
    intro x hx
    obtain ⟨_, hne, hops⟩ := hI.1 x hx
    cases hl : x.opTypes with
    | nil => exact absurd hl hne
    | cons o rest =>
      refine ⟨o, by simp, ?_⟩
      have := hops o (by rw [hl]; simp)
      rcases this with h | h | h <;> rw [h] <;> decide
  exact C13_schema_reload hind hb pre u s hpre hu hload hd hok
    (rootsPrintable_of_loaded hload hs) src

open Gql.Load Gql.Format.Examples in
/-- non-vacuity of the reload theorem: `"d" schema { query: Q } type Q { f: Q }` (custom root name) satisfies the
    hypotheses of `C13_schema_reload_document` for the printed document itself -/
example : ∃ s', load (SchemaDoc.empty.merge (printed {} (loadD (SchemaDoc.empty.merge describedSchemaDoc)))) = .ok s' ∧
    ReloadEquiv {} (loadD (SchemaDoc.empty.merge describedSchemaDoc)) s' :=
  C13_schema_reload_document rfl SchemaDoc.empty describedSchemaDoc _ _ (by decide) (by decide)
    (loadD_ok (by decide)) rfl (by decide)

open Gql.Load Gql.Format.Examples in
/-- non-vacuity of (3′): `type Query { f: Query }` on the empty prelude satisfies every hypothesis -/
example : ∃ P s', parseSchemaSrc 0 1 false (fmtSchema {} (loadD (SchemaDoc.empty.merge plainQueryDoc))) = .ok P ∧
    load (SchemaDoc.empty.merge P) = .ok s' ∧ ReloadEquiv {} (loadD (SchemaDoc.empty.merge plainQueryDoc)) s' := by
  have hI : DocAll ItemOK (SchemaDoc.empty.merge plainQueryDoc) := by
    unfold DocAll
    refine ⟨?_, ?_, ?_, ?_, ?_⟩
    · intro x hx; cases hx
    · intro x hx; cases hx
    · intro x hx; cases hx
    · intro x hx
      simp only [SchemaDoc.merge, SchemaDoc.empty, plainQueryDoc, docOf, List.nil_append, List.mem_singleton] at hx
      subst hx
      refine ⟨cdirs_nil, rfl, rfl, ?_⟩
      intro f hf
      simp only [mkDef, List.mem_singleton] at hf
      subst hf
      refine ⟨?_, rfl, cdirs_nil⟩
      intro a ha
      simp [field] at ha
    · intro x hx; cases hx
  exact C13_schema_reload_of_sources (by intro b hb; simp at hb; subst hb; decide) rfl SchemaDoc.empty plainQueryDoc _
    (by decide) (by decide) (loadD_ok (by decide)) (by decide) hI 1

/-! ### the recorded exceptions, kernel-checked -/

/-- R13e (KNOWN FINDING `s:roundtrip-tree-differs/SCHEMA.description`): `FormatSchema` does not look at
    `Schema.Description` at all … -/
theorem C13_schema_description_not_printed (cfg : Cfg) (s : Schema) (d : Bytes) :
    fmtSchema cfg { s with description := d } = fmtSchema cfg s := rfl

open Gql.Load Gql.Format.Examples in
/-- … so `"d" schema { query: Q } type Q { f: Q }` loads with the description `d` and no schema loaded
    from its formatted text has it: `ReloadEquiv.description` cannot be `s'.description = s.description` -/
theorem C13_schema_description_counterexample :
    ∃ s, load (SchemaDoc.empty.merge describedSchemaDoc) = .ok s ∧ s.description = str "d" ∧
      ∀ cfg s', ReloadEquiv cfg s s' → s'.description ≠ s.description := by
  refine ⟨_, loadD_ok (by decide), by decide, ?_⟩
  intro cfg s' h
  rw [h.description]
  decide

open Gql.Load in
/-- a user definition (not flagged built in) whose name starts with `__` is never accepted -/
theorem load_rejects_user_dunder {sd : SchemaDoc} {d : Definition} (hd : d ∈ sd.definitions)
    (hbi : d.builtIn = false) (hname : hasDunder d.name = true) : ∀ s, load sd ≠ .ok s := by
  intro s h
  obtain ⟨st, r1, d1, F⟩ := loaded_facts h
  have hn := buildState_defs_nodup F.built
  have hfind := find?_key_of_mem Definition.name hn hd
  have hl := state_lookup F.built d.name
  rw [hfind] at hl
  simp only [mergedFrom] at hl
  have hD := F.defOK _ (mem_of_lookup hl)
  have hb2 : (List.foldl (fun d e => applyExt e d) d
      (List.filter (fun x => x.name == d.name) sd.extensions)).builtIn = false := by
    rw [foldl_applyExt_builtIn]; exact hbi
  have hk := F.typesInv.2 _ (mem_of_lookup hl)
  simp only at hk
  have := hD.defName hb2
  rw [hk, hname] at this
  cases this

open Gql.Load in
/-- KNOWN FINDING `s:builtin-output-not-reloadable/Name`: with `WithBuiltin` the printed document contains
    the types whose names start with `__` (every schema loaded with the real prelude has `__Schema`, …);
    read as a user source — alone or merged after any other document — it is rejected.  So the
    hypothesis `cfg.emitBuiltin = false` of `C13_schema_reload` cannot be dropped. -/
theorem C13_builtin_output_not_reloadable {cfg : Cfg} (hb : cfg.emitBuiltin = true) (s : Schema)
    (hs : ∃ p ∈ s.types, hasDunder p.2.name = true) (P : SchemaDoc)
    (hP : P.erasePos = (setBuiltIn false (normSchemaDoc cfg (docOfSchema cfg s))).erasePos) (other : SchemaDoc) :
    ∀ s', load (other.merge P) ≠ .ok s' := by
  obtain ⟨p, hp, hdun⟩ := hs
  have hmem : dropHidden cfg p.2 ∈ (sortedByKey s.types).map (dropHidden cfg) :=
    List.mem_map.mpr ⟨p.2, (mem_sortedByKey _ _).mpr ⟨p, hp, rfl⟩, rfl⟩
  have hdefs := congrArg SchemaDoc.definitions hP
  simp only [SchemaDoc.erasePos, setBuiltIn, normSchemaDoc, docOfSchema, List.map_map] at hdefs
  have hkeep : ((sortedByKey s.types).map (dropHidden cfg)).filter (keepDef cfg) = (sortedByKey s.types).map (dropHidden cfg) := by
    rw [List.filter_eq_self]; intro d _; simp [keepDef, hb]
  rw [hkeep] at hdefs
  obtain ⟨d', hd', e⟩ := exists_of_map_eq_right hdefs hmem
  have hn : d'.name = p.2.name := by
    have := congrArg Definition.name e
    simpa [Definition.erasePos, normDef, dropHidden] using this
  have hbi : d'.builtIn = false := by
    have := congrArg Definition.builtIn e
    simpa [Definition.erasePos, normDef, dropHidden] using this
  exact load_rejects_user_dunder (d := d') (by simp [SchemaDoc.merge, hd']) hbi (by rw [hn]; exact hdun)

/-! ### hypotheses of `C13_schema_reload` that cannot be dropped: kernel-checked witnesses -/

section Witnesses
open Gql.Load Gql.Format.Examples

/-- the schema `scalar Query` loaded to BEFORE the repair of the root kinds: the scalar is the query root
    and carries `__schema`, `__type` (a hand-built `Schema` value now; the loader rejects the source) -/
def C13_scalarQuerySchema : Schema :=
  { Schema.empty with query := some (str "Query"),
                      types := [(str "Query", addIntrospection (mkDef .scalar "Query" []))] }

theorem C13_scalarQuerySchema_raw :
    docOfSchemaRaw C13_scalarQuerySchema = docOf [addIntrospection (mkDef .scalar "Query" [])] := by
  have ht : C13_scalarQuerySchema.types = [(str "Query", addIntrospection (mkDef .scalar "Query" []))] := rfl
  have hd : C13_scalarQuerySchema.directives = [] := rfl
  have h1 : needSchema C13_scalarQuerySchema = false := by decide
  have h2 : C13_scalarQuerySchema.schemaDirectives = [] := rfl
  unfold docOfSchemaRaw
  rw [ht, hd, sortedByKey_single, h1, h2]
  simp [sortedByKey, docOf]

/-- REPAIRED (was the finding `C13_schema_hidden_fields_counterexample`, a consequence of the C07 finding
    `non-object-root-type`): `scalar Query` is REJECTED by the loader ("Schema root query must be an object
    type, Query is a SCALAR."), so no loaded schema has a definition whose fields are all hidden
    (`noAllHidden_of_loaded`).  For an arbitrary `Schema` VALUE the hypothesis `NoAllHidden` of
    `C13_schema_text_is_document_text` is still needed: on the schema the old loader returned, `FormatSchema`
    hides the introspection fields but writes the braces — `scalar Query {⏎}⏎`, not a type-system
    document — while the text of `docOfSchema` is `scalar Query⏎`. -/
theorem C13_schema_hidden_fields_rejected :
    (∃ e, load (SchemaDoc.empty.merge scalarQueryDoc) = .err e ∧
      e.msg = Msg.rootNotObject opQuery (str "Query") .scalar) ∧
    ¬ NoAllHidden {} C13_scalarQuerySchema ∧
    fmtSchema {} C13_scalarQuerySchema = str "scalar Query {\n}\n" ∧
    fmtSchemaDoc {} (docOfSchema {} C13_scalarQuerySchema) = str "scalar Query\n" := by
  refine ⟨?_, by decide, ?_, ?_⟩
  · have key : (match load (SchemaDoc.empty.merge scalarQueryDoc) with
        | .err e => decide (e.msg = Msg.rootNotObject opQuery (str "Query") .scalar)
        | _ => false) = true := by decide
    cases h : load (SchemaDoc.empty.merge scalarQueryDoc) with
    | err e => rw [h] at key; exact ⟨e, rfl, of_decide_eq_true key⟩
    | ok s => rw [h] at key; cases key
    | panic => rw [h] at key; cases key
  · rw [C13_schema_text_is_raw_document_text, C13_scalarQuerySchema_raw]
    decide
  · have ht : C13_scalarQuerySchema.types = [(str "Query", addIntrospection (mkDef .scalar "Query" []))] := rfl
    have : docOfSchema {} C13_scalarQuerySchema = docOf [mkDef .scalar "Query" []] := by
      unfold docOfSchema
      rw [C13_scalarQuerySchema_raw, ht, sortedByKey_single]
      rfl
    rw [this]
    decide

/-- prelude `type __T { a: __T }`, user source `extend type __T { b: __T }`, loaded -/
def C13_extendedBuiltinSchema : Schema := loadD (tinyPrelude.merge extendBuiltinDoc)

/-- FINDING (new): an extension of a BUILT-IN type is lost.  `FormatSchema` skips built-in types, so the
    fields (or directives) a user source adds to one are not printed, and the reloaded schema has the
    prelude's definition (Go: `type Query { a: Int } extend type __Type { extra: Int }` — `rts` answers
    `tree-differs:SCHEMA-DF`; likewise `extend scalar String @x`).  `UserShape.extNotBuiltin` excludes it. -/
theorem C13_schema_reload_needs_no_builtin_extension :
    PreludeShape tinyPrelude ∧ ¬ UserShape tinyPrelude extendBuiltinDoc ∧
    load (tinyPrelude.merge extendBuiltinDoc) = .ok C13_extendedBuiltinSchema ∧
    (C13_extendedBuiltinSchema.types.lookup (str "__T")).map (fun d => d.fields.map (·.name)) = some [str "a", str "b"] ∧
    ∃ s', load (tinyPrelude.merge (printed {} C13_extendedBuiltinSchema)) = .ok s' ∧
      (s'.types.lookup (str "__T")).map (fun d => d.fields.map (·.name)) = some [str "a"] := by
  have hp : printed {} C13_extendedBuiltinSchema = docOf [] := by
    have ht : C13_extendedBuiltinSchema.types =
        [(str "__T", mkDef .object "__T" [field "a" "__T", field "b" "__T"] true)] := rfl
    have hd : C13_extendedBuiltinSchema.directives = [] := rfl
    have h1 : needSchema C13_extendedBuiltinSchema = false := by decide
    have h2 : C13_extendedBuiltinSchema.schemaDirectives = [] := rfl
    unfold printed docOfSchema docOfSchemaRaw
    rw [ht, hd, sortedByKey_single, h1, h2]
    simp [sortedByKey, docOf, normSchemaDoc, setBuiltIn, mergeSchemaDefs, keepDef, dropHidden, mkDef]
  refine ⟨by decide, by decide, loadD_ok (by decide), by decide, ?_⟩
  rw [hp]
  exact ⟨_, loadD_ok (by decide), by decide⟩

/-- the configuration of the next witness: `WithoutDescription` -/
def C13_noDescCfg : Cfg := { omitDescription := true }

def C13_describedArgSchema : Schema := loadD (SchemaDoc.empty.merge describedArgDoc)
def C13_describedArgReloaded : Schema := loadD (SchemaDoc.empty.merge describedArgDocPrinted)

/-- KNOWN FINDING `s:not-a-fixpoint`: with `WithoutDescription` the comma after an argument that HAS a
    description is skipped although the description is not written.  `input In { x: In }
    directive @d("x" a: In  b: In) on FIELD` loads; its text is `directive @d(a: In b: In) on FIELD …`; the
    printed document loads (in accordance with `C13_schema_reload_document`) and the text of THAT schema is
    `directive @d(a: In, b: In) on FIELD …`: formatting the result again does not reproduce the text. -/
theorem C13_schema_not_a_fixpoint_counterexample :
    load (SchemaDoc.empty.merge describedArgDoc) = .ok C13_describedArgSchema ∧
    printed C13_noDescCfg C13_describedArgSchema = describedArgDocPrinted ∧
    load (SchemaDoc.empty.merge (printed C13_noDescCfg C13_describedArgSchema)) = .ok C13_describedArgReloaded ∧
    fmtSchema C13_noDescCfg C13_describedArgSchema = str "directive @d(a: In b: In) on FIELD\ninput In {\n\tx: In\n}\n" ∧
    fmtSchema C13_noDescCfg C13_describedArgReloaded = str "directive @d(a: In, b: In) on FIELD\ninput In {\n\tx: In\n}\n" := by
  have raw : ∀ (s : Schema) (dIn : Definition) (dd : DirectiveDef), s.types = [(str "In", dIn)] →
      s.directives = [(str "d", dd)] → needSchema s = false → s.schemaDirectives = [] →
      docOfSchemaRaw s = { docOf [dIn] with directives := [dd] } := by
    intro s dIn dd ht hd h1 h2
    unfold docOfSchemaRaw
    rw [ht, hd, sortedByKey_single, sortedByKey_single, h1, h2]
    simp [docOf]
  have r1 := raw C13_describedArgSchema _ _ rfl rfl (by decide) rfl
  have r2 := raw C13_describedArgReloaded _ _ rfl rfl (by decide) rfl
  have hp : printed C13_noDescCfg C13_describedArgSchema = describedArgDocPrinted := by
    have ht : C13_describedArgSchema.types = [(str "In", mkDef .inputObject "In" [field "x" "In"])] := rfl
    unfold printed docOfSchema
    rw [r1, ht, sortedByKey_single]
    rfl
  refine ⟨loadD_ok (by decide), hp, ?_, ?_, ?_⟩
  · rw [hp]; exact loadD_ok (by decide)
  · rw [C13_schema_text_is_raw_document_text, r1]; decide
  · rw [C13_schema_text_is_raw_document_text, r2]; decide

/-- `type Query { """a⏎b""" f: Query }`, loaded -/
def C13_describedFieldSchema : Schema := loadD (SchemaDoc.empty.merge describedFieldDoc)

/-- KNOWN FINDING (line-break indents): the hypothesis `AllBlank cfg.indent` cannot be widened to all white
    space.  With `WithIndent("\n")` the description `a⏎b` of a field is written with an empty line between
    its lines; the block string read back has the value `a⏎⏎b`. -/
theorem C13_schema_linebreak_indent_counterexample :
    load (SchemaDoc.empty.merge describedFieldDoc) = .ok C13_describedFieldSchema ∧
    fmtSchema { indent := [10] } C13_describedFieldSchema
      = str "type Query {\n\n\"\"\"\n\na\n\nb\n\n\"\"\"\n\nf: Query\n}\n" ∧
    blockStringValue (str "\n\na\n\nb\n\n") = [97, 10, 10, 98] := by
  refine ⟨loadD_ok (by decide), ?_, by decide⟩
  have ht : C13_describedFieldSchema.types =
      [(str "Query", addIntrospection (mkDef .object "Query" [field "f" "Query" [97, 10, 98]]))] := rfl
  have hd : C13_describedFieldSchema.directives = [] := rfl
  have h1 : needSchema C13_describedFieldSchema = false := by decide
  have h2 : C13_describedFieldSchema.schemaDirectives = [] := rfl
  have raw : docOfSchemaRaw C13_describedFieldSchema =
      docOf [addIntrospection (mkDef .object "Query" [field "f" "Query" [97, 10, 98]])] := by
    unfold docOfSchemaRaw
    rw [ht, hd, sortedByKey_single, h1, h2]
    simp [sortedByKey, docOf]
  rw [C13_schema_text_is_raw_document_text, raw]
  decide

end Witnesses

#print axioms C13_schema_text_is_raw_document_text
#print axioms C13_schema_text_is_document_text
#print axioms C13_schema_format_tokens
#print axioms C13_schema_format_parses
#print axioms C13_schema_reload
#print axioms C13_schema_reload_document
#print axioms C13_schema_reload_of_sources
#print axioms C13_schema_description_not_printed
#print axioms C13_schema_description_counterexample
#print axioms C13_builtin_output_not_reloadable
#print axioms C13_schema_hidden_fields_rejected
#print axioms C13_schema_reload_needs_no_builtin_extension
#print axioms C13_schema_not_a_fixpoint_counterexample
#print axioms C13_schema_linebreak_indent_counterexample

/- ======================= END TO END: over source texts ======================= -/

/-- `FormattableSchema` is an invariant of parser output: in every document the schema parser model
    returns (with or without token limit, any source index and `BuiltIn` flag) from a well-formed
    UTF-8 source, names are lexer Names, Int / Float raw texts are number lexemes of their kind,
    descriptions are well-formed UTF-8, every definition has only the parts of its kind, extensions
    carry no description, directive definitions have a location, and no field is hidden (every
    recorded position is on a line ≥ 1). -/
theorem C13_parsed_formattable (L src : Nat) (b : Bool) (inp : Bytes) (d : SchemaDoc) (hv : Utf8.valid inp)
    (hp : parseSchemaSrc L src b inp = .ok d) : FormattableSchema d :=
  Gql.EndToEnd.parsedSchema_formattable L src b inp d hv hp

/-- **C13 END TO END**: for every well-formed UTF-8 source text that the schema parser accepts (any
    limit `L`, as source `src0` with `BuiltIn` flag `b0`), the formatted text of the parsed document
    parses again (as any source `src` with any flag `b`), to the normalised document up to positions —
    for every configuration whose indentation consists of spaces and tabs.  No hypothesis on the
    document is left. -/
theorem C13_format_roundtrip_source {cfg : Cfg} (hind : AllBlank cfg.indent) (L src0 : Nat) (b0 : Bool) (inp : Bytes)
    (d : SchemaDoc) (hv : Utf8.valid inp) (hp : parseSchemaSrc L src0 b0 inp = .ok d) (src : Nat) (b : Bool) :
    ∃ d', parseSchemaSrc 0 src b (fmtSchemaDoc cfg d) = .ok d' ∧
      d'.erasePos = (setBuiltIn b (normSchemaDoc cfg d)).erasePos :=
  C13_format_roundtrip_parsed hind src0 b0 inp d (parseSchemaSrc_mono (stricter_zero L) src0 b0 inp d hp)
    (C13_parsed_formattable L src0 b0 inp d hv hp) src b

#print axioms C13_parsed_formattable
#print axioms C13_format_roundtrip_source
