import GqlModel.Format.Model
import GqlModel.Parser.Schema
import GqlProofs.Lexer.Progress
import GqlProofs.Format.Description
import GqlProofs.Format.BlockLex
import GqlProofs.Format.FmtSchemaTokens
import GqlProofs.Format.NormPreserveSchema
import GqlProofs.Props.C06
import GqlProofs.EndToEnd.ParsedSchemaShape
/-
  Property C13 — format ∘ load round trip for schemas.

  DESCRIPTIONS.  `WriteDescription` writes a description `d` as a block string whose raw text is
  `descBody ind (escapeTriple d)` (`C13_description_text`; `ind` = the current indentation) when
  `blockStringRepresentable d`, and as a quoted string otherwise (`C13_description_text_quoted`).
  * `C13_description_roundtrip`: for `BlockRepresentable d` and an indentation of spaces and tabs,
    `blockStringValue (descBody ind d) = d`; outside the class the value differs
    (`C13_description_leading_blank_counterexample`, `…_trailing_newline_…`, `…_indented_…`: R13b,
    the reason for the quoted fallback).
  * `C13_description_token`: the lexer model reads the block form — every `"""` escaped — back as
    ONE BlockString token with value `d` (well-formed UTF-8, indentation of spaces and tabs).
    `C13_description_lexes` is the older statement for texts without `"""`;
    `C13_description_triple_quote_counterexample` shows what happened without the escape (R13a).

  THE BRIDGE formatter text → tokens for type-system documents (`FormatSchemaDocument`), for every
  configuration whose indentation consists of spaces and tabs:
    `C13_format_tokens_description … _argument_definition_list … _field_definition … _field_list …
     _enum_value_list … _definition … _directive_definition … _schema_definitions … _schema_extensions`
  and the document theorem
    `C13_format_tokens : tokensOf (fmtSchemaDoc cfg d) = some (printSchemaLongD descTok (normSchemaDoc cfg d))`.
  `printSchemaLongD descTok` is the unparser of C06 with the five definition lists one after the
  other (the formatter's order) and each description as the token the formatter writes (BlockString
  when representable, else String).  `normSchemaDoc cfg` is what the formatter deliberately does
  not keep: block-string VALUES become string values; `WithoutDescription` drops descriptions;
  without `WithBuiltin` built-in definitions and directive definitions of source 0 are skipped;
  all `schema { … }` definitions are MERGED into one, likewise all `extend schema`.

  THE ROUND TRIP with C06's parse ∘ print theorem (`C06_parse_print_items`):
    `C13_format_roundtrip : parseSchemaSrc 0 src b (fmtSchemaDoc cfg d) = .ok d' ∧
        d'.erasePos = (setBuiltIn b (normSchemaDoc cfg d)).erasePos`
    `C13_format_roundtrip_parsed`: the same for every document the parser returned.

  END TO END, over source texts (`EndToEnd/ParsedSchemaShape.lean`: one traversal of the schema parser
  model over the tokens of the lexer model):
    `C13_parsed_formattable`: every document the schema parser returns (any limit, source index,
        `BuiltIn` flag) from a well-formed UTF-8 source is `FormattableSchema`;
    `C13_format_roundtrip_source`: so for every well-formed UTF-8 source text the parser accepts, the
        formatted text of the parsed document parses again to the normalised document up to
        positions — no hypothesis on the document is left.
    The hypothesis "well-formed UTF-8" is needed: the parser accepts the description `"\xFF"` (Lean
    driver: `ps -1 22ff22207363616c61722053` answers a scalar `S` with description `xff`), and
    `FormattableSchema` asks descriptions to be well-formed UTF-8 (`strRaw`).

  NOT proved (kept so that nothing is weakened silently):
    theorem C13_doc_fixpoint … : fmtSchemaDoc cfg d' = fmtSchemaDoc cfg d
      — false as stated: with `WithoutDescription` the comma after an argument that has a description
        is skipped (KNOWN FINDING sd:not-a-fixpoint); moreover the formatter looks at positions
        (`fieldSuppressed`: line 0; built-in source 0), so it is not invariant under `erasePos`.
    theorem C13_schema_roundtrip … : load (fmtSchema cfg s) = ok s' ∧ s' ≃ s   (loaded schemas:
      `FormatSchema`; needs the loader model; R13e: `Schema.Description` is never printed)
-/
open Gql Gql.Lexer Gql.Format Gql.Grammar Gql.Print Gql.Parser

/-- What `writeDescription` writes for a non-empty description that a block string can represent
    (`blockStringRepresentable`, the test the repaired formatter makes): the separator that any
    `WriteString` would put first, `"""`, the body with every `"""` escaped, `"""`, a newline. -/
theorem C13_description_text (cfg : Cfg) (d : Bytes) (w : W) (hd : d ≠ []) (ho : cfg.omitDescription = false)
    (hrep : blockStringRepresentable d = true) :
    (writeDescription cfg d w).text =
      w.text ++ lead cfg w ++ tripleQuote ++ descBody (repeatBytes cfg.indent w.indentSize) (escapeTriple d)
        ++ tripleQuote ++ [10] :=
  writeDescription_text cfg d w hd ho hrep

/-- Every other description is written as a quoted string with the GraphQL escapes
    (read back byte for byte by `C12_quote_is_string_token`). -/
theorem C13_description_text_quoted (cfg : Cfg) (d : Bytes) (w : W) (hd : d ≠ []) (ho : cfg.omitDescription = false)
    (hrep : blockStringRepresentable d = false) :
    (writeDescription cfg d w).text = w.text ++ lead cfg w ++ gqlQuote d ++ [10] :=
  writeDescription_text_quoted cfg d w hd ho hrep

/-- The block-string value of the rendered description is the description, for every description
    of the representable class and every indentation made of blanks. -/
theorem C13_description_roundtrip (ind d : Bytes) (hi : AllBlank ind) (hd : BlockRepresentable d) :
    blockStringValue (descBody ind d) = d :=
  blockStringValue_descBody ind d hi hd

/-- Lexing the rendered description with the lexer model yields one BlockString token whose value
    is the description: the raw body must be block-safe text (`blockSafe`, see the file header)
    and the description representable.  `R` is whatever follows the closing quotes (the formatter
    writes a newline there). -/
theorem C13_description_lexes (ind d : Bytes) (hi : AllBlank ind) (hd : BlockRepresentable d)
    (cps : List Nat) (hcps : descBody ind d = utf8Encode cps) (hsafe : blockSafe cps = true)
    (R : Bytes) (hR : R.head? ≠ some 34) (c : Cur) :
    ∃ t c', readToken (tripleQuote ++ descBody ind d ++ tripleQuote ++ R) c = .tok t R c' ∧
      t.kind = .blockString ∧ t.value = d := by
  obtain ⟨t, c', h1, h2, h3⟩ := rbl_blockSafe c R hR cps hsafe (c.adv 3 3) []
  refine ⟨t, c', ?_, h2, ?_⟩
  · have e : tripleQuote ++ descBody ind d ++ tripleQuote ++ R
        = 34 :: 34 :: 34 :: (utf8Encode cps ++ 34 :: 34 :: 34 :: R) := by
      simp [tripleQuote, hcps]
    rw [e]
    unfold readToken
    have hws : ws (34 :: 34 :: 34 :: (utf8Encode cps ++ 34 :: 34 :: 34 :: R)) c
        = (34 :: 34 :: 34 :: (utf8Encode cps ++ 34 :: 34 :: 34 :: R), c) := by
      rw [ws.eq_def]; simp
    rw [hws]
    simp [readTokenBody, Gql.Lexer.punct_quote, isNameStart, isDigit]
    exact h1
  · rw [h3, List.reverse_nil, List.nil_append, ← hcps]
    exact blockStringValue_descBody ind d hi hd

/- ---------- outside the class (findings R13a, R13b) ---------- -/

/-- R13b: a description with a leading blank (`"  lead"`) comes back without it. -/
theorem C13_description_leading_blank_counterexample :
    ¬ (∀ ind d : Bytes, AllBlank ind → d ≠ [] → blockStringValue (descBody ind d) = d) := by
  intro h
  have := h [] [32, 32, 108] (by intro b hb; simp at hb) (by simp)
  revert this; decide

/-- R13b: a trailing newline is lost. -/
theorem C13_description_trailing_newline_counterexample :
    ¬ (∀ ind d : Bytes, AllBlank ind → d ≠ [] → blockStringValue (descBody ind d) = d) := by
  intro h
  have := h [9] [120, 10] (by intro b hb; simp at hb; subst hb; decide) (by simp)
  revert this; decide

/-- R13b: common indentation of the lines is removed (`" a\n b"` comes back as `"a\nb"`). -/
theorem C13_description_indented_counterexample :
    ¬ (∀ ind d : Bytes, AllBlank ind → d ≠ [] → blockStringValue (descBody ind d) = d) := by
  intro h
  have := h [] [32, 97, 10, 32, 98] (by intro b hb; simp at hb) (by simp)
  revert this; decide

/-- R13a: a description containing `"""` is not read back as one token followed by the rest:
    for `d = """` the first token ends at the quotes of the description. -/
theorem C13_description_triple_quote_counterexample :
    ¬ (∀ (d : Bytes), d ≠ [] → ∃ t c',
        readToken (tripleQuote ++ descBody [] d ++ tripleQuote ++ [10]) Cur.init = .tok t [10] c' ∧
        t.value = d) := by
  intro h
  obtain ⟨t, c', h1, _⟩ := h [34, 34, 34] (by simp)
  have e : tripleQuote ++ descBody [] [34, 34, 34] ++ tripleQuote ++ [10]
      = [34, 34, 34, 10, 34, 34, 34, 10, 34, 34, 34, 10] := by decide
  rw [e] at h1
  simp [readToken, readTokenBody, Gql.Lexer.punct_quote, ws, isNameStart, isDigit, readBlockLoop.eq_def, quoteRun, encodeRune] at h1

/-- non-vacuity: an indented, multi-line description with quotes and a backslash is in both
    classes (for a two-space indentation). -/
example : BlockRepresentable [97, 34, 10, 32, 32, 98, 92, 10, 10, 99] := by decide
example : blockSafe ([10, 32, 32] ++ [97, 34, 10, 32, 32] ++ [32, 32, 98, 92, 10, 32, 32, 10, 32, 32, 99, 10, 32, 32]) = true := by decide
example : descBody [32, 32] [97, 34, 10, 32, 32, 98, 92, 10, 10, 99]
    = utf8Encode ([10, 32, 32] ++ [97, 34, 10, 32, 32] ++ [32, 32, 98, 92, 10, 32, 32, 10, 32, 32, 99, 10, 32, 32]) := by decide

/-! ### the description token, with `"""` inside -/

/-- The lexer model reads what `WriteDescription` writes in block form — `"""`, the indented lines
    with every `"""` escaped, `"""` — as ONE BlockString token whose value is the description,
    whatever separator or punctuator follows (the formatter writes a newline). -/
theorem C13_description_token (ind s : Bytes) (hi : AllBlank ind) (hv : strRaw s = true)
    (hrep : blockStringRepresentable s = true) (post : Bytes) (hpost : Follow true post) (c : Cur) :
    ∃ t c', readToken (tripleQuote ++ descBody ind (escapeTriple s) ++ tripleQuote ++ post) c = .tok t post c' ∧
      Tok.ofToken t = { kind := .blockString, value := s } := by
  obtain ⟨t, c', h1, h2, _⟩ := tokText_blockDescription ind s hi hv hrep post hpost c
  exact ⟨t, c', h1, h2⟩

/-- non-vacuity: a description with `"""` and a backslash in front of quotes -/
example : blockStringRepresentable [97, 34, 34, 34, 34, 10, 92, 34, 34, 34, 98] = true := by decide
example : strRaw [97, 34, 34, 34, 34, 10, 92, 34, 34, 34, 98] = true := by decide

/-! ### the bridge: formatter text → tokens -/

section Bridge
variable {cfg : Cfg} (hind : AllBlank cfg.indent)
include hind

theorem C13_format_tokens_description {w : W} {ts : List Tok} (s : Bytes) (h : I false w ts) (hs : strRaw s = true) :
    I false (writeDescription cfg s w) (ts ++ descTok (normDesc cfg s)) := T_description hind s h hs

theorem C13_format_tokens_argument_definition_list {g : Bool} {w : W} {ts : List Tok} (ds : List ArgDef)
    (h : I g w ts) (hd : ds.all argDefOk = true) :
    I g (formatArgumentDefinitionList cfg ds w) (ts ++ printArgDefsD descTok (ds.map (normArgDef cfg))) :=
  T_argDefList hind ds h hd

theorem C13_format_tokens_field_definition {w : W} {ts : List Tok} (f : FieldDef) (h : LexTo w.text ts false)
    (hf : fieldDefOk f = true) :
    LexTo (formatFieldDefinition cfg f w).text (ts ++ genFieldD descTok (normFieldDef cfg f)) false :=
  T_fieldDef hind f h hf

theorem C13_format_tokens_field_list {g : Bool} {w : W} {ts : List Tok} (fs : List FieldDef) (h : I g w ts)
    (hf : fs.all fieldDefOk = true) :
    I g (formatFieldList cfg fs w) (ts ++ printBlock (genFieldD descTok) (fs.map (normFieldDef cfg))) :=
  T_fieldList hind fs h hf

theorem C13_format_tokens_enum_value_list {g : Bool} {w : W} {ts : List Tok} (es : List EnumValDef) (h : I g w ts)
    (he : es.all enumValOk = true) :
    I g (formatEnumValueList cfg es w) (ts ++ printBlock (printEnumValD descTok) (es.map (normEnumVal cfg))) :=
  T_enumValueList hind es h he

/-- `FormatDefinition` (type definition): nothing for a skipped built-in, else the unparse -/
theorem C13_format_tokens_definition {w : W} {ts : List Tok} (d : Definition) (h : LexTo w.text ts false)
    (hd : defOk d = true) :
    LexTo (formatDefinition cfg false d w).text
      (ts ++ (if keepDef cfg d = true then printDefinitionD descTok (normDef cfg d) else [])) false := by
  have hsh : shapeOk d = true := by
    have := hd; simp only [defOk, Bool.and_eq_true] at this; exact this.2
  have := T_definition hind false d h hd (by simp)
  simpa [printDefinitionD, genDefBody_eq cfg d hsh, normDef_desc, normDef_kind] using this

/-- `FormatDefinition` (type extension) -/
theorem C13_format_tokens_extension {w : W} {ts : List Tok} (d : Definition) (h : LexTo w.text ts false)
    (hd : extOk d = true) :
    LexTo (formatDefinition cfg true d w).text
      (ts ++ (if keepDef cfg d = true then printExtensionD descTok (normDef cfg d) else [])) false := by
  simp only [extOk, Bool.and_eq_true, List.isEmpty_iff] at hd
  have hsh : shapeOk d = true := by
    have := hd.1; simp only [defOk, Bool.and_eq_true] at this; exact this.2
  have := T_definition hind true d h hd.1 (fun _ => hd.2)
  simpa [printExtensionD, genDefBody_eq cfg d hsh, normDef_kind] using this

theorem C13_format_tokens_directive_definition {w : W} {ts : List Tok} (d : DirectiveDef) (h : LexTo w.text ts false)
    (hd : dirDefOk d = true) :
    LexTo (formatDirectiveDefinition cfg srcZeroBuiltIn d w).text
      (ts ++ (if keepDirectiveDef cfg d = true then printDirectiveDefD descTok (normDirectiveDef cfg d) else []))
      false := T_directiveDef hind d h hd

theorem C13_format_tokens_schema_definitions {w : W} {ts : List Tok} (ds : List SchemaDef) (h : LexTo w.text ts false)
    (hd : ds.all schemaDefOk = true) :
    LexTo (formatSchemaDefinitionList cfg false ds w).text
      (ts ++ ((mergeSchemaDefs cfg ds).map (printSchemaDefD descTok)).flatten) false := T_schemaDefs hind ds h hd

theorem C13_format_tokens_schema_extensions {w : W} {ts : List Tok} (ds : List SchemaDef) (h : LexTo w.text ts false)
    (hd : ds.all schemaExtOk = true) :
    LexTo (formatSchemaDefinitionList cfg true ds w).text
      (ts ++ ((mergeSchemaDefs cfg ds).map printSchemaExt).flatten) false := T_schemaExts hind ds h hd

/-- THE BRIDGE for type-system documents: the text `FormatSchemaDocument` writes lexes (comments and
    EOF aside) to exactly the tokens of the normalised document, the five lists one after the
    other, each description as the token the formatter chose. -/
theorem C13_format_tokens (d : SchemaDoc) (hd : FormattableSchema d) :
    tokensOf (fmtSchemaDoc cfg d) = some (printSchemaLongD descTok (normSchemaDoc cfg d)) :=
  tokensOf_fmtSchemaDoc hind d hd

/-- THE ROUND TRIP: the formatted text of a formattable, printable type-system document parses (as
    any source `src` with any `BuiltIn` flag `b`), and the result is the normalised document up to
    positions. -/
theorem C13_format_roundtrip (d : SchemaDoc) (hd : FormattableSchema d) (hok : DocAll ItemOK d)
    (src : Nat) (b : Bool) :
    ∃ d', parseSchemaSrc 0 src b (fmtSchemaDoc cfg d) = .ok d' ∧
      d'.erasePos = (setBuiltIn b (normSchemaDoc cfg d)).erasePos := by
  have htok := C13_format_tokens hind d hd
  rw [printSchemaLongD_items] at htok
  obtain ⟨d', h1, h2⟩ := C06_parse_print_items descKind_ok (itemsOf (normSchemaDoc cfg d))
    (itemOK_norm cfg d hok) src b (fmtSchemaDoc cfg d) htok
  refine ⟨d', h1, ?_⟩
  rw [h2]
  have : (itemsOf (normSchemaDoc cfg d)).foldl SchemaDoc.add SchemaDoc.empty = normSchemaDoc cfg d := by
    rw [foldl_add_lists]
    simp [itemsOf, SchemaDoc.empty, List.filterMap_append, List.filterMap_map, Function.comp_def, getSchema,
      getSchemaExt, getDirective, getDefinition, getExtension, filterMap_none']
  rw [this]

/-- the round trip for every document the parser returned -/
theorem C13_format_roundtrip_parsed (src0 : Nat) (b0 : Bool) (inp : Bytes) (d : SchemaDoc)
    (hp : parseSchemaSrc 0 src0 b0 inp = .ok d) (hd : FormattableSchema d) (src : Nat) (b : Bool) :
    ∃ d', parseSchemaSrc 0 src b (fmtSchemaDoc cfg d) = .ok d' ∧
      d'.erasePos = (setBuiltIn b (normSchemaDoc cfg d)).erasePos :=
  C13_format_roundtrip hind d hd (C06_parse_printable src0 b0 inp d hp).1 src b

end Bridge

/-- non-vacuity of `FormattableSchema`: a schema definition, a directive definition with a described
    argument, an object type with a field with arguments, an enum with a described value, a union,
    an input object with a default value, an extension -/
def C13_sampleDoc : SchemaDoc :=
  { schema := [{ desc := [], dirs := [], opTypes := [{ op := str "query", type := str "Q", pos := Pos.zero }], pos := Pos.zero }],
    schemaExt := [],
    directives := [{ desc := str "a \"\"\" b", name := str "d",
                     args := [{ desc := str "x", name := str "a", default := none, type := .named (str "Int") false Pos.zero,
                                dirs := [], pos := Pos.zero }],
                     locations := [str "FIELD", str "QUERY"], repeatable := true, pos := { Pos.zero with src := 1 } }],
    definitions :=
      [{ kind := .object, desc := str "  indented", name := str "Q", dirs := [], interfaces := [str "I", str "J"],
         fields := [{ desc := [], name := str "f",
                      args := [{ desc := [], name := str "a", default := some (.mk .int (str "1") .nil Pos.zero),
                                 type := .named (str "Int") true Pos.zero, dirs := [], pos := Pos.zero }],
                      default := none, type := .list (.named (str "E") false Pos.zero) true Pos.zero, dirs := [],
                      pos := { Pos.zero with line := 3 } }],
         types := [], enumValues := [], pos := Pos.zero, builtIn := false },
       { kind := .enum, desc := [], name := str "E", dirs := [], interfaces := [], fields := [], types := [],
         enumValues := [{ desc := str "v", name := str "A", dirs := [], pos := Pos.zero }], pos := Pos.zero, builtIn := false },
       { kind := .union, desc := [], name := str "U", dirs := [], interfaces := [], fields := [], types := [str "Q", str "R"],
         enumValues := [], pos := Pos.zero, builtIn := false },
       { kind := .inputObject, desc := [], name := str "In", dirs := [], interfaces := [],
         fields := [{ desc := [], name := str "x", args := [], default := some (.mk .block (str "b") .nil Pos.zero),
                      type := .named (str "String") false Pos.zero, dirs := [], pos := { Pos.zero with line := 9 } }],
         types := [], enumValues := [], pos := Pos.zero, builtIn := false }],
    extensions :=
      [{ kind := .scalar, desc := [], name := str "S", dirs := [{ name := str "d", args := [], pos := Pos.zero }],
         interfaces := [], fields := [], types := [], enumValues := [], pos := Pos.zero, builtIn := false }] }

example : FormattableSchema C13_sampleDoc := by decide

/-- FINDING (pathological configuration): the hypothesis "indentation of spaces and tabs" cannot be
    widened to all white space.  With `WithIndent("\n")` (or `"\r"`) an indented two-line description
    `a⏎b` is written with an empty line between its lines and comes back as `a⏎⏎b`; with
    `WithIndent(",")` the comma becomes part of the description.  (Go: `rtsd 0a,0,0,0` on
    `type T { """⏎a⏎b⏎""" f: Int }` answers `tree-differs:DF-FL`; `09` and `2020` answer `ok`.) -/
theorem C13_description_newline_indent_counterexample :
    blockStringValue (descBody [10] [97, 10, 98]) = [97, 10, 10, 98] ∧
    blockStringValue (descBody [44] [101]) = [44, 101, 10, 44] := by decide


/- ======================= END TO END: over source texts ======================= -/

/-- `FormattableSchema` is an invariant of parser output: in every document the schema parser model
    returns (with or without token limit, any source index and `BuiltIn` flag) from a well-formed
    UTF-8 source, names are lexer Names, Int / Float raw texts are number lexemes of their kind,
    descriptions are well-formed UTF-8, every definition has only the parts of its kind, extensions
    carry no description, directive definitions have a location, and no field is hidden (every
    recorded position is on a line ≥ 1). -/
theorem C13_parsed_formattable (L src : Nat) (b : Bool) (inp : Bytes) (d : SchemaDoc) (hv : Utf8.valid inp)
    (hp : parseSchemaSrc L src b inp = .ok d) : FormattableSchema d :=
  Gql.EndToEnd.parsedSchema_formattable L src b inp d hv hp

/-- **C13 END TO END**: for every well-formed UTF-8 source text that the schema parser accepts (any
    limit `L`, as source `src0` with `BuiltIn` flag `b0`), the formatted text of the parsed document
    parses again (as any source `src` with any flag `b`), to the normalised document up to positions —
    for every configuration whose indentation consists of spaces and tabs.  No hypothesis on the
    document is left. -/
theorem C13_format_roundtrip_source {cfg : Cfg} (hind : AllBlank cfg.indent) (L src0 : Nat) (b0 : Bool) (inp : Bytes)
    (d : SchemaDoc) (hv : Utf8.valid inp) (hp : parseSchemaSrc L src0 b0 inp = .ok d) (src : Nat) (b : Bool) :
    ∃ d', parseSchemaSrc 0 src b (fmtSchemaDoc cfg d) = .ok d' ∧
      d'.erasePos = (setBuiltIn b (normSchemaDoc cfg d)).erasePos :=
  C13_format_roundtrip_parsed hind src0 b0 inp d (parseSchemaSrc_mono (stricter_zero L) src0 b0 inp d hp)
    (C13_parsed_formattable L src0 b0 inp d hv hp) src b

#print axioms C13_parsed_formattable
#print axioms C13_format_roundtrip_source
