import GqlModel.Format.Model
import GqlProofs.Lexer.Progress
import GqlProofs.Format.Description
import GqlProofs.Format.BlockLex
/-
  Property C13 — format ∘ load round trip for schemas.  Proved here: the description part.

  `WriteDescription` writes a description `d` as a block string whose raw text is
  `descBody ind d` (`C13_description_text`; `ind` = the current indentation).  Reading it back
  gives `d` again exactly under two independent conditions:

  (1) `BlockRepresentable d` (`C13_description_roundtrip`): the first and the last line of `d`
      are not blank and some non-blank line is not indented.  Then — for every indentation made
      of spaces and tabs — `blockStringValue (descBody ind d) = d`.  Outside the class the value
      differs (`C13_description_leading_blank_counterexample`, `…_trailing_newline_…`,
      `…_indented_…`): finding R13b.
  (2) the lexer must get through the raw text unchanged (`C13_description_lexes`): the text is
      well-formed UTF-8 without `"""`, without CR and without control characters other than TAB
      and LF (`blockSafe`).  A `"""` inside the description ends the block string early
      (`C13_description_triple_quote_counterexample`): finding R13a.

  Full-strength statements not reached (need the parser and loader models of the other layers):

    theorem C13_doc_roundtrip … : parseSchema (fmtSchemaDoc cfg d) = ok d' ∧ d' ≃ d
    theorem C13_schema_roundtrip … : load (fmtSchema cfg s) = ok s' ∧ s' ≃ s
    theorem C13_fixpoint … : fmtSchemaDoc cfg d' = fmtSchemaDoc cfg d
    theorem C13_roots_preserved … (false on the unchanged tree: R13c and the dropped default-named roots)
-/
open Gql Gql.Lexer Gql.Format

/-- What `writeDescription` writes for a non-empty description that a block string can represent
    (`blockStringRepresentable`, the test the repaired formatter makes): the separator that any
    `WriteString` would put first, `"""`, the body with every `"""` escaped, `"""`, a newline. -/
theorem C13_description_text (cfg : Cfg) (d : Bytes) (w : W) (hd : d ≠ []) (ho : cfg.omitDescription = false)
    (hrep : blockStringRepresentable d = true) :
    (writeDescription cfg d w).text =
      w.text ++ lead cfg w ++ tripleQuote ++ descBody (repeatBytes cfg.indent w.indentSize) (escapeTriple d)
        ++ tripleQuote ++ [10] :=
  writeDescription_text cfg d w hd ho hrep

/-- Every other description is written as a quoted string with the GraphQL escapes
    (read back byte for byte by `C12_quote_is_string_token`). -/
theorem C13_description_text_quoted (cfg : Cfg) (d : Bytes) (w : W) (hd : d ≠ []) (ho : cfg.omitDescription = false)
    (hrep : blockStringRepresentable d = false) :
    (writeDescription cfg d w).text = w.text ++ lead cfg w ++ gqlQuote d ++ [10] :=
  writeDescription_text_quoted cfg d w hd ho hrep

/-- The block-string value of the rendered description is the description, for every description
    of the representable class and every indentation made of blanks. -/
theorem C13_description_roundtrip (ind d : Bytes) (hi : AllBlank ind) (hd : BlockRepresentable d) :
    blockStringValue (descBody ind d) = d :=
  blockStringValue_descBody ind d hi hd

/-- Lexing the rendered description with the lexer model yields one BlockString token whose value
    is the description: the raw body must be block-safe text (`blockSafe`, see the file header)
    and the description representable.  `R` is whatever follows the closing quotes (the formatter
    writes a newline there). -/
theorem C13_description_lexes (ind d : Bytes) (hi : AllBlank ind) (hd : BlockRepresentable d)
    (cps : List Nat) (hcps : descBody ind d = utf8Encode cps) (hsafe : blockSafe cps = true)
    (R : Bytes) (hR : R.head? ≠ some 34) (c : Cur) :
    ∃ t c', readToken (tripleQuote ++ descBody ind d ++ tripleQuote ++ R) c = .tok t R c' ∧
      t.kind = .blockString ∧ t.value = d := by
  obtain ⟨t, c', h1, h2, h3⟩ := rbl_blockSafe c R hR cps hsafe (c.adv 3 3) []
  refine ⟨t, c', ?_, h2, ?_⟩
  · have e : tripleQuote ++ descBody ind d ++ tripleQuote ++ R
        = 34 :: 34 :: 34 :: (utf8Encode cps ++ 34 :: 34 :: 34 :: R) := by
      simp [tripleQuote, hcps]
    rw [e]
    unfold readToken
    have hws : ws (34 :: 34 :: 34 :: (utf8Encode cps ++ 34 :: 34 :: 34 :: R)) c
        = (34 :: 34 :: 34 :: (utf8Encode cps ++ 34 :: 34 :: 34 :: R), c) := by
      rw [ws.eq_def]; simp
    rw [hws]
    simp [readTokenBody, Gql.Lexer.punct_quote, isNameStart, isDigit]
    exact h1
  · rw [h3, List.reverse_nil, List.nil_append, ← hcps]
    exact blockStringValue_descBody ind d hi hd

/- ---------- outside the class (findings R13a, R13b) ---------- -/

/-- R13b: a description with a leading blank (`"  lead"`) comes back without it. -/
theorem C13_description_leading_blank_counterexample :
    ¬ (∀ ind d : Bytes, AllBlank ind → d ≠ [] → blockStringValue (descBody ind d) = d) := by
  intro h
  have := h [] [32, 32, 108] (by intro b hb; simp at hb) (by simp)
  revert this; decide

/-- R13b: a trailing newline is lost. -/
theorem C13_description_trailing_newline_counterexample :
    ¬ (∀ ind d : Bytes, AllBlank ind → d ≠ [] → blockStringValue (descBody ind d) = d) := by
  intro h
  have := h [9] [120, 10] (by intro b hb; simp at hb; subst hb; decide) (by simp)
  revert this; decide

/-- R13b: common indentation of the lines is removed (`" a\n b"` comes back as `"a\nb"`). -/
theorem C13_description_indented_counterexample :
    ¬ (∀ ind d : Bytes, AllBlank ind → d ≠ [] → blockStringValue (descBody ind d) = d) := by
  intro h
  have := h [] [32, 97, 10, 32, 98] (by intro b hb; simp at hb) (by simp)
  revert this; decide

/-- R13a: a description containing `"""` is not read back as one token followed by the rest:
    for `d = """` the first token ends at the quotes of the description. -/
theorem C13_description_triple_quote_counterexample :
    ¬ (∀ (d : Bytes), d ≠ [] → ∃ t c',
        readToken (tripleQuote ++ descBody [] d ++ tripleQuote ++ [10]) Cur.init = .tok t [10] c' ∧
        t.value = d) := by
  intro h
  obtain ⟨t, c', h1, _⟩ := h [34, 34, 34] (by simp)
  have e : tripleQuote ++ descBody [] [34, 34, 34] ++ tripleQuote ++ [10]
      = [34, 34, 34, 10, 34, 34, 34, 10, 34, 34, 34, 10] := by decide
  rw [e] at h1
  simp [readToken, readTokenBody, Gql.Lexer.punct_quote, ws, isNameStart, isDigit, readBlockLoop.eq_def, quoteRun, encodeRune] at h1

/-- non-vacuity: an indented, multi-line description with quotes and a backslash is in both
    classes (for a two-space indentation). -/
example : BlockRepresentable [97, 34, 10, 32, 32, 98, 92, 10, 10, 99] := by decide
example : blockSafe ([10, 32, 32] ++ [97, 34, 10, 32, 32] ++ [32, 32, 98, 92, 10, 32, 32, 10, 32, 32, 99, 10, 32, 32]) = true := by decide
example : descBody [32, 32] [97, 34, 10, 32, 32, 98, 92, 10, 10, 99]
    = utf8Encode ([10, 32, 32] ++ [97, 34, 10, 32, 32] ++ [32, 32, 98, 92, 10, 32, 32, 10, 32, 32, 99, 10, 32, 32]) := by decide
