import GqlProofs.Gen.Accounted
import GqlProofs.Validate.Compose
import GqlProofs.Validate.WalkTerm
/-
  C18 — rule sets compose.

  `validate rules s d` is the model of `validator.Validate(schema, doc, rules...)` that the driver
  runs (`GqlModel/Validate/Engine.lean`); errors are tagged with the rule name by the engine.
-/
open Gql Gql.Validate Gql.Validate.Rules

/-- Composition: for a rule list with pairwise distinct names, filtering the errors of the whole
    list by the name of a member gives exactly the errors of that member run alone (same order,
    same multiplicity, same messages and locations). -/
theorem C18_union (rs : List Rule) (s : Schema) (d : QueryDoc) (errs : List Err)
    (hdistinct : (rs.map (·.name)).Nodup) (h : validate rs s d = .ok errs) (r : Rule) (hr : r ∈ rs) :
    validate [r] s d = .ok (errs.filter fun x => decide (x.rule = r.name)) := by
  unfold validate at *
  obtain ⟨evs, hw, hrun⟩ := validateV_ok_iff.1 h
  apply validateV_ok_iff.2
  refine ⟨evs, hw, ?_⟩
  have := runAll_filter hrun (by rw [rnames_start]; exact hdistinct) (Rule.start r) (List.mem_map.2 ⟨r, hr, rfl⟩)
  exact this

/-- every error of a run is tagged with the name of one of the rules that ran -/
theorem C18_errors_tagged (rs : List Rule) (s : Schema) (d : QueryDoc) (errs : List Err)
    (h : validate rs s d = .ok errs) : ∀ x ∈ errs, x.rule ∈ rs.map (·.name) := by
  unfold validate at h
  obtain ⟨evs, _, hrun⟩ := validateV_ok_iff.1 h
  intro x hx
  have := runAll_rule_mem hrun x hx
  rwa [rnames_start] at this

/-- conversely, a rule list returns normally as soon as every member does when run alone (a
    panic of the whole is the panic of some member) -/
theorem C18_ok_of_members (rs : List Rule) (s : Schema) (d : QueryDoc)
    (h : ∀ r ∈ rs, ∃ e, validate [r] s d = .ok e) : ∃ errs, validate rs s d = .ok errs := by
  unfold validate at *
  cases hw : walkDoc s.view d with
  | none =>
    obtain ⟨evs, he⟩ := walkDoc_isSome s.view d
    rw [hw] at he
    cases he
  | some evs =>
    have hs : ∀ q ∈ rs.map Rule.start, ∃ x, runAll s.view d [q] evs = .ok x := by
      intro q hq
      obtain ⟨r, hr, rfl⟩ := List.mem_map.1 hq
      obtain ⟨e, he⟩ := h r hr
      obtain ⟨evs', hw', hrun⟩ := validateV_ok_iff.1 he
      rw [hw] at hw'
      cases hw'
      exact ⟨e, by simpa using hrun⟩
    obtain ⟨errs, he⟩ := runAll_of_singles hs
    exact ⟨errs, validateV_ok_iff.2 ⟨evs, hw, he⟩⟩

/-- Order independence: the errors of a permuted rule list are a permutation of the errors of
    the original list (and the permuted list returns normally whenever the original does). -/
theorem C18_perm (rs rs' : List Rule) (s : Schema) (d : QueryDoc) (errs : List Err)
    (hp : rs.Perm rs') (hdistinct : (rs.map (·.name)).Nodup) (h : validate rs s d = .ok errs) :
    ∃ errs', validate rs' s d = .ok errs' ∧ errs.Perm errs' := by
  have hd' : (rs'.map (·.name)).Nodup := (hp.map _).nodup_iff.1 hdistinct
  have hmem : ∀ r ∈ rs', ∃ e, validate [r] s d = .ok e :=
    fun r hr => ⟨_, C18_union rs s d errs hdistinct h r (hp.mem_iff.2 hr)⟩
  obtain ⟨errs', h'⟩ := C18_ok_of_members rs' s d hmem
  refine ⟨errs', h', ?_⟩
  rw [List.perm_iff_count]
  intro a
  by_cases ha : ∃ r ∈ rs, r.name = a.rule
  · obtain ⟨r, hr, hn⟩ := ha
    have h1 := C18_union rs s d errs hdistinct h r hr
    have h2 := C18_union rs' s d errs' hd' h' r (hp.mem_iff.1 hr)
    rw [h1] at h2
    injection h2 with h2
    have c1 : errs.count a = (errs.filter fun x => decide (x.rule = r.name)).count a := by
      rw [List.count_filter]; simp [hn]
    have c2 : errs'.count a = (errs'.filter fun x => decide (x.rule = r.name)).count a := by
      rw [List.count_filter]; simp [hn]
    rw [c1, c2, h2]
  · have n1 : a ∉ errs := by
      intro hx
      have := C18_errors_tagged rs s d errs h a hx
      obtain ⟨r, hr, hn⟩ := List.mem_map.1 this
      exact ha ⟨r, hr, hn⟩
    have n2 : a ∉ errs' := by
      intro hx
      have := C18_errors_tagged rs' s d errs' h' a hx
      obtain ⟨r, hr, hn⟩ := List.mem_map.1 this
      exact ha ⟨r, hp.mem_iff.2 hr, hn⟩
    rw [List.count_eq_zero_of_not_mem n1, List.count_eq_zero_of_not_mem n2]

theorem C18_nosuggest_Fields (s : Schema) (d : QueryDoc) :
    NoSuggestTwin (str "FieldsOnCorrectTypeWithoutSuggestions")
      (validate [fieldsOnCorrectType] s d) (validate [fieldsOnCorrectTypeWithoutSuggestions] s d) :=
  validate_withoutSuggestions _ _ s d

theorem C18_nosuggest_Arguments (s : Schema) (d : QueryDoc) :
    NoSuggestTwin (str "KnownArgumentNamesWithoutSuggestions")
      (validate [knownArgumentNames] s d) (validate [knownArgumentNamesWithoutSuggestions] s d) :=
  validate_withoutSuggestions _ _ s d

theorem C18_nosuggest_TypeNames (s : Schema) (d : QueryDoc) :
    NoSuggestTwin (str "KnownTypeNamesWithoutSuggestions")
      (validate [knownTypeNames] s d) (validate [knownTypeNamesWithoutSuggestions] s d) :=
  validate_withoutSuggestions _ _ s d

theorem C18_nosuggest_Values (s : Schema) (d : QueryDoc) :
    NoSuggestTwin (str "ValuesOfCorrectTypeWithoutSuggestions")
      (validate [valuesOfCorrectType] s d) (validate [valuesOfCorrectTypeWithoutSuggestions] s d) :=
  validate_withoutSuggestions _ _ s d

/-- the twin never emits a suggestion: its errors carry exactly `msg` (non-vacuity of the prefix
    clause: on a suggesting error the messages really differ) -/
example : (RErr.toErr (str "R") (RErr.dropSugg { msg := str "m", sugg := str " Did you mean x?", locs := [] })).msg = str "m" := by
  decide

/-- the hypothesis of `C18_union`/`C18_perm` holds for the modelled default rule list -/
theorem C18_default_names_distinct : (defaultRules.map (·.name)).Nodup := by decide

#print axioms C18_union
#print axioms C18_errors_tagged
#print axioms C18_ok_of_members
#print axioms C18_perm
#print axioms C18_nosuggest_Fields
#print axioms C18_nosuggest_Arguments
#print axioms C18_nosuggest_TypeNames
#print axioms C18_nosuggest_Values
#print axioms C18_default_names_distinct

/-! ### facts regenerated from /repo's sources on every run (GqlModel/Gen/Facts.lean) -/

/-- The AddRule calls of package rules, in package-initialisation (file name) order, are the
    model's default rule names: "the default rule set equals the explicit list of all specified rules". -/
theorem C18_gen_default_rules_agree : Gql.Gen.ruleRegistry = Gql.Validate.defaultRuleNames := by decide

/-- every exported Rule value is one the model knows by name (27 standard + 4 without-suggestions) -/
theorem C18_gen_rule_vars_known :
    ∀ n ∈ Gql.Gen.ruleVars, n ∈ Gql.Validate.defaultRuleNames ∨
      n ∈ ["FieldsOnCorrectTypeWithoutSuggestions", "KnownArgumentNamesWithoutSuggestions",
           "KnownTypeNamesWithoutSuggestions", "ValuesOfCorrectTypeWithoutSuggestions"] := by decide
