import GqlProofs.Lexer.Progress
/-
  C01 — lexing is total (lexer part).  Theorems about `Gql.Lexer.lexAll`, the function the driver
  runs for op `lex` and that the correspondence check compares with lexer.ReadToken.

  * The model is a total Lean function: it cannot panic or diverge by construction, and the Go
    look-aheads it mirrors are guarded list patterns; what has to be PROVED is that the pull loop
    terminates because every non-EOF token consumes input (the fuel `length + 1` is never
    exhausted) — this is the "no hang" clause — and the linear bound on the number of tokens.
-/
open Gql Gql.Lexer

theorem lexFuel_never_outOfFuel (fuel : Nat) (rest : Bytes) (c : Cur) (acc : List Token)
    (h : rest.length < fuel) : ∀ ts, lexFuel fuel rest c acc ≠ .outOfFuel ts := by
  induction fuel generalizing rest c acc with
  | zero => omega
  | succ n ih =>
    intro ts
    unfold lexFuel
    have hp := readToken_progress rest c
    split
    · simp
    · rename_i t rest' c' heq
      rw [heq] at hp
      simp only [Step.progress] at hp
      split
      · simp
      · rename_i hk
        have : rest'.length < n := by
          rcases hp with hp | hp
          · exact absurd hp hk
          · omega
        exact ih rest' c' _ this ts

/-- Lexing to the end never runs out of fuel: the pull loop terminates on every byte string,
    because every non-EOF token strictly shortens the remaining input. -/
theorem C01_lexAll_fuel (inp : Bytes) : ∀ ts, lexAll inp ≠ .outOfFuel ts :=
  lexFuel_never_outOfFuel _ _ _ _ (by simp)

theorem lexFuel_len (fuel : Nat) (rest : Bytes) (c : Cur) (acc : List Token) :
    (lexFuel fuel rest c acc).tokens.length ≤ acc.length + rest.length + 1 := by
  induction fuel generalizing rest c acc with
  | zero => simp [lexFuel, LexOut.tokens]; omega
  | succ n ih =>
    unfold lexFuel
    have hp := readToken_progress rest c
    split
    · simp [LexOut.tokens]; omega
    · rename_i t rest' c' heq
      rw [heq] at hp
      simp only [Step.progress] at hp
      split
      · simp [LexOut.tokens]
      · rename_i hk
        have hlt : rest'.length < rest.length := by
          rcases hp with hp | hp
          · exact absurd hp hk
          · exact hp
        have := ih rest' c' (t :: acc)
        simp at this
        omega

/-- The number of tokens (the final EOF included) is at most the input length plus one:
    the pull loop is linear in the input. -/
theorem C01_lexAll_len (inp : Bytes) : (lexAll inp).tokens.length ≤ inp.length + 1 := by
  have := lexFuel_len (inp.length + 1) inp Cur.init []
  simpa [lexAll] using this

/-- Every step of the lexer either fails, returns EOF, or strictly consumes input. -/
theorem C01_lex_progress (rest : Bytes) (c : Cur) (t : Token) (rest' : Bytes) (c' : Cur)
    (h : readToken rest c = .tok t rest' c') : t.kind = .eof ∨ rest'.length < rest.length := by
  have := readToken_progress rest c
  rw [h] at this
  exact this

