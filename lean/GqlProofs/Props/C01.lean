import GqlProofs.Lexer.Progress
import GqlProofs.Parser.FuelSchema
/-
  C01 — lexing is total (lexer part).  Theorems about `Gql.Lexer.lexAll`, the function the driver
  runs for op `lex` and that the correspondence check compares with lexer.ReadToken.

  * The model is a total Lean function: it cannot panic or diverge by construction, and the Go
    look-aheads it mirrors are guarded list patterns; what has to be PROVED is that the pull loop
    terminates because every non-EOF token consumes input (the fuel `length + 1` is never
    exhausted) — this is the "no hang" clause — and the linear bound on the number of tokens.
-/
open Gql Gql.Lexer

theorem lexFuel_never_outOfFuel (fuel : Nat) (rest : Bytes) (c : Cur) (acc : List Token)
    (h : rest.length < fuel) : ∀ ts, lexFuel fuel rest c acc ≠ .outOfFuel ts := by
  induction fuel generalizing rest c acc with
  | zero => omega
  | succ n ih =>
    intro ts
    unfold lexFuel
    have hp := readToken_progress rest c
    split
    · simp
    · rename_i t rest' c' heq
      rw [heq] at hp
      simp only [Step.progress] at hp
      split
      · simp
      · rename_i hk
        have : rest'.length < n := by
          have := hp.2 hk
          omega
        exact ih rest' c' _ this ts

/-- Lexing to the end never runs out of fuel: the pull loop terminates on every byte string,
    because every non-EOF token strictly shortens the remaining input. -/
theorem C01_lexAll_fuel (inp : Bytes) : ∀ ts, lexAll inp ≠ .outOfFuel ts :=
  lexFuel_never_outOfFuel _ _ _ _ (by simp)

theorem lexFuel_len (fuel : Nat) (rest : Bytes) (c : Cur) (acc : List Token) :
    (lexFuel fuel rest c acc).tokens.length ≤ acc.length + rest.length + 1 := by
  induction fuel generalizing rest c acc with
  | zero => simp [lexFuel, LexOut.tokens]; omega
  | succ n ih =>
    unfold lexFuel
    have hp := readToken_progress rest c
    split
    · simp [LexOut.tokens]; omega
    · rename_i t rest' c' heq
      rw [heq] at hp
      simp only [Step.progress] at hp
      split
      · simp [LexOut.tokens]
      · rename_i hk
        have hlt : rest'.length < rest.length := hp.2 hk
        have := ih rest' c' (t :: acc)
        simp at this
        omega

/-- The number of tokens (the final EOF included) is at most the input length plus one:
    the pull loop is linear in the input. -/
theorem C01_lexAll_len (inp : Bytes) : (lexAll inp).tokens.length ≤ inp.length + 1 := by
  have := lexFuel_len (inp.length + 1) inp Cur.init []
  simpa [lexAll] using this

/-- Every step of the lexer either fails, returns EOF, or strictly consumes input. -/
theorem C01_lex_progress (rest : Bytes) (c : Cur) (t : Token) (rest' : Bytes) (c' : Cur)
    (h : readToken rest c = .tok t rest' c') :
    rest'.length ≤ rest.length ∧ (t.kind ≠ .eof → rest'.length < rest.length) := by
  have := readToken_progress rest c
  rw [h] at this
  exact this

open Gql.Parser

/-! ## BEGIN parser section (theorems `C01_parse_…`; the lexer theorems of C01 go outside this section)

  The parser model is fuelled: every loop (`many`/`some` bodies, directives, `&`/`|` lists, the
  document loops, the comment-group loop) and every recursion cycle (values, types, selection
  sets) spends one unit of fuel per iteration / per level; running dry sets the ghost flag `oof`,
  which the entry points report as `Result.outOfFuel`.  The entry points hand out
  `fuelFor inp = inp.length + 2`.  The theorems below say that this is always enough — for every
  input and every token limit — so the Go recursion depth and every loop count are bounded by
  the number of input bytes + 2 (each level / iteration consumes at least one real token, i.e. at
  least one byte, or sets the sticky error, which stops every loop).  The measure behind the proof
  is `mu` (`GqlProofs/Parser/Measure.lean`): bytes not yet lexed + 1 for a pending look-ahead
  token + 1, and 0 once the sticky error is set.
-/

/-- the flag is never set, whatever the input and the limit (query grammar) -/
theorem C01_parse_fuel_query_state (limit : Nat) (inp : Bytes) : (runQuery limit inp).2.oof = false :=
  runQuery_oof limit inp

/-- `ParseQuery` / `ParseQueryWithTokenLimit` never run out of fuel -/
theorem C01_parse_fuel_query (limit : Nat) (inp : Bytes) : parseQuery limit inp ≠ .outOfFuel := by
  unfold parseQuery Result.ofRun
  rw [runQuery_oof]
  simp only [Bool.false_eq_true, ↓reduceIte]
  split <;> simp

/-- the flag is never set (schema grammar, any source index) -/
theorem C01_parse_fuel_schema_state (limit src : Nat) (inp : Bytes) : (runSchema limit src inp).2.oof = false :=
  runSchema_oof limit src inp

theorem C01_parse_fuel_schemaSrc (limit src : Nat) (b : Bool) (inp : Bytes) :
    parseSchemaSrc limit src b inp ≠ .outOfFuel := by
  have h : Result.ofRun (runSchema limit src inp) ≠ .outOfFuel := by
    unfold Result.ofRun
    rw [runSchema_oof]
    simp only [Bool.false_eq_true, ↓reduceIte]
    split <;> simp
  unfold parseSchemaSrc
  cases h1 : Result.ofRun (runSchema limit src inp) with
  | ok d => simp
  | error e => simp
  | outOfFuel => exact absurd h1 h

/-- `ParseSchema` / `ParseSchemaWithLimit` never run out of fuel -/
theorem C01_parse_fuel_schema (limit : Nat) (inp : Bytes) : parseSchema limit inp ≠ .outOfFuel :=
  C01_parse_fuel_schemaSrc limit 0 false inp

/-- `ParseSchemas` / `ParseSchemasWithLimit` never run out of fuel -/
theorem C01_parse_fuel_schemas (limit : Nat) (srcs : List (Bool × Bytes)) : parseSchemas limit srcs ≠ .outOfFuel := by
  unfold parseSchemas
  generalize SchemaDoc.empty = acc
  generalize 0 = i
  induction srcs generalizing i acc with
  | nil => simp [parseSchemasFrom]
  | cons x rest ih =>
    obtain ⟨bi, inp⟩ := x
    unfold parseSchemasFrom
    cases h : parseSchemaSrc limit i bi inp with
    | ok d => exact ih _ _
    | error e => simp
    | outOfFuel => exact absurd h (C01_parse_fuel_schemaSrc limit i bi inp)

/-- result shape: a document or an error, nothing else -/
theorem C01_parse_result_shape_query (limit : Nat) (inp : Bytes) :
    (∃ d, parseQuery limit inp = .ok d) ∨ (∃ e, parseQuery limit inp = .error e) := by
  cases h : parseQuery limit inp with
  | ok d => exact .inl ⟨d, rfl⟩
  | error e => exact .inr ⟨e, rfl⟩
  | outOfFuel => exact absurd h (C01_parse_fuel_query limit inp)

theorem C01_parse_result_shape_schema (limit : Nat) (inp : Bytes) :
    (∃ d, parseSchema limit inp = .ok d) ∨ (∃ e, parseSchema limit inp = .error e) := by
  cases h : parseSchema limit inp with
  | ok d => exact .inl ⟨d, rfl⟩
  | error e => exact .inr ⟨e, rfl⟩
  | outOfFuel => exact absurd h (C01_parse_fuel_schema limit inp)

/-- no program ever increases the measure: work is bounded by the input that is left -/
theorem C01_parse_measure_monotone {α : Type} (limit : Nat) (p : Prog α) (s : PState) :
    mu (run limit p s).2 ≤ mu s :=
  run_mu_le limit p s

/-! non-vacuity: the model really parses (kernel-evaluated), including a repo fuzz-style input `{[` -/
example : (parseQuery 0 [123, 97, 125]).isOk = true := by decide
example : (parseQuery 0 [123, 91]).isOk = false := by decide
example : (parseSchema 0 [116,121,112,101,32,65,123,97,58,66,125]).isOk = true := by decide

/-! ## END parser section -/
