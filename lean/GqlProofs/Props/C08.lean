import GqlProofs.ValSpec.Local
import GqlProofs.ValSpec.Stateful
import GqlProofs.ValSpec.Spreads
import GqlProofs.ValSpec.KnownDirs
import GqlProofs.ValSpec.LeafFrag
/-
  C08 — validation accepts exactly what the rules allow.

  The specification side is `GqlModel/Validate/Spec` (`Spec.specValid`, one Boolean predicate per
  section of the October 2021 specification, over a declarative typing of the document).  The
  validator side is `validate rules s d` (`GqlModel/Validate/Engine.lean`), the model of
  `validator.Validate` that the driver runs; by `C18_union` the errors a rule contributes to any
  rule set are the errors of `validate [rule] s d`, so each theorem below is stated for the
  one-rule run: "the rule reports nothing ⇔ its specification predicate holds".

  Proved here (complete equivalences, no hypothesis on the schema or the document):
    C08_LoneAnonymousOperation   §5.2.2.1
    C08_UniqueVariableNames      §5.8.1
    C08_UniqueFragmentNames      §5.5.1.1
    C08_UniqueOperationNames     §5.2.1.1 (together with "at most one anonymous operation", which
                                 is what the rule really tests: `_iff`; under LoneAnonymousOperation
                                 it is the specification predicate: `C08_UniqueOperationNames`)
    C08_KnownFragmentNames       §5.5.2.1
  and, for documents whose operation kinds are the ones the parser produces (`query`, `mutation`,
  `subscription`, shorthand — `parserOpKinds`; the walker's directive location of any other kind
  is the empty string):
    C08_UniqueArgumentNames      §5.4.2
    C08_KnownDirectives          §5.7.1 ∧ §5.7.2
    C08_UniqueDirectivesPerLocation   §5.7.3, for documents whose directives are all defined (the
                                 rule counts an undefined directive as non-repeatable, the
                                 specification cannot know; `_complete`: without that hypothesis a
                                 silent rule still implies the specification predicate)
  These rest on the coverage lemmas of `GqlProofs/ValSpec` (`walkDoc_cov`, `walkDoc_hasItems`,
  `docSels_iff`, `directiveSites_iff`): the field / directive / directive-list events of a run are
  exactly the field nodes and directive lists the specification quantifies over.

  and, through `walk_parent_type` (`GqlProofs/ValSpec/TypedBridge.lean`: for a well-parented
  document — `Spec.wellParented`: every selection is written where the type in scope is composite,
  and `__typename` is not selected where that type is undetermined — the walker's parent
  definition and field definition of every field node are the declarative ones of `Spec.docSels`):
    C08_FieldsOnCorrectType      §5.3.1
    C08_KnownArgumentNames       §5.4.1
    C08_ProvidedRequiredArguments §5.4.2.1
    C08_ScalarLeafs              §5.3.3 (field types are output types: `Spec.fieldTypesAreOutputTypes`)
    C08_FragmentsOnCompositeTypes §5.5.1.3 (no hypothesis on the document; no type has the empty name)
  `Spec.wellParented` fails only for documents that both sides reject (it needs a fragment on a
  non-composite type, a sub-selection on a leaf, an undefined field / root type / type condition
  with `__typename` below it); outside it the walker gives `__typename` a definition on any parent
  and finds the input fields of an input object used as a parent, which the rule-by-rule comparison
  of the check masks for the same reason.

  NOT finished (the full statement, kept as the goal):
    C08_verdict : Closed s → (validate defaultRules s d = .ok [] ↔ Spec.specValid s d = true)
  It is FALSE for the current tree: the check `vcheck -prop C08` finds the deviations R8b–R8e, N1,
  N2 (DESIGN §7) and two more on the real validator, and the rule models reproduce them.  Rules
  without a theorem yet: KnownRootType, KnownTypeNames, MaxIntrospectionDepth, NoFragmentCycles,
  NoUndefinedVariables, NoUnusedFragments, NoUnusedVariables, PossibleFragmentSpreads,
  SingleFieldSubscriptions, UniqueInputFieldNames, ValuesOfCorrectType, VariablesAreInputTypes,
  VariablesInAllowedPosition (and OverlappingFieldsCanBeMerged, which has no model in this tree).
-/
open Gql Gql.Validate Gql.Validate.Rules

/-- §5.2.2.1 — LoneAnonymousOperation reports nothing iff the specification predicate holds -/
theorem C08_LoneAnonymousOperation (s : Schema) (d : QueryDoc) :
    validate [loneAnonymousOperation] s d = .ok [] ↔ Spec.loneAnonymousOperation d = true := by
  obtain ⟨evs, hw⟩ := walkDoc_isSome s.view d
  have hev := (walkDoc_events s.view d evs hw).1
  unfold loneAnonymousOperation
  rw [validate_stateless_nil s d _ _ evs hw]
  have key : (∀ e ∈ evs, loneAnonymousOperationStep s.view d e = []) ↔
      ∀ op ∈ d.ops, ¬ (op.name = [] ∧ d.ops.length > 1) := by
    constructor
    · intro h op hop
      rw [← hev] at hop
      obtain ⟨e, he, u, hp⟩ := mem_opEvents.1 hop
      have := h e he
      simp only [loneAnonymousOperationStep, hp] at this
      rintro ⟨h1, h2⟩
      simp [h1, h2] at this
    · intro h e he
      unfold loneAnonymousOperationStep
      split
      · rename_i op u hp
        have hop : op ∈ d.ops := hev ▸ mem_opEvents.2 ⟨e, he, u, hp⟩
        have := h op hop
        split
        · rename_i hc
          simp only [Bool.and_eq_true, beq_iff_eq, decide_eq_true_eq] at hc
          exact absurd hc this
        · rfl
      · rfl
  rw [key]
  unfold Spec.loneAnonymousOperation
  simp only [Bool.or_eq_true, decide_eq_true_eq, List.all_eq_true, bne_iff_ne, ne_eq, not_and]
  constructor
  · intro h
    by_cases hl : d.ops.length ≤ 1
    · exact Or.inl hl
    · refine Or.inr fun op hop hn => ?_
      exact h op hop hn (by omega)
  · rintro (h | h) op hop hn hl
    · omega
    · exact h op hop hn

/-- §5.8.1 — UniqueVariableNames reports nothing iff the variables of every operation have
    different names -/
theorem C08_UniqueVariableNames (s : Schema) (d : QueryDoc) :
    validate [uniqueVariableNames] s d = .ok [] ↔ Spec.variableUniqueness d = true := by
  obtain ⟨evs, hw⟩ := walkDoc_isSome s.view d
  have hev := (walkDoc_events s.view d evs hw).1
  unfold uniqueVariableNames
  rw [validate_stateless_nil s d _ _ evs hw]
  unfold Spec.variableUniqueness
  simp only [List.all_eq_true]
  rw [← hev]
  constructor
  · intro h op hop
    obtain ⟨e, he, u, hp⟩ := mem_opEvents.1 hop
    have := h e he
    simp only [uniqueVariableNamesStep, hp] at this
    rw [distinct_iff_nodup, ← freshFrom_nil]
    exact (dupVars_nil_iff op.vars [] List.nodup_nil).1 this
  · intro h e he
    unfold uniqueVariableNamesStep
    cases hp : e.p <;> simp only
    rename_i op u
    have := h op (mem_opEvents.2 ⟨e, he, u, hp⟩)
    rw [distinct_iff_nodup, ← freshFrom_nil] at this
    exact (dupVars_nil_iff op.vars [] List.nodup_nil).2 this

/-- §5.5.1.1 — UniqueFragmentNames reports nothing iff the fragment definitions have different names -/
theorem C08_UniqueFragmentNames (s : Schema) (d : QueryDoc) :
    validate [uniqueFragmentNames] s d = .ok [] ↔ Spec.fragmentNameUniqueness d = true := by
  obtain ⟨evs, hw⟩ := walkDoc_isSome s.view d
  have hev := (walkDoc_events s.view d evs hw).2
  rw [validate_uniqueFragmentNames s d evs hw, hev]
  unfold Spec.fragmentNameUniqueness
  rw [distinct_iff_nodup]

/-- what UniqueOperationNames really tests: all operation names, the empty name of anonymous
    operations included, are different -/
theorem C08_UniqueOperationNames_iff (s : Schema) (d : QueryDoc) :
    validate [uniqueOperationNames] s d = .ok [] ↔
      (Spec.operationNameUniqueness d = true ∧ (d.ops.filter (·.name == [])).length ≤ 1) := by
  obtain ⟨evs, hw⟩ := walkDoc_isSome s.view d
  have hev := (walkDoc_events s.view d evs hw).1
  rw [validate_uniqueOperationNames s d evs hw, hev]
  unfold Spec.operationNameUniqueness
  rw [distinct_iff_nodup]
  exact nodup_names_split d.ops

/-- §5.2.1.1 — for a document that satisfies LoneAnonymousOperation, UniqueOperationNames reports
    nothing iff the named operations have different names -/
theorem C08_UniqueOperationNames (s : Schema) (d : QueryDoc) (hl : Spec.loneAnonymousOperation d = true) :
    validate [uniqueOperationNames] s d = .ok [] ↔ Spec.operationNameUniqueness d = true := by
  rw [C08_UniqueOperationNames_iff]
  constructor
  · exact fun h => h.1
  · intro h
    refine ⟨h, ?_⟩
    unfold Spec.loneAnonymousOperation at hl
    simp only [Bool.or_eq_true, decide_eq_true_eq, List.all_eq_true, bne_iff_ne, ne_eq] at hl
    rcases hl with hl | hl
    · exact Nat.le_trans (List.length_filter_le _ _) hl
    · have : d.ops.filter (·.name == []) = [] := by
        apply List.filter_eq_nil_iff.2
        intro op hop
        simpa using hl op hop
      rw [this]
      simp

/-- §5.5.2.1 — KnownFragmentNames reports nothing iff every spread written in the document names a
    defined fragment -/
theorem C08_KnownFragmentNames (s : Schema) (d : QueryDoc) :
    validate [knownFragmentNames] s d = .ok [] ↔ Spec.fragmentSpreadTargetDefined d = true := by
  obtain ⟨evs, hw⟩ := walkDoc_isSome s.view d
  unfold knownFragmentNames
  rw [validate_stateless_nil s d _ _ evs hw]
  exact knownFragmentNames_iff s d evs hw

/-- §5.4.2 — UniqueArgumentNames reports nothing iff no field or directive is given two arguments
    of one name -/
theorem C08_UniqueArgumentNames (s : Schema) (d : QueryDoc) (hk : ∀ op ∈ d.ops, op.op ∈ parserOpKinds) :
    validate [uniqueArgumentNames] s d = .ok [] ↔ Spec.argumentUniqueness s d = true := by
  obtain ⟨evs, hw⟩ := walkDoc_isSome s.view d
  unfold uniqueArgumentNames
  rw [validate_stateless_nil s d _ _ evs hw]
  exact uniqueArgumentNames_iff s d evs hw hk

/-- §5.7.1 and §5.7.2 — KnownDirectives reports nothing iff every directive is defined and is used
    in a location its definition lists -/
theorem C08_KnownDirectives (s : Schema) (d : QueryDoc) (hk : ∀ op ∈ d.ops, op.op ∈ parserOpKinds) :
    validate [knownDirectives] s d = .ok [] ↔
      (Spec.directivesAreDefined s d = true ∧ Spec.directivesInValidLocations s d = true) := by
  obtain ⟨evs, hw⟩ := walkDoc_isSome s.view d
  rw [validate_knownDirectives s d evs hw]
  exact knownDirectives_iff s d evs hw hk

/-- §5.7.3 — for a document whose directives are all defined, UniqueDirectivesPerLocation reports
    nothing iff no location carries a non-repeatable directive twice -/
theorem C08_UniqueDirectivesPerLocation (s : Schema) (d : QueryDoc) (hk : ∀ op ∈ d.ops, op.op ∈ parserOpKinds)
    (hdef : Spec.directivesAreDefined s d = true) :
    validate [uniqueDirectivesPerLocation] s d = .ok [] ↔ Spec.directivesUniquePerLocation s d = true := by
  obtain ⟨evs, hw⟩ := walkDoc_isSome s.view d
  unfold uniqueDirectivesPerLocation
  rw [validate_stateless_nil s d _ _ evs hw]
  exact uniqueDirectivesPerLocation_iff s d evs hw hk hdef

/-- §5.7.3, one direction without the hypothesis: whenever UniqueDirectivesPerLocation reports
    nothing the specification predicate holds (no violation goes unreported) -/
theorem C08_UniqueDirectivesPerLocation_complete (s : Schema) (d : QueryDoc)
    (hk : ∀ op ∈ d.ops, op.op ∈ parserOpKinds) (h : validate [uniqueDirectivesPerLocation] s d = .ok []) :
    Spec.directivesUniquePerLocation s d = true := by
  obtain ⟨evs, hw⟩ := walkDoc_isSome s.view d
  unfold uniqueDirectivesPerLocation at h
  rw [validate_stateless_nil s d _ _ evs hw] at h
  exact uniqueDirectivesPerLocation_complete s d evs hw hk h

/-- §5.3.1 — for a well-parented document FieldsOnCorrectType reports nothing iff every field is
    defined on the type in scope -/
theorem C08_FieldsOnCorrectType (s : Schema) (d : QueryDoc) (hwp : Spec.wellParented s d = true) :
    validate [fieldsOnCorrectType] s d = .ok [] ↔ Spec.fieldSelections s d = true := by
  obtain ⟨evs, hw⟩ := walkDoc_isSome s.view d
  unfold fieldsOnCorrectType
  rw [validate_stateless_nil s d _ _ evs hw]
  exact fieldsOnCorrectType_iff s d evs hw hwp

/-- §5.4.1 — KnownArgumentNames reports nothing iff every argument of a field or directive is
    defined by it -/
theorem C08_KnownArgumentNames (s : Schema) (d : QueryDoc) (hwp : Spec.wellParented s d = true)
    (hk : ∀ op ∈ d.ops, op.op ∈ parserOpKinds) :
    validate [knownArgumentNames] s d = .ok [] ↔ Spec.argumentNames s d = true := by
  obtain ⟨evs, hw⟩ := walkDoc_isSome s.view d
  unfold knownArgumentNames
  rw [validate_stateless_nil s d _ _ evs hw]
  exact knownArgumentNames_iff s d evs hw hwp hk

/-- §5.4.2.1 — ProvidedRequiredArguments reports nothing iff every required argument of a field or
    directive is given -/
theorem C08_ProvidedRequiredArguments (s : Schema) (d : QueryDoc) (hwp : Spec.wellParented s d = true)
    (hk : ∀ op ∈ d.ops, op.op ∈ parserOpKinds) :
    validate [providedRequiredArguments] s d = .ok [] ↔ Spec.requiredArguments s d = true := by
  obtain ⟨evs, hw⟩ := walkDoc_isSome s.view d
  unfold providedRequiredArguments
  rw [validate_stateless_nil s d _ _ evs hw]
  exact providedRequiredArguments_iff s d evs hw hwp hk

/-- §5.3.3 — ScalarLeafs reports nothing iff leaf fields have no sub-selection and composite fields
    have one -/
theorem C08_ScalarLeafs (s : Schema) (d : QueryDoc) (hwp : Spec.wellParented s d = true)
    (hout : Spec.fieldTypesAreOutputTypes s d = true) :
    validate [scalarLeafs] s d = .ok [] ↔ Spec.leafFieldSelections s d = true := by
  obtain ⟨evs, hw⟩ := walkDoc_isSome s.view d
  unfold scalarLeafs
  rw [validate_stateless_nil s d _ _ evs hw]
  exact scalarLeafs_iff s d evs hw hwp hout

/-- §5.5.1.3 — FragmentsOnCompositeTypes reports nothing iff every type condition that names a type
    names a composite one -/
theorem C08_FragmentsOnCompositeTypes (s : Schema) (d : QueryDoc) (hE : s.type? [] = none) :
    validate [fragmentsOnCompositeTypes] s d = .ok [] ↔ Spec.fragmentsOnCompositeTypes s d = true := by
  obtain ⟨evs, hw⟩ := walkDoc_isSome s.view d
  unfold fragmentsOnCompositeTypes
  rw [validate_stateless_nil s d _ _ evs hw]
  exact fragmentsOnCompositeTypes_iff s d evs hw hE

/-- the one-rule theorems transfer to any rule set with distinct names (C18): here for the default
    rule set and LoneAnonymousOperation -/
theorem C08_default_LoneAnonymousOperation (s : Schema) (d : QueryDoc) (errs : List Err)
    (h : validate defaultRules s d = .ok errs) :
    (errs.filter fun x => decide (x.rule = loneAnonymousOperation.name)) = [] ↔
      Spec.loneAnonymousOperation d = true := by
  have hmem : loneAnonymousOperation ∈ defaultRules :=
    List.mem_filterMap.2 ⟨"LoneAnonymousOperation", by decide, rfl⟩
  have hd : (defaultRules.map (·.name)).Nodup := by decide
  have hu : validate [loneAnonymousOperation] s d =
      .ok (errs.filter fun x => decide (x.rule = loneAnonymousOperation.name)) := by
    unfold validate at *
    obtain ⟨evs, hw, hrun⟩ := validateV_ok_iff.1 h
    apply validateV_ok_iff.2
    refine ⟨evs, hw, ?_⟩
    exact runAll_filter hrun (by rw [rnames_start]; exact hd) (Rule.start loneAnonymousOperation)
      (List.mem_map.2 ⟨_, hmem, rfl⟩)
  rw [← C08_LoneAnonymousOperation s d, hu]
  constructor
  · intro h; rw [h]
  · intro h; injection h
