import GqlProofs.Validate.OverlapSound
import GqlProofs.Validate.OverlapWitness
/-
  C08 — validation accepts exactly what the rules allow: the part about
  OverlappingFieldsCanBeMerged (the repaired algorithm: `sameValue` compares children, R8g;
  `doTypesConflict` lets a leaf type conflict with every other type, R8h).

  Full statement (NOT proved — completeness is explored against the executable naive spec by the
  harness, DESIGN C08):

      theorem C08_Overlapping (s : Schema) (d : QueryDoc) (hs : Closed s) (hc : NoFragmentCycles d) :
          ruleErrors overlappingFieldsCanBeMerged s d = [] ↔ FieldSelectionMerging s d

  Proved here: SOUNDNESS of every reported conflict (`C08_overlap_sound_partial`) — each error of
  the rule is the rendering of a conflict tree in which every leaf names two field nodes of the
  document (of the selection set the observer was called for, or of a fragment definition) with the
  same response name, and
    * a "different fields" / "differing arguments" leaf only occurs where neither the two fields
      nor any enclosing pair of fields was found to be mutually exclusive (two different Object
      parent types), the field names differ / are equal and the arguments are not identical in the
      sense of `ArgsSame` — exactly the situations in which §5.3.2 FieldsInSetCanMerge demands
      equal names and identical arguments, so no spec-valid document is rejected by these branches;
    * a "conflicting types" leaf only occurs where both field definitions are known and
      `doTypesConflict` holds of the two declared types.
  Missing for the full statement: that the two fields of a nested leaf are reachable from the two
  enclosing fields (sub-selections followed through spreads), that `doTypesConflict` is the
  negation of SameResponseShape's type test (it ignores the nullability of list types:
  `[Int]!` vs `[Int]` do not conflict — a deviation from §5.3.2 visible in the definition), and
  completeness.
-/
open Gql Gql.Validate Gql.Validate.Rules

/-- Every conflict reported by one observer call (`findConflictsWithinSelectionSet`) is sound. -/
theorem C08_overlap_sound_partial (s : SV) (d : QueryDoc) (l : Links) (parent : Option Definition)
    (sels : Selections) (P P' : Pairs) (cs : List Conflict)
    (h : overlapRun s d l parent sels P = some (P', cs)) :
    ∀ c ∈ cs, Sound s (univOf d sels) false c :=
  overlapRun_sound s d l parent sels P (P', cs) h

/-- … hence every error the rule adds is the rendering (`Conflict.toErr`: message, single location
    `At(m.Position)`) of a sound conflict. -/
theorem C08_overlap_errors_sound (s : SV) (d : QueryDoc) (P P' : Pairs) (e : Event) (errs : List RErr)
    (h : overlappingFieldsStep s d P e = .ok P' errs) :
    errs = [] ∨ ∃ (sels : Selections) (cs : List Conflict), errs = cs.map Conflict.toErr ∧ ∀ c ∈ cs, Sound s (univOf d sels) false c := by
  have run : ∀ (parent : Option Definition) (sels : Selections),
      (match overlapRun s d e.links parent sels P with
        | none => StepOut.panic overlapOutOfFuel
        | some (P', cs) => StepOut.ok P' (cs.map Conflict.toErr)) = .ok P' errs →
      errs = [] ∨ ∃ (sels : Selections) (cs : List Conflict), errs = cs.map Conflict.toErr ∧ ∀ c ∈ cs, Sound s (univOf d sels) false c := by
    intro parent sels h
    cases hr : overlapRun s d e.links parent sels P with
    | none => rw [hr] at h; cases h
    | some r =>
      obtain ⟨P1, cs⟩ := r
      rw [hr] at h
      simp only at h
      injection h with h1 h2
      exact Or.inr ⟨sels, cs, h2.symm, C08_overlap_sound_partial s d e.links parent sels P P1 cs hr⟩
  unfold overlappingFieldsStep at h
  simp only at h
  split at h
  · exact run _ _ h
  · split at h
    · injection h with _ h2; exact Or.inl h2.symm
    · exact run _ _ h
  · exact run _ _ h
  · exact run _ _ h
  · injection h with _ h2; exact Or.inl h2.symm

theorem msgConflictingTypes_head (X : Bytes) : (msgConflictingTypes ++ X).head? = some 116 := by
  have : msgConflictingTypes = 116 :: msgConflictingTypes.tail := by decide
  rw [this]
  rfl

/-- A reported `"x" and "y" are different fields` (a leaf whose message starts with `"`): the
    document contains two field nodes with that response name and different field names, and
    neither they nor any enclosing pair were found to lie on two different Object types. -/
theorem C08_overlap_different_fields_sound (s : SV) (U : Univ) (pe : Bool) (rn msg : Bytes) (pos : Pos)
    (h : Sound s U pe (.mk rn msg [] pos)) (hq : msg.head? = some 34) :
    ∃ a b, Good U a ∧ Good U b ∧ responseName a.node = rn ∧ responseName b.node = rn ∧
      a.node.name ≠ b.node.name ∧ pe = false ∧ goExcl a b = false ∧ pos = b.node.pos ∧
      msg = dq a.node.name ++ andSep ++ dq b.node.name ++ msgDifferentFields := by
  cases h with
  | differentFields ha hb hrn hpe hex hne => exact ⟨_, _, ha, hb, rfl, hrn.symm, hne, hpe, hex, rfl, rfl⟩
  | differingArguments => exact absurd hq (by decide)
  | conflictingTypes =>
    simp only [typesConflictMsg, List.append_assoc] at hq
    rw [msgConflictingTypes_head] at hq
    exact absurd hq (by decide)

/-- A reported "they have differing arguments": two field nodes with that response name and the
    same field name whose argument lists are not identical (`ArgsSame`), not known to be exclusive. -/
theorem C08_overlap_differing_arguments_sound (s : SV) (U : Univ) (pe : Bool) (rn : Bytes) (pos : Pos)
    (h : Sound s U pe (.mk rn msgDifferingArguments [] pos)) :
    ∃ a b, Good U a ∧ Good U b ∧ responseName a.node = rn ∧ responseName b.node = rn ∧
      a.node.name = b.node.name ∧ pe = false ∧ goExcl a b = false ∧ pos = b.node.pos ∧
      ¬ ArgsSame a.node.args b.node.args := by
  generalize hm : msgDifferingArguments = msg at h
  cases h with
  | differentFields ha hb hrn hpe hex hne =>
    have := congrArg List.head? hm
    simp only [dq, List.cons_append, List.head?_cons] at this
    exact absurd this (by decide)
  | differingArguments ha hb hrn hpe hex hn hargs => exact ⟨_, _, ha, hb, rfl, hrn.symm, hn, hpe, hex, rfl, hargs⟩
  | conflictingTypes =>
    have h6 := congrArg (List.take 6) hm
    have e1 : msgConflictingTypes = str "they r" ++ str "eturn conflicting types " := by rfl
    simp only [typesConflictMsg, e1, List.append_assoc] at h6
    rw [List.take_left' (by rfl)] at h6
    exact absurd h6 (by decide)

/-- A reported "they return conflicting types": both field definitions are known and
    `doTypesConflict` holds of the declared types that the message prints. -/
theorem C08_overlap_conflicting_types_sound (s : SV) (U : Univ) (pe : Bool) (rn msg : Bytes) (pos : Pos)
    (h : Sound s U pe (.mk rn msg [] pos)) (hq : msg.take 6 = str "they r") :
    ∃ a b da db, Good U a ∧ Good U b ∧ responseName a.node = rn ∧ responseName b.node = rn ∧
      a.dfn = some da ∧ b.dfn = some db ∧ doTypesConflict s da.type db.type = true ∧ pos = b.node.pos ∧
      msg = typesConflictMsg da.type db.type := by
  cases h with
  | differentFields =>
    have := congrArg List.head? hq
    simp only [dq, List.cons_append, List.take_succ_cons, List.head?_cons] at this
    exact absurd this (by decide)
  | differingArguments => exact absurd hq (by decide)
  | conflictingTypes ha hb hrn hda hdb hc => exact ⟨_, _, _, _, ha, hb, rfl, hrn.symm, hda, hdb, hc, rfl, rfl⟩

/-- `sameArguments` decides `ArgsSame`, `sameValue` decides `ValSame` (order-insensitive for the
    fields of input objects and for arguments, ordered for list items; kinds and raw text equal). -/
theorem C08_overlap_sameArguments_spec (as bs : List Argument) : sameArguments as bs = true ↔ ArgsSame as bs :=
  sameArguments_iff as bs

theorem C08_overlap_sameValue_spec (v1 v2 : Value) : sameValue v1 v2 = true ↔ ValSame v1 v2 :=
  sameValue_iff v1 v2

/-- The "differing arguments" branch never fires on two argument lists with the same text
    (argument by argument, equal up to source positions) whose object literals have pairwise distinct
    field names (which UniqueInputFieldNames demands): identical fields are never reported. -/
theorem C08_overlap_identical_arguments_accepted (as bs : List Argument)
    (hu : ∀ a ∈ as, UniqueFields a.value)
    (he : as.map (fun a => (a.name, eraseV a.value)) = bs.map (fun b => (b.name, eraseV b.value))) :
    sameArguments as bs = true :=
  sameArguments_of_erase_eq as bs hu he

/-- non-vacuity, kernel-checked: `{ a: id a: u { id } }` is rejected with exactly this error … -/
example : validate [overlappingFieldsCanBeMerged] OverlapWitness.schema OverlapWitness.docDifferent =
    .ok [{ rule := str "OverlappingFieldsCanBeMerged",
           msg := str "Fields \"a\" conflict because \"id\" and \"u\" are different fields. Use different aliases on the fields to fetch both if this was intentional.",
           locs := [(1, 9)] }] := by
  decide +kernel

/-- … and `{ u { a: id } u { a: x } }` with a nested conflict -/
example : validate [overlappingFieldsCanBeMerged] OverlapWitness.schema OverlapWitness.docNested =
    .ok [{ rule := str "OverlappingFieldsCanBeMerged",
           msg := str "Fields \"u\" conflict because subfields \"a\" conflict because \"id\" and \"x\" are different fields. Use different aliases on the fields to fetch both if this was intentional.",
           locs := [(1, 15)] }] := by
  decide +kernel

#print axioms C08_overlap_sound_partial
#print axioms C08_overlap_identical_arguments_accepted
#print axioms C08_overlap_errors_sound
#print axioms C08_overlap_different_fields_sound
#print axioms C08_overlap_differing_arguments_sound
#print axioms C08_overlap_conflicting_types_sound
#print axioms C08_overlap_sameArguments_spec
#print axioms C08_overlap_sameValue_spec
