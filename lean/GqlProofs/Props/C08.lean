import GqlProofs.ValSpec.Local
import GqlProofs.ValSpec.Stateful
import GqlProofs.ValSpec.Spreads
import GqlProofs.ValSpec.KnownDirs
import GqlProofs.ValSpec.LeafFrag
import GqlProofs.Validate.OverlapSound
import GqlProofs.Validate.OverlapWitness
/-
  C08 — validation accepts exactly what the rules allow.

  The specification side is `GqlModel/Validate/Spec` (`Spec.specValid`, one Boolean predicate per
  section of the October 2021 specification, over a declarative typing of the document).  The
  validator side is `validate rules s d` (`GqlModel/Validate/Engine.lean`), the model of
  `validator.Validate` that the driver runs; by `C18_union` the errors a rule contributes to any
  rule set are the errors of `validate [rule] s d`, so each theorem below is stated for the
  one-rule run: "the rule reports nothing ⇔ its specification predicate holds".

  Proved here (complete equivalences, no hypothesis on the schema or the document):
    C08_LoneAnonymousOperation   §5.2.2.1
    C08_UniqueVariableNames      §5.8.1
    C08_UniqueFragmentNames      §5.5.1.1
    C08_UniqueOperationNames     §5.2.1.1 (together with "at most one anonymous operation", which
                                 is what the rule really tests: `_iff`; under LoneAnonymousOperation
                                 it is the specification predicate: `C08_UniqueOperationNames`)
    C08_KnownFragmentNames       §5.5.2.1
  and, for documents whose operation kinds are the ones the parser produces (`query`, `mutation`,
  `subscription`, shorthand — `parserOpKinds`; the walker's directive location of any other kind
  is the empty string):
    C08_UniqueArgumentNames      §5.4.2
    C08_KnownDirectives          §5.7.1 ∧ §5.7.2
    C08_UniqueDirectivesPerLocation   §5.7.3, for documents whose directives are all defined (the
                                 rule counts an undefined directive as non-repeatable, the
                                 specification cannot know; `_complete`: without that hypothesis a
                                 silent rule still implies the specification predicate)
  These rest on the coverage lemmas of `GqlProofs/ValSpec` (`walkDoc_cov`, `walkDoc_hasItems`,
  `docSels_iff`, `directiveSites_iff`): the field / directive / directive-list events of a run are
  exactly the field nodes and directive lists the specification quantifies over.

  and, through `walk_parent_type` (`GqlProofs/ValSpec/TypedBridge.lean`: for a well-parented
  document — `Spec.wellParented`: every selection is written where the type in scope is composite,
  and `__typename` is not selected where that type is undetermined — the walker's parent
  definition and field definition of every field node are the declarative ones of `Spec.docSels`):
    C08_FieldsOnCorrectType      §5.3.1
    C08_KnownArgumentNames       §5.4.1
    C08_ProvidedRequiredArguments §5.4.2.1
    C08_ScalarLeafs              §5.3.3 (field types are output types: `Spec.fieldTypesAreOutputTypes`)
    C08_FragmentsOnCompositeTypes §5.5.1.3 (no hypothesis on the document; no type has the empty name)
  `Spec.wellParented` fails only for documents that both sides reject (it needs a fragment on a
  non-composite type, a sub-selection on a leaf, an undefined field / root type / type condition
  with `__typename` below it); outside it the walker gives `__typename` a definition on any parent
  and finds the input fields of an input object used as a parent, which the rule-by-rule comparison
  of the check masks for the same reason.

  NOT finished (the full statement, kept as the goal):
    C08_verdict : Closed s → (validate defaultRules s d = .ok [] ↔ Spec.specValid s d = true)
  It is FALSE for the current tree: the check `vcheck -prop C08` finds the deviations R8b–R8e, N1,
  N2 (DESIGN §7) and two more on the real validator, and the rule models reproduce them.  Rules
  without a theorem yet: KnownRootType, KnownTypeNames, MaxIntrospectionDepth, NoFragmentCycles,
  NoUndefinedVariables, NoUnusedFragments, NoUnusedVariables, PossibleFragmentSpreads,
  SingleFieldSubscriptions, UniqueInputFieldNames, ValuesOfCorrectType, VariablesAreInputTypes,
  VariablesInAllowedPosition (and OverlappingFieldsCanBeMerged, which has no model in this tree).
-/
open Gql Gql.Validate Gql.Validate.Rules

/-- §5.2.2.1 — LoneAnonymousOperation reports nothing iff the specification predicate holds -/
theorem C08_LoneAnonymousOperation (s : Schema) (d : QueryDoc) :
    validate [loneAnonymousOperation] s d = .ok [] ↔ Spec.loneAnonymousOperation d = true := by
  obtain ⟨evs, hw⟩ := walkDoc_isSome s.view d
  have hev := (walkDoc_events s.view d evs hw).1
  unfold loneAnonymousOperation
  rw [validate_stateless_nil s d _ _ evs hw]
  have key : (∀ e ∈ evs, loneAnonymousOperationStep s.view d e = []) ↔
      ∀ op ∈ d.ops, ¬ (op.name = [] ∧ d.ops.length > 1) := by
    constructor
    · intro h op hop
      rw [← hev] at hop
      obtain ⟨e, he, u, hp⟩ := mem_opEvents.1 hop
      have := h e he
      simp only [loneAnonymousOperationStep, hp] at this
      rintro ⟨h1, h2⟩
      simp [h1, h2] at this
    · intro h e he
      unfold loneAnonymousOperationStep
      split
      · rename_i op u hp
        have hop : op ∈ d.ops := hev ▸ mem_opEvents.2 ⟨e, he, u, hp⟩
        have := h op hop
        split
        · rename_i hc
          simp only [Bool.and_eq_true, beq_iff_eq, decide_eq_true_eq] at hc
          exact absurd hc this
        · rfl
      · rfl
  rw [key]
  unfold Spec.loneAnonymousOperation
  simp only [Bool.or_eq_true, decide_eq_true_eq, List.all_eq_true, bne_iff_ne, ne_eq, not_and]
  constructor
  · intro h
    by_cases hl : d.ops.length ≤ 1
    · exact Or.inl hl
    · refine Or.inr fun op hop hn => ?_
      exact h op hop hn (by omega)
  · rintro (h | h) op hop hn hl
    · omega
    · exact h op hop hn

/-- §5.8.1 — UniqueVariableNames reports nothing iff the variables of every operation have
    different names -/
theorem C08_UniqueVariableNames (s : Schema) (d : QueryDoc) :
    validate [uniqueVariableNames] s d = .ok [] ↔ Spec.variableUniqueness d = true := by
  obtain ⟨evs, hw⟩ := walkDoc_isSome s.view d
  have hev := (walkDoc_events s.view d evs hw).1
  unfold uniqueVariableNames
  rw [validate_stateless_nil s d _ _ evs hw]
  unfold Spec.variableUniqueness
  simp only [List.all_eq_true]
  rw [← hev]
  constructor
  · intro h op hop
    obtain ⟨e, he, u, hp⟩ := mem_opEvents.1 hop
    have := h e he
    simp only [uniqueVariableNamesStep, hp] at this
    rw [distinct_iff_nodup, ← freshFrom_nil]
    exact (dupVars_nil_iff op.vars [] List.nodup_nil).1 this
  · intro h e he
    unfold uniqueVariableNamesStep
    cases hp : e.p <;> simp only
    rename_i op u
    have := h op (mem_opEvents.2 ⟨e, he, u, hp⟩)
    rw [distinct_iff_nodup, ← freshFrom_nil] at this
    exact (dupVars_nil_iff op.vars [] List.nodup_nil).2 this

/-- §5.5.1.1 — UniqueFragmentNames reports nothing iff the fragment definitions have different names -/
theorem C08_UniqueFragmentNames (s : Schema) (d : QueryDoc) :
    validate [uniqueFragmentNames] s d = .ok [] ↔ Spec.fragmentNameUniqueness d = true := by
  obtain ⟨evs, hw⟩ := walkDoc_isSome s.view d
  have hev := (walkDoc_events s.view d evs hw).2
  rw [validate_uniqueFragmentNames s d evs hw, hev]
  unfold Spec.fragmentNameUniqueness
  rw [distinct_iff_nodup]

/-- what UniqueOperationNames really tests: all operation names, the empty name of anonymous
    operations included, are different -/
theorem C08_UniqueOperationNames_iff (s : Schema) (d : QueryDoc) :
    validate [uniqueOperationNames] s d = .ok [] ↔
      (Spec.operationNameUniqueness d = true ∧ (d.ops.filter (·.name == [])).length ≤ 1) := by
  obtain ⟨evs, hw⟩ := walkDoc_isSome s.view d
  have hev := (walkDoc_events s.view d evs hw).1
  rw [validate_uniqueOperationNames s d evs hw, hev]
  unfold Spec.operationNameUniqueness
  rw [distinct_iff_nodup]
  exact nodup_names_split d.ops

/-- §5.2.1.1 — for a document that satisfies LoneAnonymousOperation, UniqueOperationNames reports
    nothing iff the named operations have different names -/
theorem C08_UniqueOperationNames (s : Schema) (d : QueryDoc) (hl : Spec.loneAnonymousOperation d = true) :
    validate [uniqueOperationNames] s d = .ok [] ↔ Spec.operationNameUniqueness d = true := by
  rw [C08_UniqueOperationNames_iff]
  constructor
  · exact fun h => h.1
  · intro h
    refine ⟨h, ?_⟩
    unfold Spec.loneAnonymousOperation at hl
    simp only [Bool.or_eq_true, decide_eq_true_eq, List.all_eq_true, bne_iff_ne, ne_eq] at hl
    rcases hl with hl | hl
    · exact Nat.le_trans (List.length_filter_le _ _) hl
    · have : d.ops.filter (·.name == []) = [] := by
        apply List.filter_eq_nil_iff.2
        intro op hop
        simpa using hl op hop
      rw [this]
      simp

/-- §5.5.2.1 — KnownFragmentNames reports nothing iff every spread written in the document names a
    defined fragment -/
theorem C08_KnownFragmentNames (s : Schema) (d : QueryDoc) :
    validate [knownFragmentNames] s d = .ok [] ↔ Spec.fragmentSpreadTargetDefined d = true := by
  obtain ⟨evs, hw⟩ := walkDoc_isSome s.view d
  unfold knownFragmentNames
  rw [validate_stateless_nil s d _ _ evs hw]
  exact knownFragmentNames_iff s d evs hw

/-- §5.4.2 — UniqueArgumentNames reports nothing iff no field or directive is given two arguments
    of one name -/
theorem C08_UniqueArgumentNames (s : Schema) (d : QueryDoc) (hk : ∀ op ∈ d.ops, op.op ∈ parserOpKinds) :
    validate [uniqueArgumentNames] s d = .ok [] ↔ Spec.argumentUniqueness s d = true := by
  obtain ⟨evs, hw⟩ := walkDoc_isSome s.view d
  unfold uniqueArgumentNames
  rw [validate_stateless_nil s d _ _ evs hw]
  exact uniqueArgumentNames_iff s d evs hw hk

/-- §5.7.1 and §5.7.2 — KnownDirectives reports nothing iff every directive is defined and is used
    in a location its definition lists -/
theorem C08_KnownDirectives (s : Schema) (d : QueryDoc) (hk : ∀ op ∈ d.ops, op.op ∈ parserOpKinds) :
    validate [knownDirectives] s d = .ok [] ↔
      (Spec.directivesAreDefined s d = true ∧ Spec.directivesInValidLocations s d = true) := by
  obtain ⟨evs, hw⟩ := walkDoc_isSome s.view d
  rw [validate_knownDirectives s d evs hw]
  exact knownDirectives_iff s d evs hw hk

/-- §5.7.3 — for a document whose directives are all defined, UniqueDirectivesPerLocation reports
    nothing iff no location carries a non-repeatable directive twice -/
theorem C08_UniqueDirectivesPerLocation (s : Schema) (d : QueryDoc) (hk : ∀ op ∈ d.ops, op.op ∈ parserOpKinds)
    (hdef : Spec.directivesAreDefined s d = true) :
    validate [uniqueDirectivesPerLocation] s d = .ok [] ↔ Spec.directivesUniquePerLocation s d = true := by
  obtain ⟨evs, hw⟩ := walkDoc_isSome s.view d
  unfold uniqueDirectivesPerLocation
  rw [validate_stateless_nil s d _ _ evs hw]
  exact uniqueDirectivesPerLocation_iff s d evs hw hk hdef

/-- §5.7.3, one direction without the hypothesis: whenever UniqueDirectivesPerLocation reports
    nothing the specification predicate holds (no violation goes unreported) -/
theorem C08_UniqueDirectivesPerLocation_complete (s : Schema) (d : QueryDoc)
    (hk : ∀ op ∈ d.ops, op.op ∈ parserOpKinds) (h : validate [uniqueDirectivesPerLocation] s d = .ok []) :
    Spec.directivesUniquePerLocation s d = true := by
  obtain ⟨evs, hw⟩ := walkDoc_isSome s.view d
  unfold uniqueDirectivesPerLocation at h
  rw [validate_stateless_nil s d _ _ evs hw] at h
  exact uniqueDirectivesPerLocation_complete s d evs hw hk h

/-- §5.3.1 — for a well-parented document FieldsOnCorrectType reports nothing iff every field is
    defined on the type in scope -/
theorem C08_FieldsOnCorrectType (s : Schema) (d : QueryDoc) (hwp : Spec.wellParented s d = true) :
    validate [fieldsOnCorrectType] s d = .ok [] ↔ Spec.fieldSelections s d = true := by
  obtain ⟨evs, hw⟩ := walkDoc_isSome s.view d
  unfold fieldsOnCorrectType
  rw [validate_stateless_nil s d _ _ evs hw]
  exact fieldsOnCorrectType_iff s d evs hw hwp

/-- §5.4.1 — KnownArgumentNames reports nothing iff every argument of a field or directive is
    defined by it -/
theorem C08_KnownArgumentNames (s : Schema) (d : QueryDoc) (hwp : Spec.wellParented s d = true)
    (hk : ∀ op ∈ d.ops, op.op ∈ parserOpKinds) :
    validate [knownArgumentNames] s d = .ok [] ↔ Spec.argumentNames s d = true := by
  obtain ⟨evs, hw⟩ := walkDoc_isSome s.view d
  unfold knownArgumentNames
  rw [validate_stateless_nil s d _ _ evs hw]
  exact knownArgumentNames_iff s d evs hw hwp hk

/-- §5.4.2.1 — ProvidedRequiredArguments reports nothing iff every required argument of a field or
    directive is given -/
theorem C08_ProvidedRequiredArguments (s : Schema) (d : QueryDoc) (hwp : Spec.wellParented s d = true)
    (hk : ∀ op ∈ d.ops, op.op ∈ parserOpKinds) :
    validate [providedRequiredArguments] s d = .ok [] ↔ Spec.requiredArguments s d = true := by
  obtain ⟨evs, hw⟩ := walkDoc_isSome s.view d
  unfold providedRequiredArguments
  rw [validate_stateless_nil s d _ _ evs hw]
  exact providedRequiredArguments_iff s d evs hw hwp hk

/-- §5.3.3 — ScalarLeafs reports nothing iff leaf fields have no sub-selection and composite fields
    have one -/
theorem C08_ScalarLeafs (s : Schema) (d : QueryDoc) (hwp : Spec.wellParented s d = true)
    (hout : Spec.fieldTypesAreOutputTypes s d = true) :
    validate [scalarLeafs] s d = .ok [] ↔ Spec.leafFieldSelections s d = true := by
  obtain ⟨evs, hw⟩ := walkDoc_isSome s.view d
  unfold scalarLeafs
  rw [validate_stateless_nil s d _ _ evs hw]
  exact scalarLeafs_iff s d evs hw hwp hout

/-- §5.5.1.3 — FragmentsOnCompositeTypes reports nothing iff every type condition that names a type
    names a composite one -/
theorem C08_FragmentsOnCompositeTypes (s : Schema) (d : QueryDoc) (hE : s.type? [] = none) :
    validate [fragmentsOnCompositeTypes] s d = .ok [] ↔ Spec.fragmentsOnCompositeTypes s d = true := by
  obtain ⟨evs, hw⟩ := walkDoc_isSome s.view d
  unfold fragmentsOnCompositeTypes
  rw [validate_stateless_nil s d _ _ evs hw]
  exact fragmentsOnCompositeTypes_iff s d evs hw hE

/-- the one-rule theorems transfer to any rule set with distinct names (C18): here for the default
    rule set and LoneAnonymousOperation -/
theorem C08_default_LoneAnonymousOperation (s : Schema) (d : QueryDoc) (errs : List Err)
    (h : validate defaultRules s d = .ok errs) :
    (errs.filter fun x => decide (x.rule = loneAnonymousOperation.name)) = [] ↔
      Spec.loneAnonymousOperation d = true := by
  have hmem : loneAnonymousOperation ∈ defaultRules :=
    List.mem_filterMap.2 ⟨"LoneAnonymousOperation", by decide, rfl⟩
  have hd : (defaultRules.map (·.name)).Nodup := by decide
  have hu : validate [loneAnonymousOperation] s d =
      .ok (errs.filter fun x => decide (x.rule = loneAnonymousOperation.name)) := by
    unfold validate at *
    obtain ⟨evs, hw, hrun⟩ := validateV_ok_iff.1 h
    apply validateV_ok_iff.2
    refine ⟨evs, hw, ?_⟩
    exact runAll_filter hrun (by rw [rnames_start]; exact hd) (Rule.start loneAnonymousOperation)
      (List.mem_map.2 ⟨_, hmem, rfl⟩)
  rw [← C08_LoneAnonymousOperation s d, hu]
  constructor
  · intro h; rw [h]
  · intro h; injection h


/-! ## OverlappingFieldsCanBeMerged -/

/-
  C08 — validation accepts exactly what the rules allow: the part about
  OverlappingFieldsCanBeMerged (the repaired algorithm: `sameValue` compares children, R8g;
  `doTypesConflict` tests nullability at every level and lets a leaf type conflict with every other
  type, R8h; (selection set, fragment) comparisons are memoised, so a repeated comparison reports
  nothing — soundness is not affected by what the memos contain).

  Full statement (NOT proved — completeness is explored against the executable naive spec by the
  harness, DESIGN C08):

      theorem C08_Overlapping (s : Schema) (d : QueryDoc) (hs : Closed s) (hc : NoFragmentCycles d) :
          ruleErrors overlappingFieldsCanBeMerged s d = [] ↔ FieldSelectionMerging s d

  Proved here: SOUNDNESS of every reported conflict (`C08_overlap_sound_partial`) — each error of
  the rule is the rendering of a conflict tree in which every leaf names two field nodes of the
  document (of the selection set the observer was called for, or of a fragment definition) with the
  same response name, and
    * a "different fields" / "differing arguments" leaf only occurs where neither the two fields
      nor any enclosing pair of fields was found to be mutually exclusive (two different Object
      parent types), the field names differ / are equal and the arguments are not identical in the
      sense of `ArgsSame` — exactly the situations in which §5.3.2 FieldsInSetCanMerge demands
      equal names and identical arguments, so no spec-valid document is rejected by these branches;
    * a "conflicting types" leaf only occurs where both field definitions are known and
      `doTypesConflict` holds of the two declared types.
  Missing for the full statement: that the two fields of a nested leaf are reachable from the two
  enclosing fields (sub-selections followed through spreads), that `doTypesConflict` is the
  negation of SameResponseShape's type test, and completeness.
-/
open Gql Gql.Validate Gql.Validate.Rules

/-- Every conflict reported by one observer call (`findConflictsWithinSelectionSet`) is sound. -/
theorem C08_overlap_sound_partial (s : SV) (d : QueryDoc) (l : Links) (parent : Option Definition)
    (sels : Selections) (st st' : OSt) (cs : List Conflict)
    (h : overlapRun s d l parent sels st = some (st', cs)) :
    ∀ c ∈ cs, Sound s (univOf d sels) false c :=
  overlapRun_sound s d l parent sels st (st', cs) h

/-- … hence every error the rule adds is the rendering (`Conflict.toErr`: message, single location
    `At(m.Position)`) of a sound conflict. -/
theorem C08_overlap_errors_sound (s : SV) (d : QueryDoc) (P P' : OSt) (e : Event) (errs : List RErr)
    (h : overlappingFieldsStep s d P e = .ok P' errs) :
    errs = [] ∨ ∃ (sels : Selections) (cs : List Conflict), errs = cs.map Conflict.toErr ∧ ∀ c ∈ cs, Sound s (univOf d sels) false c := by
  have run : ∀ (parent : Option Definition) (sels : Selections),
      (match overlapRun s d e.links parent sels P with
        | none => StepOut.panic overlapOutOfFuel
        | some (P', cs) => StepOut.ok P' (cs.map Conflict.toErr)) = .ok P' errs →
      errs = [] ∨ ∃ (sels : Selections) (cs : List Conflict), errs = cs.map Conflict.toErr ∧ ∀ c ∈ cs, Sound s (univOf d sels) false c := by
    intro parent sels h
    cases hr : overlapRun s d e.links parent sels P with
    | none => rw [hr] at h; cases h
    | some r =>
      obtain ⟨P1, cs⟩ := r
      rw [hr] at h
      simp only at h
      injection h with h1 h2
      exact Or.inr ⟨sels, cs, h2.symm, C08_overlap_sound_partial s d e.links parent sels P P1 cs hr⟩
  unfold overlappingFieldsStep at h
  simp only at h
  split at h
  · exact run _ _ h
  · split at h
    · injection h with _ h2; exact Or.inl h2.symm
    · exact run _ _ h
  · exact run _ _ h
  · exact run _ _ h
  · injection h with _ h2; exact Or.inl h2.symm

theorem msgConflictingTypes_head (X : Bytes) : (msgConflictingTypes ++ X).head? = some 116 := by
  have : msgConflictingTypes = 116 :: msgConflictingTypes.tail := by decide
  rw [this]
  rfl

/-- A reported `"x" and "y" are different fields` (a leaf whose message starts with `"`): the
    document contains two field nodes with that response name and different field names, and
    neither they nor any enclosing pair were found to lie on two different Object types. -/
theorem C08_overlap_different_fields_sound (s : SV) (U : Univ) (pe : Bool) (rn msg : Bytes) (pos : Pos)
    (h : Sound s U pe (.mk rn msg [] pos)) (hq : msg.head? = some 34) :
    ∃ a b, Good U a ∧ Good U b ∧ responseName a.node = rn ∧ responseName b.node = rn ∧
      a.node.name ≠ b.node.name ∧ pe = false ∧ goExcl a b = false ∧ pos = b.node.pos ∧
      msg = dq a.node.name ++ andSep ++ dq b.node.name ++ msgDifferentFields := by
  cases h with
  | differentFields ha hb hrn hpe hex hne => exact ⟨_, _, ha, hb, rfl, hrn.symm, hne, hpe, hex, rfl, rfl⟩
  | differingArguments => exact absurd hq (by decide)
  | conflictingTypes =>
    simp only [typesConflictMsg, List.append_assoc] at hq
    rw [msgConflictingTypes_head] at hq
    exact absurd hq (by decide)

/-- A reported "they have differing arguments": two field nodes with that response name and the
    same field name whose argument lists are not identical (`ArgsSame`), not known to be exclusive. -/
theorem C08_overlap_differing_arguments_sound (s : SV) (U : Univ) (pe : Bool) (rn : Bytes) (pos : Pos)
    (h : Sound s U pe (.mk rn msgDifferingArguments [] pos)) :
    ∃ a b, Good U a ∧ Good U b ∧ responseName a.node = rn ∧ responseName b.node = rn ∧
      a.node.name = b.node.name ∧ pe = false ∧ goExcl a b = false ∧ pos = b.node.pos ∧
      ¬ ArgsSame a.node.args b.node.args := by
  generalize hm : msgDifferingArguments = msg at h
  cases h with
  | differentFields ha hb hrn hpe hex hne =>
    have := congrArg List.head? hm
    simp only [dq, List.cons_append, List.head?_cons] at this
    exact absurd this (by decide)
  | differingArguments ha hb hrn hpe hex hn hargs => exact ⟨_, _, ha, hb, rfl, hrn.symm, hn, hpe, hex, rfl, hargs⟩
  | conflictingTypes =>
    have h6 := congrArg (List.take 6) hm
    have e1 : msgConflictingTypes = str "they r" ++ str "eturn conflicting types " := by rfl
    simp only [typesConflictMsg, e1, List.append_assoc] at h6
    rw [List.take_left' (by rfl)] at h6
    exact absurd h6 (by decide)

/-- A reported "they return conflicting types": both field definitions are known and
    `doTypesConflict` holds of the declared types that the message prints. -/
theorem C08_overlap_conflicting_types_sound (s : SV) (U : Univ) (pe : Bool) (rn msg : Bytes) (pos : Pos)
    (h : Sound s U pe (.mk rn msg [] pos)) (hq : msg.take 6 = str "they r") :
    ∃ a b da db, Good U a ∧ Good U b ∧ responseName a.node = rn ∧ responseName b.node = rn ∧
      a.dfn = some da ∧ b.dfn = some db ∧ doTypesConflict s da.type db.type = true ∧ pos = b.node.pos ∧
      msg = typesConflictMsg da.type db.type := by
  cases h with
  | differentFields =>
    have := congrArg List.head? hq
    simp only [dq, List.cons_append, List.take_succ_cons, List.head?_cons] at this
    exact absurd this (by decide)
  | differingArguments => exact absurd hq (by decide)
  | conflictingTypes ha hb hrn hda hdb hc => exact ⟨_, _, _, _, ha, hb, rfl, hrn.symm, hda, hdb, hc, rfl, rfl⟩

/-- `sameArguments` decides `ArgsSame`, `sameValue` decides `ValSame` (order-insensitive for the
    fields of input objects and for arguments, ordered for list items; kinds and raw text equal). -/
theorem C08_overlap_sameArguments_spec (as bs : List Argument) : sameArguments as bs = true ↔ ArgsSame as bs :=
  sameArguments_iff as bs

theorem C08_overlap_sameValue_spec (v1 v2 : Value) : sameValue v1 v2 = true ↔ ValSame v1 v2 :=
  sameValue_iff v1 v2

/-- The "differing arguments" branch never fires on two argument lists with the same text
    (argument by argument, equal up to source positions) whose object literals have pairwise distinct
    field names (which UniqueInputFieldNames demands): identical fields are never reported. -/
theorem C08_overlap_identical_arguments_accepted (as bs : List Argument)
    (hu : ∀ a ∈ as, UniqueFields a.value)
    (he : as.map (fun a => (a.name, eraseV a.value)) = bs.map (fun b => (b.name, eraseV b.value))) :
    sameArguments as bs = true :=
  sameArguments_of_erase_eq as bs hu he

/-- non-vacuity, kernel-checked: `{ a: id a: u { id } }` is rejected with exactly this error … -/
example : validate [overlappingFieldsCanBeMerged] OverlapWitness.schema OverlapWitness.docDifferent =
    .ok [{ rule := str "OverlappingFieldsCanBeMerged",
           msg := str "Fields \"a\" conflict because \"id\" and \"u\" are different fields. Use different aliases on the fields to fetch both if this was intentional.",
           locs := [(1, 9)] }] := by
  decide +kernel

/-- … and `{ u { a: id } u { a: x } }` with a nested conflict -/
example : validate [overlappingFieldsCanBeMerged] OverlapWitness.schema OverlapWitness.docNested =
    .ok [{ rule := str "OverlappingFieldsCanBeMerged",
           msg := str "Fields \"u\" conflict because subfields \"a\" conflict because \"id\" and \"x\" are different fields. Use different aliases on the fields to fetch both if this was intentional.",
           locs := [(1, 15)] }] := by
  decide +kernel

#print axioms C08_overlap_sound_partial
#print axioms C08_overlap_identical_arguments_accepted
#print axioms C08_overlap_errors_sound
#print axioms C08_overlap_different_fields_sound
#print axioms C08_overlap_differing_arguments_sound
#print axioms C08_overlap_conflicting_types_sound
#print axioms C08_overlap_sameArguments_spec
#print axioms C08_overlap_sameValue_spec

/- SingleFieldSubscriptions (§5.2.3.1, no equivalence theorem yet): a fragment contributes root fields
   only if its type condition can apply to the subscription root type (`topApplies`).  Witnesses on
   a schema whose subscription root is `S` (`T` is not a type that can be `S`): -/
namespace SingleRootWitness
def schema : Schema := { Schema.empty with subscription := some (str "S") }
def fld (n : String) : Selection := .field [] (str n) [] [] .nil Pos.zero
/-- `subscription { ... on <tc> { a } b }` -/
def doc (tc : String) : QueryDoc :=
  { ops := [{ op := opSubscription, name := [], vars := [], dirs := [],
              sel := .cons (.inline (str tc) [] (.cons (fld "a") .nil) Pos.zero) (.cons (fld "b") .nil), pos := Pos.zero }],
    frags := [] }
end SingleRootWitness

/-- `subscription { ... on T { a } b }`: `a` sits below a type condition that cannot apply, one root field -/
example : validate [singleFieldSubscriptions] SingleRootWitness.schema (SingleRootWitness.doc "T") = .ok [] := by decide

/-- `subscription { ... on S { a } b }`: two root fields, one error -/
example : (match validate [singleFieldSubscriptions] SingleRootWitness.schema (SingleRootWitness.doc "S") with
    | .ok [_] => true
    | _ => false) = true := by decide
