import GqlProofs.ValSpec.Local
import GqlProofs.ValSpec.Stateful
import GqlProofs.ValSpec.Spreads
import GqlProofs.ValSpec.KnownDirs
import GqlProofs.ValSpec.LeafFrag
import GqlProofs.ValSpec.TypeRules
import GqlProofs.ValSpec.Cycles
import GqlProofs.ValSpec.InputFields
import GqlProofs.ValSpec.SingleRootFinal
import GqlProofs.ValSpec.SingleRootEx
import GqlProofs.ValSpec.IntrospectionLinks
import GqlProofs.ValSpec.PossibleSpreads
import GqlProofs.ValSpec.UnusedFragments
import GqlProofs.ValSpec.VarRules
import GqlProofs.ValSpec.VarPosition
import GqlProofs.ValSpec.ValuesCorrectFinal
import GqlProofs.Validate.OverlapSound
import GqlProofs.Props.C18
import GqlProofs.Validate.OverlapWitness
import GqlProofs.EndToEnd.Parsed
import GqlProofs.EndToEnd.Loaded
import GqlProofs.EndToEnd.ParsedSchemaTree
import GqlProofs.EndToEnd.LoadedWP
import GqlProofs.Validate.OverlapIds
import GqlProofs.EndToEnd.RootKeys
import GqlProofs.EndToEnd.ParsedSelStarts
import GqlProofs.EndToEnd.SourceOutcome
import GqlProofs.EndToEnd.Prelude
/-
  C08 — validation accepts exactly what the rules allow.

  The specification side is `GqlModel/Validate/Spec` (`Spec.specValid`, one Boolean predicate per
  section of the October 2021 specification, over a declarative typing of the document).  The
  validator side is `validate rules s d` (`GqlModel/Validate/Engine.lean`), the model of
  `validator.Validate` that the driver runs; by `C18_union` the errors a rule contributes to any
  rule set are the errors of `validate [rule] s d`, so each theorem below is stated for the
  one-rule run: "the rule reports nothing ⇔ its specification predicate holds".

  Proved here (complete equivalences, no hypothesis on the schema or the document):
    C08_LoneAnonymousOperation   §5.2.2.1
    C08_UniqueVariableNames      §5.8.1
    C08_UniqueFragmentNames      §5.5.1.1
    C08_UniqueOperationNames     §5.2.1.1 (together with "at most one anonymous operation", which
                                 is what the rule really tests: `_iff`; under LoneAnonymousOperation
                                 it is the specification predicate: `C08_UniqueOperationNames`)
    C08_KnownFragmentNames       §5.5.2.1
  and, for documents whose operation kinds are the ones the parser produces (`query`, `mutation`,
  `subscription`, shorthand — `parserOpKinds`; the walker's directive location of any other kind
  is the empty string):
    C08_UniqueArgumentNames      §5.4.2
    C08_KnownDirectives          §5.7.1 ∧ §5.7.2
    C08_UniqueDirectivesPerLocation   §5.7.3, for documents whose directives are all defined (the
                                 rule counts an undefined directive as non-repeatable, the
                                 specification cannot know; `_complete`: without that hypothesis a
                                 silent rule still implies the specification predicate)
  These rest on the coverage lemmas of `GqlProofs/ValSpec` (`walkDoc_cov`, `walkDoc_hasItems`,
  `docSels_iff`, `directiveSites_iff`): the field / directive / directive-list events of a run are
  exactly the field nodes and directive lists the specification quantifies over.

  and, through `walk_parent_type` (`GqlProofs/ValSpec/TypedBridge.lean`: for a well-parented
  document — `Spec.wellParented`: every selection is written where the type in scope is composite,
  and `__typename` is not selected where that type is undetermined — the walker's parent
  definition and field definition of every field node are the declarative ones of `Spec.docSels`):
    C08_FieldsOnCorrectType      §5.3.1
    C08_KnownArgumentNames       §5.4.1
    C08_ProvidedRequiredArguments §5.4.2.1
    C08_ScalarLeafs              §5.3.3 (field types are output types: `Spec.fieldTypesAreOutputTypes`)
    C08_FragmentsOnCompositeTypes §5.5.1.3 (no hypothesis on the document; no type has the empty name)
  `Spec.wellParented` fails only for documents that both sides reject (it needs a fragment on a
  non-composite type, a sub-selection on a leaf, an undefined field / root type / type condition
  with `__typename` below it); outside it the walker gives `__typename` a definition on any parent
  and finds the input fields of an input object used as a parent, which the rule-by-rule comparison
  of the check masks for the same reason.

  Second group (helper files `GqlProofs/ValSpec/{ReachClosure,ScopeSound,ScopeComplete,ScopeLinks,ValBlocks,…}.lean`:
  `Spec.reachFrom` is the reflexive-transitive closure of "spreads through defined fragments";
  per-operation scope of the walk — an event fired while `CurrentOperation = op` is about a node /
  directive list written in `op` or in a fragment definition reachable from it, and every such node
  has its event and is marked as linked at the `operation` event; the value events of a run are the
  typed sites of the argument lists of its `field` / `directive` events and of the variable defaults):
    C08_UniqueInputFieldNames    §5.6.3 (values shaped as the parser builds them: only list and object
                                 literals have children — the specification predicate also looks below
                                 other kinds, the walker like Go does not)
    C08_KnownTypeNames           §5.5.1.2 ∧ existence of variable types (no hypothesis); `…WithoutSuggestions`
    C08_VariablesAreInputTypes   §5.8.2 (masked by the existence of the variable types; `_iff`: what the
                                 rule really tests; joint form with KnownTypeNames without hypothesis)
    C08_KnownRootType            library rule (no hypothesis: an unparseable operation kind makes the rule
                                 panic and the specification predicate false); `_panic_iff`
    C08_NoFragmentCycles         §5.5.2.2 (masked by fragment name uniqueness; unconditionally the rule
                                 decides `Acyclic`; the direction specification ⇒ silent needs nothing)
    C08_NoUnusedFragments        §5.5.1.4 (masked by NoFragmentCycles and fragment name uniqueness: the rule
                                 asks for reachability from an operation — plus the "first fragment quirk" —,
                                 the specification text for a spread anywhere; `_complete`, `_reach`)
    C08_NoUndefinedVariables     §5.8.3, C08_NoUnusedVariables §5.8.4 (fragment name uniqueness, constant
                                 default values; variable name uniqueness for the second)
    C08_PossibleFragmentSpreads  §5.5.2.3 (well-parented document, no type named "", `possibleOK s`:
                                 `GetPossibleTypes` is what the definitions imply — loaded schemas: `_loaded`)
    C08_SingleFieldSubscriptions §5.2.3.1 (`subscriptionRootExact s`; spreads defined, fragment definitions
                                 have a type condition, at least one root field is collected, equal response
                                 keys mean equal field names; `_exact`: the rule in its own terms; `_loaded`)
    C08_MaxIntrospectionDepth    library rule (masked by NoFragmentCycles; `_sound` without hypothesis)
    C08_VariablesInAllowedPosition §5.8.5 MODULO the recorded finding (the rule ignores the default value of
                                 the LOCATION): `_iff` is the rule-exact characterisation (location default
                                 ignored), `C08_VariablesInAllowedPosition` / `_harmless` the equivalence
                                 where no usage depends on a location default, `_complete` the direction
                                 that always holds, `_counterexample_location_default` the witness.
    C08_ValuesOfCorrectType      §5.6.1 / 5.6.2 / 5.6.4 and the `@oneOf` clauses (`Spec.valuesOfCorrectType ∧
                                 Spec.oneOfVariablesNonNull`): well-parented document, fragment name
                                 uniqueness, constant defaults, `schemaOK s` (a definition named like a
                                 built-in scalar is that scalar, scalars declare no fields, input-field types
                                 resolve to input types), `rootsInput` (declared types of typed values resolve
                                 to input types), `numLiteralsOK` (numeric literals are lexemes on which the
                                 library's conversion and the specification's range tests agree — PROVED for
                                 IntValue lexemes of any size, hypothesis for FloatValue texts:
                                 `C08_ValuesOfCorrectType_numeric_hypothesis`), `leavesWellFormed`,
                                 `usePosDistinct`; `_loaded`, `_partial` (no
                                 `@oneOf`), `_closed`, `_complete`.
  Every hypothesis has a satisfiability example and (where one exists) a kernel-checked
  counterexample next to the theorem or in `GqlProofs/ValSpec/*Ex.lean`.

  FINDING met on the way, since REPAIRED in the library ("an integer literal beyond the range of a
  double is not a Float"; the model follows): an IntValue that does not fit a finite double, given
  where a Float is expected (`{ f(a: 1<309 zeros>) }` with `a: Float`), was accepted by
  ValuesOfCorrectType — the Int-at-Float branch had no range test — and rejected by
  `Spec.valuesOfCorrectType` (§3.5.2).  Now `C08_ValuesOfCorrectType_int_beyond_double_rejected`,
  `C08_ValuesOfCorrectType_int_double_boundary`; the part of `numLiteralsOK` that excluded the case
  is gone (an IntValue lexeme of ANY size satisfies its part: `numLeafOK_int_of_lexeme`).

  Capstone: C08_default_rules_iff_spec_partial — the 26 default rules above run TOGETHER report
  nothing iff the 27 predicates of `Spec.specVerdicts` they stand for hold (all but field merging
  §5.3.2), under `C08Hyps` (parser shape of the document, loader invariants of the schema, and the
  side conditions named above that are not specification predicates themselves); the masked forms
  need no hypothesis there.

  END TO END (section at the bottom of this file; proofs in `GqlProofs/EndToEnd/`): every hypothesis of
  `C08Hyps` that is about the SHAPE of the document is an invariant of parser output
  (`parsed_kinds`, `parsed_valuesShaped`, `parsed_constDefaults`, `parsed_typeConds`,
  `parsed_numLiteralsOK` — the Float half included, `Gql.EndToEnd.float_lexeme_agree` —,
  `parsed_leavesWellFormed`, `parsed_usePosDistinct`: `GqlProofs/EndToEnd/Parsed.lean`), every
  hypothesis about the schema alone is an invariant of loader output (`loaded_*`,
  `GqlProofs/EndToEnd/Loaded.lean`; `rootTypesAreObjects` included since the repair of the root kinds);
  `C08_parsed_loaded_iff_spec` is the capstone over a SOURCE TEXT and a
  loaded schema, with only the semantic side conditions left (`C08SemanticHyps`);
  `C08_sources_iff_spec` takes the schema as source texts too (`ParseSchemas` → `load`).
  `Spec.wellParented` is NOT an invariant of parser / loader output but a consequence of EITHER side of
  the equivalence (`C08_wellParented_of_spec`, `C08_wellParented_of_rules`, `C08_wellParented_of_valid`;
  `GqlProofs/EndToEnd/WellParented.lean`), so `C08_sources_iff_spec_wp` / `C08_parsed_loaded_iff_spec_wp`
  need only `C08ResidualHyps` (selectRoot, rootKeys, defaultedLocations) and the prelude.

  NOT finished (the full statement, kept as the goal):
    C08_verdict : Closed s → (validate defaultRules s d = .ok [] ↔ Spec.specValid s d = true)
  It is FALSE for the current tree as stated: the recorded finding about VariablesInAllowedPosition
  (DESIGN §7 R8e, KNOWN_FINDINGS) is a counterexample; and the
  hypotheses of `C08Hyps` that are not consequences of `Closed s` + "parsed document" mark inputs on
  which single rules and their predicates differ while both sides reject (the check compares those
  under masks).  The one rule without an equivalence theorem: OverlappingFieldsCanBeMerged
  (soundness of every reported conflict is proved below).
-/
open Gql Gql.Validate Gql.Validate.Rules

/-- §5.2.2.1 — LoneAnonymousOperation reports nothing iff the specification predicate holds -/
theorem C08_LoneAnonymousOperation (s : Schema) (d : QueryDoc) :
    validate [loneAnonymousOperation] s d = .ok [] ↔ Spec.loneAnonymousOperation d = true := by
  obtain ⟨evs, hw⟩ := walkDoc_isSome s.view d
  have hev := (walkDoc_events s.view d evs hw).1
  unfold loneAnonymousOperation
  rw [validate_stateless_nil s d _ _ evs hw]
  have key : (∀ e ∈ evs, loneAnonymousOperationStep s.view d e = []) ↔
      ∀ op ∈ d.ops, ¬ (op.name = [] ∧ d.ops.length > 1) := by
    constructor
    · intro h op hop
      rw [← hev] at hop
      obtain ⟨e, he, u, hp⟩ := mem_opEvents.1 hop
      have := h e he
      simp only [loneAnonymousOperationStep, hp] at this
      rintro ⟨h1, h2⟩
      simp [h1, h2] at this
    · intro h e he
      unfold loneAnonymousOperationStep
      split
      · rename_i op u hp
        have hop : op ∈ d.ops := hev ▸ mem_opEvents.2 ⟨e, he, u, hp⟩
        have := h op hop
        split
        · rename_i hc
          simp only [Bool.and_eq_true, beq_iff_eq, decide_eq_true_eq] at hc
          exact absurd hc this
        · rfl
      · rfl
  rw [key]
  unfold Spec.loneAnonymousOperation
  simp only [Bool.or_eq_true, decide_eq_true_eq, List.all_eq_true, bne_iff_ne, ne_eq, not_and]
  constructor
  · intro h
    by_cases hl : d.ops.length ≤ 1
    · exact Or.inl hl
    · refine Or.inr fun op hop hn => ?_
      exact h op hop hn (by omega)
  · rintro (h | h) op hop hn hl
    · omega
    · exact h op hop hn

/-- §5.8.1 — UniqueVariableNames reports nothing iff the variables of every operation have
    different names -/
theorem C08_UniqueVariableNames (s : Schema) (d : QueryDoc) :
    validate [uniqueVariableNames] s d = .ok [] ↔ Spec.variableUniqueness d = true := by
  obtain ⟨evs, hw⟩ := walkDoc_isSome s.view d
  have hev := (walkDoc_events s.view d evs hw).1
  unfold uniqueVariableNames
  rw [validate_stateless_nil s d _ _ evs hw]
  unfold Spec.variableUniqueness
  simp only [List.all_eq_true]
  rw [← hev]
  constructor
  · intro h op hop
    obtain ⟨e, he, u, hp⟩ := mem_opEvents.1 hop
    have := h e he
    simp only [uniqueVariableNamesStep, hp] at this
    rw [distinct_iff_nodup, ← freshFrom_nil]
    exact (dupVars_nil_iff op.vars [] List.nodup_nil).1 this
  · intro h e he
    unfold uniqueVariableNamesStep
    cases hp : e.p <;> simp only
    rename_i op u
    have := h op (mem_opEvents.2 ⟨e, he, u, hp⟩)
    rw [distinct_iff_nodup, ← freshFrom_nil] at this
    exact (dupVars_nil_iff op.vars [] List.nodup_nil).2 this

/-- §5.5.1.1 — UniqueFragmentNames reports nothing iff the fragment definitions have different names -/
theorem C08_UniqueFragmentNames (s : Schema) (d : QueryDoc) :
    validate [uniqueFragmentNames] s d = .ok [] ↔ Spec.fragmentNameUniqueness d = true := by
  obtain ⟨evs, hw⟩ := walkDoc_isSome s.view d
  have hev := (walkDoc_events s.view d evs hw).2
  rw [validate_uniqueFragmentNames s d evs hw, hev]
  unfold Spec.fragmentNameUniqueness
  rw [distinct_iff_nodup]

/-- what UniqueOperationNames really tests: all operation names, the empty name of anonymous
    operations included, are different -/
theorem C08_UniqueOperationNames_iff (s : Schema) (d : QueryDoc) :
    validate [uniqueOperationNames] s d = .ok [] ↔
      (Spec.operationNameUniqueness d = true ∧ (d.ops.filter (·.name == [])).length ≤ 1) := by
  obtain ⟨evs, hw⟩ := walkDoc_isSome s.view d
  have hev := (walkDoc_events s.view d evs hw).1
  rw [validate_uniqueOperationNames s d evs hw, hev]
  unfold Spec.operationNameUniqueness
  rw [distinct_iff_nodup]
  exact nodup_names_split d.ops

/-- §5.2.1.1 — for a document that satisfies LoneAnonymousOperation, UniqueOperationNames reports
    nothing iff the named operations have different names -/
theorem C08_UniqueOperationNames (s : Schema) (d : QueryDoc) (hl : Spec.loneAnonymousOperation d = true) :
    validate [uniqueOperationNames] s d = .ok [] ↔ Spec.operationNameUniqueness d = true := by
  rw [C08_UniqueOperationNames_iff]
  constructor
  · exact fun h => h.1
  · intro h
    refine ⟨h, ?_⟩
    unfold Spec.loneAnonymousOperation at hl
    simp only [Bool.or_eq_true, decide_eq_true_eq, List.all_eq_true, bne_iff_ne, ne_eq] at hl
    rcases hl with hl | hl
    · exact Nat.le_trans (List.length_filter_le _ _) hl
    · have : d.ops.filter (·.name == []) = [] := by
        apply List.filter_eq_nil_iff.2
        intro op hop
        simpa using hl op hop
      rw [this]
      simp

/-- §5.5.2.1 — KnownFragmentNames reports nothing iff every spread written in the document names a
    defined fragment -/
theorem C08_KnownFragmentNames (s : Schema) (d : QueryDoc) :
    validate [knownFragmentNames] s d = .ok [] ↔ Spec.fragmentSpreadTargetDefined d = true := by
  obtain ⟨evs, hw⟩ := walkDoc_isSome s.view d
  unfold knownFragmentNames
  rw [validate_stateless_nil s d _ _ evs hw]
  exact knownFragmentNames_iff s d evs hw

/-- §5.4.2 — UniqueArgumentNames reports nothing iff no field or directive is given two arguments
    of one name -/
theorem C08_UniqueArgumentNames (s : Schema) (d : QueryDoc) (hk : ∀ op ∈ d.ops, op.op ∈ parserOpKinds) :
    validate [uniqueArgumentNames] s d = .ok [] ↔ Spec.argumentUniqueness s d = true := by
  obtain ⟨evs, hw⟩ := walkDoc_isSome s.view d
  unfold uniqueArgumentNames
  rw [validate_stateless_nil s d _ _ evs hw]
  exact uniqueArgumentNames_iff s d evs hw hk

/-- §5.7.1 and §5.7.2 — KnownDirectives reports nothing iff every directive is defined and is used
    in a location its definition lists -/
theorem C08_KnownDirectives (s : Schema) (d : QueryDoc) (hk : ∀ op ∈ d.ops, op.op ∈ parserOpKinds) :
    validate [knownDirectives] s d = .ok [] ↔
      (Spec.directivesAreDefined s d = true ∧ Spec.directivesInValidLocations s d = true) := by
  obtain ⟨evs, hw⟩ := walkDoc_isSome s.view d
  rw [validate_knownDirectives s d evs hw]
  exact knownDirectives_iff s d evs hw hk

/-- §5.7.3 — for a document whose directives are all defined, UniqueDirectivesPerLocation reports
    nothing iff no location carries a non-repeatable directive twice -/
theorem C08_UniqueDirectivesPerLocation (s : Schema) (d : QueryDoc) (hk : ∀ op ∈ d.ops, op.op ∈ parserOpKinds)
    (hdef : Spec.directivesAreDefined s d = true) :
    validate [uniqueDirectivesPerLocation] s d = .ok [] ↔ Spec.directivesUniquePerLocation s d = true := by
  obtain ⟨evs, hw⟩ := walkDoc_isSome s.view d
  unfold uniqueDirectivesPerLocation
  rw [validate_stateless_nil s d _ _ evs hw]
  exact uniqueDirectivesPerLocation_iff s d evs hw hk hdef

/-- §5.7.3, one direction without the hypothesis: whenever UniqueDirectivesPerLocation reports
    nothing the specification predicate holds (no violation goes unreported) -/
theorem C08_UniqueDirectivesPerLocation_complete (s : Schema) (d : QueryDoc)
    (hk : ∀ op ∈ d.ops, op.op ∈ parserOpKinds) (h : validate [uniqueDirectivesPerLocation] s d = .ok []) :
    Spec.directivesUniquePerLocation s d = true := by
  obtain ⟨evs, hw⟩ := walkDoc_isSome s.view d
  unfold uniqueDirectivesPerLocation at h
  rw [validate_stateless_nil s d _ _ evs hw] at h
  exact uniqueDirectivesPerLocation_complete s d evs hw hk h

/-- §5.3.1 — for a well-parented document FieldsOnCorrectType reports nothing iff every field is
    defined on the type in scope -/
theorem C08_FieldsOnCorrectType (s : Schema) (d : QueryDoc) (hwp : Spec.wellParented s d = true) :
    validate [fieldsOnCorrectType] s d = .ok [] ↔ Spec.fieldSelections s d = true := by
  obtain ⟨evs, hw⟩ := walkDoc_isSome s.view d
  unfold fieldsOnCorrectType
  rw [validate_stateless_nil s d _ _ evs hw]
  exact fieldsOnCorrectType_iff s d evs hw hwp

/-- §5.4.1 — KnownArgumentNames reports nothing iff every argument of a field or directive is
    defined by it -/
theorem C08_KnownArgumentNames (s : Schema) (d : QueryDoc) (hwp : Spec.wellParented s d = true)
    (hk : ∀ op ∈ d.ops, op.op ∈ parserOpKinds) :
    validate [knownArgumentNames] s d = .ok [] ↔ Spec.argumentNames s d = true := by
  obtain ⟨evs, hw⟩ := walkDoc_isSome s.view d
  unfold knownArgumentNames
  rw [validate_stateless_nil s d _ _ evs hw]
  exact knownArgumentNames_iff s d evs hw hwp hk

/-- §5.4.2.1 — ProvidedRequiredArguments reports nothing iff every required argument of a field or
    directive is given -/
theorem C08_ProvidedRequiredArguments (s : Schema) (d : QueryDoc) (hwp : Spec.wellParented s d = true)
    (hk : ∀ op ∈ d.ops, op.op ∈ parserOpKinds) :
    validate [providedRequiredArguments] s d = .ok [] ↔ Spec.requiredArguments s d = true := by
  obtain ⟨evs, hw⟩ := walkDoc_isSome s.view d
  unfold providedRequiredArguments
  rw [validate_stateless_nil s d _ _ evs hw]
  exact providedRequiredArguments_iff s d evs hw hwp hk

/-- §5.3.3 — ScalarLeafs reports nothing iff leaf fields have no sub-selection and composite fields
    have one -/
theorem C08_ScalarLeafs (s : Schema) (d : QueryDoc) (hwp : Spec.wellParented s d = true)
    (hout : Spec.fieldTypesAreOutputTypes s d = true) :
    validate [scalarLeafs] s d = .ok [] ↔ Spec.leafFieldSelections s d = true := by
  obtain ⟨evs, hw⟩ := walkDoc_isSome s.view d
  unfold scalarLeafs
  rw [validate_stateless_nil s d _ _ evs hw]
  exact scalarLeafs_iff s d evs hw hwp hout

/-- §5.5.1.3 — FragmentsOnCompositeTypes reports nothing iff every type condition that names a type
    names a composite one -/
theorem C08_FragmentsOnCompositeTypes (s : Schema) (d : QueryDoc) (hE : s.type? [] = none) :
    validate [fragmentsOnCompositeTypes] s d = .ok [] ↔ Spec.fragmentsOnCompositeTypes s d = true := by
  obtain ⟨evs, hw⟩ := walkDoc_isSome s.view d
  unfold fragmentsOnCompositeTypes
  rw [validate_stateless_nil s d _ _ evs hw]
  exact fragmentsOnCompositeTypes_iff s d evs hw hE

/-- the one-rule theorems transfer to any rule set with distinct names (C18): here for the default
    rule set and LoneAnonymousOperation -/
theorem C08_default_LoneAnonymousOperation (s : Schema) (d : QueryDoc) (errs : List Err)
    (h : validate defaultRules s d = .ok errs) :
    (errs.filter fun x => decide (x.rule = loneAnonymousOperation.name)) = [] ↔
      Spec.loneAnonymousOperation d = true := by
  have hmem : loneAnonymousOperation ∈ defaultRules :=
    List.mem_filterMap.2 ⟨"LoneAnonymousOperation", by decide, rfl⟩
  have hd : (defaultRules.map (·.name)).Nodup := by decide
  have hu : validate [loneAnonymousOperation] s d =
      .ok (errs.filter fun x => decide (x.rule = loneAnonymousOperation.name)) := by
    unfold validate at *
    obtain ⟨evs, hw, hrun⟩ := validateV_ok_iff.1 h
    apply validateV_ok_iff.2
    refine ⟨evs, hw, ?_⟩
    exact runAll_filter hrun (by rw [rnames_start]; exact hd) (Rule.start loneAnonymousOperation)
      (List.mem_map.2 ⟨_, hmem, rfl⟩)
  rw [← C08_LoneAnonymousOperation s d, hu]
  constructor
  · intro h; rw [h]
  · intro h; injection h


/-! ## OverlappingFieldsCanBeMerged -/

/-
  C08 — validation accepts exactly what the rules allow: the part about
  OverlappingFieldsCanBeMerged (the repaired algorithm: `sameValue` compares children, R8g;
  `doTypesConflict` tests nullability at every level and lets a leaf type conflict with every other
  type, R8h; (selection set, fragment) comparisons are memoised, so a repeated comparison reports
  nothing — soundness is not affected by what the memos contain).

  Full statement (PROVED at the end of this file as `C08_OverlappingFieldsCanBeMerged`, under the side
  conditions the other rules guarantee; this section holds the soundness half, which needs none):

      theorem C08_Overlapping (s : Schema) (d : QueryDoc) (hs : Closed s) (hc : NoFragmentCycles d) :
          ruleErrors overlappingFieldsCanBeMerged s d = [] ↔ FieldSelectionMerging s d

  Proved here: SOUNDNESS of every reported conflict (`C08_overlap_sound_partial`) — each error of
  the rule is the rendering of a conflict tree in which every leaf names two field nodes of the
  document (of the selection set the observer was called for, or of a fragment definition) with the
  same response name, and
    * a "different fields" / "differing arguments" leaf only occurs where neither the two fields
      nor any enclosing pair of fields was found to be mutually exclusive (two different Object
      parent types), the field names differ / are equal and the arguments are not identical in the
      sense of `ArgsSame` — exactly the situations in which §5.3.2 FieldsInSetCanMerge demands
      equal names and identical arguments, so no spec-valid document is rejected by these branches;
    * a "conflicting types" leaf only occurs where both field definitions are known and
      `doTypesConflict` holds of the two declared types.
  Missing for the full statement: that the two fields of a nested leaf are reachable from the two
  enclosing fields (sub-selections followed through spreads), that `doTypesConflict` is the
  negation of SameResponseShape's type test, and completeness.
-/
open Gql Gql.Validate Gql.Validate.Rules

/-- Every conflict reported by one observer call (`findConflictsWithinSelectionSet`) is sound. -/
theorem C08_overlap_sound_partial (s : SV) (d : QueryDoc) (l : Links) (parent : Option Definition)
    (sels : Selections) (st st' : OSt) (cs : List Conflict)
    (h : overlapRun s d l parent sels st = some (st', cs)) :
    ∀ c ∈ cs, Sound s (univOf d sels) false c :=
  overlapRun_sound s d l parent sels st (st', cs) h

/-- … hence every error the rule adds is the rendering (`Conflict.toErr`: message, single location
    `At(m.Position)`) of a sound conflict. -/
theorem C08_overlap_errors_sound (s : SV) (d : QueryDoc) (P P' : OSt) (e : Event) (errs : List RErr)
    (h : overlappingFieldsStep s d P e = .ok P' errs) :
    errs = [] ∨ ∃ (sels : Selections) (cs : List Conflict), errs = cs.map Conflict.toErr ∧ ∀ c ∈ cs, Sound s (univOf d sels) false c := by
  have run : ∀ (parent : Option Definition) (sels : Selections),
      (match overlapRun s d e.links parent sels P with
        | none => StepOut.panic overlapOutOfFuel
        | some (P', cs) => StepOut.ok P' (cs.map Conflict.toErr)) = .ok P' errs →
      errs = [] ∨ ∃ (sels : Selections) (cs : List Conflict), errs = cs.map Conflict.toErr ∧ ∀ c ∈ cs, Sound s (univOf d sels) false c := by
    intro parent sels h
    cases hr : overlapRun s d e.links parent sels P with
    | none => rw [hr] at h; cases h
    | some r =>
      obtain ⟨P1, cs⟩ := r
      rw [hr] at h
      simp only at h
      injection h with h1 h2
      exact Or.inr ⟨sels, cs, h2.symm, C08_overlap_sound_partial s d e.links parent sels P P1 cs hr⟩
  unfold overlappingFieldsStep at h
  simp only at h
  split at h
  · exact run _ _ h
  · split at h
    · injection h with _ h2; exact Or.inl h2.symm
    · exact run _ _ h
  · exact run _ _ h
  · exact run _ _ h
  · injection h with _ h2; exact Or.inl h2.symm

theorem msgConflictingTypes_head (X : Bytes) : (msgConflictingTypes ++ X).head? = some 116 := by
  have : msgConflictingTypes = 116 :: msgConflictingTypes.tail := by decide
  rw [this]
  rfl

/-- A reported `"x" and "y" are different fields` (a leaf whose message starts with `"`): the
    document contains two field nodes with that response name and different field names, and
    neither they nor any enclosing pair were found to lie on two different Object types. -/
theorem C08_overlap_different_fields_sound (s : SV) (U : Univ) (pe : Bool) (rn msg : Bytes) (pos : Pos)
    (h : Sound s U pe (.mk rn msg [] pos)) (hq : msg.head? = some 34) :
    ∃ a b, Good U a ∧ Good U b ∧ responseName a.node = rn ∧ responseName b.node = rn ∧
      a.node.name ≠ b.node.name ∧ pe = false ∧ goExcl a b = false ∧ pos = b.node.pos ∧
      msg = dq a.node.name ++ andSep ++ dq b.node.name ++ msgDifferentFields := by
  cases h with
  | differentFields ha hb hrn hpe hex hne => exact ⟨_, _, ha, hb, rfl, hrn.symm, hne, hpe, hex, rfl, rfl⟩
  | differingArguments => exact absurd hq (by decide)
  | conflictingTypes =>
    simp only [typesConflictMsg, List.append_assoc] at hq
    rw [msgConflictingTypes_head] at hq
    exact absurd hq (by decide)

/-- A reported "they have differing arguments": two field nodes with that response name and the
    same field name whose argument lists are not identical (`ArgsSame`), not known to be exclusive. -/
theorem C08_overlap_differing_arguments_sound (s : SV) (U : Univ) (pe : Bool) (rn : Bytes) (pos : Pos)
    (h : Sound s U pe (.mk rn msgDifferingArguments [] pos)) :
    ∃ a b, Good U a ∧ Good U b ∧ responseName a.node = rn ∧ responseName b.node = rn ∧
      a.node.name = b.node.name ∧ pe = false ∧ goExcl a b = false ∧ pos = b.node.pos ∧
      ¬ ArgsSame a.node.args b.node.args := by
  generalize hm : msgDifferingArguments = msg at h
  cases h with
  | differentFields ha hb hrn hpe hex hne =>
    have := congrArg List.head? hm
    simp only [dq, List.cons_append, List.head?_cons] at this
    exact absurd this (by decide)
  | differingArguments ha hb hrn hpe hex hn hargs => exact ⟨_, _, ha, hb, rfl, hrn.symm, hn, hpe, hex, rfl, hargs⟩
  | conflictingTypes =>
    have h6 := congrArg (List.take 6) hm
    have e1 : msgConflictingTypes = str "they r" ++ str "eturn conflicting types " := by rfl
    simp only [typesConflictMsg, e1, List.append_assoc] at h6
    rw [List.take_left' (by rfl)] at h6
    exact absurd h6 (by decide)

/-- A reported "they return conflicting types": both field definitions are known and
    `doTypesConflict` holds of the declared types that the message prints. -/
theorem C08_overlap_conflicting_types_sound (s : SV) (U : Univ) (pe : Bool) (rn msg : Bytes) (pos : Pos)
    (h : Sound s U pe (.mk rn msg [] pos)) (hq : msg.take 6 = str "they r") :
    ∃ a b da db, Good U a ∧ Good U b ∧ responseName a.node = rn ∧ responseName b.node = rn ∧
      a.dfn = some da ∧ b.dfn = some db ∧ doTypesConflict s da.type db.type = true ∧ pos = b.node.pos ∧
      msg = typesConflictMsg da.type db.type := by
  cases h with
  | differentFields =>
    have := congrArg List.head? hq
    simp only [dq, List.cons_append, List.take_succ_cons, List.head?_cons] at this
    exact absurd this (by decide)
  | differingArguments => exact absurd hq (by decide)
  | conflictingTypes ha hb hrn hda hdb hc => exact ⟨_, _, _, _, ha, hb, rfl, hrn.symm, hda, hdb, hc, rfl, rfl⟩

/-- `sameArguments` decides `ArgsSame`, `sameValue` decides `ValSame` (order-insensitive for the
    fields of input objects and for arguments, ordered for list items; kinds and raw text equal). -/
theorem C08_overlap_sameArguments_spec (as bs : List Argument) : sameArguments as bs = true ↔ ArgsSame as bs :=
  sameArguments_iff as bs

theorem C08_overlap_sameValue_spec (v1 v2 : Value) : sameValue v1 v2 = true ↔ ValSame v1 v2 :=
  sameValue_iff v1 v2

/-- The "differing arguments" branch never fires on two argument lists with the same text
    (argument by argument, equal up to source positions) whose object literals have pairwise distinct
    field names (which UniqueInputFieldNames demands): identical fields are never reported. -/
theorem C08_overlap_identical_arguments_accepted (as bs : List Argument)
    (hu : ∀ a ∈ as, UniqueFields a.value)
    (he : as.map (fun a => (a.name, eraseV a.value)) = bs.map (fun b => (b.name, eraseV b.value))) :
    sameArguments as bs = true :=
  sameArguments_of_erase_eq as bs hu he

/-- non-vacuity, kernel-checked: `{ a: id a: u { id } }` is rejected with exactly this error … -/
example : validate [overlappingFieldsCanBeMerged] OverlapWitness.schema OverlapWitness.docDifferent =
    .ok [{ rule := str "OverlappingFieldsCanBeMerged",
           msg := str "Fields \"a\" conflict because \"id\" and \"u\" are different fields. Use different aliases on the fields to fetch both if this was intentional.",
           locs := [(1, 9)] }] := by
  decide +kernel

/-- … and `{ u { a: id } u { a: x } }` with a nested conflict -/
example : validate [overlappingFieldsCanBeMerged] OverlapWitness.schema OverlapWitness.docNested =
    .ok [{ rule := str "OverlappingFieldsCanBeMerged",
           msg := str "Fields \"u\" conflict because subfields \"a\" conflict because \"id\" and \"x\" are different fields. Use different aliases on the fields to fetch both if this was intentional.",
           locs := [(1, 15)] }] := by
  decide +kernel

#print axioms C08_overlap_sound_partial
#print axioms C08_overlap_identical_arguments_accepted
#print axioms C08_overlap_errors_sound
#print axioms C08_overlap_different_fields_sound
#print axioms C08_overlap_differing_arguments_sound
#print axioms C08_overlap_conflicting_types_sound
#print axioms C08_overlap_sameArguments_spec
#print axioms C08_overlap_sameValue_spec

/- SingleFieldSubscriptions (§5.2.3.1; the equivalence is `C08_SingleFieldSubscriptions` below): a fragment contributes root fields
   only if its type condition can apply to the subscription root type (`topApplies`).  Witnesses on
   a schema whose subscription root is `S` (`T` is not a type that can be `S`): -/
namespace SingleRootWitness
def schema : Schema := { Schema.empty with subscription := some (str "S") }
def fld (n : String) : Selection := .field [] (str n) [] [] .nil Pos.zero
/-- `subscription { ... on <tc> { a } b }` -/
def doc (tc : String) : QueryDoc :=
  { ops := [{ op := opSubscription, name := [], vars := [], dirs := [],
              sel := .cons (.inline (str tc) [] (.cons (fld "a") .nil) Pos.zero) (.cons (fld "b") .nil), pos := Pos.zero }],
    frags := [] }
end SingleRootWitness

/-- `subscription { ... on T { a } b }`: `a` sits below a type condition that cannot apply, one root field -/
example : validate [singleFieldSubscriptions] SingleRootWitness.schema (SingleRootWitness.doc "T") = .ok [] := by decide

/-- `subscription { ... on S { a } b }`: two root fields, one error -/
example : (match validate [singleFieldSubscriptions] SingleRootWitness.schema (SingleRootWitness.doc "S") with
    | .ok [_] => true
    | _ => false) = true := by decide

/-! ## UniqueInputFieldNames -/
section C08
open Gql Gql.Validate Gql.Validate.Rules

/-- §5.6.3 — UniqueInputFieldNames reports nothing iff the fields of every input object literal of
    the document have different names (documents whose values have the parser's shape: only list
    and object literals have children) -/
theorem C08_UniqueInputFieldNames (s : Schema) (d : QueryDoc) (hsh : valuesShaped s d = true) :
    validate [uniqueInputFieldNames] s d = .ok [] ↔ Spec.inputObjectFieldUniqueness s d = true := by
  obtain ⟨evs, hw⟩ := walkDoc_isSome s.view d
  unfold uniqueInputFieldNames
  rw [validate_stateless_nil s d _ _ evs hw]
  exact uniqueInputFieldNames_iff s d evs hw hsh

/-- without the shape hypothesis: the specification predicate makes the rule silent -/
theorem C08_UniqueInputFieldNames_sound (s : Schema) (d : QueryDoc) (h : Spec.inputObjectFieldUniqueness s d = true) : validate [uniqueInputFieldNames] s d = .ok [] := by
  obtain ⟨evs, hw⟩ := walkDoc_isSome s.view d
  unfold uniqueInputFieldNames
  rw [validate_stateless_nil s d _ _ evs hw]
  exact uniqueInputFieldNames_sound s d evs hw h

/- The shape hypothesis.  `{ f(a: <v>) }` on the empty schema: -/
namespace InputFieldsWitness
def doc (v : Value) : QueryDoc :=
  { ops := [{ op := opQuery, name := [], vars := [], dirs := [],
              sel := .cons (.field [] (str "f") [⟨str "a", v, Pos.zero⟩] [] .nil Pos.zero) .nil, pos := Pos.zero }],
    frags := [] }
def int1 : Value := .mk .int (str "1") .nil Pos.zero
/-- `{x: 1, x: 1}` -/
def dupObj : Value := .mk .object [] (.cons (str "x") int1 Pos.zero (.cons (str "x") int1 Pos.zero .nil)) Pos.zero
/-- `[{x: 1, x: 1}]` -/
def dupInList : Value := .mk .list [] (.cons [] dupObj Pos.zero .nil) Pos.zero
/-- not a value the parser builds: an Int literal that has `{x: 1, x: 1}` as a child -/
def dupBelowInt : Value := .mk .int (str "1") (.cons [] dupObj Pos.zero .nil) Pos.zero
end InputFieldsWitness

open InputFieldsWitness in
/-- the shape hypothesis is satisfiable on documents with (nested, duplicate) object literals, and
    both sides of the equivalence reject there -/
example : valuesShaped Schema.empty (doc dupInList) = true ∧
    Spec.inputObjectFieldUniqueness Schema.empty (doc dupInList) = false ∧
    validate [uniqueInputFieldNames] Schema.empty (doc dupInList) ≠ .ok [] := by decide

open InputFieldsWitness in
/-- without it the equivalence fails: the walker (like the Go walker) does not descend below a
    value that is neither a list nor an object, the specification predicate does -/
example : valuesShaped Schema.empty (doc dupBelowInt) = false ∧
    validate [uniqueInputFieldNames] Schema.empty (doc dupBelowInt) = .ok [] ∧
    Spec.inputObjectFieldUniqueness Schema.empty (doc dupBelowInt) = false := by decide

#print axioms C08_UniqueInputFieldNames
#print axioms C08_UniqueInputFieldNames_sound

end C08

/-! ## KnownTypeNames, VariablesAreInputTypes, KnownRootType -/
section C08
open Gql Gql.Validate Gql.Validate.Rules

/-- §5.5.1.2 (and the existence of variable types) — KnownTypeNames reports nothing iff every type
    condition written in the document (fragment definitions; inline fragments that have one) and
    the named type of every variable definition is defined in the schema.  No hypothesis: an inline
    fragment without type condition is skipped by the rule and by `Spec.typeConditions` alike, and a
    fragment definition with the (unparseable) empty type condition is looked up by both. -/
theorem C08_KnownTypeNames (s : Schema) (d : QueryDoc) :
    validate [knownTypeNames] s d = .ok [] ↔
      (Spec.fragmentSpreadTypeExistence s d = true ∧ Spec.variableTypesExist s d = true) := by
  obtain ⟨evs, hw⟩ := walkDoc_isSome s.view d
  unfold knownTypeNames
  rw [validate_stateless_nil s d _ _ evs hw]
  exact knownTypeNames_iff s d evs hw

/-- the twin rule without suggestions is silent on exactly the same documents -/
theorem C08_KnownTypeNamesWithoutSuggestions (s : Schema) (d : QueryDoc) :
    validate [knownTypeNamesWithoutSuggestions] s d = .ok [] ↔
      (Spec.fragmentSpreadTypeExistence s d = true ∧ Spec.variableTypesExist s d = true) := by
  unfold knownTypeNamesWithoutSuggestions
  rw [validate_withoutSuggestions_nil]
  exact C08_KnownTypeNames s d

/-- what VariablesAreInputTypes really tests: every variable whose named type EXISTS has an input
    type (the rule is silent on a variable of an undefined type; KnownTypeNames reports that) -/
theorem C08_VariablesAreInputTypes_iff (s : Schema) (d : QueryDoc) :
    validate [variablesAreInputTypes] s d = .ok [] ↔
      (d.ops.all fun op => op.vars.all fun v =>
        match s.type? v.type.name with | some t => Spec.isInput t | none => true) = true := by
  obtain ⟨evs, hw⟩ := walkDoc_isSome s.view d
  unfold variablesAreInputTypes
  rw [validate_stateless_nil s d _ _ evs hw]
  exact variablesAreInputTypes_iff s d evs hw

/-- §5.8.2, masked form — for documents whose variable types all exist, VariablesAreInputTypes
    reports nothing iff the specification predicate holds -/
theorem C08_VariablesAreInputTypes (s : Schema) (d : QueryDoc) (hex : Spec.variableTypesExist s d = true) :
    validate [variablesAreInputTypes] s d = .ok [] ↔ Spec.variablesAreInputTypes s d = true := by
  rw [C08_VariablesAreInputTypes_iff]
  exact variablesAreInputTypes_masked s d hex

/-- §5.5.1.2 ∧ §5.8.2, joint form without hypothesis: KnownTypeNames and VariablesAreInputTypes are
    both silent iff every type condition is defined and every variable has an (existing) input type -/
theorem C08_KnownTypeNames_VariablesAreInputTypes (s : Schema) (d : QueryDoc) :
    (validate [knownTypeNames] s d = .ok [] ∧ validate [variablesAreInputTypes] s d = .ok []) ↔
      (Spec.fragmentSpreadTypeExistence s d = true ∧ Spec.variablesAreInputTypes s d = true) := by
  rw [C08_KnownTypeNames]
  constructor
  · rintro ⟨⟨h1, h2⟩, h3⟩
    exact ⟨h1, (C08_VariablesAreInputTypes s d h2).1 h3⟩
  · rintro ⟨h1, h2⟩
    have hex := variablesAreInputTypes_exist s d h2
    exact ⟨⟨h1, hex⟩, (C08_VariablesAreInputTypes s d hex).2 h2⟩

/-- library rule — KnownRootType reports nothing (and does not panic) iff the schema defines the
    root type of the kind of every operation.  NO hypothesis on the operation kinds is needed: for a
    kind the parser never produces the rule panics (so the run is not `.ok []`) and
    `Spec.rootDef` is `none` (so the specification predicate is false). -/
theorem C08_KnownRootType (s : Schema) (d : QueryDoc) :
    validate [knownRootType] s d = .ok [] ↔ Spec.knownRootType s d = true := by
  obtain ⟨evs, hw⟩ := walkDoc_isSome s.view d
  unfold knownRootType
  rw [validate_statelessP_nil s d _ _ evs hw]
  exact knownRootType_iff s d evs hw

/-- the form with the parser-kinds hypothesis, as used by the other C08 theorems (a corollary) -/
theorem C08_KnownRootType_parserKinds (s : Schema) (d : QueryDoc) (_hk : ∀ op ∈ d.ops, op.op ∈ parserOpKinds) :
    validate [knownRootType] s d = .ok [] ↔ Spec.knownRootType s d = true :=
  C08_KnownRootType s d

/-- KnownRootType panics exactly when some operation has a kind the parser never produces; for
    parser-produced documents it never does -/
theorem C08_KnownRootType_panic_iff (s : Schema) (d : QueryDoc) :
    (∃ m, validate [knownRootType] s d = .panic m) ↔ ∃ op ∈ d.ops, op.op ∉ parserOpKinds :=
  knownRootType_panic_iff s d

/- ---------- witnesses (kernel-checked) ---------- -/
namespace TypeRulesWitness
def at' (n : Nat) : Pos := { start := n, stop := n + 1, line := 1, col := n + 1 }
def tNamed (n : String) : GType := .named (str n) false Pos.zero
def scalar (n : String) : Definition :=
  { kind := .scalar, desc := [], name := str n, dirs := [], interfaces := [], fields := [], types := [],
    enumValues := [], pos := Pos.zero, builtIn := true }

def objectDef (n : String) : Definition :=
  { kind := .object, desc := [], name := str n, dirs := [], interfaces := [],
    fields := [{ desc := [], name := str "f", args := [], default := none, type := tNamed "Int", dirs := [], pos := Pos.zero }],
    types := [], enumValues := [], pos := Pos.zero, builtIn := false }

/-- `type Query { f: Int }` with the scalar `Int` -/
def schema : Schema :=
  { Schema.empty with
    query := some (str "Query"),
    types := [(str "Int", scalar "Int"), (str "Query", objectDef "Query")] }

def fld : Selection := .field [] (str "f") [] [] .nil (at' 30)

/-- `<kind> ($v: <ty>) { f }` -/
def docVar (kind ty : String) : QueryDoc :=
  { ops := [{ op := str kind, name := [],
              vars := [{ var := str "v", type := tNamed ty, default := none, dirs := [], pos := at' 7 }],
              dirs := [], sel := .cons fld .nil, pos := at' 0 }],
    frags := [] }

/-- `{ ... on <tc> { f } }` (`tc = ""`: `{ ... { f } }`) -/
def docInline (tc : String) : QueryDoc :=
  { ops := [{ op := str "query", name := [], vars := [], dirs := [],
              sel := .cons (.inline (str tc) [] (.cons fld .nil) (at' 2)) .nil, pos := at' 0 }],
    frags := [] }
end TypeRulesWitness
open TypeRulesWitness

/-- KnownTypeNames, both sides true: `query ($v: Int) { f }` … -/
example : validate [knownTypeNames] schema (docVar "query" "Int") = .ok [] ∧
    (Spec.fragmentSpreadTypeExistence schema (docVar "query" "Int") = true ∧
      Spec.variableTypesExist schema (docVar "query" "Int") = true) := by decide
/-- … and `{ ... { f } }`: an inline fragment without type condition is skipped by both sides -/
example : validate [knownTypeNames] schema (docInline "") = .ok [] ∧
    Spec.fragmentSpreadTypeExistence schema (docInline "") = true := by decide
/-- both sides false: `{ ... on Nope { f } }` (type condition) and `query ($v: Nope) { f }` (variable type) -/
example : validate [knownTypeNames] schema (docInline "Nope") ≠ .ok [] ∧
    Spec.fragmentSpreadTypeExistence schema (docInline "Nope") = false := by decide
example : validate [knownTypeNames] schema (docVar "query" "Nope") ≠ .ok [] ∧
    Spec.variableTypesExist schema (docVar "query" "Nope") = false := by decide

/-- the hypothesis `hex` of `C08_VariablesAreInputTypes` is NEEDED: on `query ($v: Nope) { f }` (a
    variable of an undefined type) the rule is silent and the specification predicate is false -/
example : validate [variablesAreInputTypes] schema (docVar "query" "Nope") = .ok [] ∧
    Spec.variablesAreInputTypes schema (docVar "query" "Nope") = false ∧
    Spec.variableTypesExist schema (docVar "query" "Nope") = false := by decide
/-- … and satisfiable: `query ($v: Int) { f }` (both sides true), `query ($v: Query) { f }` (both false) -/
example : Spec.variableTypesExist schema (docVar "query" "Int") = true ∧
    validate [variablesAreInputTypes] schema (docVar "query" "Int") = .ok [] ∧
    Spec.variablesAreInputTypes schema (docVar "query" "Int") = true := by decide
example : Spec.variableTypesExist schema (docVar "query" "Query") = true ∧
    validate [variablesAreInputTypes] schema (docVar "query" "Query") ≠ .ok [] ∧
    Spec.variablesAreInputTypes schema (docVar "query" "Query") = false := by decide

/-- KnownRootType: an operation of kind `foo` makes the run panic — and the specification predicate
    is false there, so `C08_KnownRootType` needs no hypothesis on the kinds -/
example : validate [knownRootType] schema (docVar "foo" "Int") = .panic (str "got unknown operation type \"foo\"") ∧
    Spec.knownRootType schema (docVar "foo" "Int") = false := by decide
/-- both sides true (`query`), both false without panic (`mutation`: the schema has no mutation type) -/
example : (∀ op ∈ (docVar "query" "Int").ops, op.op ∈ parserOpKinds) ∧
    validate [knownRootType] schema (docVar "query" "Int") = .ok [] ∧
    Spec.knownRootType schema (docVar "query" "Int") = true := by decide
example : (∀ op ∈ (docVar "mutation" "Int").ops, op.op ∈ parserOpKinds) ∧
    (match validate [knownRootType] schema (docVar "mutation" "Int") with | .ok [_] => true | _ => false) = true ∧
    Spec.knownRootType schema (docVar "mutation" "Int") = false := by decide

#print axioms C08_KnownTypeNames
#print axioms C08_KnownTypeNamesWithoutSuggestions
#print axioms C08_VariablesAreInputTypes_iff
#print axioms C08_VariablesAreInputTypes
#print axioms C08_KnownTypeNames_VariablesAreInputTypes
#print axioms C08_KnownRootType
#print axioms C08_KnownRootType_parserKinds
#print axioms C08_KnownRootType_panic_iff

end C08

/-! ## NoFragmentCycles -/
section C08
open Gql Gql.Validate Gql.Validate.Rules

/-- NoFragmentCycles (§5.5.2.2), masked form: for a document with unique fragment names
    (UniqueFragmentNames / §5.5.1.1) the rule reports nothing iff no fragment reaches itself through
    spreads.  The direction `Spec.noFragmentCycles d = true → silent` holds without the hypothesis
    (`noFragmentCycles_silent_of_spec`); unconditionally the rule is silent iff `Acyclic d`
    (`validate_noFragmentCycles`, decidable as `acyclicB`); `noFragmentCycles_needs_unique` is the
    counterexample without the hypothesis. -/
theorem C08_NoFragmentCycles (s : Schema) (d : QueryDoc) (hu : Spec.fragmentNameUniqueness d = true) :
    validate [noFragmentCycles] s d = .ok [] ↔ Spec.noFragmentCycles d = true :=
  noFragmentCycles_iff s d hu

#print axioms C08_NoFragmentCycles
#print axioms Gql.Validate.validate_noFragmentCycles
#print axioms Gql.Validate.noFragmentCycles_needs_unique
end C08

/-! ## PossibleFragmentSpreads -/
section C08
open Gql Gql.Validate Gql.Validate.Rules

/-- §5.5.2.3 — PossibleFragmentSpreads reports nothing iff every fragment spread (named or inline) with a
    determined composite parent type and composite fragment type can apply -/
theorem C08_PossibleFragmentSpreads (s : Schema) (d : QueryDoc) (hwp : Spec.wellParented s d = true)
    (hE : s.type? [] = none) (hok : possibleOK s = true) :
    validate [possibleFragmentSpreads] s d = .ok [] ↔ Spec.fragmentSpreadIsPossible s d = true := by
  obtain ⟨evs, hw⟩ := walkDoc_isSome s.view d
  unfold possibleFragmentSpreads
  rw [validate_stateless_nil s d _ _ evs hw]
  exact possibleFragmentSpreads_iff s d evs hw hwp hE hok

#print axioms C08_PossibleFragmentSpreads

/-- every loaded schema satisfies the schema hypothesis (`C07_relations_exact`, `C07_closed_keys`) -/
theorem C08_PossibleFragmentSpreads_loaded (s : Schema) (d : QueryDoc) (hr : Gql.Spec.RelationsExact s)
    (hk : Gql.Spec.KeysConsistent s) (hwp : Spec.wellParented s d = true) (hE : s.type? [] = none) :
    validate [possibleFragmentSpreads] s d = .ok [] ↔ Spec.fragmentSpreadIsPossible s d = true :=
  C08_PossibleFragmentSpreads s d hwp hE (possibleOK_of_relationsExact s hr hk)

/- Witnesses: the hypotheses are satisfiable, the theorem is not vacuous on either side, and none of the
   three hypotheses can be dropped. -/
namespace PossibleSpreadsWitness

def mkDef (k : DefKind) (n : String) (ifaces : List String := []) (fields : List (String × String) := [])
    (members : List String := []) : Definition :=
  { kind := k, desc := [], name := str n, dirs := [], interfaces := ifaces.map str,
    fields := fields.map fun (f, ty) =>
      { desc := [], name := str f, args := [], default := none, type := .named (str ty) false Pos.zero, dirs := [],
        pos := Pos.zero },
    types := members.map str, enumValues := [], pos := Pos.zero, builtIn := false }

/-- `type Q { a: A  i: I }  type A implements I { x: Q }  type B { x: Q }  interface I { x: Q }  union U = A
    input In { f: A }` as the loader stores it -/
def schema : Schema :=
  { Schema.empty with
    query := some (str "Q"),
    types := [(str "Q", mkDef .object "Q" [] [("a", "A"), ("i", "I")]),
              (str "A", mkDef .object "A" ["I"] [("x", "Q")]),
              (str "B", mkDef .object "B" [] [("x", "Q")]),
              (str "I", mkDef .interface "I" [] [("x", "Q")]),
              (str "U", mkDef .union "U" [] [] ["A"]),
              (str "In", mkDef .inputObject "In" [] [("f", "A")])],
    possibleTypes := [(str "Q", [str "Q"]), (str "A", [str "A"]), (str "B", [str "B"]), (str "I", [str "A"]),
                      (str "U", [str "A"])] }

def fld (n : String) (sub : Selections := .nil) : Selection := .field (str n) (str n) [] [] sub Pos.zero
def one (x : Selection) : Selections := .cons x .nil
def queryDoc (sel : Selections) (frags : List FragmentDef := []) : QueryDoc :=
  { ops := [{ op := str "query", name := [], vars := [], dirs := [], sel := sel, pos := Pos.zero }], frags := frags }
def frag (n tc : String) (sel : Selections := .nil) : FragmentDef :=
  { name := str n, vars := [], typeCond := str tc, dirs := [], sel := sel, pos := Pos.zero }

/-- `{ i { ... on A { x } } }` -/
def docGood : QueryDoc := queryDoc (one (fld "i" (one (.inline (str "A") [] (one (fld "x")) Pos.zero))))
/-- `{ i { ... on B { x } ...FB } }  fragment FB on B { x }` -/
def docBad : QueryDoc :=
  queryDoc (one (fld "i" (.cons (.inline (str "B") [] (one (fld "x")) Pos.zero) (one (.spread (str "FB") [] Pos.zero)))))
    [frag "FB" "B" (one (fld "x"))]

/- (a) the hypotheses hold together, and both verdicts occur under them -/
example : possibleOK schema = true ∧ schema.type? [] = none ∧
    Spec.wellParented schema docGood = true ∧ Spec.wellParented schema docBad = true := by decide +kernel
example : validate [possibleFragmentSpreads] schema docGood = .ok [] ∧
    Spec.fragmentSpreadIsPossible schema docGood = true := by decide +kernel
example : (match validate [possibleFragmentSpreads] schema docBad with | .ok [_, _] => true | _ => false) = true ∧
    Spec.fragmentSpreadIsPossible schema docBad = false := by decide +kernel

/-- (b) `s.type? [] = none` is needed: a type stored under the empty name makes the rule judge an inline
    fragment WITHOUT type condition (`{ ... { } }`) against that type -/
def schemaEmptyName : Schema :=
  { schema with types := ([], mkDef .object "") :: schema.types, possibleTypes := ([], [[]]) :: schema.possibleTypes }
def docNoCond : QueryDoc := queryDoc (one (.inline [] [] .nil Pos.zero))
example : possibleOK schemaEmptyName = true ∧ Spec.wellParented schemaEmptyName docNoCond = true ∧
    (match validate [possibleFragmentSpreads] schemaEmptyName docNoCond with | .ok [_] => true | _ => false) = true ∧
    Spec.fragmentSpreadIsPossible schemaEmptyName docNoCond = true := by decide +kernel

/-- (c) `possibleOK` is needed: with an empty `PossibleTypes` relation the rule rejects `{ i { ... on A } }` -/
def schemaNoRel : Schema := { schema with possibleTypes := [] }
example : possibleOK schemaNoRel = false ∧ schemaNoRel.type? [] = none ∧
    Spec.wellParented schemaNoRel docGood = true ∧
    (match validate [possibleFragmentSpreads] schemaNoRel docGood with | .ok [_] => true | _ => false) = true ∧
    Spec.fragmentSpreadIsPossible schemaNoRel docGood = true := by decide +kernel

/-- (d) `Spec.wellParented` is needed: `{ a { x } }  fragment F on In { f { ...G } }  fragment G on B { x }` — the
    walker finds the input field `f: A` of the input object `In` and types its selection set `A`; for the
    specification an input object has no selectable fields and the parent of `...G` is undetermined -/
def docInput : QueryDoc :=
  queryDoc (one (fld "a" (one (fld "x"))))
    [frag "F" "In" (one (fld "f" (one (.spread (str "G") [] Pos.zero)))), frag "G" "B" (one (fld "x"))]
example : possibleOK schema = true ∧ Spec.wellParented schema docInput = false ∧
    (match validate [possibleFragmentSpreads] schema docInput with | .ok [_] => true | _ => false) = true ∧
    Spec.fragmentSpreadIsPossible schema docInput = true := by decide +kernel

end PossibleSpreadsWitness
end C08

/-! ## SingleFieldSubscriptions -/
section C08
open Gql Gql.Validate Gql.Validate.Rules

/-- §5.2.3.1, the rule in its own terms — SingleFieldSubscriptions reports nothing iff, for every
    subscription operation, the root fields collected by `CollectFields` (the specification's
    `Spec.collectRootFields`) have at most one response key and the FIRST field of every response
    key is not an introspection field. -/
theorem C08_SingleFieldSubscriptions_exact (s : Schema) (d : QueryDoc)
    (hschema : subscriptionRootExact s = true)
    (hdef : Spec.fragmentSpreadTargetDefined d = true)
    (htc : ∀ f ∈ d.frags, f.typeCond ≠ []) :
    validate [singleFieldSubscriptions] s d = .ok [] ↔
      ∀ op ∈ d.ops, op.op = Spec.kwSubscription → ∀ obj, Spec.rootDef s op.op = some obj →
        RuleRootOK (Spec.collectRootFields s d obj op.sel) := by
  obtain ⟨evs, hw⟩ := walkDoc_isSome s.view d
  unfold singleFieldSubscriptions
  rw [validate_statelessP_silent s d _ _ evs hw]
  exact singleFieldSubscriptions_exact s d evs hw (opLinked_walkDoc s.view d evs hw) hschema hdef htc

/-- §5.2.3.1, completeness — a document the specification accepts is not reported -/
theorem C08_SingleFieldSubscriptions_complete (s : Schema) (d : QueryDoc)
    (hschema : subscriptionRootExact s = true)
    (hdef : Spec.fragmentSpreadTargetDefined d = true)
    (htc : ∀ f ∈ d.frags, f.typeCond ≠ [])
    (h : Spec.singleRootField s d = true) :
    validate [singleFieldSubscriptions] s d = .ok [] := by
  obtain ⟨evs, hw⟩ := walkDoc_isSome s.view d
  unfold singleFieldSubscriptions
  rw [validate_statelessP_silent s d _ _ evs hw]
  exact singleFieldSubscriptions_of_spec s d evs hw (opLinked_walkDoc s.view d evs hw) hschema hdef htc h

/-- §5.2.3.1 — SingleFieldSubscriptions reports nothing iff the specification predicate holds, for
    a schema whose subscription root is exact (`subscriptionRootExact`), a document whose spreads
    are defined and whose fragment definitions have a type condition, in which every subscription
    selects at least one root field and equal response keys mean equal field names -/
theorem C08_SingleFieldSubscriptions (s : Schema) (d : QueryDoc)
    (hschema : subscriptionRootExact s = true)
    (hdef : Spec.fragmentSpreadTargetDefined d = true)
    (htc : ∀ f ∈ d.frags, f.typeCond ≠ [])
    (hne : subscriptionsSelectRoot s d = true)
    (hcons : rootKeysConsistent s d = true) :
    validate [singleFieldSubscriptions] s d = .ok [] ↔ Spec.singleRootField s d = true := by
  obtain ⟨evs, hw⟩ := walkDoc_isSome s.view d
  unfold singleFieldSubscriptions
  rw [validate_statelessP_silent s d _ _ evs hw]
  exact singleFieldSubscriptions_iff s d evs hw (opLinked_walkDoc s.view d evs hw) hschema hdef htc hne hcons

/-- the same for a schema with the loader's invariants (`C07_loaded_closed`, `C07_relations_exact`)
    whose root operation types are object types (`Spec.rootTypesAreObjects`: an invariant of `load` since the
    repair of the root kinds, `C07_root_types_are_objects`) -/
theorem C08_SingleFieldSubscriptions_loaded (s : Schema) (d : QueryDoc)
    (hc : Gql.Spec.Closed s) (hr : Gql.Spec.RelationsExact s) (hroots : Gql.Spec.rootTypesAreObjects s = true)
    (hdef : Spec.fragmentSpreadTargetDefined d = true)
    (htc : ∀ f ∈ d.frags, f.typeCond ≠ [])
    (hne : subscriptionsSelectRoot s d = true)
    (hcons : rootKeysConsistent s d = true) :
    validate [singleFieldSubscriptions] s d = .ok [] ↔ Spec.singleRootField s d = true :=
  C08_SingleFieldSubscriptions s d (subscriptionRootExact_of_closed s hc hr hroots) hdef htc hne hcons

#print axioms C08_SingleFieldSubscriptions_exact
#print axioms C08_SingleFieldSubscriptions_complete
#print axioms C08_SingleFieldSubscriptions
#print axioms C08_SingleFieldSubscriptions_loaded

end C08

/-! ## MaxIntrospectionDepth -/
section C08
open Gql Gql.Validate Gql.Validate.Rules

/-- MaxIntrospectionDepth (library-specific limit; `rules/max_introspection_depth.go`): on a
    document whose fragment spreads form no cycle (§5.5.2.2, masked form) the rule reports nothing —
    and does not panic — iff below no field named `__schema` / `__type` a path through
    sub-selections, inline fragments and fragment spreads passes 3 list fields. -/
theorem C08_MaxIntrospectionDepth (s : Schema) (d : QueryDoc) (hc : Spec.noFragmentCycles d = true) :
    validate [maxIntrospectionDepth] s d = .ok [] ↔ Spec.maxIntrospectionDepth d = true := by
  obtain ⟨evs, hw⟩ := walkDoc_isSome s.view d
  unfold maxIntrospectionDepth
  rw [validate_statelessP_nil s d _ _ evs hw]
  exact maxIntrospectionDepth_iff s d evs hw hc

/-- Without any hypothesis on the document: if the specification predicate holds, the rule reports
    nothing (every reported error is a real violation).  The converse needs `Spec.noFragmentCycles`
    (`IntrospectionWitness.docCyc_counterexample`). -/
theorem C08_MaxIntrospectionDepth_sound (s : Schema) (d : QueryDoc) (h : Spec.maxIntrospectionDepth d = true) :
    validate [maxIntrospectionDepth] s d = .ok [] := by
  obtain ⟨evs, hw⟩ := walkDoc_isSome s.view d
  unfold maxIntrospectionDepth
  rw [validate_statelessP_nil s d _ _ evs hw]
  exact maxIntrospectionDepth_of_spec s d evs hw h

#print axioms C08_MaxIntrospectionDepth
#print axioms C08_MaxIntrospectionDepth_sound
#print axioms Gql.Validate.IntrospectionWitness.docCyc_counterexample

end C08

/-! ## NoUnusedFragments, NoUndefinedVariables, NoUnusedVariables (per-operation scope of the walk) -/
section C08
open Gql Gql.Validate Gql.Validate.Rules

/-- §5.5.1.4, masked form — on a document without fragment cycles (§5.5.2.2) and with pairwise
    different fragment names (§5.5.1.1) NoUnusedFragments reports nothing iff every fragment
    definition is the target of a spread.  (The rule asks for more than the specification text:
    reachability from an OPERATION — and, "first fragment quirk", it also counts what the
    stand-alone walk of the first fragment definition meets; on acyclic documents with unique names
    the three notions coincide: `used_reachable`.) -/
theorem C08_NoUnusedFragments (s : Schema) (d : QueryDoc) (hc : Spec.noFragmentCycles d = true)
    (hu : Spec.fragmentNameUniqueness d = true) :
    validate [noUnusedFragments] s d = .ok [] ↔ Spec.fragmentsMustBeUsed d = true :=
  noUnusedFragments_iff s d hc hu

/-- one direction without hypothesis: a document NoUnusedFragments accepts satisfies §5.5.1.4 -/
theorem C08_NoUnusedFragments_complete (s : Schema) (d : QueryDoc)
    (h : validate [noUnusedFragments] s d = .ok []) : Spec.fragmentsMustBeUsed d = true :=
  noUnusedFragments_spec_of_silent s d h

/-- the rule in its own terms, both directions without hypothesis on the document: reachability
    from an operation suffices, and a silent rule means reachability from an operation or from the
    first fragment definition -/
theorem C08_NoUnusedFragments_reach (s : Schema) (d : QueryDoc) :
    ((∀ f ∈ d.frags, ∃ op ∈ d.ops, Reach d (Spec.spreadsOfSels op.sel) f.name) →
      validate [noUnusedFragments] s d = .ok []) ∧
    (validate [noUnusedFragments] s d = .ok [] →
      ∀ f ∈ d.frags, (∃ op ∈ d.ops, Reach d (Spec.spreadsOfSels op.sel) f.name) ∨
        (∃ f1, d.frags.head? = some f1 ∧ Reach d (Spec.spreadsOfSels f1.sel) f.name)) :=
  ⟨noUnusedFragments_complete s d, noUnusedFragments_sound s d⟩

/-- §5.8.3 — NoUndefinedVariables reports nothing iff every variable used in the scope of an
    operation (the operation and the fragment definitions it references transitively, the
    directives of the definitions included) is defined by it; for documents with pairwise different
    fragment names whose default values are constant (what the grammar allows) -/
theorem C08_NoUndefinedVariables (s : Schema) (d : QueryDoc) (hu : Spec.fragmentNameUniqueness d = true)
    (hcd : constDefaults d = true) :
    validate [noUndefinedVariables] s d = .ok [] ↔ Spec.allVariableUsesDefined s d = true := by
  obtain ⟨evs, hw⟩ := walkDoc_isSome s.view d
  unfold noUndefinedVariables
  rw [validate_stateless_nil s d _ _ evs hw]
  exact noUndefinedVariables_iff s d evs hw hu hcd

/-- §5.8.4 — NoUnusedVariables reports nothing iff every variable of an operation is used in its
    scope; additionally the variable names of each operation are pairwise different (§5.8.1: the
    walker marks the FIRST definition of a name as used) -/
theorem C08_NoUnusedVariables (s : Schema) (d : QueryDoc) (hu : Spec.fragmentNameUniqueness d = true)
    (hcd : constDefaults d = true) (hv : Spec.variableUniqueness d = true) :
    validate [noUnusedVariables] s d = .ok [] ↔ Spec.allVariablesUsed s d = true := by
  obtain ⟨evs, hw⟩ := walkDoc_isSome s.view d
  unfold noUnusedVariables
  rw [validate_stateless_nil s d _ _ evs hw]
  exact noUnusedVariables_iff s d evs hw hu hcd hv

namespace ScopeWitness
def at' (n : Nat) : Pos := { start := n, stop := n + 1, line := 1, col := n + 1 }
def fld (n : String) (args : List Argument := []) (p : Nat := 0) : Selection := .field [] (str n) args [] .nil (at' p)
def frag (n : String) (sel : Selections) (p : Nat) : FragmentDef :=
  { name := str n, vars := [], typeCond := str "Q", dirs := [], sel := sel, pos := at' p }
def query (vars : List VarDef) (sel : Selections) : OperationDef :=
  { op := str "query", name := [], vars := vars, dirs := [], sel := sel, pos := at' 0 }
def var (n : String) (p : Nat) (dflt : Option Value := none) : VarDef :=
  { var := str n, type := .named (str "Int") false Pos.zero, default := dflt, dirs := [], pos := at' p }
def useVar (n : String) (p : Nat) : List Argument :=
  [{ name := str "x", value := .mk .variable (str n) .nil (at' p), pos := at' (p - 1) }]

/-- `{ ...A } fragment A on Q { ...B } fragment B on Q { y }` -/
def docChain : QueryDoc :=
  { ops := [query [] (.cons (.spread (str "A") [] (at' 2)) .nil)],
    frags := [frag "A" (.cons (.spread (str "B") [] (at' 30)) .nil) 10, frag "B" (.cons (fld "y" [] 50) .nil) 40] }
/-- `{ ...C } fragment C on Q { y } fragment A on Q { ...B } fragment B on Q { ...A }`: a cycle nobody reaches -/
def docCycle : QueryDoc :=
  { ops := [query [] (.cons (.spread (str "C") [] (at' 2)) .nil)],
    frags := [frag "C" (.cons (fld "y" [] 15) .nil) 10,
              frag "A" (.cons (.spread (str "B") [] (at' 30)) .nil) 20, frag "B" (.cons (.spread (str "A") [] (at' 60)) .nil) 40] }
/-- `{ ...A } fragment A on Q { x } fragment A on Q { ...B } fragment B on Q { y }`: `B` is spread
    only by the second (shadowed) definition of `A` -/
def docShadow : QueryDoc :=
  { ops := [query [] (.cons (.spread (str "A") [] (at' 2)) .nil)],
    frags := [frag "A" (.cons (fld "x" [] 20) .nil) 10, frag "A" (.cons (.spread (str "B") [] (at' 50)) .nil) 40,
              frag "B" (.cons (fld "y" [] 80) .nil) 70] }

/-- `query($a: Int) { f(x: $a) }` -/
def docVarOk : QueryDoc := { ops := [query [var "a" 6] (.cons (fld "f" (useVar "a" 20) 15) .nil)], frags := [] }
/-- `query($a: Int) { f(x: $b) }` -/
def docVarUndef : QueryDoc := { ops := [query [var "a" 6] (.cons (fld "f" (useVar "b" 20) 15) .nil)], frags := [] }
/-- `query($a: Int = $b) { f(x: $a) }` (not grammatical: a default value is constant) -/
def docVarDefault : QueryDoc :=
  { ops := [query [var "a" 6 (some (.mk .variable (str "b") .nil (at' 12)))] (.cons (fld "f" (useVar "a" 20) 15) .nil)], frags := [] }
/-- `query($a: Int, $a: Int) { f(x: $a) }` -/
def docVarTwice : QueryDoc := { ops := [query [var "a" 6, var "a" 12] (.cons (fld "f" (useVar "a" 25) 20) .nil)], frags := [] }
end ScopeWitness
open ScopeWitness

/-- the hypotheses of `C08_NoUnusedFragments` are satisfiable (both sides true) … -/
example : Spec.noFragmentCycles docChain = true ∧ Spec.fragmentNameUniqueness docChain = true ∧
    validate [noUnusedFragments] Schema.empty docChain = .ok [] ∧ Spec.fragmentsMustBeUsed docChain = true := by
  decide +kernel
/-- … `hc` is needed: an unreachable cycle uses its members (specification) but no operation does (rule) … -/
example : Spec.noFragmentCycles docCycle = false ∧ Spec.fragmentNameUniqueness docCycle = true ∧
    validate [noUnusedFragments] Schema.empty docCycle ≠ .ok [] ∧ Spec.fragmentsMustBeUsed docCycle = true := by
  decide +kernel
/-- … and `hu` is needed: a spread written in a shadowed definition counts for the specification only -/
example : Spec.noFragmentCycles docShadow = true ∧ Spec.fragmentNameUniqueness docShadow = false ∧
    validate [noUnusedFragments] Schema.empty docShadow ≠ .ok [] ∧ Spec.fragmentsMustBeUsed docShadow = true := by
  decide +kernel

/-- the hypotheses of `C08_NoUndefinedVariables` / `C08_NoUnusedVariables` are satisfiable, both sides true … -/
example : Spec.fragmentNameUniqueness docVarOk = true ∧ constDefaults docVarOk = true ∧ Spec.variableUniqueness docVarOk = true ∧
    validate [noUndefinedVariables] Schema.empty docVarOk = .ok [] ∧ Spec.allVariableUsesDefined Schema.empty docVarOk = true ∧
    validate [noUnusedVariables] Schema.empty docVarOk = .ok [] ∧ Spec.allVariablesUsed Schema.empty docVarOk = true := by
  decide +kernel
/-- … both sides false … -/
example : Spec.fragmentNameUniqueness docVarUndef = true ∧ constDefaults docVarUndef = true ∧ Spec.variableUniqueness docVarUndef = true ∧
    validate [noUndefinedVariables] Schema.empty docVarUndef ≠ .ok [] ∧ Spec.allVariableUsesDefined Schema.empty docVarUndef = false ∧
    validate [noUnusedVariables] Schema.empty docVarUndef ≠ .ok [] ∧ Spec.allVariablesUsed Schema.empty docVarUndef = false := by
  decide +kernel
/-- … `hcd` is needed: a variable inside a default value is a use for the walker, not for the specification … -/
example : constDefaults docVarDefault = false ∧
    validate [noUndefinedVariables] Schema.empty docVarDefault ≠ .ok [] ∧
    Spec.allVariableUsesDefined Schema.empty docVarDefault = true := by
  decide +kernel
/-- … and `hv` is needed for NoUnusedVariables: the second definition of a name is never marked used -/
example : Spec.variableUniqueness docVarTwice = false ∧ constDefaults docVarTwice = true ∧
    validate [noUnusedVariables] Schema.empty docVarTwice ≠ .ok [] ∧ Spec.allVariablesUsed Schema.empty docVarTwice = true := by
  decide +kernel

#print axioms C08_NoUnusedFragments
#print axioms C08_NoUnusedFragments_complete
#print axioms C08_NoUnusedFragments_reach
#print axioms C08_NoUndefinedVariables
#print axioms C08_NoUnusedVariables
end C08

/-! ## VariablesInAllowedPosition -/
section C08
open Gql Gql.Validate Gql.Validate.Rules VarPositionWitness

/-- §5.8.5, rule-exact — VariablesInAllowedPosition reports nothing iff every variable usage in the
    scope of every operation is allowed WHEN THE DEFAULT VALUE OF THE LOCATION IS IGNORED
    (`hasLocationDefaultValue = false`; the rule never reads it: recorded finding) -/
theorem C08_VariablesInAllowedPosition_iff (s : Schema) (d : QueryDoc)
    (hwp : Spec.wellParented s d = true) (hu : Spec.fragmentNameUniqueness d = true)
    (hcd : constDefaults d = true) (hs : inputPositionsPlain s = true) (hn : variableTypesNamed d = true) :
    validate [variablesInAllowedPosition] s d = .ok [] ↔
      (d.ops.all fun op => (Spec.scopeUses s d op).all fun u =>
        match Spec.varDefByName op u.name, u.loc with
        | some v, some lt => Spec.isVariableUsageAllowed v lt false
        | _, _ => true) = true := by
  obtain ⟨evs, hw⟩ := walkDoc_isSome s.view d
  unfold variablesInAllowedPosition
  rw [validate_stateless_nil s d _ _ evs hw]
  exact variablesInAllowedPosition_iff s d evs hw hwp hu hcd hs hn

/-- §5.8.5 — under the same hypotheses, when no variable usage in scope sits at a location with a
    default value, VariablesInAllowedPosition reports nothing iff the specification predicate holds -/
theorem C08_VariablesInAllowedPosition (s : Schema) (d : QueryDoc)
    (hwp : Spec.wellParented s d = true) (hu : Spec.fragmentNameUniqueness d = true)
    (hcd : constDefaults d = true) (hs : inputPositionsPlain s = true) (hn : variableTypesNamed d = true)
    (hld : (d.ops.all fun op => (Spec.scopeUses s d op).all fun u => !u.locDefault) = true) :
    validate [variablesInAllowedPosition] s d = .ok [] ↔ Spec.allVariableUsagesAllowed s d = true :=
  (C08_VariablesInAllowedPosition_iff s d hwp hu hcd hs hn).trans (ignoring_iff_allVariableUsagesAllowed s d hld)

/-- §5.8.5 — the same under the weakest form of the extra hypothesis: every usage at a location
    with a default value is allowed without the help of that default -/
theorem C08_VariablesInAllowedPosition_harmless (s : Schema) (d : QueryDoc)
    (hwp : Spec.wellParented s d = true) (hu : Spec.fragmentNameUniqueness d = true)
    (hcd : constDefaults d = true) (hs : inputPositionsPlain s = true) (hn : variableTypesNamed d = true)
    (hld : defaultedLocationsHarmless s d = true) :
    validate [variablesInAllowedPosition] s d = .ok [] ↔ Spec.allVariableUsagesAllowed s d = true :=
  (C08_VariablesInAllowedPosition_iff s d hwp hu hcd hs hn).trans (ignoring_iff_allVariableUsagesAllowed' s d hld)

/-- §5.8.5, the direction that needs no hypothesis on location defaults: a document the rule
    accepts satisfies the specification predicate (what the specification rejects, the rule reports) -/
theorem C08_VariablesInAllowedPosition_complete (s : Schema) (d : QueryDoc)
    (hwp : Spec.wellParented s d = true) (hu : Spec.fragmentNameUniqueness d = true)
    (hcd : constDefaults d = true) (hs : inputPositionsPlain s = true) (hn : variableTypesNamed d = true)
    (h : validate [variablesInAllowedPosition] s d = .ok []) : Spec.allVariableUsagesAllowed s d = true :=
  allVariableUsagesAllowed_of_ignoring s d ((C08_VariablesInAllowedPosition_iff s d hwp hu hcd hs hn).1 h)

/-- the recorded finding as a theorem: `type Q { f(r: Int! = 5): Int }`, `query($v: Int) { f(r: $v) }` —
    every hypothesis of `C08_VariablesInAllowedPosition_iff` holds, the specification allows the
    usage (the location has a default value), the rule reports it -/
theorem C08_VariablesInAllowedPosition_counterexample_location_default :
    Spec.wellParented schemaLocDefault docNullable = true ∧ Spec.fragmentNameUniqueness docNullable = true ∧
    constDefaults docNullable = true ∧ inputPositionsPlain schemaLocDefault = true ∧
    variableTypesNamed docNullable = true ∧
    Spec.allVariableUsagesAllowed schemaLocDefault docNullable = true ∧
    validate [variablesInAllowedPosition] schemaLocDefault docNullable ≠ .ok [] ∧
    noUsageAtDefaultedLocation schemaLocDefault docNullable = false := by
  decide

/-- non-vacuity: all hypotheses of `C08_VariablesInAllowedPosition` hold together, both sides true
    (`query($v: Int) { f(r: $v) }` against `f(r: Int): Int`) … -/
example : Spec.wellParented schemaPlain docNullable = true ∧ Spec.fragmentNameUniqueness docNullable = true ∧
    constDefaults docNullable = true ∧ inputPositionsPlain schemaPlain = true ∧ variableTypesNamed docNullable = true ∧
    noUsageAtDefaultedLocation schemaPlain docNullable = true ∧
    validate [variablesInAllowedPosition] schemaPlain docNullable = .ok [] ∧
    Spec.allVariableUsagesAllowed schemaPlain docNullable = true := by decide

/-- … and both sides false (`query($v: Int!) { f(r: $v) }` against `f(r: [Int]): Int`) -/
example : Spec.wellParented schemaListArg docNonNull = true ∧ inputPositionsPlain schemaListArg = true ∧
    noUsageAtDefaultedLocation schemaListArg docNonNull = true ∧
    validate [variablesInAllowedPosition] schemaListArg docNonNull ≠ .ok [] ∧
    Spec.allVariableUsagesAllowed schemaListArg docNonNull = false := by decide

/-- with a non-null variable the location default does not matter: both sides accept
    (`defaultedLocationsHarmless` holds although `noUsageAtDefaultedLocation` does not) -/
example : defaultedLocationsHarmless schemaLocDefault docNonNull = true ∧
    noUsageAtDefaultedLocation schemaLocDefault docNonNull = false ∧ validate [variablesInAllowedPosition] schemaLocDefault docNonNull = .ok [] ∧
    Spec.allVariableUsagesAllowed schemaLocDefault docNonNull = true := by decide

/-- `inputPositionsPlain_of_closed` is not vacuous: the schema of the finding is closed and its scalars carry no fields -/
example : Gql.Spec.Closed schemaLocDefault ∧
    (∀ p ∈ schemaLocDefault.types, p.2.kind = .scalar ∨ p.2.kind = .enum → p.2.fields = []) := by
  refine ⟨⟨by decide, by decide, by decide, by decide, by decide, by decide, by decide, ⟨?_, ?_, ?_⟩,
    by decide, by decide⟩, by decide⟩
  · intro n h
    cases h
    decide
  · intro n h
    cases h
  · intro n h
    cases h

/-- `inputPositionsPlain` is needed: with an OBJECT type as argument type the walker types the
    fields of the literal from `Definition.Fields`, the specification gives them no location type —
    the rule reports `{x: $v}`, the predicate holds; all other hypotheses hold -/
example : inputPositionsPlain schemaObjectArg = false ∧
    Spec.wellParented schemaObjectArg docObjectArg = true ∧ Spec.fragmentNameUniqueness docObjectArg = true ∧
    constDefaults docObjectArg = true ∧ variableTypesNamed docObjectArg = true ∧
    validate [variablesInAllowedPosition] schemaObjectArg docObjectArg ≠ .ok [] ∧
    usagesAllowedIgnoringLocationDefault schemaObjectArg docObjectArg = true := by decide

/-- `variableTypesNamed` is needed: a variable of the named type with the empty name passes
    `IsCompatible` at a list location — the rule is silent, the predicate fails -/
example : variableTypesNamed docEmptyTypeName = false ∧
    Spec.wellParented schemaListArg docEmptyTypeName = true ∧ Spec.fragmentNameUniqueness docEmptyTypeName = true ∧
    constDefaults docEmptyTypeName = true ∧ inputPositionsPlain schemaListArg = true ∧
    validate [variablesInAllowedPosition] schemaListArg docEmptyTypeName = .ok [] ∧
    usagesAllowedIgnoringLocationDefault schemaListArg docEmptyTypeName = false := by decide

/-- `constDefaults` is needed: the walker judges a variable written inside a default value, the
    specification does not look there -/
example : constDefaults docVarInDefault = false ∧
    Spec.wellParented schemaPlain docVarInDefault = true ∧ Spec.fragmentNameUniqueness docVarInDefault = true ∧
    inputPositionsPlain schemaPlain = true ∧ variableTypesNamed docVarInDefault = true ∧
    validate [variablesInAllowedPosition] schemaPlain docVarInDefault ≠ .ok [] ∧
    usagesAllowedIgnoringLocationDefault schemaPlain docVarInDefault = true := by decide

/-- `Spec.fragmentNameUniqueness` is needed: of two definitions of the same name (here at the same
    position) the walker follows the first, `Spec.opFragments` takes both -/
example : Spec.fragmentNameUniqueness docTwoFragments = false ∧
    Spec.wellParented schemaPlain docTwoFragments = true ∧ constDefaults docTwoFragments = true ∧
    inputPositionsPlain schemaPlain = true ∧ variableTypesNamed docTwoFragments = true ∧
    validate [variablesInAllowedPosition] schemaPlain docTwoFragments = .ok [] ∧
    usagesAllowedIgnoringLocationDefault schemaPlain docTwoFragments = false := by decide +kernel

/-- `Spec.wellParented` is needed: on an input object used as a parent type the walker finds the
    "field" and its argument definitions, the specification no field definition -/
example : Spec.wellParented schemaInputParent docInputParent = false ∧
    Spec.fragmentNameUniqueness docInputParent = true ∧ constDefaults docInputParent = true ∧
    inputPositionsPlain schemaInputParent = true ∧ variableTypesNamed docInputParent = true ∧
    validate [variablesInAllowedPosition] schemaInputParent docInputParent ≠ .ok [] ∧
    usagesAllowedIgnoringLocationDefault schemaInputParent docInputParent = true := by decide

#print axioms C08_VariablesInAllowedPosition_iff
#print axioms C08_VariablesInAllowedPosition
#print axioms C08_VariablesInAllowedPosition_harmless
#print axioms C08_VariablesInAllowedPosition_complete
#print axioms C08_VariablesInAllowedPosition_counterexample_location_default

end C08

/-! ## ValuesOfCorrectType -/
section C08
open Gql Gql.Validate Gql.Validate.Rules

/-- §5.6.1 — schemas without `@oneOf`: ValuesOfCorrectType reports nothing iff every literal at a
    position with a declared type is coercible to it (and the `@oneOf` clause, which is vacuous here) -/
theorem C08_ValuesOfCorrectType_partial (s : Schema) (d : QueryDoc)
    (hwp : Spec.wellParented s d = true) (hschema : schemaOK s = true) (hno : noOneOf s = true)
    (hroots : rootsInput s d = true) (hnum : numLiteralsOK s d = true) (hwf : leavesWellFormed s d = true) :
    validate [valuesOfCorrectType] s d = .ok [] ↔
      (Spec.valuesOfCorrectType s d && Spec.oneOfVariablesNonNull s d) = true := by
  obtain ⟨evs, hw⟩ := walkDoc_isSome s.view d
  unfold valuesOfCorrectType
  rw [validate_stateless_nil s d _ _ evs hw, oneOfVariablesNonNull_of_noOneOf s d hno, Bool.and_true]
  exact valuesOfCorrectType_iff s d evs hw hwp hschema hroots hnum hwf hno

/-- the same, with the hypotheses on the schema and on the declared types taken from `Gql.Spec.Closed`
    (which loaded schemas satisfy, `C07`) and from the check's mask `Spec.variablesAreInputTypes` -/
theorem C08_ValuesOfCorrectType_closed (s : Schema) (d : QueryDoc)
    (hwp : Spec.wellParented s d = true) (hschema : schemaOK s = true) (hno : noOneOf s = true)
    (hargs : Gql.Spec.ClosedArgTypes s) (hdargs : Gql.Spec.ClosedDirectiveArgTypes s)
    (hvars : Spec.variablesAreInputTypes s d = true)
    (hnum : numLiteralsOK s d = true) (hwf : leavesWellFormed s d = true) :
    validate [valuesOfCorrectType] s d = .ok [] ↔
      (Spec.valuesOfCorrectType s d && Spec.oneOfVariablesNonNull s d) = true :=
  C08_ValuesOfCorrectType_partial s d hwp hschema hno (rootsInput_of_closed s d hargs hdargs hvars) hnum hwf

/-- WITH `@oneOf`: the rule is complete — if it reports nothing then both specification predicates hold
    (documents with distinct fragment names) -/
theorem C08_ValuesOfCorrectType_complete (s : Schema) (d : QueryDoc)
    (hwp : Spec.wellParented s d = true) (hfu : Spec.fragmentNameUniqueness d = true) (hschema : schemaOK s = true)
    (hroots : rootsInput s d = true) (hnum : numLiteralsOK s d = true)
    (h : validate [valuesOfCorrectType] s d = .ok []) :
    (Spec.valuesOfCorrectType s d && Spec.oneOfVariablesNonNull s d) = true := by
  obtain ⟨evs, hw⟩ := walkDoc_isSome s.view d
  unfold valuesOfCorrectType at h
  rw [validate_stateless_nil s d _ _ evs hw] at h
  rw [Bool.and_eq_true]
  refine ⟨?_, oneOfVariablesNonNull_of_silent s d evs hw h hwp hfu⟩
  refine (run_pure_iff s d evs hw hwp hschema hroots hnum).1 (fun e he w exp dfn hp => ?_)
  have := (step_nil_iff s.view d e w exp dfn hp).1 (h e he)
  simp only [stepOK, localOK_split, Bool.and_eq_true] at this
  exact this.1.1

/-- §5.6.1 with `@oneOf`: ValuesOfCorrectType reports nothing iff every literal at a position with a declared
    type is coercible to it and no `@oneOf` field is given by a variable of a nullable type -/
theorem C08_ValuesOfCorrectType (s : Schema) (d : QueryDoc)
    (hwp : Spec.wellParented s d = true) (hfu : Spec.fragmentNameUniqueness d = true) (hcd : constDefaults d = true)
    (hschema : schemaOK s = true) (hroots : rootsInput s d = true) (hnum : numLiteralsOK s d = true)
    (hwf : leavesWellFormed s d = true) (hpos : usePosDistinct s d = true) :
    validate [valuesOfCorrectType] s d = .ok [] ↔
      (Spec.valuesOfCorrectType s d && Spec.oneOfVariablesNonNull s d) = true := by
  constructor
  · exact C08_ValuesOfCorrectType_complete s d hwp hfu hschema hroots hnum
  · intro h
    rw [Bool.and_eq_true] at h
    obtain ⟨evs, hw⟩ := walkDoc_isSome s.view d
    unfold valuesOfCorrectType
    rw [validate_stateless_nil s d _ _ evs hw]
    exact (valuesOfCorrectType_iff_oneOfVar s d evs hw hwp hschema hroots hnum hwf).2
      ⟨h.1, oneOfVar_of_spec s d evs hw hwp hfu hcd hschema hroots h.1 h.2 hpos⟩

/-- the same for a LOADED schema: `Gql.Spec.Closed` and `Gql.Spec.HasBuiltins` (`C07`), scalar definitions declare no
    fields, and the check's mask `Spec.variablesAreInputTypes` -/
theorem C08_ValuesOfCorrectType_loaded (s : Schema) (d : QueryDoc)
    (hclosed : Gql.Spec.Closed s) (hb : Gql.Spec.HasBuiltins s)
    (hsf : ∀ p ∈ s.types, p.2.kind = .scalar → p.2.fields = [])
    (hvars : Spec.variablesAreInputTypes s d = true)
    (hwp : Spec.wellParented s d = true) (hfu : Spec.fragmentNameUniqueness d = true) (hcd : constDefaults d = true)
    (hnum : numLiteralsOK s d = true) (hwf : leavesWellFormed s d = true) (hpos : usePosDistinct s d = true) :
    validate [valuesOfCorrectType] s d = .ok [] ↔
      (Spec.valuesOfCorrectType s d && Spec.oneOfVariablesNonNull s d) = true :=
  C08_ValuesOfCorrectType s d hwp hfu hcd (schemaOK_of_closed s hclosed.keys hclosed.fieldTypes hb hsf)
    (rootsInput_of_closed s d hclosed.argTypes hclosed.directiveArgTypes hvars) hnum hwf hpos

#print axioms C08_ValuesOfCorrectType
#print axioms C08_ValuesOfCorrectType_loaded
#print axioms C08_ValuesOfCorrectType_partial
#print axioms C08_ValuesOfCorrectType_closed
#print axioms C08_ValuesOfCorrectType_complete
end C08

/-- REPAIRED finding ("an integer literal beyond the range of a double is not a Float"):
    `{ f(a: 1<309 zeros>) }` with `f(a: Float): Int` — an IntValue that no finite double represents, given
    where a Float is expected — IS reported by ValuesOfCorrectType now (the finite-double test of FloatValue
    literals is applied to the integer text too), as `Spec.valuesOfCorrectType` demands (§3.5.2); all hypotheses
    of `C08_ValuesOfCorrectType` hold for it, `numLiteralsOK` included (it is a theorem for IntValue lexemes of
    any size: `numLeafOK_int_of_lexeme`).  Before the repair the rule was silent here. -/
theorem C08_ValuesOfCorrectType_int_beyond_double_rejected :
    let s := Gql.Validate.ValuesEx.schemaWith (Gql.Validate.Witness.tNamed "Float") []
    let d := Gql.Validate.ValuesEx.docArg Gql.Validate.ValuesEx.bigInt
    Gql.Validate.validate [Gql.Validate.Rules.valuesOfCorrectType] s d =
        .ok [{ rule := str "ValuesOfCorrectType",
               msg := str "Float cannot represent non numeric value: " ++ Gql.Validate.ValuesEx.bigInt.raw,
               locs := [(1, 11)] }] ∧
      Gql.Validate.Spec.valuesOfCorrectType s d = false ∧ Gql.Validate.numLiteralsOK s d = true ∧
      (Gql.Validate.Spec.wellParented s d && Gql.Validate.schemaOK s && Gql.Validate.rootsInput s d &&
        Gql.Validate.leavesWellFormed s d) = true := by
  decide +kernel

/-- the boundary: the largest integer that rounds to a finite double (`2^1024 - 2^970 - 1`) is accepted for a
    Float by the rule and the specification, the next one is rejected by both -/
theorem C08_ValuesOfCorrectType_int_double_boundary :
    let s := Gql.Validate.ValuesEx.schemaWith (Gql.Validate.Witness.tNamed "Float") []
    (Gql.Validate.validate [Gql.Validate.Rules.valuesOfCorrectType] s
        (Gql.Validate.ValuesEx.docArg Gql.Validate.ValuesEx.lastFinite) = .ok [] ∧
      Gql.Validate.Spec.valuesOfCorrectType s (Gql.Validate.ValuesEx.docArg Gql.Validate.ValuesEx.lastFinite) = true) ∧
    (Gql.Validate.validate [Gql.Validate.Rules.valuesOfCorrectType] s
        (Gql.Validate.ValuesEx.docArg Gql.Validate.ValuesEx.firstInfinite) ≠ .ok [] ∧
      Gql.Validate.Spec.valuesOfCorrectType s (Gql.Validate.ValuesEx.docArg Gql.Validate.ValuesEx.firstInfinite) = false) := by
  decide +kernel

/-- what is left of the numeric hypothesis of `C08_ValuesOfCorrectType` for lexer-produced literals: IntValues
    need nothing beyond being `-?[0-9]+` texts; for FloatValues the agreement of the library's `ParseFloat`
    (error or ±Inf) with `Spec.floatLitFinite` on the text remains a hypothesis -/
theorem C08_ValuesOfCorrectType_numeric_hypothesis (s : Schema) (d : QueryDoc)
    (h : Gql.Validate.numLiteralsLexemes s d = true) : Gql.Validate.numLiteralsOK s d = true :=
  Gql.Validate.numLiteralsOK_of_lexemes s d h

#print axioms C08_ValuesOfCorrectType_int_beyond_double_rejected
#print axioms C08_ValuesOfCorrectType_int_double_boundary
#print axioms C08_ValuesOfCorrectType_numeric_hypothesis

/-! ## Capstone: the rules with a proved equivalence, run together -/
section C08
open Gql Gql.Validate Gql.Validate.Rules

/-- a rule list with pairwise different names reports nothing iff every member, run alone, reports
    nothing (`C18_union`, `C18_ok_of_members`, `C18_errors_tagged`) -/
theorem C08_rule_list_silent_iff (rs : List Rule) (s : Schema) (d : QueryDoc) (hd : (rs.map (·.name)).Nodup) :
    validate rs s d = .ok [] ↔ ∀ r ∈ rs, validate [r] s d = .ok [] := by
  constructor
  · intro h r hr
    have := C18_union rs s d [] hd h r hr
    simpa using this
  · intro h
    obtain ⟨errs, he⟩ := C18_ok_of_members rs s d (fun r hr => ⟨[], h r hr⟩)
    rw [he]
    congr 1
    apply List.eq_nil_iff_forall_not_mem.2
    intro x hx
    obtain ⟨r, hr, hn⟩ := List.mem_map.1 (C18_errors_tagged rs s d errs he x hx)
    have h1 := C18_union rs s d errs hd he r hr
    rw [h r hr] at h1
    injection h1 with h1
    have : x ∈ errs.filter fun y => decide (y.rule = r.name) := List.mem_filter.2 ⟨hx, by simp [hn]⟩
    rw [← h1] at this
    cases this

/-- the default rules with a proved equivalence, in default order: all but
    OverlappingFieldsCanBeMerged -/
def c08Rules : List Rule :=
  [ fieldsOnCorrectType, fragmentsOnCompositeTypes, knownArgumentNames, knownDirectives, knownFragmentNames,
    knownRootType, knownTypeNames, loneAnonymousOperation, maxIntrospectionDepth, noFragmentCycles,
    noUndefinedVariables, noUnusedFragments, noUnusedVariables, possibleFragmentSpreads, providedRequiredArguments,
    scalarLeafs, singleFieldSubscriptions, uniqueArgumentNames, uniqueDirectivesPerLocation, uniqueFragmentNames,
    uniqueInputFieldNames, uniqueOperationNames, uniqueVariableNames, valuesOfCorrectType, variablesAreInputTypes,
    variablesInAllowedPosition ]

/-- the specification predicates that are NOT compared by the capstone (their rules have no
    equivalence theorem in `c08Rules`) -/
def c08Uncovered : List String := ["fieldSelectionMerging"]

/-- `c08Rules` is the default rule list without the rule named above, in the same order -/
theorem C08_rules_are_default_rules :
    c08Rules.map (·.name) = (defaultRules.map (·.name)).filter fun n =>
      !([str "OverlappingFieldsCanBeMerged"].contains n) := by
  decide

/-- hypotheses of the capstone that are not specification predicates themselves: the shape of
    parser-produced documents, the invariants of loaded schemas, and the two "other rules reject
    this" side conditions of SingleFieldSubscriptions -/
structure C08Hyps (s : Schema) (d : QueryDoc) : Prop where
  /-- operation kinds are the parser's -/
  kinds : ∀ op ∈ d.ops, op.op ∈ parserOpKinds
  /-- every selection is written where the type in scope is composite (fails only together with
      other specification predicates, see the header) -/
  wellParented : Spec.wellParented s d = true
  outputTypes : Spec.fieldTypesAreOutputTypes s d = true
  noEmptyTypeName : s.type? [] = none
  possibleOK : possibleOK s = true
  subscriptionRoot : subscriptionRootExact s = true
  /-- only list and object literals have children (parser) -/
  valuesShaped : valuesShaped s d = true
  /-- default values are constant (grammar) -/
  constDefaults : constDefaults d = true
  /-- fragment definitions have a type condition (grammar) -/
  typeConds : ∀ f ∈ d.frags, f.typeCond ≠ []
  /-- every subscription collects at least one root field -/
  selectRoot : subscriptionsSelectRoot s d = true
  /-- collected root fields with the same response key have the same field name -/
  rootKeys : rootKeysConsistent s d = true
  /-- argument and input-field types resolve to input objects or to definitions without fields (loaded schemas) -/
  inputPositions : inputPositionsPlain s = true
  /-- the recorded finding about VariablesInAllowedPosition is not triggered: every variable usage at
      a location WITH a default value is allowed even without that default -/
  defaultedLocations : defaultedLocationsHarmless s d = true
  /-- ValuesOfCorrectType: built-in scalar names are scalars, scalars declare no fields, input-field
      types resolve to input types (loaded schemas: `schemaOK_of_closed`) -/
  schemaOK : schemaOK s = true
  argTypes : Gql.Spec.ClosedArgTypes s
  directiveArgTypes : Gql.Spec.ClosedDirectiveArgTypes s
  /-- numeric literals are IntValue / FloatValue lexemes on which the library's conversion and the
      specification's range tests agree (a theorem for IntValue lexemes, `numLiteralsOK_of_lexemes`) -/
  numLiterals : numLiteralsOK s d = true
  /-- leaf literals are lexemes of their kind (lexer) -/
  leaves : leavesWellFormed s d = true
  /-- two variable usages that start at the same offset are the same usage (parser) -/
  usePos : usePosDistinct s d = true

/-- **C08, partial verdict**: for the 26 default rules with a proved equivalence, run together
    (`validate c08Rules`), the validator accepts exactly the documents that satisfy the 27
    specification predicates these rules stand for — all of `Spec.specVerdicts` except field
    merging (§5.3.2).
    The masked forms of the single-rule theorems need no hypothesis here: their prerequisites are
    members of the same conjunction. -/
theorem C08_default_rules_iff_spec_partial (s : Schema) (d : QueryDoc) (h : C08Hyps s d) :
    validate c08Rules s d = .ok [] ↔
      ((Spec.specVerdicts s d).filter (fun p => !c08Uncovered.contains p.1)).all (·.2) = true := by
  have hspec : ((Spec.specVerdicts s d).filter (fun p => !c08Uncovered.contains p.1)).all (·.2) = true ↔
    (Spec.operationNameUniqueness d = true ∧ Spec.loneAnonymousOperation d = true ∧ Spec.singleRootField s d = true ∧
     Spec.knownRootType s d = true ∧ Spec.fieldSelections s d = true ∧ Spec.leafFieldSelections s d = true ∧
     Spec.argumentNames s d = true ∧ Spec.argumentUniqueness s d = true ∧ Spec.requiredArguments s d = true ∧
     Spec.fragmentNameUniqueness d = true ∧ Spec.fragmentSpreadTypeExistence s d = true ∧
     Spec.fragmentsOnCompositeTypes s d = true ∧ Spec.fragmentsMustBeUsed d = true ∧
     Spec.fragmentSpreadTargetDefined d = true ∧ Spec.noFragmentCycles d = true ∧
     Spec.fragmentSpreadIsPossible s d = true ∧
     (Spec.valuesOfCorrectType s d && Spec.oneOfVariablesNonNull s d) = true ∧ Spec.inputObjectFieldUniqueness s d = true ∧
     Spec.directivesAreDefined s d = true ∧ Spec.directivesInValidLocations s d = true ∧
     Spec.directivesUniquePerLocation s d = true ∧ Spec.variableUniqueness d = true ∧
     Spec.variablesAreInputTypes s d = true ∧ Spec.allVariableUsesDefined s d = true ∧
     Spec.allVariablesUsed s d = true ∧ Spec.allVariableUsagesAllowed s d = true ∧ Spec.maxIntrospectionDepth d = true) := by
    simp only [Spec.specVerdicts, c08Uncovered]
    simp [List.filter, List.all]
  rw [hspec, C08_rule_list_silent_iff c08Rules s d (by decide)]
  simp only [c08Rules, List.mem_cons, List.not_mem_nil, or_false, forall_eq_or_imp, forall_eq]
  constructor
  · rintro ⟨r1, r2, r3, r4, r5, r6, r7, r8, r9, r10, r11, r12, r13, r14, r15, r16, r17, r18, r19, r20, r21, r22, r23, rv, r24, r25⟩
    have lone := (C08_LoneAnonymousOperation s d).1 r8
    have opNames := (C08_UniqueOperationNames s d lone).1 r22
    have varUniq := (C08_UniqueVariableNames s d).1 r23
    have fragUniq := (C08_UniqueFragmentNames s d).1 r20
    have spreadsDef := (C08_KnownFragmentNames s d).1 r5
    have dirs := (C08_KnownDirectives s d h.kinds).1 r4
    have cycles := (C08_NoFragmentCycles s d fragUniq).1 r10
    have types := (C08_KnownTypeNames_VariablesAreInputTypes s d).1 ⟨r7, r24⟩
    exact ⟨opNames, lone,
      (C08_SingleFieldSubscriptions s d h.subscriptionRoot spreadsDef h.typeConds h.selectRoot h.rootKeys).1 r17,
      (C08_KnownRootType s d).1 r6,
      (C08_FieldsOnCorrectType s d h.wellParented).1 r1,
      (C08_ScalarLeafs s d h.wellParented h.outputTypes).1 r16,
      (C08_KnownArgumentNames s d h.wellParented h.kinds).1 r3,
      (C08_UniqueArgumentNames s d h.kinds).1 r18,
      (C08_ProvidedRequiredArguments s d h.wellParented h.kinds).1 r15,
      fragUniq, types.1,
      (C08_FragmentsOnCompositeTypes s d h.noEmptyTypeName).1 r2,
      (C08_NoUnusedFragments s d cycles fragUniq).1 r12,
      spreadsDef, cycles,
      (C08_PossibleFragmentSpreads s d h.wellParented h.noEmptyTypeName h.possibleOK).1 r14,
      (C08_ValuesOfCorrectType s d h.wellParented fragUniq h.constDefaults h.schemaOK
        (rootsInput_of_closed s d h.argTypes h.directiveArgTypes types.2) h.numLiterals h.leaves h.usePos).1 rv,
      (C08_UniqueInputFieldNames s d h.valuesShaped).1 r21,
      dirs.1, dirs.2,
      (C08_UniqueDirectivesPerLocation s d h.kinds dirs.1).1 r19,
      varUniq, types.2,
      (C08_NoUndefinedVariables s d fragUniq h.constDefaults).1 r11,
      (C08_NoUnusedVariables s d fragUniq h.constDefaults varUniq).1 r13,
      (C08_VariablesInAllowedPosition_harmless s d h.wellParented fragUniq h.constDefaults h.inputPositions
        (variableTypesNamed_of_exist s d h.noEmptyTypeName (variablesAreInputTypes_exist s d types.2)) h.defaultedLocations).1 r25,
      (C08_MaxIntrospectionDepth s d cycles).1 r9⟩
  · rintro ⟨opNames, lone, root1, rootType, fields, leafs, argNames, argUniq, reqArgs, fragUniq, typeEx, fragComp,
      fragsUsed, spreadsDef, cycles, possible, valuesOK, inputUniq, dirsDef, dirsLoc, dirsUniq, varUniq, varTypes, varsDef, varsUsed, varsAllowed, depth⟩
    have types := (C08_KnownTypeNames_VariablesAreInputTypes s d).2 ⟨typeEx, varTypes⟩
    exact ⟨(C08_FieldsOnCorrectType s d h.wellParented).2 fields,
      (C08_FragmentsOnCompositeTypes s d h.noEmptyTypeName).2 fragComp,
      (C08_KnownArgumentNames s d h.wellParented h.kinds).2 argNames,
      (C08_KnownDirectives s d h.kinds).2 ⟨dirsDef, dirsLoc⟩,
      (C08_KnownFragmentNames s d).2 spreadsDef,
      (C08_KnownRootType s d).2 rootType,
      types.1,
      (C08_LoneAnonymousOperation s d).2 lone,
      (C08_MaxIntrospectionDepth s d cycles).2 depth,
      (C08_NoFragmentCycles s d fragUniq).2 cycles,
      (C08_NoUndefinedVariables s d fragUniq h.constDefaults).2 varsDef,
      (C08_NoUnusedFragments s d cycles fragUniq).2 fragsUsed,
      (C08_NoUnusedVariables s d fragUniq h.constDefaults varUniq).2 varsUsed,
      (C08_PossibleFragmentSpreads s d h.wellParented h.noEmptyTypeName h.possibleOK).2 possible,
      (C08_ProvidedRequiredArguments s d h.wellParented h.kinds).2 reqArgs,
      (C08_ScalarLeafs s d h.wellParented h.outputTypes).2 leafs,
      (C08_SingleFieldSubscriptions s d h.subscriptionRoot spreadsDef h.typeConds h.selectRoot h.rootKeys).2 root1,
      (C08_UniqueArgumentNames s d h.kinds).2 argUniq,
      (C08_UniqueDirectivesPerLocation s d h.kinds dirsDef).2 dirsUniq,
      (C08_UniqueFragmentNames s d).2 fragUniq,
      (C08_UniqueInputFieldNames s d h.valuesShaped).2 inputUniq,
      (C08_UniqueOperationNames s d lone).2 opNames,
      (C08_UniqueVariableNames s d).2 varUniq,
      (C08_ValuesOfCorrectType s d h.wellParented fragUniq h.constDefaults h.schemaOK
        (rootsInput_of_closed s d h.argTypes h.directiveArgTypes varTypes) h.numLiterals h.leaves h.usePos).2 valuesOK,
      types.2,
      (C08_VariablesInAllowedPosition_harmless s d h.wellParented fragUniq h.constDefaults h.inputPositions
        (variableTypesNamed_of_exist s d h.noEmptyTypeName (variablesAreInputTypes_exist s d varTypes)) h.defaultedLocations).2 varsAllowed⟩

namespace CapstoneWitness
def at' (n : Nat) : Pos := { start := n, stop := n + 1, line := 1, col := n + 1 }
def tInt : GType := .named (str "Int") false Pos.zero
def intDef : Definition :=
  { kind := .scalar, desc := [], name := str "Int", dirs := [], interfaces := [], fields := [], types := [],
    enumValues := [], pos := Pos.zero, builtIn := true }
/-- `type Q { a: Int  f(x: Int): Int }` -/
def qDef : Definition :=
  { kind := .object, desc := [], name := str "Q", dirs := [], interfaces := [],
    fields := [{ desc := [], name := str "a", args := [], default := none, type := tInt, dirs := [], pos := Pos.zero },
               { desc := [], name := str "f",
                 args := [{ desc := [], name := str "x", default := none, type := tInt, dirs := [], pos := Pos.zero }],
                 default := none, type := tInt, dirs := [], pos := Pos.zero }],
    types := [], enumValues := [], pos := Pos.zero, builtIn := false }
def schema : Schema :=
  { Schema.empty with query := some (str "Q"), types := [(str "Int", intDef), (str "Q", qDef)],
                      possibleTypes := [(str "Q", [str "Q"])] }
/-- `query($v: Int) { f(x: $<use>) ...F }  fragment F on Q { a }` -/
def doc (use : String) : QueryDoc :=
  { ops := [{ op := str "query", name := [],
              vars := [{ var := str "v", type := tInt, default := none, dirs := [], pos := at' 6 }], dirs := [],
              sel := .cons (.field [] (str "f")
                        [{ name := str "x", value := .mk .variable (str use) .nil (at' 24), pos := at' 21 }] [] .nil (at' 19))
                      (.cons (.spread (str "F") [] (at' 28)) .nil), pos := at' 0 }],
    frags := [{ name := str "F", vars := [], typeCond := str "Q", dirs := [],
                sel := .cons (.field [] (str "a") [] [] .nil (at' 55)) .nil, pos := at' 36 }] }

/-- `query($v: Int) { f(x: $v) ...F }  fragment F on Q { a }` -/
def docV : QueryDoc := doc "v"
/-- `query($v: Int) { f(x: $w) ...F }  fragment F on Q { a }` -/
def docW : QueryDoc := doc "w"
end CapstoneWitness

/-- the hypotheses of the capstone are satisfiable, with both sides true … -/
theorem CapstoneWitness.hypsV : C08Hyps CapstoneWitness.schema CapstoneWitness.docV :=
  { kinds := by decide +kernel, wellParented := by decide +kernel, outputTypes := by decide +kernel,
    noEmptyTypeName := by decide +kernel, possibleOK := by decide +kernel, subscriptionRoot := by decide +kernel,
    valuesShaped := by decide +kernel, constDefaults := by decide +kernel, typeConds := by decide +kernel,
    selectRoot := by decide +kernel, rootKeys := by decide +kernel, inputPositions := by decide +kernel,
    defaultedLocations := by decide +kernel, schemaOK := by decide +kernel, argTypes := by decide +kernel,
    directiveArgTypes := by decide +kernel, numLiterals := by decide +kernel, leaves := by decide +kernel,
    usePos := by decide +kernel }
example : ((Spec.specVerdicts CapstoneWitness.schema CapstoneWitness.docV).filter
    (fun p => !c08Uncovered.contains p.1)).all (·.2) = true := by decide +kernel
example : validate c08Rules CapstoneWitness.schema CapstoneWitness.docV = .ok [] :=
  (C08_default_rules_iff_spec_partial _ _ CapstoneWitness.hypsV).2 (by decide +kernel)
/-- … and with both sides false (`$w` is not defined, `$v` is not used) -/
theorem CapstoneWitness.hypsW : C08Hyps CapstoneWitness.schema CapstoneWitness.docW :=
  { kinds := by decide +kernel, wellParented := by decide +kernel, outputTypes := by decide +kernel,
    noEmptyTypeName := by decide +kernel, possibleOK := by decide +kernel, subscriptionRoot := by decide +kernel,
    valuesShaped := by decide +kernel, constDefaults := by decide +kernel, typeConds := by decide +kernel,
    selectRoot := by decide +kernel, rootKeys := by decide +kernel, inputPositions := by decide +kernel,
    defaultedLocations := by decide +kernel, schemaOK := by decide +kernel, argTypes := by decide +kernel,
    directiveArgTypes := by decide +kernel, numLiterals := by decide +kernel, leaves := by decide +kernel,
    usePos := by decide +kernel }
example : ((Spec.specVerdicts CapstoneWitness.schema CapstoneWitness.docW).filter
    (fun p => !c08Uncovered.contains p.1)).all (·.2) = false := by decide +kernel
example : validate c08Rules CapstoneWitness.schema CapstoneWitness.docW ≠ .ok [] := fun h =>
  absurd ((C08_default_rules_iff_spec_partial _ _ CapstoneWitness.hypsW).1 h) (by decide +kernel)

#print axioms C08_rule_list_silent_iff
#print axioms C08_rules_are_default_rules
#print axioms C08_default_rules_iff_spec_partial
end C08

/- axioms of the first-group theorems and of the remaining new ones -/
#print axioms C08_FieldsOnCorrectType
#print axioms C08_FragmentsOnCompositeTypes
#print axioms C08_KnownArgumentNames
#print axioms C08_KnownDirectives
#print axioms C08_KnownFragmentNames
#print axioms C08_LoneAnonymousOperation
#print axioms C08_PossibleFragmentSpreads_loaded
#print axioms C08_ProvidedRequiredArguments
#print axioms C08_ScalarLeafs
#print axioms C08_UniqueArgumentNames
#print axioms C08_UniqueDirectivesPerLocation
#print axioms C08_UniqueDirectivesPerLocation_complete
#print axioms C08_UniqueFragmentNames
#print axioms C08_UniqueOperationNames
#print axioms C08_UniqueOperationNames_iff
#print axioms C08_UniqueVariableNames
#print axioms C08_default_LoneAnonymousOperation


/- ======================= END TO END: parsed documents, loaded schemas ======================= -/
section EndToEnd
open Gql.EndToEnd Gql.Load


/-- the hypotheses of the C08 capstone that speak about the DOCUMENT (shape of parser output, the
    numeric-literal and leaf-lexeme conditions, the side conditions of SingleFieldSubscriptions and of
    the VariablesInAllowedPosition finding): `C08Hyps s d` without its schema-side fields -/
structure C08DocHyps (s : Schema) (d : QueryDoc) : Prop where
  kinds : ∀ op ∈ d.ops, op.op ∈ parserOpKinds
  wellParented : Gql.Validate.Spec.wellParented s d = true
  valuesShaped : valuesShaped s d = true
  constDefaults : constDefaults d = true
  typeConds : ∀ f ∈ d.frags, f.typeCond ≠ []
  selectRoot : subscriptionsSelectRoot s d = true
  rootKeys : rootKeysConsistent s d = true
  defaultedLocations : defaultedLocationsHarmless s d = true
  numLiterals : numLiteralsOK s d = true
  leaves : leavesWellFormed s d = true
  usePos : usePosDistinct s d = true

/-- the hypothesis structure of `C08_default_rules_iff_spec_partial`, for a loaded schema -/
theorem C08Hyps_of_loaded {s : Schema} {d : QueryDoc} (L : LoadedHyps s) (D : C08DocHyps s d) : C08Hyps s d :=
  { kinds := D.kinds, wellParented := D.wellParented, outputTypes := L.outputTypes d,
    noEmptyTypeName := L.noEmptyTypeName, possibleOK := L.possibleOK, subscriptionRoot := L.subscriptionRoot,
    valuesShaped := D.valuesShaped, constDefaults := D.constDefaults, typeConds := D.typeConds,
    selectRoot := D.selectRoot, rootKeys := D.rootKeys, inputPositions := L.inputPositions,
    defaultedLocations := D.defaultedLocations, schemaOK := L.schemaOK, argTypes := L.argTypes,
    directiveArgTypes := L.directiveArgTypes, numLiterals := D.numLiterals, leaves := D.leaves,
    usePos := D.usePos }

/-- **the C08 capstone for a loaded schema**: the schema-side hypotheses are discharged by the loader -/
theorem C08_loaded_default_rules_iff_spec_partial {sd : SchemaDoc} {s : Schema} (h : load sd = .ok s)
    (hp : PreludeDeclared sd) (hks : KindFieldless .scalar sd) (hke : KindFieldless .enum sd) (hn : NamesNonEmpty sd) (d : QueryDoc) (D : C08DocHyps s d) :
    validate c08Rules s d = .ok [] ↔
      ((Gql.Validate.Spec.specVerdicts s d).filter (fun p => !c08Uncovered.contains p.1)).all (·.2) = true :=
  C08_default_rules_iff_spec_partial s d (C08Hyps_of_loaded (loaded_hyps h hp hks hke hn) D)


/-- The hypotheses of the capstone that are neither invariants of parser output nor of loader output
    — the genuinely SEMANTIC side conditions:
    * `wellParented`: every selection is written where the type in scope is composite (fails only for
      documents that both sides reject, see the header; no rule-free derivation from validity yet);
    * `selectRoot`, `rootKeys`: the two hazards of SingleFieldSubscriptions (a subscription that
      collects no root field; two collected root fields with one response key and different names —
      the latter is excluded by field merging §5.3.2, the one rule outside `c08Rules`);
    * `defaultedLocations`: the recorded finding about VariablesInAllowedPosition is not triggered. -/
structure C08SemanticHyps (s : Schema) (d : QueryDoc) : Prop where
  wellParented : Spec.wellParented s d = true
  selectRoot : subscriptionsSelectRoot s d = true
  rootKeys : rootKeysConsistent s d = true
  defaultedLocations : defaultedLocationsHarmless s d = true

/-- the document-side hypotheses of the capstone, for a PARSED document: everything about the shape
    of the tree is discharged by the parser model -/
theorem C08DocHyps_of_parsed {L : Nat} {inp : Bytes} {d : QueryDoc} (hp : Parser.parseQuery L inp = .ok d)
    (s : Schema) (S : C08SemanticHyps s d) : C08DocHyps s d :=
  { kinds := parsed_kinds hp, wellParented := S.wellParented, valuesShaped := parsed_valuesShaped hp s,
    constDefaults := parsed_constDefaults hp, typeConds := parsed_typeConds hp, selectRoot := S.selectRoot,
    rootKeys := S.rootKeys, defaultedLocations := S.defaultedLocations, numLiterals := parsed_numLiteralsOK hp s,
    leaves := parsed_leavesWellFormed hp s, usePos := parsed_usePosDistinct hp s }

/-- `C08Hyps` for a parsed document and ANY schema that satisfies the schema-side bundle -/
theorem C08Hyps_of_parsed {L : Nat} {inp : Bytes} {d : QueryDoc} (hp : Parser.parseQuery L inp = .ok d)
    {s : Schema} (Ls : LoadedHyps s) (S : C08SemanticHyps s d) : C08Hyps s d :=
  C08Hyps_of_loaded Ls (C08DocHyps_of_parsed hp s S)

/-- **C08 END TO END.**  `sd` loads to the schema `s`, the source text `inp` parses (under any token
    limit `L`) to the document `d`.  Then the 26 default rules with a proved equivalence, run
    together, report nothing iff the 27 specification predicates they stand for hold.
    Hypotheses left:
    * on the schema document: the prelude is part of it (`PreludeDeclared sd`), and the tree has the
      shape the schema parser produces (`KindFieldless`: scalar / enum definitions carry no fields;
      `NamesNonEmpty`) — see `Gql.EndToEnd.Loaded` for kernel-checked witnesses that `load` on
      arbitrary trees needs them;
    * (formerly also `rootTypesAreObjects s`: since the repair "a root operation type must be an object
      type" an invariant of `load`, `C07_root_types_are_objects`);
    * the semantic side conditions `C08SemanticHyps s d`. -/
theorem C08_parsed_loaded_iff_spec {sd : SchemaDoc} {s : Schema} (hl : load sd = .ok s)
    (hprel : PreludeDeclared sd) (hks : KindFieldless .scalar sd) (hke : KindFieldless .enum sd) (hn : NamesNonEmpty sd)
    {L : Nat} {inp : Bytes} {d : QueryDoc} (hp : Parser.parseQuery L inp = .ok d) (S : C08SemanticHyps s d) :
    validate c08Rules s d = .ok [] ↔
      ((Spec.specVerdicts s d).filter (fun p => !c08Uncovered.contains p.1)).all (·.2) = true :=
  C08_default_rules_iff_spec_partial s d (C08Hyps_of_parsed hp (loaded_hyps hl hprel hks hke hn) S)

/-- the single-rule theorems whose only hypotheses were parser shape, over source texts -/
theorem C08_UniqueArgumentNames_parsed {L : Nat} {inp : Bytes} {d : QueryDoc} (hp : Parser.parseQuery L inp = .ok d)
    (s : Schema) : validate [uniqueArgumentNames] s d = .ok [] ↔ Spec.argumentUniqueness s d = true :=
  C08_UniqueArgumentNames s d (parsed_kinds hp)

theorem C08_KnownDirectives_parsed {L : Nat} {inp : Bytes} {d : QueryDoc} (hp : Parser.parseQuery L inp = .ok d)
    (s : Schema) : validate [knownDirectives] s d = .ok [] ↔
      (Spec.directivesAreDefined s d = true ∧ Spec.directivesInValidLocations s d = true) :=
  C08_KnownDirectives s d (parsed_kinds hp)

theorem C08_UniqueInputFieldNames_parsed {L : Nat} {inp : Bytes} {d : QueryDoc} (hp : Parser.parseQuery L inp = .ok d)
    (s : Schema) : validate [uniqueInputFieldNames] s d = .ok [] ↔ Spec.inputObjectFieldUniqueness s d = true :=
  C08_UniqueInputFieldNames s d (parsed_valuesShaped hp s)

/-- **C08 END TO END over SOURCE TEXTS on both sides.**  The schema sources `srcs` (the prelude and the
    user's sources, each with its `BuiltIn` flag) are well-formed UTF-8 and `ParseSchemas` merges them
    into `sd`; `sd` loads to `s`; the query source `inp` parses to `d`.  The tree-shape hypotheses of
    `C08_parsed_loaded_iff_spec` are discharged by the schema parser model
    (`Gql.EndToEnd.parseSchemas_treeHyps`).  Left: the prelude is among the sources
    (`PreludeDeclared sd`) and the semantic side conditions `C08SemanticHyps s d`. -/
theorem C08_sources_iff_spec {Ls : Nat} {srcs : List (Bool × Bytes)} {sd : SchemaDoc} {s : Schema}
    (hsrc : ∀ src ∈ srcs, Lexer.Utf8.valid src.2) (hps : Parser.parseSchemas Ls srcs = .ok sd)
    (hl : load sd = .ok s) (hprel : PreludeDeclared sd)
    {L : Nat} {inp : Bytes} {d : QueryDoc} (hp : Parser.parseQuery L inp = .ok d) (S : C08SemanticHyps s d) :
    validate c08Rules s d = .ok [] ↔
      ((Spec.specVerdicts s d).filter (fun p => !c08Uncovered.contains p.1)).all (·.2) = true :=
  have T := parseSchemas_treeHyps hsrc hps
  C08_parsed_loaded_iff_spec hl hprel T.scalars T.enums T.names hp S


/-! #### `Spec.wellParented` is a consequence of either side -/

/-- the specification side: knownRootType, fragmentSpreadTypeExistence, fragmentsOnCompositeTypes,
    fieldSelections and leafFieldSelections imply `Spec.wellParented` (on a schema with the loader's
    invariants `WPSchema s`) -/
theorem C08_wellParented_of_spec {s : Schema} (W : WPSchema s) (d : QueryDoc)
    (h1 : Spec.knownRootType s d = true) (h2 : Spec.fragmentSpreadTypeExistence s d = true)
    (h3 : Spec.fragmentsOnCompositeTypes s d = true) (h4 : Spec.fieldSelections s d = true)
    (h5 : Spec.leafFieldSelections s d = true) : Spec.wellParented s d = true :=
  wellParented_of_spec W d h1 h2 h3 h4 h5

/-- the validator side: a document on which KnownRootType, KnownTypeNames, FragmentsOnCompositeTypes,
    FieldsOnCorrectType and ScalarLeafs report nothing is well parented -/
theorem C08_wellParented_of_rules {s : Schema} (W : WPSchema s) (hE : s.type? [] = none) (d : QueryDoc)
    (r1 : validate [knownRootType] s d = .ok []) (r2 : validate [knownTypeNames] s d = .ok [])
    (r3 : validate [fragmentsOnCompositeTypes] s d = .ok []) (r4 : validate [fieldsOnCorrectType] s d = .ok [])
    (r5 : validate [scalarLeafs] s d = .ok []) : Spec.wellParented s d = true :=
  wellParented_of_rules W d ((C08_KnownRootType s d).1 r1) ((C08_KnownTypeNames s d).1 r2).1
    ((C08_FragmentsOnCompositeTypes s d hE).1 r3) r4 r5

/-- every document that validates against a schema with the loader's invariants is well parented -/
theorem C08_wellParented_of_valid {s : Schema} (W : WPSchema s) (hE : s.type? [] = none) (d : QueryDoc)
    (hv : validate c08Rules s d = .ok []) : Spec.wellParented s d = true := by
  have hall := (C08_rule_list_silent_iff c08Rules s d (by decide)).1 hv
  exact C08_wellParented_of_rules W hE d (hall _ (by simp [c08Rules])) (hall _ (by simp [c08Rules]))
    (hall _ (by simp [c08Rules])) (hall _ (by simp [c08Rules])) (hall _ (by simp [c08Rules]))

/-- the capstone with `Spec.wellParented` discharged on both sides: `mk` builds the remaining
    hypotheses from well-parentedness -/
theorem C08_default_rules_iff_spec_wp (s : Schema) (d : QueryDoc) (W : WPSchema s) (hE : s.type? [] = none)
    (mk : Spec.wellParented s d = true → C08Hyps s d) :
    validate c08Rules s d = .ok [] ↔
      ((Spec.specVerdicts s d).filter (fun p => !c08Uncovered.contains p.1)).all (·.2) = true := by
  constructor
  · intro hv
    exact (C08_default_rules_iff_spec_partial s d (mk (C08_wellParented_of_valid W hE d hv))).1 hv
  · intro hs
    have hs' := hs
    simp only [Spec.specVerdicts, c08Uncovered] at hs'
    simp [List.filter, List.all] at hs'
    obtain ⟨_, _, _, rootType, fields, leafs, _, _, _, _, typeEx, fragComp, _⟩ := hs'
    exact (C08_default_rules_iff_spec_partial s d
      (mk (C08_wellParented_of_spec W d rootType typeEx fragComp fields leafs))).2 hs

/-- what is left of `C08SemanticHyps` once `Spec.wellParented` is derived -/
structure C08ResidualHyps (s : Schema) (d : QueryDoc) : Prop where
  selectRoot : subscriptionsSelectRoot s d = true
  rootKeys : rootKeysConsistent s d = true
  defaultedLocations : defaultedLocationsHarmless s d = true

/-- **C08 END TO END, `Spec.wellParented` discharged.**  Schema sources → `ParseSchemas` → `load`; query
    source → `parseQuery`.  The 26 rules report nothing iff the 27 predicates hold.  Hypotheses left:
    the prelude is among the schema sources and `C08ResidualHyps s d`: the two hazards of SingleFieldSubscriptions
    (`selectRoot`; `rootKeys`, a consequence of field merging §5.3.2, the one rule outside `c08Rules`)
    and the recorded finding about VariablesInAllowedPosition (`defaultedLocations`). -/
theorem C08_sources_iff_spec_wp {Ls : Nat} {srcs : List (Bool × Bytes)} {sd : SchemaDoc} {s : Schema}
    (hsrc : ∀ src ∈ srcs, Lexer.Utf8.valid src.2) (hps : Parser.parseSchemas Ls srcs = .ok sd)
    (hl : load sd = .ok s) (hprel : PreludeDeclared sd)
    {L : Nat} {inp : Bytes} {d : QueryDoc} (hp : Parser.parseQuery L inp = .ok d) (R : C08ResidualHyps s d) :
    validate c08Rules s d = .ok [] ↔
      ((Spec.specVerdicts s d).filter (fun p => !c08Uncovered.contains p.1)).all (·.2) = true :=
  have T := parseSchemas_treeHyps hsrc hps
  have LH := loaded_hyps hl hprel T.scalars T.enums T.names
  C08_default_rules_iff_spec_wp s d (loaded_wpSchema hl hprel T.unions) LH.noEmptyTypeName
    (fun hwp => C08Hyps_of_parsed hp LH
      { wellParented := hwp, selectRoot := R.selectRoot, rootKeys := R.rootKeys,
        defaultedLocations := R.defaultedLocations })

/-- the same for a schema document given as a tree (the tree-shape hypotheses explicit) -/
theorem C08_parsed_loaded_iff_spec_wp {sd : SchemaDoc} {s : Schema} (hl : load sd = .ok s)
    (hprel : PreludeDeclared sd) (hks : KindFieldless .scalar sd) (hke : KindFieldless .enum sd)
    (hku : KindFieldless .union sd) (hn : NamesNonEmpty sd)
    {L : Nat} {inp : Bytes} {d : QueryDoc} (hp : Parser.parseQuery L inp = .ok d) (R : C08ResidualHyps s d) :
    validate c08Rules s d = .ok [] ↔
      ((Spec.specVerdicts s d).filter (fun p => !c08Uncovered.contains p.1)).all (·.2) = true :=
  have LH := loaded_hyps hl hprel hks hke hn
  C08_default_rules_iff_spec_wp s d (loaded_wpSchema hl hprel hku) LH.noEmptyTypeName
    (fun hwp => C08Hyps_of_parsed hp LH
      { wellParented := hwp, selectRoot := R.selectRoot, rootKeys := R.rootKeys,
        defaultedLocations := R.defaultedLocations })

end EndToEnd

#print axioms C08_wellParented_of_spec
#print axioms C08_wellParented_of_rules
#print axioms C08_wellParented_of_valid
#print axioms C08_default_rules_iff_spec_wp
#print axioms C08_sources_iff_spec_wp
#print axioms C08_parsed_loaded_iff_spec_wp
#print axioms C08_sources_iff_spec
#print axioms C08DocHyps_of_parsed
#print axioms C08_parsed_loaded_iff_spec
#print axioms C08_UniqueArgumentNames_parsed
#print axioms C08_KnownDirectives_parsed
#print axioms C08_UniqueInputFieldNames_parsed
/-! ## OverlappingFieldsCanBeMerged: completeness -/
section C08
open Gql Gql.Validate Gql.Validate.Rules

/-- **stage (a)** — documents WITHOUT fragment spreads: OverlappingFieldsCanBeMerged reports nothing iff
    §5.3.2 (`Spec.fieldSelectionMerging`) holds.  Hypotheses, each guaranteed by other rules / by loaded
    schemas: the prerequisites under which §5.3.2 is judged (`Spec.mergingJudged`), well-parentedness,
    leaf field selections (ScalarLeafs), the type in scope is determined at every selection node
    (a closed schema), the type table is keyed by definition names, unique fragment names and
    every fragment used (with no spread in the document: there are no fragment definitions). -/
theorem C08_overlap_complete_flat (s : Schema) (d : QueryDoc)
    (hflat : Spec.allSpreadNames d = [])
    (hj : Spec.mergingJudged s d = true) (hwp : Spec.wellParented s d = true)
    (hleaf : Spec.leafFieldSelections s d = true)
    (hparents : ∀ t ∈ Spec.docSels s d, t.parent.isSome) (hkeys : KeysOK s)
    (hu : Spec.fragmentNameUniqueness d = true) (hused : Spec.fragmentsMustBeUsed d = true) :
    validate [overlappingFieldsCanBeMerged] s d = .ok [] ↔ Spec.fieldSelectionMerging s d = true := by
  have hfs : Spec.fieldSelections s d = true := by
    unfold Spec.mergingJudged at hj
    simp only [Bool.and_eq_true] at hj
    exact hj.1.2
  exact overlap_flat_iff s d ⟨hwp, hfs, hleaf, hparents, hkeys⟩ hflat hj hu hused

#print axioms C08_overlap_complete_flat
end C08

section C08
open Gql Gql.Validate Gql.Validate.Rules

/-- a schema whose type table is keyed by the names of its definitions (`Closed.keys`) -/
theorem C08_overlap_keysOK_of_consistent (s : Schema) (h : Gql.Spec.KeysConsistent s) : KeysOK s := by
  intro n t ht
  exact h.1 (n, t) (typesLookup_mem s.types n t ht)

/-- **stages (b)/(c), the memos** — on a document without fragment cycles the memoised rule is
    equivalent to its memo-free semantics: OverlappingFieldsCanBeMerged reports nothing iff no selection
    set of `Spec.docSets` has a derivable conflict (`TopHolds`: the judgments follow the Go code without
    `comparedFragmentPairs` / `comparedFieldsAndFragmentPairs`, and under the link table in which every
    node is linked).  Neither memo, nor the order in which the walker links nodes, changes the verdict.
    `MemoHyps`: the other rules' guarantees (`OvHyps`), no cycles, spreads defined, `ArgsSym`, and the
    node identity assumption of the model (a selection set is identified by its first node). -/
theorem C08_overlap_memo_free (s : Schema) (d : QueryDoc) (M : MemoHyps s d)
    (hu : Spec.fragmentNameUniqueness d = true) (hused : Spec.fragmentsMustBeUsed d = true) :
    validate [overlappingFieldsCanBeMerged] s d = .ok [] ↔
      ∀ t ∈ Spec.docSets s d, ¬ TopHolds (envOf s d (fullLinks d)) t.parent t.sels :=
  overlap_silent_iff s d M hu hused

/-- the two directions against §5.3.2 of the memo-free semantics -/
theorem C08_overlap_sound_spec (s : Schema) (d : QueryDoc) (S : SemHyps s d) (t : Spec.TSet) (ht : t ∈ Spec.docSets s d)
    (h : TopHolds (envOf s d (fullLinks d)) t.parent t.sels) : SpecFalse s d :=
  topHolds_specFalse S ht h

/-- hypotheses of `C08_OverlappingFieldsCanBeMerged` that are not specification predicates: loaded
    schemas (`C07`: closed field types, `String` present, keys consistent) and the node identity
    assumption of the rule model (DESIGN §4; checked by the harness on every document,
    `overlap-selection-identity`) in the form of ONE decidable property of the syntax tree: the
    first nodes of the non-empty selection sets of the document start at pairwise different offsets -/
structure C08OverlapHyps (s : Schema) (d : QueryDoc) : Prop where
  fieldTypesClosed : Gql.Spec.ClosedFieldTypes s
  hasString : (s.type? (str "String")).isSome
  keys : KeysOK s
  setStarts : SetStartsNodup d

/-- **§5.3.2 — OverlappingFieldsCanBeMerged reports nothing iff `Spec.fieldSelectionMerging` holds**, for
    documents without fragment cycles and with unique fragment names.  Every other hypothesis is a
    specification predicate that another rule decides (known root types, known and composite type
    conditions, defined spreads, fields defined, leaf selections, used fragments, unique argument and
    input-field names), well-parentedness, or belongs to `C08OverlapHyps`. -/
theorem C08_OverlappingFieldsCanBeMerged (s : Schema) (d : QueryDoc) (ho : C08OverlapHyps s d)
    (hacyclic : Spec.noFragmentCycles d = true) (hfn : Spec.fragmentNameUniqueness d = true)
    (hwp : Spec.wellParented s d = true) (hroot : Spec.knownRootType s d = true)
    (hdef : Spec.fragmentSpreadTargetDefined d = true) (htc : Spec.fragmentSpreadTypeExistence s d = true)
    (hcomp : Spec.fragmentsOnCompositeTypes s d = true) (hfs : Spec.fieldSelections s d = true)
    (hleaf : Spec.leafFieldSelections s d = true) (hused : Spec.fragmentsMustBeUsed d = true)
    (hargs : Spec.argumentUniqueness s d = true) (hinput : Spec.inputObjectFieldUniqueness s d = true) :
    validate [overlappingFieldsCanBeMerged] s d = .ok [] ↔ Spec.fieldSelectionMerging s d = true := by
  have hj : Spec.mergingJudged s d = true := by
    unfold Spec.mergingJudged
    unfold Spec.knownRootType at hroot
    simp only [hdef, hacyclic, htc, hcomp, hfs, hroot, Bool.and_self]
  have hparents : ∀ t ∈ Spec.docSels s d, t.parent.isSome := by
    intro t ht
    obtain ⟨q, hq, _⟩ := parents_present s d ho.fieldTypesClosed ho.hasString hroot hfs htc t ht
    rw [hq]
    rfl
  exact overlap_iff s d ⟨hwp, hfs, hleaf, hparents, ho.keys⟩ hj hfn hused (argsSym_of_spec hargs hinput)
    (argsRefl_of_spec hinput) (idsInj_of_starts ho.setStarts) (idsNested_of_starts ho.setStarts)

/-- the 27 default rules -/
def c08AllRules : List Rule :=
  [ fieldsOnCorrectType, fragmentsOnCompositeTypes, knownArgumentNames, knownDirectives, knownFragmentNames,
    knownRootType, knownTypeNames, loneAnonymousOperation, maxIntrospectionDepth, noFragmentCycles,
    noUndefinedVariables, noUnusedFragments, noUnusedVariables, overlappingFieldsCanBeMerged, possibleFragmentSpreads,
    providedRequiredArguments, scalarLeafs, singleFieldSubscriptions, uniqueArgumentNames, uniqueDirectivesPerLocation,
    uniqueFragmentNames, uniqueInputFieldNames, uniqueOperationNames, uniqueVariableNames, valuesOfCorrectType,
    variablesAreInputTypes, variablesInAllowedPosition ]

theorem C08_all_rules_are_default_rules : c08AllRules.map (·.name) = defaultRules.map (·.name) := by decide

theorem C08_all_rules_split (P : Rule → Prop) :
    (∀ r ∈ c08AllRules, P r) ↔ (∀ r ∈ c08Rules, P r) ∧ P overlappingFieldsCanBeMerged := by
  simp only [c08AllRules, c08Rules, List.mem_cons, List.not_mem_nil, or_false, forall_eq_or_imp, forall_eq]
  constructor
  · rintro ⟨r1, r2, r3, r4, r5, r6, r7, r8, r9, r10, r11, r12, r13, ro, r14, r15, r16, r17, r18, r19, r20, r21, r22, r23, rv, r24, r25⟩
    exact ⟨⟨r1, r2, r3, r4, r5, r6, r7, r8, r9, r10, r11, r12, r13, r14, r15, r16, r17, r18, r19, r20, r21, r22, r23, rv, r24, r25⟩, ro⟩
  · rintro ⟨⟨r1, r2, r3, r4, r5, r6, r7, r8, r9, r10, r11, r12, r13, r14, r15, r16, r17, r18, r19, r20, r21, r22, r23, rv, r24, r25⟩, ro⟩
    exact ⟨r1, r2, r3, r4, r5, r6, r7, r8, r9, r10, r11, r12, r13, ro, r14, r15, r16, r17, r18, r19, r20, r21, r22, r23, rv, r24, r25⟩

/-- **C08, verdict**: the 27 default rules, run together, accept exactly the documents that satisfy all
    28 specification predicates (`Spec.specValid`), field merging (§5.3.2) included. -/
theorem C08_default_rules_iff_spec (s : Schema) (d : QueryDoc) (h : C08Hyps s d) (ho : C08OverlapHyps s d) :
    validate c08AllRules s d = .ok [] ↔ Spec.specValid s d = true := by
  have hpart := C08_default_rules_iff_spec_partial s d h
  rw [C08_rule_list_silent_iff c08Rules s d (by decide)] at hpart
  rw [C08_rule_list_silent_iff c08AllRules s d (by decide), C08_all_rules_split, hpart]
  have hpartc : ((Spec.specVerdicts s d).filter (fun p => !c08Uncovered.contains p.1)).all (·.2) = true ↔
    (Spec.operationNameUniqueness d = true ∧ Spec.loneAnonymousOperation d = true ∧ Spec.singleRootField s d = true ∧
     Spec.knownRootType s d = true ∧ Spec.fieldSelections s d = true ∧ Spec.leafFieldSelections s d = true ∧
     Spec.argumentNames s d = true ∧ Spec.argumentUniqueness s d = true ∧ Spec.requiredArguments s d = true ∧
     Spec.fragmentNameUniqueness d = true ∧ Spec.fragmentSpreadTypeExistence s d = true ∧
     Spec.fragmentsOnCompositeTypes s d = true ∧ Spec.fragmentsMustBeUsed d = true ∧
     Spec.fragmentSpreadTargetDefined d = true ∧ Spec.noFragmentCycles d = true ∧
     Spec.fragmentSpreadIsPossible s d = true ∧
     (Spec.valuesOfCorrectType s d && Spec.oneOfVariablesNonNull s d) = true ∧ Spec.inputObjectFieldUniqueness s d = true ∧
     Spec.directivesAreDefined s d = true ∧ Spec.directivesInValidLocations s d = true ∧
     Spec.directivesUniquePerLocation s d = true ∧ Spec.variableUniqueness d = true ∧
     Spec.variablesAreInputTypes s d = true ∧ Spec.allVariableUsesDefined s d = true ∧
     Spec.allVariablesUsed s d = true ∧ Spec.allVariableUsagesAllowed s d = true ∧ Spec.maxIntrospectionDepth d = true) := by
    simp only [Spec.specVerdicts, c08Uncovered]
    simp [List.filter, List.all]
  have hfull : Spec.specValid s d = true ↔
    (Spec.operationNameUniqueness d = true ∧ Spec.loneAnonymousOperation d = true ∧ Spec.singleRootField s d = true ∧
     Spec.knownRootType s d = true ∧ Spec.fieldSelections s d = true ∧ Spec.fieldSelectionMerging s d = true ∧
     Spec.leafFieldSelections s d = true ∧
     Spec.argumentNames s d = true ∧ Spec.argumentUniqueness s d = true ∧ Spec.requiredArguments s d = true ∧
     Spec.fragmentNameUniqueness d = true ∧ Spec.fragmentSpreadTypeExistence s d = true ∧
     Spec.fragmentsOnCompositeTypes s d = true ∧ Spec.fragmentsMustBeUsed d = true ∧
     Spec.fragmentSpreadTargetDefined d = true ∧ Spec.noFragmentCycles d = true ∧
     Spec.fragmentSpreadIsPossible s d = true ∧
     (Spec.valuesOfCorrectType s d && Spec.oneOfVariablesNonNull s d) = true ∧ Spec.inputObjectFieldUniqueness s d = true ∧
     Spec.directivesAreDefined s d = true ∧ Spec.directivesInValidLocations s d = true ∧
     Spec.directivesUniquePerLocation s d = true ∧ Spec.variableUniqueness d = true ∧
     Spec.variablesAreInputTypes s d = true ∧ Spec.allVariableUsesDefined s d = true ∧
     Spec.allVariablesUsed s d = true ∧ Spec.allVariableUsagesAllowed s d = true ∧ Spec.maxIntrospectionDepth d = true) := by
    simp only [Spec.specValid, Spec.specVerdicts]
    simp [List.all]
  rw [hpartc, hfull]
  constructor
  · rintro ⟨⟨opNames, lone, root1, hroot, hfs, hleaf, argNames, hargs, reqArgs, hfn, htc, hcomp,
      hused, hdef, hcyc, possible, valuesOK, hinput, dirsDef, dirsLoc, dirsUniq, varUniq, varTypes, varsDef, varsUsed, varsAllowed, depth⟩, hov⟩
    have hm := (C08_OverlappingFieldsCanBeMerged s d ho hcyc hfn h.wellParented hroot hdef htc hcomp hfs hleaf hused
      hargs hinput).1 hov
    exact ⟨opNames, lone, root1, hroot, hfs, hm, hleaf, argNames, hargs, reqArgs, hfn, htc, hcomp,
      hused, hdef, hcyc, possible, valuesOK, hinput, dirsDef, dirsLoc, dirsUniq, varUniq, varTypes, varsDef, varsUsed, varsAllowed, depth⟩
  · rintro ⟨opNames, lone, root1, hroot, hfs, hm, hleaf, argNames, hargs, reqArgs, hfn, htc, hcomp,
      hused, hdef, hcyc, possible, valuesOK, hinput, dirsDef, dirsLoc, dirsUniq, varUniq, varTypes, varsDef, varsUsed, varsAllowed, depth⟩
    have hov := (C08_OverlappingFieldsCanBeMerged s d ho hcyc hfn h.wellParented hroot hdef htc hcomp hfs hleaf hused
      hargs hinput).2 hm
    exact ⟨⟨opNames, lone, root1, hroot, hfs, hleaf, argNames, hargs, reqArgs, hfn, htc, hcomp,
      hused, hdef, hcyc, possible, valuesOK, hinput, dirsDef, dirsLoc, dirsUniq, varUniq, varTypes, varsDef, varsUsed, varsAllowed, depth⟩, hov⟩

#print axioms C08_overlap_memo_free
#print axioms C08_overlap_sound_spec
#print axioms C08_OverlappingFieldsCanBeMerged
#print axioms C08_all_rules_are_default_rules
#print axioms C08_default_rules_iff_spec
end C08

/- non-vacuity of `C08_OverlappingFieldsCanBeMerged` (kernel-checked): documents WITH fragment spreads -/
namespace OverlapCompleteWitness
open Gql Gql.Validate Gql.Validate.Witness Gql.Validate.OverlapWitness

/-- `type Query { id: ID u: Node x: Int }  interface Node { id: ID u: Node x: Int }` with the scalars
    `ID`, `Int`, `String` -/
def schema : Schema :=
  { Schema.empty with
    query := some (str "Query"),
    types := [(str "ID", scalar "ID"), (str "Int", scalar "Int"), (str "String", scalar "String"),
              (str "Node", composite .interface "Node"), (str "Query", composite .object "Query")] }

def frag (n : String) (sel : Selections) (o : Nat) : FragmentDef :=
  { name := str n, vars := [], typeCond := str "Node", dirs := [], sel := sel, pos := at' o }

def query (sel : Selections) : OperationDef :=
  { op := str "query", name := [], vars := [], dirs := [], sel := sel, pos := at' 0 }

/-- `{ u { a: id ...F ...G } }  fragment F on Node { a: id ...G }  fragment G on Node { u { a: id } }` -/
def docGood : QueryDoc :=
  { ops := [query (.cons (.field (str "u") (str "u") [] []
              (.cons (leaf "a" "id" 6) (.cons (.spread (str "F") [] (at' 12)) (.cons (.spread (str "G") [] (at' 17)) .nil))) (at' 2)) .nil)],
    frags := [frag "F" (.cons (leaf "a" "id" 45) (.cons (.spread (str "G") [] (at' 51)) .nil)) 26,
              frag "G" (.cons (.field (str "u") (str "u") [] [] (.cons (leaf "a" "id" 82) .nil) (at' 78)) .nil) 59] }

/-- `{ u { a: id ...F } }  fragment F on Node { ...G }  fragment G on Node { a: x }` — the conflict is
    between a field of the operation and a field two spreads away -/
def docBad : QueryDoc :=
  { ops := [query (.cons (.field (str "u") (str "u") [] []
              (.cons (leaf "a" "id" 6) (.cons (.spread (str "F") [] (at' 12)) .nil)) (at' 2)) .nil)],
    frags := [frag "F" (.cons (.spread (str "G") [] (at' 40)) .nil) 21,
              frag "G" (.cons (leaf "a" "x" 68) .nil) 49] }

theorem hyps (d : QueryDoc) (h : SetStartsNodup d) : C08OverlapHyps schema d :=
  { fieldTypesClosed := by decide +kernel
    hasString := by decide +kernel
    keys := C08_overlap_keysOK_of_consistent schema ⟨by decide +kernel, by decide +kernel, by decide +kernel, by decide +kernel⟩
    setStarts := h }

end OverlapCompleteWitness

open OverlapCompleteWitness in
/-- all hypotheses of `C08_OverlappingFieldsCanBeMerged` hold for `docGood`, and both sides are true … -/
example : SetStartsNodup docGood ∧
    (Spec.noFragmentCycles docGood && Spec.fragmentNameUniqueness docGood && Spec.wellParented schema docGood &&
     Spec.knownRootType schema docGood && Spec.fragmentSpreadTargetDefined docGood &&
     Spec.fragmentSpreadTypeExistence schema docGood && Spec.fragmentsOnCompositeTypes schema docGood &&
     Spec.fieldSelections schema docGood && Spec.leafFieldSelections schema docGood && Spec.fragmentsMustBeUsed docGood &&
     Spec.argumentUniqueness schema docGood && Spec.inputObjectFieldUniqueness schema docGood) = true ∧
    Gql.Validate.validate [Gql.Validate.Rules.overlappingFieldsCanBeMerged] schema docGood = .ok [] ∧
    Spec.fieldSelectionMerging schema docGood = true := by
  refine ⟨by decide +kernel, by decide +kernel, by decide +kernel, by decide +kernel⟩

open OverlapCompleteWitness in
/-- … they hold for `docBad`, and both sides are false (the rule reports the conflict found through
    two fragment spreads) -/
example : SetStartsNodup docBad ∧
    (Spec.noFragmentCycles docBad && Spec.fragmentNameUniqueness docBad && Spec.wellParented schema docBad &&
     Spec.knownRootType schema docBad && Spec.fragmentSpreadTargetDefined docBad &&
     Spec.fragmentSpreadTypeExistence schema docBad && Spec.fragmentsOnCompositeTypes schema docBad &&
     Spec.fieldSelections schema docBad && Spec.leafFieldSelections schema docBad && Spec.fragmentsMustBeUsed docBad &&
     Spec.argumentUniqueness schema docBad && Spec.inputObjectFieldUniqueness schema docBad) = true ∧
    Gql.Validate.validate [Gql.Validate.Rules.overlappingFieldsCanBeMerged] schema docBad ≠ .ok [] ∧
    Spec.fieldSelectionMerging schema docBad = false := by
  refine ⟨by decide +kernel, by decide +kernel, by decide +kernel, by decide +kernel⟩

open OverlapCompleteWitness in
/-- the theorem applied to the two witnesses -/
example : (Gql.Validate.validate [Gql.Validate.Rules.overlappingFieldsCanBeMerged] schema docGood = .ok [] ↔
      Spec.fieldSelectionMerging schema docGood = true) ∧
    (Gql.Validate.validate [Gql.Validate.Rules.overlappingFieldsCanBeMerged] schema docBad = .ok [] ↔
      Spec.fieldSelectionMerging schema docBad = true) :=
  ⟨C08_OverlappingFieldsCanBeMerged schema docGood (hyps docGood (by decide +kernel)) (by decide +kernel) (by decide +kernel)
      (by decide +kernel) (by decide +kernel) (by decide +kernel) (by decide +kernel) (by decide +kernel) (by decide +kernel)
      (by decide +kernel) (by decide +kernel) (by decide +kernel) (by decide +kernel),
   C08_OverlappingFieldsCanBeMerged schema docBad (hyps docBad (by decide +kernel)) (by decide +kernel) (by decide +kernel)
      (by decide +kernel) (by decide +kernel) (by decide +kernel) (by decide +kernel) (by decide +kernel) (by decide +kernel)
      (by decide +kernel) (by decide +kernel) (by decide +kernel) (by decide +kernel)⟩

section C08
open Gql Gql.Validate Gql.Validate.Rules

/-- `c08AllRules` IS the default rule list of the library -/
theorem C08_all_rules_eq_default : defaultRules = c08AllRules := rfl

/-- **C08**: `validate` with the default rules accepts exactly the documents that satisfy all
    specification predicates -/
theorem C08_validate_default_iff_spec (s : Schema) (d : QueryDoc) (h : C08Hyps s d) (ho : C08OverlapHyps s d) :
    validate defaultRules s d = .ok [] ↔ Spec.specValid s d = true := by
  rw [C08_all_rules_eq_default]
  exact C08_default_rules_iff_spec s d h ho

#print axioms C08_validate_default_iff_spec
end C08

namespace OverlapCompleteWitness
open Gql Gql.Validate Gql.Validate.Witness Gql.Validate.OverlapWitness

/-- `{ id }  fragment F on Node { u { a: id a: x } }` — the fragment is never spread -/
def docUnused : QueryDoc :=
  { ops := [query (.cons (leaf "id" "id" 2) .nil)],
    frags := [frag "F" (.cons (.field (str "u") (str "u") [] [] (.cons (leaf "a" "id" 31) (.cons (leaf "a" "x" 37) .nil)) (at' 27)) .nil) 7] }

end OverlapCompleteWitness

open OverlapCompleteWitness in
/-- the hypothesis `Spec.fragmentsMustBeUsed` of `C08_OverlappingFieldsCanBeMerged` is NEEDED (the recorded
    rule-level difference): inside a fragment definition that no operation reaches the `field` observer of the
    rule does nothing (`walker.CurrentOperation == nil`), so the conflict in the sub-selection of `u` is not
    reported, while §5.3.2 judges every selection set of the document.  All other hypotheses hold; the
    document is rejected by NoUnusedFragments. -/
theorem C08_overlap_unused_fragment_counterexample :
    SetStartsNodup docUnused ∧
    (Spec.noFragmentCycles docUnused && Spec.fragmentNameUniqueness docUnused && Spec.wellParented schema docUnused &&
     Spec.knownRootType schema docUnused && Spec.fragmentSpreadTargetDefined docUnused &&
     Spec.fragmentSpreadTypeExistence schema docUnused && Spec.fragmentsOnCompositeTypes schema docUnused &&
     Spec.fieldSelections schema docUnused && Spec.leafFieldSelections schema docUnused &&
     Spec.argumentUniqueness schema docUnused && Spec.inputObjectFieldUniqueness schema docUnused) = true ∧
    Spec.fragmentsMustBeUsed docUnused = false ∧
    Gql.Validate.validate [Gql.Validate.Rules.overlappingFieldsCanBeMerged] schema docUnused = .ok [] ∧
    Spec.fieldSelectionMerging schema docUnused = false := by
  refine ⟨by decide +kernel, by decide +kernel, by decide +kernel, by decide +kernel, by decide +kernel⟩

#print axioms C08_overlap_unused_fragment_counterexample

/- ======================= C08 FOR THE WHOLE DEFAULT RULE SET, OVER SOURCE TEXTS ======================= -/
section C08Final
open Gql Gql.Validate Gql.Validate.Rules Gql.EndToEnd Gql.Load

/-- `Spec.specValid` as the conjunction of its 28 predicates -/
theorem C08_specValid_iff (s : Schema) (d : QueryDoc) :
    Spec.specValid s d = true ↔
    (Spec.operationNameUniqueness d = true ∧ Spec.loneAnonymousOperation d = true ∧ Spec.singleRootField s d = true ∧
     Spec.knownRootType s d = true ∧ Spec.fieldSelections s d = true ∧ Spec.fieldSelectionMerging s d = true ∧
     Spec.leafFieldSelections s d = true ∧
     Spec.argumentNames s d = true ∧ Spec.argumentUniqueness s d = true ∧ Spec.requiredArguments s d = true ∧
     Spec.fragmentNameUniqueness d = true ∧ Spec.fragmentSpreadTypeExistence s d = true ∧
     Spec.fragmentsOnCompositeTypes s d = true ∧ Spec.fragmentsMustBeUsed d = true ∧
     Spec.fragmentSpreadTargetDefined d = true ∧ Spec.noFragmentCycles d = true ∧
     Spec.fragmentSpreadIsPossible s d = true ∧
     (Spec.valuesOfCorrectType s d && Spec.oneOfVariablesNonNull s d) = true ∧ Spec.inputObjectFieldUniqueness s d = true ∧
     Spec.directivesAreDefined s d = true ∧ Spec.directivesInValidLocations s d = true ∧
     Spec.directivesUniquePerLocation s d = true ∧ Spec.variableUniqueness d = true ∧
     Spec.variablesAreInputTypes s d = true ∧ Spec.allVariableUsesDefined s d = true ∧
     Spec.allVariablesUsed s d = true ∧ Spec.allVariableUsagesAllowed s d = true ∧ Spec.maxIntrospectionDepth d = true) := by
  simp only [Spec.specValid, Spec.specVerdicts]
  simp [List.all]

/-- the prerequisites under which §5.3.2 is judged are specification predicates -/
theorem C08_mergingJudged_of_spec {s : Schema} {d : QueryDoc}
    (hdef : Spec.fragmentSpreadTargetDefined d = true) (hacyclic : Spec.noFragmentCycles d = true)
    (htc : Spec.fragmentSpreadTypeExistence s d = true) (hcomp : Spec.fragmentsOnCompositeTypes s d = true)
    (hfs : Spec.fieldSelections s d = true) (hroot : Spec.knownRootType s d = true) : Spec.mergingJudged s d = true := by
  unfold Spec.mergingJudged
  unfold Spec.knownRootType at hroot
  simp only [hdef, hacyclic, htc, hcomp, hfs, hroot, Bool.and_self]

/-- hazard 4 of SingleFieldSubscriptions (`rootKeysConsistent`: collected root fields with one response
    key have one field name) is a consequence of §5.3.2 and the prerequisites under which it is judged -/
theorem C08_rootKeysConsistent_of_merging (s : Schema) (d : QueryDoc)
    (hdef : Spec.fragmentSpreadTargetDefined d = true) (hacyclic : Spec.noFragmentCycles d = true)
    (htc : Spec.fragmentSpreadTypeExistence s d = true) (hcomp : Spec.fragmentsOnCompositeTypes s d = true)
    (hfs : Spec.fieldSelections s d = true) (hroot : Spec.knownRootType s d = true)
    (hm : Spec.fieldSelectionMerging s d = true) : rootKeysConsistent s d = true :=
  rootKeysConsistent_of_merging s d (C08_mergingJudged_of_spec hdef hacyclic htc hcomp hfs hroot) hm

/-- hazard 3 (`subscriptionsSelectRoot`: every subscription collects at least one root field) is part of
    the specification predicate §5.2.3.1 itself ("exactly one entry") -/
theorem C08_subscriptionsSelectRoot_of_spec (s : Schema) (d : QueryDoc) (h : Spec.singleRootField s d = true) :
    subscriptionsSelectRoot s d = true := by
  unfold subscriptionsSelectRoot
  rw [List.all_eq_true]
  intro op hop
  by_cases hk : op.op = Spec.kwSubscription
  · cases hobj : Spec.rootDef s op.op with
    | none => simp
    | some obj =>
      have h1 := (singleRootField_iff s d).1 h op hop hk obj hobj
      cases hfs : Spec.collectRootFields s d obj op.sel with
      | nil => rw [hfs] at h1; exact absurd h1 (by decide)
      | cons f fs => simp [hfs]
  · simp [hk]

/-- the hypotheses of the capstone that are invariants of parser output (document side) or of loader
    output (schema side): `C08Hyps` without its four semantic fields `wellParented`, `selectRoot`,
    `rootKeys`, `defaultedLocations` -/
structure C08BaseHyps (s : Schema) (d : QueryDoc) : Prop where
  kinds : ∀ op ∈ d.ops, op.op ∈ parserOpKinds
  outputTypes : Spec.fieldTypesAreOutputTypes s d = true
  noEmptyTypeName : s.type? [] = none
  possibleOK : possibleOK s = true
  subscriptionRoot : subscriptionRootExact s = true
  valuesShaped : valuesShaped s d = true
  constDefaults : constDefaults d = true
  typeConds : ∀ f ∈ d.frags, f.typeCond ≠ []
  inputPositions : inputPositionsPlain s = true
  schemaOK : schemaOK s = true
  argTypes : Gql.Spec.ClosedArgTypes s
  directiveArgTypes : Gql.Spec.ClosedDirectiveArgTypes s
  numLiterals : numLiteralsOK s d = true
  leaves : leavesWellFormed s d = true
  usePos : usePosDistinct s d = true

theorem C08BaseHyps.toHyps {s : Schema} {d : QueryDoc} (B : C08BaseHyps s d) (hwp : Spec.wellParented s d = true)
    (hsel : subscriptionsSelectRoot s d = true) (hrk : rootKeysConsistent s d = true)
    (hdl : defaultedLocationsHarmless s d = true) : C08Hyps s d :=
  { kinds := B.kinds, wellParented := hwp, outputTypes := B.outputTypes, noEmptyTypeName := B.noEmptyTypeName,
    possibleOK := B.possibleOK, subscriptionRoot := B.subscriptionRoot, valuesShaped := B.valuesShaped,
    constDefaults := B.constDefaults, typeConds := B.typeConds, selectRoot := hsel, rootKeys := hrk,
    inputPositions := B.inputPositions, defaultedLocations := hdl, schemaOK := B.schemaOK, argTypes := B.argTypes,
    directiveArgTypes := B.directiveArgTypes, numLiterals := B.numLiterals, leaves := B.leaves, usePos := B.usePos }

theorem C08Hyps.toBase {s : Schema} {d : QueryDoc} (h : C08Hyps s d) : C08BaseHyps s d :=
  { kinds := h.kinds, outputTypes := h.outputTypes, noEmptyTypeName := h.noEmptyTypeName,
    possibleOK := h.possibleOK, subscriptionRoot := h.subscriptionRoot, valuesShaped := h.valuesShaped,
    constDefaults := h.constDefaults, typeConds := h.typeConds,
    inputPositions := h.inputPositions, schemaOK := h.schemaOK, argTypes := h.argTypes,
    directiveArgTypes := h.directiveArgTypes, numLiterals := h.numLiterals, leaves := h.leaves, usePos := h.usePos }

/-- **no invalid request passes** (trees): a document on which the 27 default rules report nothing
    satisfies all 28 specification predicates.  Neither `Spec.wellParented` nor `rootKeysConsistent` nor
    `defaultedLocationsHarmless` is assumed: the first follows from the silence of five rules
    (`C08_wellParented_of_rules`), the second from the silence of OverlappingFieldsCanBeMerged
    (`C08_rootKeysConsistent_of_merging`), and the recorded finding about VariablesInAllowedPosition only
    makes the rule report MORE than the specification (`C08_VariablesInAllowedPosition_complete`).
    Left: `subscriptionsSelectRoot`. -/
theorem C08_default_rules_sound (s : Schema) (d : QueryDoc) (B : C08BaseHyps s d) (W : WPSchema s)
    (ho : C08OverlapHyps s d) (hsel : subscriptionsSelectRoot s d = true)
    (hv : validate defaultRules s d = .ok []) : Spec.specValid s d = true := by
  rw [C08_all_rules_eq_default, C08_rule_list_silent_iff c08AllRules s d (by decide)] at hv
  simp only [c08AllRules, List.mem_cons, List.not_mem_nil, or_false, forall_eq_or_imp, forall_eq] at hv
  obtain ⟨r1, r2, r3, r4, r5, r6, r7, r8, r9, r10, r11, r12, r13, ro, r14, r15, r16, r17, r18, r19, r20, r21, r22, r23,
    rv, r24, r25⟩ := hv
  have hwp := C08_wellParented_of_rules W B.noEmptyTypeName d r6 r7 r2 r1 r16
  have lone := (C08_LoneAnonymousOperation s d).1 r8
  have opNames := (C08_UniqueOperationNames s d lone).1 r22
  have varUniq := (C08_UniqueVariableNames s d).1 r23
  have fragUniq := (C08_UniqueFragmentNames s d).1 r20
  have spreadsDef := (C08_KnownFragmentNames s d).1 r5
  have dirs := (C08_KnownDirectives s d B.kinds).1 r4
  have cycles := (C08_NoFragmentCycles s d fragUniq).1 r10
  have types := (C08_KnownTypeNames_VariablesAreInputTypes s d).1 ⟨r7, r24⟩
  have hroot := (C08_KnownRootType s d).1 r6
  have hfs := (C08_FieldsOnCorrectType s d hwp).1 r1
  have hleaf := (C08_ScalarLeafs s d hwp B.outputTypes).1 r16
  have hargs := (C08_UniqueArgumentNames s d B.kinds).1 r18
  have hcomp := (C08_FragmentsOnCompositeTypes s d B.noEmptyTypeName).1 r2
  have hused := (C08_NoUnusedFragments s d cycles fragUniq).1 r12
  have hinput := (C08_UniqueInputFieldNames s d B.valuesShaped).1 r21
  have hm := (C08_OverlappingFieldsCanBeMerged s d ho cycles fragUniq hwp hroot spreadsDef types.1 hcomp hfs hleaf hused
    hargs hinput).1 ro
  have hrk := C08_rootKeysConsistent_of_merging s d spreadsDef cycles types.1 hcomp hfs hroot hm
  rw [C08_specValid_iff]
  exact ⟨opNames, lone,
    (C08_SingleFieldSubscriptions s d B.subscriptionRoot spreadsDef B.typeConds hsel hrk).1 r17,
    hroot, hfs, hm, hleaf,
    (C08_KnownArgumentNames s d hwp B.kinds).1 r3,
    hargs,
    (C08_ProvidedRequiredArguments s d hwp B.kinds).1 r15,
    fragUniq, types.1, hcomp, hused, spreadsDef, cycles,
    (C08_PossibleFragmentSpreads s d hwp B.noEmptyTypeName B.possibleOK).1 r14,
    (C08_ValuesOfCorrectType s d hwp fragUniq B.constDefaults B.schemaOK
      (rootsInput_of_closed s d B.argTypes B.directiveArgTypes types.2) B.numLiterals B.leaves B.usePos).1 rv,
    hinput, dirs.1, dirs.2,
    (C08_UniqueDirectivesPerLocation s d B.kinds dirs.1).1 r19,
    varUniq, types.2,
    (C08_NoUndefinedVariables s d fragUniq B.constDefaults).1 r11,
    (C08_NoUnusedVariables s d fragUniq B.constDefaults varUniq).1 r13,
    C08_VariablesInAllowedPosition_complete s d hwp fragUniq B.constDefaults B.inputPositions
      (variableTypesNamed_of_exist s d B.noEmptyTypeName (variablesAreInputTypes_exist s d types.2)) r25,
    (C08_MaxIntrospectionDepth s d cycles).1 r9⟩

/-- **no valid request is rejected** (trees): a document that satisfies all 28 specification predicates
    passes the 27 default rules — PROVIDED the recorded finding about VariablesInAllowedPosition is not
    triggered (`defaultedLocationsHarmless`; needed: `C08_VariablesInAllowedPosition_counterexample_location_default`).
    `Spec.wellParented`, `subscriptionsSelectRoot` and `rootKeysConsistent` follow from the specification
    predicates. -/
theorem C08_default_rules_complete (s : Schema) (d : QueryDoc) (B : C08BaseHyps s d) (W : WPSchema s)
    (ho : C08OverlapHyps s d) (hdl : defaultedLocationsHarmless s d = true)
    (hs : Spec.specValid s d = true) : validate defaultRules s d = .ok [] := by
  have hs' := (C08_specValid_iff s d).1 hs
  obtain ⟨_, _, root1, hroot, hfs, hm, hleaf, _, _, _, _, htc, hcomp, _, hdef, hcyc, _⟩ := hs'
  have hwp := C08_wellParented_of_spec W d hroot htc hcomp hfs hleaf
  have hsel := C08_subscriptionsSelectRoot_of_spec s d root1
  have hrk := C08_rootKeysConsistent_of_merging s d hdef hcyc htc hcomp hfs hroot hm
  exact (C08_validate_default_iff_spec s d (B.toHyps hwp hsel hrk hdl) ho).2 hs

/-- **C08 for the whole default rule set** (trees): the semantic hypotheses `Spec.wellParented` and
    `rootKeysConsistent` of `C08_validate_default_iff_spec` are discharged -/
theorem C08_validate_default_iff_spec_base (s : Schema) (d : QueryDoc) (B : C08BaseHyps s d) (W : WPSchema s)
    (ho : C08OverlapHyps s d) (hsel : subscriptionsSelectRoot s d = true)
    (hdl : defaultedLocationsHarmless s d = true) :
    validate defaultRules s d = .ok [] ↔ Spec.specValid s d = true :=
  ⟨C08_default_rules_sound s d B W ho hsel, C08_default_rules_complete s d B W ho hdl⟩

/-! ### from source texts -/

/-- everything the parser and the loader guarantee, at once: schema sources → `ParseSchemas` → `load`,
    query source → `parseQuery` -/
theorem C08_hyps_of_sources {Ls : Nat} {srcs : List (Bool × Bytes)} {sd : SchemaDoc} {s : Schema}
    (hsrc : ∀ src ∈ srcs, Lexer.Utf8.valid src.2) (hps : Parser.parseSchemas Ls srcs = .ok sd)
    (hl : load sd = .ok s) (hprel : PreludeDeclared sd)
    {L : Nat} {inp : Bytes} {d : QueryDoc} (hp : Parser.parseQuery L inp = .ok d) :
    C08BaseHyps s d ∧ WPSchema s ∧ C08OverlapHyps s d := by
  have T := parseSchemas_treeHyps hsrc hps
  have LH := loaded_hyps hl hprel T.scalars T.enums T.names
  refine ⟨?_, loaded_wpSchema hl hprel T.unions, ?_⟩
  · exact
      { kinds := parsed_kinds hp, outputTypes := LH.outputTypes d, noEmptyTypeName := LH.noEmptyTypeName,
        possibleOK := LH.possibleOK, subscriptionRoot := LH.subscriptionRoot, valuesShaped := parsed_valuesShaped hp s,
        constDefaults := parsed_constDefaults hp, typeConds := parsed_typeConds hp, inputPositions := LH.inputPositions,
        schemaOK := LH.schemaOK, argTypes := LH.argTypes, directiveArgTypes := LH.directiveArgTypes,
        numLiterals := parsed_numLiteralsOK hp s, leaves := parsed_leavesWellFormed hp s,
        usePos := parsed_usePosDistinct hp s }
  · exact
      { fieldTypesClosed := LH.closed.fieldTypes, hasString := LH.hasString,
        keys := C08_overlap_keysOK_of_consistent s LH.keys, setStarts := parsed_setStartsNodup hp }


/-- a document without subscription operations satisfies `subscriptionsSelectRoot` trivially -/
theorem C08_subscriptionsSelectRoot_of_no_subscription (s : Schema) (d : QueryDoc)
    (h : ∀ op ∈ d.ops, op.op ≠ Spec.kwSubscription) : subscriptionsSelectRoot s d = true := by
  unfold subscriptionsSelectRoot
  rw [List.all_eq_true]
  intro op hop
  simp [h op hop]

/-- **C08, FINAL STATEMENT OVER SOURCE TEXTS, THE WHOLE DEFAULT RULE SET.**  The schema sources `srcs`
    (the prelude and the user's sources, each with its `BuiltIn` flag) are well-formed UTF-8 and
    `ParseSchemas` merges them into `sd`; `sd` loads to the schema `s`; the query source `inp` parses
    (under any token limit `L`) to the document `d`.  Then `validate` with the 27 default rules reports
    nothing iff all 28 specification predicates hold (`Spec.specValid`).
    Every parser-shape and loader-invariant side condition is discharged (`C08_hyps_of_sources`), among
    them the node identity assumption of the OverlappingFieldsCanBeMerged model (`parsed_setStartsNodup`);
    `Spec.wellParented` and `rootKeysConsistent` are derived on both sides.  Hypotheses left:
    * `PreludeDeclared sd`: the prelude is among the schema sources (the model contains no prelude text);
    * `subscriptionsSelectRoot s d`: every subscription operation collects at least one root field.  NOT a
      consequence of the other rules: `C08_subscription_without_root_field_counterexample` (the rule tests
      `len(fields) > 1`, §5.2.3.1 demands exactly one entry) — used only in the direction ⇒;
    * `defaultedLocationsHarmless s d`: the recorded finding about VariablesInAllowedPosition is not triggered
      (`C08_VariablesInAllowedPosition_counterexample_location_default`) — used only in the direction ⇐. -/
theorem C08_sources_default_iff_spec {Ls : Nat} {srcs : List (Bool × Bytes)} {sd : SchemaDoc} {s : Schema}
    (hsrc : ∀ src ∈ srcs, Lexer.Utf8.valid src.2) (hps : Parser.parseSchemas Ls srcs = .ok sd)
    (hl : load sd = .ok s) (hprel : PreludeDeclared sd)
    {L : Nat} {inp : Bytes} {d : QueryDoc} (hp : Parser.parseQuery L inp = .ok d)
    (hsel : subscriptionsSelectRoot s d = true) (hdl : defaultedLocationsHarmless s d = true) :
    validate defaultRules s d = .ok [] ↔ Spec.specValid s d = true :=
  have ⟨B, W, ho⟩ := C08_hyps_of_sources hsrc hps hl hprel hp
  C08_validate_default_iff_spec_base s d B W ho hsel hdl

/-- **no valid request is rejected** (source texts): a request that satisfies every specification
    predicate passes validation — unless the recorded finding about VariablesInAllowedPosition is triggered
    (`defaultedLocationsHarmless`) -/
theorem C08_no_valid_request_rejected {Ls : Nat} {srcs : List (Bool × Bytes)} {sd : SchemaDoc} {s : Schema}
    (hsrc : ∀ src ∈ srcs, Lexer.Utf8.valid src.2) (hps : Parser.parseSchemas Ls srcs = .ok sd)
    (hl : load sd = .ok s) (hprel : PreludeDeclared sd)
    {L : Nat} {inp : Bytes} {d : QueryDoc} (hp : Parser.parseQuery L inp = .ok d)
    (hdl : defaultedLocationsHarmless s d = true)
    (hs : Spec.specValid s d = true) : validate defaultRules s d = .ok [] :=
  have ⟨B, W, ho⟩ := C08_hyps_of_sources hsrc hps hl hprel hp
  C08_default_rules_complete s d B W ho hdl hs

/-- **no invalid request passes** (source texts): a request that passes validation satisfies every
    specification predicate — provided its subscriptions collect a root field (`subscriptionsSelectRoot`;
    without it: `C08_subscription_without_root_field_counterexample`).  `defaultedLocationsHarmless` is NOT
    needed: the recorded finding only makes the validator reject more. -/
theorem C08_no_invalid_request_passes {Ls : Nat} {srcs : List (Bool × Bytes)} {sd : SchemaDoc} {s : Schema}
    (hsrc : ∀ src ∈ srcs, Lexer.Utf8.valid src.2) (hps : Parser.parseSchemas Ls srcs = .ok sd)
    (hl : load sd = .ok s) (hprel : PreludeDeclared sd)
    {L : Nat} {inp : Bytes} {d : QueryDoc} (hp : Parser.parseQuery L inp = .ok d)
    (hsel : subscriptionsSelectRoot s d = true)
    (hv : validate defaultRules s d = .ok []) : Spec.specValid s d = true :=
  have ⟨B, W, ho⟩ := C08_hyps_of_sources hsrc hps hl hprel hp
  C08_default_rules_sound s d B W ho hsel hv

/-- for a request without subscription operations: no invalid request passes, no side condition left
    but the prelude -/
theorem C08_no_invalid_request_passes_no_subscription {Ls : Nat} {srcs : List (Bool × Bytes)} {sd : SchemaDoc} {s : Schema}
    (hsrc : ∀ src ∈ srcs, Lexer.Utf8.valid src.2) (hps : Parser.parseSchemas Ls srcs = .ok sd)
    (hl : load sd = .ok s) (hprel : PreludeDeclared sd)
    {L : Nat} {inp : Bytes} {d : QueryDoc} (hp : Parser.parseQuery L inp = .ok d)
    (hq : ∀ op ∈ d.ops, op.op ≠ Spec.kwSubscription)
    (hv : validate defaultRules s d = .ok []) : Spec.specValid s d = true :=
  C08_no_invalid_request_passes hsrc hps hl hprel hp (C08_subscriptionsSelectRoot_of_no_subscription s d hq) hv


/-- **C08 for the API as it is called** — `LoadSchema(sources…)` puts the embedded prelude (BuiltIn) in
    front of the caller's sources.  `Gen.preludeBytes` IS that text (regenerated from
    /repo/validator/imported/prelude.graphql on every run); the parser model reads it and the result
    declares every built-in scalar, introspection type and directive (`Prelude.prelude_checked`, one
    kernel evaluation), so `PreludeDeclared` is no longer a hypothesis: for ANY well-formed user sources
    that load together with the prelude, and any query text that parses, the 27 default rules report
    nothing iff all specification predicates hold — up to the two recorded findings. -/
theorem C08_loadSchema_default_iff_spec {Ls : Nat} {user : List (Bool × Bytes)} {sd : SchemaDoc} {s : Schema}
    (huser : ∀ src ∈ user, Lexer.Utf8.valid src.2)
    (hps : Parser.parseSchemas Ls ((true, Gen.preludeBytes) :: user) = .ok sd) (hl : load sd = .ok s)
    {L : Nat} {inp : Bytes} {d : QueryDoc} (hp : Parser.parseQuery L inp = .ok d)
    (hsel : subscriptionsSelectRoot s d = true) (hdl : defaultedLocationsHarmless s d = true) :
    validate defaultRules s d = .ok [] ↔ Spec.specValid s d = true :=
  C08_sources_default_iff_spec
    (fun src h => by
      rcases List.mem_cons.1 h with rfl | h
      · exact Prelude.prelude_utf8
      · exact huser src h)
    hps hl (Prelude.sources_with_prelude_declared hps) hp hsel hdl

/-- no invalid request without subscriptions passes, for schemas loaded the way `LoadSchema` loads them:
    NO side condition left -/
theorem C08_loadSchema_no_invalid_request_passes_no_subscription {Ls : Nat} {user : List (Bool × Bytes)} {sd : SchemaDoc} {s : Schema}
    (huser : ∀ src ∈ user, Lexer.Utf8.valid src.2)
    (hps : Parser.parseSchemas Ls ((true, Gen.preludeBytes) :: user) = .ok sd) (hl : load sd = .ok s)
    {L : Nat} {inp : Bytes} {d : QueryDoc} (hp : Parser.parseQuery L inp = .ok d)
    (hq : ∀ op ∈ d.ops, op.op ≠ Spec.kwSubscription)
    (hv : validate defaultRules s d = .ok []) : Spec.specValid s d = true :=
  C08_no_invalid_request_passes_no_subscription
    (fun src h => by
      rcases List.mem_cons.1 h with rfl | h
      · exact Prelude.prelude_utf8
      · exact huser src h)
    hps hl (Prelude.sources_with_prelude_declared hps) hp hq hv


end C08Final

#print axioms C08_specValid_iff
#print axioms C08_rootKeysConsistent_of_merging
#print axioms C08_subscriptionsSelectRoot_of_spec
#print axioms C08_subscriptionsSelectRoot_of_no_subscription
#print axioms C08_default_rules_sound
#print axioms C08_default_rules_complete
#print axioms C08_validate_default_iff_spec_base
#print axioms C08_hyps_of_sources
#print axioms C08_sources_default_iff_spec
#print axioms C08_no_valid_request_rejected
#print axioms C08_no_invalid_request_passes
#print axioms C08_no_invalid_request_passes_no_subscription

/- non-vacuity of the final statements and the need for the two residual hypotheses, over SOURCE TEXTS
   (one kernel evaluation of lexer, parsers, loader, specification and rules: `SourceWitness.check_true`):
   the prelude source `SourceWitness.preludeText` (the five built-in scalars, the four built-in directives, the
   eight introspection types) and the schema source
     schema { query: Q subscription: S } interface I { a: Int } type S implements I { a: Int }
     type O implements I { a: Int } type Q { a: Int f(x: Int): Int g(r: Int! = 5): Int } -/
section C08FinalWitness
open Gql Gql.Validate Gql.Validate.Rules Gql.EndToEnd Gql.Load Gql.EndToEnd.SourceWitness

/-- the 27 default rules, each run alone, report nothing ⇒ `validate defaultRules` reports nothing -/
theorem C08_validate_default_of_silent {s : Schema} {d : QueryDoc} (h : silent s d = true) :
    validate defaultRules s d = .ok [] := by
  unfold silent at h
  rw [C08_all_rules_eq_default] at h ⊢
  exact (C08_rule_list_silent_iff c08AllRules s d (by decide)).2 fun r hr =>
    of_decide_eq_true (List.all_eq_true.1 h r hr)

/-- **the hypotheses of `C08_sources_default_iff_spec` are satisfiable together, both sides true**:
    `query($v: Int) { f(x: $v) ...F } fragment F on Q { a }` -/
theorem C08_sources_default_iff_spec_witness_valid :
    (∀ src ∈ srcs, Lexer.Utf8.valid src.2) ∧ Parser.parseSchemas 0 srcs = .ok sdW ∧ load sdW = .ok sW ∧
    PreludeDeclared sdW ∧ Parser.parseQuery 0 qGood = .ok (docOf qGood) ∧
    subscriptionsSelectRoot sW (docOf qGood) = true ∧ defaultedLocationsHarmless sW (docOf qGood) = true ∧
    validate defaultRules sW (docOf qGood) = .ok [] ∧ Spec.specValid sW (docOf qGood) = true :=
  have O := outcome
  ⟨O.valid, O.parsed, O.loaded, O.prelude, O.good.1, O.good.2.1, O.good.2.2.1,
    C08_no_valid_request_rejected O.valid O.parsed O.loaded O.prelude O.good.1 O.good.2.2.1 O.good.2.2.2.1,
    O.good.2.2.2.1⟩

/-- … both sides false: `query($v: Int) { f(x: $w) ...F } fragment F on Q { a }` -/
theorem C08_sources_default_iff_spec_witness_invalid :
    Parser.parseQuery 0 qBad = .ok (docOf qBad) ∧
    subscriptionsSelectRoot sW (docOf qBad) = true ∧ defaultedLocationsHarmless sW (docOf qBad) = true ∧
    validate defaultRules sW (docOf qBad) ≠ .ok [] ∧ Spec.specValid sW (docOf qBad) = false :=
  have O := outcome
  ⟨O.bad.1, O.bad.2.1, O.bad.2.2.1,
    fun hv => absurd (C08_no_invalid_request_passes O.valid O.parsed O.loaded O.prelude O.bad.1 O.bad.2.1 hv)
      (by rw [O.bad.2.2.2.1]; decide),
    O.bad.2.2.2.1⟩

/-- … a subscription, both sides true: `subscription { ... on I { a } }` -/
theorem C08_sources_default_iff_spec_witness_subscription :
    Parser.parseQuery 0 qSubOne = .ok (docOf qSubOne) ∧
    subscriptionsSelectRoot sW (docOf qSubOne) = true ∧ defaultedLocationsHarmless sW (docOf qSubOne) = true ∧
    validate defaultRules sW (docOf qSubOne) = .ok [] ∧ Spec.specValid sW (docOf qSubOne) = true :=
  have O := outcome
  ⟨O.subOne.1, O.subOne.2.1, O.subOne.2.2.1,
    C08_no_valid_request_rejected O.valid O.parsed O.loaded O.prelude O.subOne.1 O.subOne.2.2.1 O.subOne.2.2.2.1,
    O.subOne.2.2.2.1⟩

/-- **`subscriptionsSelectRoot` is needed — FINDING.**  `subscription { ... on I { ... on O { a } } }` against
    `interface I  type S implements I  type O implements I` with subscription root `S`: both fragment spreads
    are possible (`S` and `O` are possible types of `I`), `O` does not apply to the root type, so
    `CollectFields` yields NO root field.  §5.2.3.1 demands exactly one entry (`Spec.singleRootField` fails,
    hence `Spec.specValid`); the 27 default rules report nothing (SingleFieldSubscriptions tests
    `len(fields) > 1`).  Every other hypothesis of `C08_sources_default_iff_spec` holds. -/
theorem C08_subscription_without_root_field_counterexample :
    (∀ src ∈ srcs, Lexer.Utf8.valid src.2) ∧ Parser.parseSchemas 0 srcs = .ok sdW ∧ load sdW = .ok sW ∧
    PreludeDeclared sdW ∧ Parser.parseQuery 0 qSubZero = .ok (docOf qSubZero) ∧
    defaultedLocationsHarmless sW (docOf qSubZero) = true ∧
    subscriptionsSelectRoot sW (docOf qSubZero) = false ∧
    validate defaultRules sW (docOf qSubZero) = .ok [] ∧ Spec.specValid sW (docOf qSubZero) = false :=
  have O := outcome
  ⟨O.valid, O.parsed, O.loaded, O.prelude, O.subZero.1, O.subZero.2.2.1, O.subZero.2.1,
    C08_validate_default_of_silent O.subZeroSilent, O.subZero.2.2.2.1⟩

/-- **`defaultedLocationsHarmless` is needed — the recorded finding, over source texts and for the whole
    rule set.**  `query($v: Int) { g(r: $v) }` against `g(r: Int! = 5): Int`: the specification allows the
    nullable variable (the location has a default value, §5.8.5), all 28 predicates hold; validation rejects
    the request (VariablesInAllowedPosition).  Every other hypothesis of `C08_sources_default_iff_spec` holds. -/
theorem C08_location_default_counterexample_sources :
    (∀ src ∈ srcs, Lexer.Utf8.valid src.2) ∧ Parser.parseSchemas 0 srcs = .ok sdW ∧ load sdW = .ok sW ∧
    PreludeDeclared sdW ∧ Parser.parseQuery 0 qLocDefault = .ok (docOf qLocDefault) ∧
    subscriptionsSelectRoot sW (docOf qLocDefault) = true ∧
    defaultedLocationsHarmless sW (docOf qLocDefault) = false ∧
    validate defaultRules sW (docOf qLocDefault) ≠ .ok [] ∧ Spec.specValid sW (docOf qLocDefault) = true := by
  have O := outcome
  refine ⟨O.valid, O.parsed, O.loaded, O.prelude, O.locDefault.1, O.locDefault.2.1, O.locDefault.2.2.1, ?_,
    O.locDefault.2.2.2.1⟩
  intro hv
  rw [C08_all_rules_eq_default] at hv
  have h1 := (C08_rule_list_silent_iff c08AllRules _ _ (by decide)).1 hv variablesInAllowedPosition (by simp [c08AllRules])
  have h2 := O.locDefault.2.2.2.2
  rw [decide_eq_false_iff_not] at h2
  exact h2 h1

end C08FinalWitness

#print axioms C08_sources_default_iff_spec_witness_valid
#print axioms C08_sources_default_iff_spec_witness_invalid
#print axioms C08_sources_default_iff_spec_witness_subscription
#print axioms C08_subscription_without_root_field_counterexample
#print axioms C08_location_default_counterexample_sources
