import GqlProofs.Parser.Results
import GqlProofs.Parser.ResultsMulti
import GqlProofs.Parser.SoundTop
import GqlProofs.Parser.SoundSchemaTop
/-
  C16 — the token limit is exact, monotone and bounds the work.

  All statements are about the definitions the driver runs (`parseQuery`, `parseSchema`,
  `parseSchemas`, `runQuery`, `runSchema` of `GqlModel/Parser`).  Limit 0 is "no limit"
  (`ParseQuery`/`ParseSchema` pass 0).  `tokenCount` counts every `next` — all tokens including
  comments; a successful parse never consumes the EOF token.
-/
open Gql Gql.Parser

/-! ### the sticky error -/

/-- Once the sticky error is set, running *any* parser program changes no field of the parser
    state except (possibly) the model's ghost flag `oof`: no token is pulled or counted, the error
    is not replaced, `prev` and the look-ahead stay. -/
theorem C16_error_sticky {α : Type} (L : Nat) (p : Prog α) (s : PState) (h : s.err.isSome) :
    (run L p s).2 = { s with oof := (run L p s).2.oof } :=
  run_err_state L p s h

/-! ### generic consequences of the limit simulation -/

/-! ### queries -/

/-- `ParseQuery` (limit 0) never reports a token-limit error. -/
theorem C16_zero_unlimited_query (inp : Bytes) (n : Nat) : parseQuery 0 inp ≠ .error (.limit n) := by
  intro h
  have inv : LimOk 0 (runQuery 0 inp).2 := LimOk.run _ (LimOk.of_none rfl)
  exact (inv n (ofRun_error h)).2 rfl

/-- The only limit error under `L` is "exceeded token limit of L". -/
theorem C16_limit_error_is_L_query (L : Nat) (inp : Bytes) (n : Nat) (h : parseQuery L inp = .error (.limit n)) :
    n = L ∧ L ≠ 0 := by
  have inv : LimOk L (runQuery L inp).2 := LimOk.run _ (LimOk.of_none rfl)
  exact inv n (ofRun_error h)

/-- same tree: a parse that succeeds under a limit is the unlimited parse -/
theorem C16_same_tree_query (L : Nat) (inp : Bytes) (d : QueryDoc) (h : parseQuery L inp = .ok d) :
    parseQuery 0 inp = .ok d :=
  ofRun_mono (stricter_zero L) _ _ d h

/-- monotone: success under `L` implies the identical success under every `L' ≥ L` -/
theorem C16_monotone_query (L L' : Nat) (inp : Bytes) (d : QueryDoc) (h0 : L ≠ 0) (hle : L ≤ L')
    (h : parseQuery L inp = .ok d) : parseQuery L' inp = .ok d :=
  ofRun_mono (stricter_le h0 hle) _ _ d h

/-- the link between the counter of the unlimited parse and the lexer: a successful parse consumes
    every non-EOF token of `Lexer.lexAll inp` (comments included) exactly once and never the EOF
    token.  (`countTokens inp` = number of non-EOF tokens of `lexAll inp`; proved through the
    parser-state ↔ token-stream invariant of `GqlProofs/Parser/Stream.lean` and the per-program
    specifications of `SoundQuery.lean`, each of which states "no EOF token consumed".) -/
theorem C16_count_is_lexer_count_query (inp : Bytes) (d : QueryDoc) (h : parseQuery 0 inp = .ok d) :
    (runQuery 0 inp).2.tokenCount = countTokens inp := by
  obtain ⟨raw, eof, h1, h2, h3, h4, _⟩ := parseQuery_sound inp d h
  rw [h4, countTokens_of_done h1 h2 h3]

/-- **exact**: under a limit `L ≠ 0` the parse succeeds iff the unlimited parse succeeds and the
    input has at most `L` lexer tokens (comments included, EOF excluded) -/
theorem C16_limit_exact_query (L : Nat) (inp : Bytes) (hL : L ≠ 0) :
    (parseQuery L inp).isOk = true ↔ (parseQuery 0 inp).isOk = true ∧ countTokens inp ≤ L := by
  have key : (parseQuery L inp).isOk = true ↔
      (parseQuery 0 inp).isOk = true ∧ (runQuery 0 inp).2.tokenCount ≤ L := ofRun_exact hL _ 0 inp
  rw [key]
  have hcount : (parseQuery 0 inp).isOk = true → (runQuery 0 inp).2.tokenCount = countTokens inp := by
    intro hok
    cases hp : parseQuery 0 inp with
    | ok d => exact C16_count_is_lexer_count_query inp d hp
    | error e => rw [hp] at hok; cases hok
    | outOfFuel => rw [hp] at hok; cases hok
  constructor
  · intro ⟨hok, hle⟩
    exact ⟨hok, by rw [← hcount hok]; exact hle⟩
  · intro ⟨hok, hle⟩
    exact ⟨hok, by rw [hcount hok]; exact hle⟩

/- The `_partial` version below is the same equivalence with `(runQuery 0 inp).2.tokenCount` — the
   number of tokens the *unlimited parse* consumed — in place of `countTokens inp`. -/

/-- exact (partial, see above): under `L ≠ 0` the parse succeeds iff the unlimited parse succeeds
    and consumed at most `L` tokens -/
theorem C16_limit_exact_query_partial (L : Nat) (inp : Bytes) (hL : L ≠ 0) :
    (parseQuery L inp).isOk = true ↔
      (parseQuery 0 inp).isOk = true ∧ (runQuery 0 inp).2.tokenCount ≤ L :=
  ofRun_exact hL _ 0 inp

/-- work is bounded by the limit, not by the input: at most `L + 1` tokens are ever pulled from the
    lexer and the counter stops at `L + 1` -/
theorem C16_pulls_bounded_query (L : Nat) (inp : Bytes) (hL : L ≠ 0) :
    (runQuery L inp).2.pulls ≤ L + 1 ∧ (runQuery L inp).2.tokenCount ≤ L + 1 := by
  have inv : PInv L (runQuery L inp).2 := PInv.run (L := L) (parseQueryDocument (fuelFor inp)) (PInv.init L 0 inp)
  refine ⟨inv.pulls_le hL, ?_⟩
  have hb := inv.bound hL
  split at hb <;> omega

/-- every token pulled is consumed or is the one look-ahead token (no limit needed) -/
theorem C16_pulls_accounting_query (L : Nat) (inp : Bytes) :
    (runQuery L inp).2.pulls ≤ (runQuery L inp).2.tokenCount + 1 := by
  have inv : PInv L (runQuery L inp).2 := PInv.run (L := L) (parseQueryDocument (fuelFor inp)) (PInv.init L 0 inp)
  have hc := inv.count
  split at hc <;> split at hc <;> omega

/-! ### schemas -/

theorem C16_zero_unlimited_schema (inp : Bytes) (n : Nat) : parseSchema 0 inp ≠ .error (.limit n) := by
  intro h
  have inv : LimOk 0 (runSchema 0 0 inp).2 := LimOk.run _ (LimOk.of_none rfl)
  exact (inv n (parseSchemaSrc_error h)).2 rfl

theorem C16_limit_error_is_L_schema (L : Nat) (inp : Bytes) (n : Nat) (h : parseSchema L inp = .error (.limit n)) :
    n = L ∧ L ≠ 0 := by
  have inv : LimOk L (runSchema L 0 inp).2 := LimOk.run _ (LimOk.of_none rfl)
  exact inv n (parseSchemaSrc_error h)

theorem C16_same_tree_schema (L : Nat) (inp : Bytes) (d : SchemaDoc) (h : parseSchema L inp = .ok d) :
    parseSchema 0 inp = .ok d :=
  parseSchemaSrc_mono (stricter_zero L) 0 false inp d h

theorem C16_monotone_schema (L L' : Nat) (inp : Bytes) (d : SchemaDoc) (h0 : L ≠ 0) (hle : L ≤ L')
    (h : parseSchema L inp = .ok d) : parseSchema L' inp = .ok d :=
  parseSchemaSrc_mono (stricter_le h0 hle) 0 false inp d h

/-- the counter of a successful unlimited schema parse is the number of non-EOF lexer tokens -/
theorem C16_count_is_lexer_count_schema (src : Nat) (inp : Bytes) (h : (Result.ofRun (runSchema 0 src inp)).isOk = true) :
    (runSchema 0 src inp).2.tokenCount = countTokens inp := by
  cases hp : Result.ofRun (runSchema 0 src inp) with
  | ok d => exact countTokens_schema src inp d hp
  | error e => rw [hp] at h; cases h
  | outOfFuel => rw [hp] at h; cases h

/-- **exact**, schema version: under `L ≠ 0` the parse succeeds iff the unlimited parse succeeds and
    the input has at most `L` lexer tokens (comments included, EOF excluded) -/
theorem C16_limit_exact_schema (L : Nat) (inp : Bytes) (hL : L ≠ 0) :
    (parseSchema L inp).isOk = true ↔ (parseSchema 0 inp).isOk = true ∧ countTokens inp ≤ L := by
  unfold parseSchema
  rw [parseSchemaSrc_isOk, parseSchemaSrc_isOk]
  have key : (Result.ofRun (runSchema L 0 inp)).isOk = true ↔
      (Result.ofRun (runSchema 0 0 inp)).isOk = true ∧ (runSchema 0 0 inp).2.tokenCount ≤ L := ofRun_exact hL _ 0 inp
  rw [key]
  constructor
  · intro ⟨hok, hle⟩
    exact ⟨hok, by rw [← C16_count_is_lexer_count_schema 0 inp hok]; exact hle⟩
  · intro ⟨hok, hle⟩
    exact ⟨hok, by rw [C16_count_is_lexer_count_schema 0 inp hok]; exact hle⟩

/-- schema version of `C16_limit_exact_query_partial` -/
theorem C16_limit_exact_schema_partial (L : Nat) (inp : Bytes) (hL : L ≠ 0) :
    (parseSchema L inp).isOk = true ↔
      (parseSchema 0 inp).isOk = true ∧ (runSchema 0 0 inp).2.tokenCount ≤ L := by
  unfold parseSchema
  rw [parseSchemaSrc_isOk, parseSchemaSrc_isOk]
  exact ofRun_exact hL _ 0 inp

theorem C16_pulls_bounded_schema (L src : Nat) (inp : Bytes) (hL : L ≠ 0) :
    (runSchema L src inp).2.pulls ≤ L + 1 ∧ (runSchema L src inp).2.tokenCount ≤ L + 1 := by
  have inv : PInv L (runSchema L src inp).2 := PInv.run (L := L) (parseSchemaDocument (fuelFor inp)) (PInv.init L src inp)
  refine ⟨inv.pulls_le hL, ?_⟩
  have hb := inv.bound hL
  split at hb <;> omega

theorem C16_same_tree_schemas (L : Nat) (srcs : List (Bool × Bytes)) (d : SchemaDoc)
    (h : parseSchemas L srcs = .ok d) : parseSchemas 0 srcs = .ok d :=
  parseSchemasFrom_mono (stricter_zero L) srcs 0 _ d h

theorem C16_monotone_schemas (L L' : Nat) (srcs : List (Bool × Bytes)) (d : SchemaDoc) (h0 : L ≠ 0) (hle : L ≤ L')
    (h : parseSchemas L srcs = .ok d) : parseSchemas L' srcs = .ok d :=
  parseSchemasFrom_mono (stricter_le h0 hle) srcs 0 _ d h

/-- **exact**, several sources (`ParseSchemasWithLimit`): under `L ≠ 0` the sources parse iff they parse
    without limit and EVERY source on its own has at most `L` lexer tokens — the limit is neither a
    budget shared by the sources nor waived for a source that carries the BuiltIn mark -/
theorem C16_limit_exact_schemas (L : Nat) (srcs : List (Bool × Bytes)) (hL : L ≠ 0) :
    (parseSchemas L srcs).isOk = true ↔
      (parseSchemas 0 srcs).isOk = true ∧ ∀ s ∈ srcs, countTokens s.2 ≤ L :=
  parseSchemasFrom_exact hL srcs 0 _

/-- a source with more than `L` tokens is refused, wherever it stands and whatever its BuiltIn mark -/
theorem C16_source_beyond_limit_refused (L : Nat) (srcs : List (Bool × Bytes)) (hL : L ≠ 0)
    (s : Bool × Bytes) (hs : s ∈ srcs) (h : L < countTokens s.2) : (parseSchemas L srcs).isOk = false := by
  cases hok : (parseSchemas L srcs).isOk with
  | false => rfl
  | true =>
    have := ((C16_limit_exact_schemas L srcs hL).1 hok).2 s hs
    omega

/-- whether the sources parse under a limit does not depend on their BuiltIn marks -/
theorem C16_limit_ignores_builtin_marks (L : Nat) (srcs : List (Bool × Bytes)) :
    (parseSchemas L srcs).isOk = (parseSchemas L (srcs.map fun s => (false, s.2))).isOk :=
  parseSchemasFrom_isOk_flags L srcs 0 _ _

/-! ### non-vacuity (kernel-evaluated runs of the model) -/

example : Stricter 3 7 := stricter_le (by decide) (by decide)
-- `{a}`: three tokens
example : (parseQuery 0 [123, 97, 125]).isOk = true := by decide
example : (parseQuery 3 [123, 97, 125]).isOk = true := by decide
example : (parseQuery 2 [123, 97, 125]).isOk = false := by decide
example : (runQuery 0 [123, 97, 125]).2.tokenCount = 3 := by decide
example : countTokens [123, 97, 125] = 3 := by decide
example : (runQuery 2 [123, 97, 125]).2.pulls = 3 := by decide      -- the bound L + 1 is attained
-- `type A{a:B}`: seven tokens
example : (parseSchema 0 [116,121,112,101,32,65,123,97,58,66,125]).isOk = true := by decide
example : (runSchema 0 0 [116,121,112,101,32,65,123,97,58,66,125]).2.tokenCount = 7 := by decide
example : (parseSchema 6 [116,121,112,101,32,65,123,97,58,66,125]).isOk = false := by decide
-- two sources, the second marked BuiltIn: seven tokens each; limit 7 passes, limit 6 does not (not a shared budget, not waived)
example : (parseSchemas 7 [(false, [116,121,112,101,32,65,123,97,58,66,125]), (true, [116,121,112,101,32,66,123,97,58,66,125])]).isOk = true := by decide
example : (parseSchemas 6 [(false, [115,99,97,108,97,114,32,83]), (true, [116,121,112,101,32,66,123,97,58,66,125])]).isOk = false := by decide
-- a state with the error set exists (hypothesis of `C16_error_sticky`)
example : ((run 1 (parseQueryDocument 5) (PState.init 0 [123, 97, 125])).2.err.isSome) = true := by decide
#print axioms C16_count_is_lexer_count_query
#print axioms C16_limit_exact_query
#print axioms C16_count_is_lexer_count_schema
#print axioms C16_limit_exact_schema
