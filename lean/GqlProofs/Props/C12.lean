import GqlModel.Format.Model
import GqlProofs.Format.QuoteLex
import GqlProofs.Format.Writer
import GqlProofs.Lexer.Progress
/-
  Property C12 — format ∘ parse round trip for executable documents.

  Proved here (kernel-checked, about the definitions the driver runs):

  * `C12_quote_roundtrip_gql`, `C12_quote_is_string_token`: the GraphQL quoting `gqlQuote`
    (the repair of finding R12a) is read back byte for byte by the lexer model — the core of
    "string values survive byte for byte whatever characters they contain".
    Exact hypothesis: the value is well-formed UTF-8 (the encoding of a sequence of Unicode scalar
    values).  Nothing else is needed: after `gqlQuote` no byte is left that the lexer rejects inside
    a string (every byte < 0x20, DEL, `"` and `\` are escaped).  The hypothesis cannot be dropped:
    the lexer replaces ill-formed UTF-8 by U+FFFD once an escape has been seen
    (`C12_quote_illformed_counterexample`).
  * `C12_quote_strconv_counterexample`: the quoting of the unchanged tree (`strconv.Quote`, model
    `goQuote`, which is what `renderValue` uses through `quoteString`) is NOT read back: U+0007
    becomes `\a`, which the lexer model rejects.

  Full-strength statements not reached (kept here so that nothing is weakened silently):

    theorem C12_format_tokens (cfg : Cfg) (hind : ∀ b ∈ cfg.indent, b = 32 ∨ b = 9 ∨ b = 10 ∨ b = 13 ∨ b = 44)
        (d : QueryDoc) (hd : ParsedDoc d) : Lexes (fmtQuery cfg d) (tokensOf d)
    theorem C12_roundtrip … : parseQuery (fmtQuery cfg d) = ok d' ∧ d' ≃ d
    theorem C12_fixpoint … : fmtQuery cfg d' = fmtQuery cfg d

  They need the parser model (owned by another layer) and, for the unchanged tree, are false
  (R12a, R12b); the writer-state lemmas they rest on are in `GqlProofs/Format/Writer.lean`.
-/
open Gql Gql.Lexer Gql.Format

/-- Lexing `gqlQuote` body + closing quote from any state of the string loop yields one String
    token whose value is the accumulated prefix followed by the original bytes, and leaves exactly
    `rest`. -/
theorem C12_quote_roundtrip_gql (q : Cur) (rest : Bytes) (cps : List Nat) (hs : ∀ r ∈ cps, IsScalar r)
    (c : Cur) (acc : Bytes) (buf : Bool) :
    ∃ t c', readStringLoop q (gqlQuoteBody (utf8Encode cps) ++ 34 :: rest) c acc buf = .tok t rest c' ∧
      t.kind = .string ∧ t.value = acc.reverse ++ utf8Encode cps :=
  rsl_gqlQuoteBody q rest cps hs c acc buf

/-- `readToken` on `gqlQuote bs ++ rest` (bs well-formed UTF-8) returns the String token with value
    `bs` and the remaining input `rest`.  Side condition: the text is not mistaken for the start of a
    block string, i.e. the value is non-empty or `rest` does not start with a quote. -/
theorem C12_quote_is_string_token (cps : List Nat) (hs : ∀ r ∈ cps, IsScalar r) (rest : Bytes) (c : Cur)
    (hblk : cps ≠ [] ∨ rest.head? ≠ some 34) :
    ∃ t c', readToken (gqlQuote (utf8Encode cps) ++ rest) c = .tok t rest c' ∧
      t.kind = .string ∧ t.value = utf8Encode cps := by
  have hws : ws (34 :: (gqlQuoteBody (utf8Encode cps) ++ 34 :: rest)) c
      = (34 :: (gqlQuoteBody (utf8Encode cps) ++ 34 :: rest), c) := by
    rw [ws.eq_def]; simp
  have hnb : ∀ tl', gqlQuoteBody (utf8Encode cps) ++ 34 :: rest ≠ 34 :: 34 :: tl' := by
    intro tl' h
    cases cps with
    | nil =>
      simp [utf8Encode, gqlQuoteBody] at h
      rcases hblk with h' | h'
      · exact h' rfl
      · cases rest with
        | nil => simp at h
        | cons x xs => simp at h h'; exact h' h.1
    | cons r cps =>
      have hr := hs r (by simp)
      have hp := encodeRune_length_pos r
      have hE : utf8Encode (r :: cps) = encodeRune r ++ utf8Encode cps := by simp [utf8Encode]
      rw [hE] at h
      cases he : encodeRune r with
      | nil => rw [he] at hp; simp at hp
      | cons b bs =>
        rw [he] at h
        simp only [List.cons_append, gqlQuoteBody] at h
        -- the first byte written for `b` is never a bare quote
        obtain ⟨x, xs, hg, hx⟩ := gqlEscapeByte_head b
        rw [hg] at h
        simp at h
        exact hx h.1
  obtain ⟨t, c', h1, h2, h3⟩ := rsl_gqlQuoteBody c rest cps hs (c.adv 1 1) [] false
  refine ⟨t, c', ?_, h2, by simpa using h3⟩
  have hq : gqlQuote (utf8Encode cps) ++ rest = 34 :: (gqlQuoteBody (utf8Encode cps) ++ 34 :: rest) := by
    simp [gqlQuote]
  rw [hq]
  unfold readToken
  rw [hws]
  simp only [readTokenBody, Gql.Lexer.punct_quote]
  cases hX : gqlQuoteBody (utf8Encode cps) ++ 34 :: rest with
  | nil => simp at hX
  | cons x tl =>
    rw [hX] at h1 hnb
    cases tl with
    | nil => simpa [isNameStart, isDigit] using h1
    | cons y tl' =>
      by_cases hxy : x = 34 ∧ y = 34
      · exact absurd (by rw [hxy.1, hxy.2]) (hnb tl')
      · have : ¬ (x = 34 ∧ y = 34) := hxy
        simp [isNameStart, isDigit]
        exact h1

/-- The quoting of the unchanged tree is not read back: `strconv.Quote("\a")` is `"\a"`, and `\a`
    is not a GraphQL escape (finding R12a). -/
theorem C12_quote_strconv_counterexample :
    ¬ (∀ (cps : List Nat), (∀ r ∈ cps, IsScalar r) → ∀ (rest : Bytes) (c : Cur),
        (cps ≠ [] ∨ rest.head? ≠ some 34) →
        ∃ t c', readToken (goQuote (utf8Encode cps) ++ rest) c = .tok t rest c' ∧
          t.kind = .string ∧ t.value = utf8Encode cps) := by
  intro h
  obtain ⟨t, c', h1, _, _⟩ := h [7] (by intro r hr; simp at hr; subst hr; decide) [] Cur.init (Or.inl (by simp))
  have e : goQuote (utf8Encode [7]) ++ [] = [34, 92, 97, 34] := by
    simp [goQuote, utf8Encode, encodeRune, goQuoteBody, escapedRune, isPrintDefault, inRange, runeError]
  rw [e] at h1
  simp [readToken, readTokenBody, Gql.Lexer.punct_quote, ws, isNameStart, isDigit, readStringLoop.eq_def, mkErr, escapeOut] at h1

/-- The UTF-8 hypothesis of `C12_quote_roundtrip_gql` cannot be dropped: after an escape the lexer
    re-encodes what it decodes, so an ill-formed byte comes back as U+FFFD. -/
theorem C12_quote_illformed_counterexample :
    ¬ (∀ (bs rest : Bytes) (q c : Cur) (acc : Bytes) (buf : Bool), ∃ t c',
        readStringLoop q (gqlQuoteBody bs ++ 34 :: rest) c acc buf = .tok t rest c' ∧
        t.value = acc.reverse ++ bs) := by
  intro h
  obtain ⟨t, c', h1, h2⟩ := h [10, 255] [] Cur.init Cur.init [] false
  simp [gqlQuoteBody, gqlEscapeByte, readStringLoop.eq_def, decodeRune, encodeRune, runeError, escapeOut] at h1
  rw [← h1.1] at h2
  simp at h2

/-- What the UNCHANGED tree does achieve (`renderValue` quotes with `quoteString` = `strconv.Quote`):
    a string value made of printable ASCII and the control characters BS, TAB, LF, FF, CR is
    written by `Value.String()` so that the lexer model reads it back byte for byte. -/
theorem C12_quote_roundtrip_partial (bs : Bytes) (hb : ∀ b ∈ bs, PlainByte b) (p : Pos) (rest : Bytes) (c : Cur)
    (hblk : bs ≠ [] ∨ rest.head? ≠ some 34) :
    ∃ t c', readToken (renderValue (.mk .string bs .nil p) ++ rest) c = .tok t rest c' ∧
      t.kind = .string ∧ t.value = bs := by
  have hs : ∀ r ∈ bs, IsScalar r := by
    intro r hr; have := hb r hr; unfold PlainByte at this; unfold IsScalar; omega
  have ha : utf8Encode bs = bs := utf8Encode_ascii bs (by
    intro r hr; have := hb r hr; unfold PlainByte at this; omega)
  have h := C12_quote_is_string_token bs hs rest c hblk
  rw [ha] at h
  simpa [renderValue, quoteString, goQuote_plain bs hb] using h

/-- Boundary lemma of the pad state machine, two words: `WriteWord a` then `WriteWord b` puts
    exactly one space between the (trimmed) words, in every state and configuration. -/
theorem C12_words_separated (cfg : Cfg) (a b : Bytes) (w : W) :
    (writeWord cfg b (writeWord cfg a w)).text = w.text ++ lead cfg w ++ trimSpace a ++ [32] ++ trimSpace b :=
  writeWord_writeWord cfg a b w

/-- Boundary lemma, general form: in a reachable writer state, what `WriteWord` writes is glued to
    the previous output only when the pad flag is off in the middle of a line (after `WriteString`
    or an explicit `NoPadding`); otherwise one space, or a newline and the indentation, precede. -/
theorem C12_write_boundary (cfg : Cfg) (x : Bytes) (w : W) (hinv : w.Inv) :
    (w.lineHead = false ∧ w.padNext = false ∧ (writeWord cfg x w).text = w.text ++ trimSpace x) ∨
    (w.lineHead = false ∧ w.padNext = true ∧ (writeWord cfg x w).text = w.text ++ [32] ++ trimSpace x) ∨
    (∃ pre, w.text = pre ++ [10] ∧
      (writeWord cfg x w).text = pre ++ [10] ++ repeatBytes cfg.indent w.indentSize ++ trimSpace x) :=
  writeWord_boundary cfg x w hinv

/-- non-vacuity: the hypotheses of the round-trip theorems are satisfiable with interesting input
    (a quote, a backslash, BEL, a non-BMP rune). -/
example : ∀ r ∈ [34, 92, 7, 0x1F600], IsScalar r := by decide
example : ∀ b ∈ [104, 34, 105, 92, 10, 9], PlainByte b := by decide
example : W.Inv {} := inv_init
