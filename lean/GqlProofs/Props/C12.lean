import GqlModel.Format.Model
import GqlModel.Parser.Query
import GqlProofs.Format.QuoteLex
import GqlProofs.Format.Writer
import GqlProofs.Lexer.Progress
import GqlProofs.Format.FmtTokens
import GqlProofs.Format.FmtInvariant
import GqlProofs.Format.NormPreserve
import GqlProofs.Props.C05
import GqlProofs.EndToEnd.ParsedTop
/-
  Property C12 — format ∘ parse round trip for executable documents.

  Proved here (kernel-checked, about the definitions the driver runs):

  * `C12_quote_roundtrip_bytes`, `C12_quote_is_string_token_bytes`: the GraphQL quoting `gqlQuote`
    (what `Value.String()` uses since the repair of finding R12a) is read back byte for byte by the
    lexer model, for EVERY byte string — well-formed UTF-8 or not: the quoting writes every byte
    ≥ 0x80 verbatim, and since the repair of `readString` the lexer keeps the source bytes of every
    unescaped character also after an escape sequence.  (`C12_quote_roundtrip_gql`,
    `C12_quote_is_string_token` are the well-formed special cases, kept with their statements.)
  * `C12_quote_strconv_counterexample`: `strconv.Quote` (the quoting before the repair, model
    `goQuote`) is NOT read back.
  * THE BRIDGE formatter text → tokens, for EVERY configuration whose indentation string consists
    of ignored bytes (TAB, LF, CR, space, comma; the empty string included — separation comes from
    the writer's pad / newline rules, never from the indentation), compacted or not:
      `C12_format_tokens_value … _type … _argument … _argument_list … _directive_list …
       _variable_definition_list … _selection … _selection_set … _operation … _fragment`
    (one theorem per formatter function: what it appends to the writer is a complete sequence of
    token texts for the printed tokens of the subtree) and the document theorem
      `C12_format_tokens : tokensOf (fmtQuery cfg d) = some (printQueryLong (normFmt d))`.
    `printQueryLong` differs from the unparser `printQuery` of C05 exactly where the formatter
    deliberately differs: the operation keyword is always written (`{a}` comes out as
    `query {a}`) and all operations are written before all fragments.  `normFmt` turns block-string
    VALUES into string values (`Value.String()` writes both as a quoted string).
    `C12_format_tokens_printQuery` is the statement with `printQuery` itself (no shorthand
    operation, definitions recorded in that order); `C12_format_tokens_bare_counterexample` shows
    that the side condition is needed.
  * THE ROUND TRIP, with C05's parse ∘ print theorem (`C05_parse_print_long`):
      `C12_format_roundtrip : parseQuery 0 (fmtQuery cfg d) = .ok d' ∧ d'.erasePos = (normFmt d).erasePos`
      `C12_format_fixpoint  : … ∧ fmtQuery cfg d' = fmtQuery cfg d`
      `C12_format_roundtrip_parsed`: the same for every `d` the parser returned (the side
      conditions of C05 hold for parser output; `Formattable d` — decidable — stays a hypothesis).
      END TO END (bottom of this file): `C12_parsed_formattable` — `Formattable d` IS an invariant of
      parser output (one traversal of the parser model, `GqlProofs/EndToEnd/ParsedShape.lean`, on top
      of the lexer facts `GqlProofs/EndToEnd/TokLex.lean`) — hence `C12_format_roundtrip_source`:
      for EVERY source text `inp` (any bytes; no UTF-8 hypothesis is needed since string values are
      written byte for byte) that parses, format ∘ parse is the identity up to positions and
      block-string kind, and formatting is a fixpoint.

  Hypothesis `Formattable d` (GqlProofs/Format/Formattable.lean): names are lexer Names, Int / Float
  raw texts are one number lexeme of that kind, required selection sets are not empty.  String values
  are ARBITRARY bytes (`C12_string_value_illformed_roundtrip`; before the repair of `readString`
  well-formed UTF-8 had to be required).  The writer-state lemmas are in `GqlProofs/Format/Writer.lean`,
  the compositional lexing relation in `GqlProofs/Format/Lexes.lean`.
-/
open Gql Gql.Lexer Gql.Format Gql.Grammar Gql.Print Gql.Parser

/-- Lexing `gqlQuote` body + closing quote from any state of the string loop yields one String
    token whose value is the accumulated prefix followed by the original bytes, and leaves exactly
    `rest`. -/
theorem C12_quote_roundtrip_gql (q : Cur) (rest : Bytes) (cps : List Nat) (hs : ∀ r ∈ cps, IsScalar r)
    (c : Cur) (acc : Bytes) (buf : Bool) :
    ∃ t c', readStringLoop q (gqlQuoteBody (utf8Encode cps) ++ 34 :: rest) c acc buf = .tok t rest c' ∧
      t.kind = .string ∧ t.value = acc.reverse ++ utf8Encode cps :=
  rsl_gqlQuoteBody q rest cps hs c acc buf

/-- `readToken` on `gqlQuote bs ++ rest` (bs well-formed UTF-8) returns the String token with value
    `bs` and the remaining input `rest`.  Side condition: the text is not mistaken for the start of a
    block string, i.e. the value is non-empty or `rest` does not start with a quote. -/
theorem C12_quote_is_string_token (cps : List Nat) (hs : ∀ r ∈ cps, IsScalar r) (rest : Bytes) (c : Cur)
    (hblk : cps ≠ [] ∨ rest.head? ≠ some 34) :
    ∃ t c', readToken (gqlQuote (utf8Encode cps) ++ rest) c = .tok t rest c' ∧
      t.kind = .string ∧ t.value = utf8Encode cps :=
  readToken_gqlQuote cps hs rest c hblk

/-- The quoting of the unchanged tree is not read back: `strconv.Quote("\a")` is `"\a"`, and `\a`
    is not a GraphQL escape (finding R12a). -/
theorem C12_quote_strconv_counterexample :
    ¬ (∀ (cps : List Nat), (∀ r ∈ cps, IsScalar r) → ∀ (rest : Bytes) (c : Cur),
        (cps ≠ [] ∨ rest.head? ≠ some 34) →
        ∃ t c', readToken (goQuote (utf8Encode cps) ++ rest) c = .tok t rest c' ∧
          t.kind = .string ∧ t.value = utf8Encode cps) := by
  intro h
  obtain ⟨t, c', h1, _, _⟩ := h [7] (by intro r hr; simp at hr; subst hr; decide) [] Cur.init (Or.inl (by simp))
  have e : goQuote (utf8Encode [7]) ++ [] = [34, 92, 97, 34] := by
    simp [goQuote, utf8Encode, encodeRune, goQuoteBody, escapedRune, isPrintDefault, inRange, runeError]
  rw [e] at h1
  simp [readToken, readTokenBody, Gql.Lexer.punct_quote, ws, isNameStart, isDigit, readStringLoop.eq_def, mkErr, escapeOut] at h1

/-- No UTF-8 hypothesis: for EVERY byte string `bs`, lexing the `gqlQuote` body of `bs` + closing
    quote from any state of the string loop (any cursor, accumulator, buffer on or off) yields one
    String token whose value is the accumulated prefix followed by `bs`, and leaves exactly `rest`.
    (Before the repair of `readString` this failed for ill-formed UTF-8 after an escape: `"\n\xFF"`
    came back as 0A EF BF BD.) -/
theorem C12_quote_roundtrip_bytes (q : Cur) (rest : Bytes) (bs : Bytes) (c : Cur) (acc : Bytes) (buf : Bool) :
    ∃ t c', readStringLoop q (gqlQuoteBody bs ++ 34 :: rest) c acc buf = .tok t rest c' ∧
      t.kind = .string ∧ t.value = acc.reverse ++ bs :=
  rsl_gqlQuoteBody_bytes q rest _ bs (Nat.le_refl _) c acc buf

/-- `readToken` on `gqlQuote bs ++ rest`, for EVERY byte string `bs`, returns the String token with
    value `bs` and the remaining input `rest`.  Side condition (needed, see
    `C12_quote_empty_before_quote_counterexample`): the text is not mistaken for the start of a block
    string, i.e. the value is non-empty or `rest` does not start with a quote. -/
theorem C12_quote_is_string_token_bytes (bs : Bytes) (rest : Bytes) (c : Cur)
    (hblk : bs ≠ [] ∨ rest.head? ≠ some 34) :
    ∃ t c', readToken (gqlQuote bs ++ rest) c = .tok t rest c' ∧ t.kind = .string ∧ t.value = bs :=
  readToken_gqlQuote_bytes bs rest c hblk

/-- the side condition of `C12_quote_is_string_token_bytes` is needed: `""` directly followed by a
    quote is the opening of a block string -/
theorem C12_quote_empty_before_quote_counterexample :
    ¬ ∃ t c', readToken (gqlQuote [] ++ [34]) Cur.init = .tok t [34] c' ∧ t.kind = .string := by
  intro ⟨t, c', h, _⟩
  simp [gqlQuote, gqlQuoteBody, readToken, ws, readTokenBody, Gql.Lexer.punct_quote, isNameStart, isDigit,
    readBlockLoop.eq_def, mkErr] at h

/-- the former counterexample, now positive: after the escape `\n` the ill-formed byte FF is kept -/
example : ∃ t c', readStringLoop Cur.init (gqlQuoteBody [10, 255] ++ [34]) Cur.init [] false = .tok t [] c' ∧
    t.value = [10, 255] := by
  obtain ⟨t, c', h1, _, h3⟩ := C12_quote_roundtrip_bytes Cur.init [] [10, 255] Cur.init [] false
  exact ⟨t, c', h1, by simpa using h3⟩

/-- What the UNCHANGED tree does achieve (`renderValue` quotes with `quoteString` = `strconv.Quote`):
    a string value made of printable ASCII and the control characters BS, TAB, LF, FF, CR is
    written by `Value.String()` so that the lexer model reads it back byte for byte. -/
theorem C12_quote_roundtrip_partial (bs : Bytes) (hb : ∀ b ∈ bs, PlainByte b) (p : Pos) (rest : Bytes) (c : Cur)
    (hblk : bs ≠ [] ∨ rest.head? ≠ some 34) :
    ∃ t c', readToken (renderValue (.mk .string bs .nil p) ++ rest) c = .tok t rest c' ∧
      t.kind = .string ∧ t.value = bs := by
  have hs : ∀ r ∈ bs, IsScalar r := by
    intro r hr; have := hb r hr; unfold PlainByte at this; unfold IsScalar; omega
  have ha : utf8Encode bs = bs := Gql.Format.utf8Encode_ascii bs (by
    intro r hr; have := hb r hr; unfold PlainByte at this; omega)
  have h := C12_quote_is_string_token bs hs rest c hblk
  rw [ha] at h
  simpa [renderValue, quoteString, goQuote_plain bs hb] using h

/-- Boundary lemma of the pad state machine, two words: `WriteWord a` then `WriteWord b` puts
    exactly one space between the (trimmed) words, in every state and configuration. -/
theorem C12_words_separated (cfg : Cfg) (a b : Bytes) (w : W) :
    (writeWord cfg b (writeWord cfg a w)).text = w.text ++ lead cfg w ++ trimSpace a ++ [32] ++ trimSpace b :=
  writeWord_writeWord cfg a b w

/-- Boundary lemma, general form: in a reachable writer state, what `WriteWord` writes is glued to
    the previous output only when the pad flag is off in the middle of a line (after `WriteString`
    or an explicit `NoPadding`); otherwise one space, or a newline and the indentation, precede. -/
theorem C12_write_boundary (cfg : Cfg) (x : Bytes) (w : W) (hinv : w.Inv) :
    (w.lineHead = false ∧ w.padNext = false ∧ (writeWord cfg x w).text = w.text ++ trimSpace x) ∨
    (w.lineHead = false ∧ w.padNext = true ∧ (writeWord cfg x w).text = w.text ++ [32] ++ trimSpace x) ∨
    (∃ pre, w.text = pre ++ [10] ∧
      (writeWord cfg x w).text = pre ++ [10] ++ repeatBytes cfg.indent w.indentSize ++ trimSpace x) :=
  writeWord_boundary cfg x w hinv

/-- non-vacuity: the hypotheses of the round-trip theorems are satisfiable with interesting input
    (a quote, a backslash, BEL, a non-BMP rune). -/
example : ∀ r ∈ [34, 92, 7, 0x1F600], IsScalar r := by decide
example : ∀ b ∈ [104, 34, 105, 92, 10, 9], PlainByte b := by decide
example : W.Inv {} := inv_init

/-! ### the bridge: formatter text → tokens -/

section Bridge
variable {cfg : Cfg} (hind : BlankIndent cfg)
include hind

/-- `FormatValue`: appends token texts for the tokens of the value -/
theorem C12_format_tokens_value {w : W} {ts : List Tok} (v : Value) (h : I false w ts) (hv : valueOk v = true) :
    LexTo (formatValue cfg v w).text (ts ++ printValue (normValue v)) true := T_value hind v h hv

theorem C12_format_tokens_type {w : W} {ts : List Tok} (t : GType) (h : I false w ts) (ht : typeOk t = true) :
    LexTo (formatType cfg t w).text (ts ++ printType t) true := T_type hind t h ht

theorem C12_format_tokens_argument {w : W} {ts : List Tok} (a : Argument) (h : I false w ts) (ha : argOk a = true) :
    LexTo (formatArgument cfg a w).text (ts ++ printArgument (normArg a)) true := T_argument hind a h ha

theorem C12_format_tokens_argument_list {g : Bool} {w : W} {ts : List Tok} (as : List Argument)
    (h : I g w ts) (ha : as.all argOk = true) :
    I g (formatArgumentList cfg as w) (ts ++ printArguments (as.map normArg)) := T_argumentList hind as h ha

theorem C12_format_tokens_directive_list {g : Bool} {w : W} {ts : List Tok} (ds : List Directive)
    (h : I g w ts) (hd : ds.all dirOk = true) :
    I g (formatDirectiveList cfg ds w) (ts ++ printDirectives (ds.map normDir)) := T_directiveList hind ds g w ts h hd

theorem C12_format_tokens_variable_definition_list {g : Bool} {w : W} {ts : List Tok} (ds : List VarDef)
    (h : I g w ts) (hd : ds.all varDefOk = true) :
    I g (formatVariableDefinitionList cfg ds w) (ts ++ printVarDefs (ds.map normVarDef)) := T_varDefList hind ds h hd

theorem C12_format_tokens_selection {w : W} {ts : List Tok} (s : Selection) (h : LexTo w.text ts false)
    (hs : selOk s = true) :
    LexTo (formatSelection cfg s w).text (ts ++ printSelection (normSel s)) false := T_selection hind s w ts h hs

theorem C12_format_tokens_selection_set {g : Bool} {w : W} {ts : List Tok} (sel : Selections) (h : I g w ts)
    (hs : selsOk sel = true) :
    I g (formatSelectionSet cfg sel w) (ts ++ optSelSet (normSels sel)) := T_selectionSet hind sel g w ts h hs

theorem C12_format_tokens_operation {w : W} {ts : List Tok} (o : OperationDef) (h : LexTo w.text ts false)
    (ho : opOk o = true) :
    LexTo (formatOperationDefinition cfg o w).text (ts ++ printOperationLong (normOp o)) false :=
  T_operation hind o h ho

theorem C12_format_tokens_fragment {w : W} {ts : List Tok} (f : FragmentDef) (h : LexTo w.text ts false)
    (hf : fragOk f = true) :
    LexTo (formatFragmentDefinition cfg f w).text (ts ++ printFragment (normFrag f)) false :=
  T_fragment hind f h hf

/-- THE BRIDGE: the text the formatter writes for an executable document lexes (comments and EOF
    aside) to exactly the tokens of the document, every operation with its keyword, operations
    before fragments — for every configuration. -/
theorem C12_format_tokens (d : QueryDoc) (hd : Formattable d) :
    tokensOf (fmtQuery cfg d) = some (printQueryLong (normFmt d)) := tokensOf_fmtQuery hind d hd

omit hind in
/-- the unparser of C05 prints the same tokens when no operation is in shorthand form and the
    recorded positions put the operations, in order, before the fragments, in order -/
theorem C12_printQuery_eq_long (d : QueryDoc) (hb : ∀ o ∈ d.ops, OperationDef.isBare o = false)
    (hs : (d.ops.map (fun o => o.pos.start) ++ d.frags.map (fun f => f.pos.start)).Pairwise (· ≤ ·)) :
    printQuery d = printQueryLong d := by
  unfold printQuery inSourceOrder printQueryLong
  have hp : (d.ops.map (fun o => (o.pos.start, printOperation o)) ++
      d.frags.map (fun f => (f.pos.start, printFragment f))).Pairwise (fun a b => decide (a.1 ≤ b.1) = true) := by
    have : (d.ops.map (fun o => (o.pos.start, printOperation o)) ++
        d.frags.map (fun f => (f.pos.start, printFragment f))).map (·.1)
        = d.ops.map (fun o => o.pos.start) ++ d.frags.map (fun f => f.pos.start) := by
      simp [List.map_map, Function.comp_def]
    rw [← this, List.pairwise_map] at hs
    exact hs.imp (by intro a b h; simpa using h)
  rw [List.mergeSort_of_pairwise hp]
  have e : d.ops.map printOperation = d.ops.map printOperationLong :=
    List.map_congr_left fun o ho => (printOperationLong_of_not_bare o (hb o ho)).symm
  simp [List.map_map, Function.comp_def, e]

/-- the bridge with the unparser of C05 itself -/
theorem C12_format_tokens_printQuery (d : QueryDoc) (hd : Formattable d)
    (hb : ∀ o ∈ d.ops, OperationDef.isBare o = false)
    (hs : (d.ops.map (fun o => o.pos.start) ++ d.frags.map (fun f => f.pos.start)).Pairwise (· ≤ ·)) :
    tokensOf (fmtQuery cfg d) = some (printQuery (normFmt d)) := by
  rw [C12_format_tokens hind d hd, C12_printQuery_eq_long (normFmt d)]
  · intro o ho
    simp only [normFmt, List.mem_map] at ho
    obtain ⟨o0, ho0, rfl⟩ := ho
    have := hb o0 ho0
    simpa [OperationDef.isBare, normOp] using this
  · simpa [normFmt, normOp, normFrag, List.map_map, Function.comp_def] using hs

/-- THE ROUND TRIP: the formatted text of a formattable, printable document parses, and the result
    is the document (block-string values as string values) up to positions. -/
theorem C12_format_roundtrip (d : QueryDoc) (hd : Formattable d)
    (hops : ∀ o ∈ d.ops, WFOperation o ∧ OpOK o) (hfrags : ∀ f ∈ d.frags, WFFragment f ∧ FragOK f) :
    ∃ d', parseQuery 0 (fmtQuery cfg d) = .ok d' ∧ d'.erasePos = (normFmt d).erasePos := by
  refine C05_parse_print_long (normFmt d) ?_ ?_ (fmtQuery cfg d) ?_
  · intro o ho
    simp only [normFmt, List.mem_map] at ho
    obtain ⟨o0, ho0, rfl⟩ := ho
    exact ⟨WFOperation_norm o0 (hops o0 ho0).1, OpOK_norm o0 (hops o0 ho0).2⟩
  · intro f hf
    simp only [normFmt, List.mem_map] at hf
    obtain ⟨f0, hf0, rfl⟩ := hf
    exact ⟨WFFragment_norm f0 (hfrags f0 hf0).1, FragOK_norm f0 (hfrags f0 hf0).2⟩
  · rw [C12_format_tokens hind d hd]
    have e : (normFmt d).ops.map opLong = (normFmt d).ops.map printOperationLong :=
      List.map_congr_left fun o _ => (printOperationLong_eq_opLong o).symm
    rw [e]; rfl

/-- … and formatting is a fixpoint: formatting the re-parsed document gives the same text. -/
theorem C12_format_fixpoint (d : QueryDoc) (hd : Formattable d)
    (hops : ∀ o ∈ d.ops, WFOperation o ∧ OpOK o) (hfrags : ∀ f ∈ d.frags, WFFragment f ∧ FragOK f) :
    ∃ d', parseQuery 0 (fmtQuery cfg d) = .ok d' ∧ d'.erasePos = (normFmt d).erasePos ∧
      fmtQuery cfg d' = fmtQuery cfg d := by
  obtain ⟨d', h1, h2⟩ := C12_format_roundtrip hind d hd hops hfrags
  exact ⟨d', h1, h2, fmtQuery_congr d d' h2⟩

/-- the round trip and the fixpoint for every document the parser returned -/
theorem C12_format_roundtrip_parsed (inp : Bytes) (d : QueryDoc) (hp : parseQuery 0 inp = .ok d)
    (hd : Formattable d) :
    ∃ d', parseQuery 0 (fmtQuery cfg d) = .ok d' ∧ d'.erasePos = (normFmt d).erasePos ∧
      fmtQuery cfg d' = fmtQuery cfg d := by
  have hpq := C05_parse_printable inp d hp
  exact C12_format_fixpoint hind d hd (fun o ho => hpq.1 o ho) (fun f hf => hpq.2.1 f hf)

end Bridge

/-- the default configuration (indent = one TAB) and every blank indentation are covered -/
theorem C12_blankIndent_default : BlankIndent {} := by
  intro b hb; simp at hb; subst hb; rfl

theorem C12_blankIndent_empty : BlankIndent { indent := [] } := by
  intro b hb; simp at hb

/-- the query `{a}` (shorthand form): formatted as `query {⏎⇥a⏎}⏎`, whose tokens are not the
    unparser's `{ a }` — the side condition of `C12_format_tokens_printQuery` is needed -/
def C12_bareDoc : QueryDoc :=
  { ops := [{ op := str "query", name := [], vars := [], dirs := [],
              sel := .cons (.field (str "a") (str "a") [] [] .nil Pos.zero) .nil, pos := Pos.zero }],
    frags := [] }

theorem C12_format_tokens_bare_counterexample :
    Formattable C12_bareDoc ∧
    tokensOf (fmtQuery {} C12_bareDoc) = some (tKw "query" :: printQuery (normFmt C12_bareDoc)) := by
  refine ⟨by decide, ?_⟩
  rw [C12_format_tokens C12_blankIndent_default C12_bareDoc (by decide)]
  simp [printQueryLong, printQuery, inSourceOrder, normFmt, C12_bareDoc, printOperationLong, printOperation,
    OperationDef.isBare, normOp, tKw, tName, printVarDefs, printDirectives]

/-- non-vacuity of `Formattable`: a document with variables, a default value, directives, an
    alias, nested selections, a block-string value, a fragment spread and an inline fragment -/
def C12_sampleDoc : QueryDoc :=
  { ops := [{ op := str "query", name := str "Q",
              vars := [{ var := str "v", type := .list (.named (str "Int") true Pos.zero) false Pos.zero,
                         default := some (.mk .list [] (.cons [] (.mk .int (str "1") .nil Pos.zero) Pos.zero .nil) Pos.zero),
                         dirs := [], pos := Pos.zero }],
              dirs := [{ name := str "d", args := [], pos := Pos.zero }],
              sel := .cons (.field (str "x") (str "a")
                        [{ name := str "s", value := .mk .block [104, 34, 10] .nil Pos.zero, pos := Pos.zero },
                         { name := str "f", value := .mk .float (str "-1.5e3") .nil Pos.zero, pos := Pos.zero }]
                        [] (.cons (.spread (str "F") [] Pos.zero) .nil) Pos.zero)
                     (.cons (.inline (str "T") [] (.cons (.field (str "b") (str "b") [] [] .nil Pos.zero) .nil) Pos.zero) .nil),
              pos := Pos.zero }],
    frags := [{ name := str "F", vars := [], typeCond := str "T", dirs := [],
                sel := .cons (.field (str "c") (str "c") [] [] .nil Pos.zero) .nil, pos := Pos.zero }] }

example : Formattable C12_sampleDoc := by decide

/-- The former FINDING, repaired (input that is not well-formed UTF-8): `{a(s:"⇥\xFF")}` (a raw TAB,
    then the ill-formed byte FF) parses with the value 09 FF; the formatter writes the TAB as `\t`
    and FF verbatim; the lexer reads `"\t\xFF"` back with the value 09 FF (before the repair of
    `readString`: 09 EF BF BD, the re-encoded U+FFFD).  `Formattable` therefore no longer restricts
    string values, although this one is not well-formed UTF-8 (`strRaw = false`). -/
theorem C12_string_value_illformed_roundtrip :
    (∃ t c', readToken [34, 9, 255, 34] Cur.init = .tok t [] c' ∧ t.kind = .string ∧ t.value = [9, 255]) ∧
    quoteString [9, 255] = [34, 92, 116, 255, 34] ∧
    (∃ t c', readToken (quoteString [9, 255]) Cur.init = .tok t [] c' ∧ t.kind = .string ∧
      t.value = [9, 255]) ∧ strRaw [9, 255] = false ∧
    valueOk (.mk .string [9, 255] .nil Pos.zero) = true := by
  refine ⟨?_, by decide, ?_, by decide, by decide⟩
  · simp [readToken, ws, readTokenBody, isNameStart, isDigit, readStringLoop.eq_def, decodeRune, runeError]
  · have := C12_quote_is_string_token_bytes [9, 255] [] Cur.init (Or.inl (by simp))
    simpa [quoteString] using this


/- ======================= END TO END: over source texts ======================= -/

/-- `Formattable` is an invariant of parser output: in every document the parser model returns (with
    or without token limit) names are lexer Names, Int / Float raw texts are number lexemes of their
    kind, and required selection sets are not empty. -/
theorem C12_parsed_formattable (L : Nat) (inp : Bytes) (d : QueryDoc) (hp : parseQuery L inp = .ok d) :
    Formattable d :=
  Gql.EndToEnd.parsed_formattable L inp d hp

/-- **C12 END TO END**: for every source text that the parser accepts (any limit), the formatted text
    of the parsed document parses again, to the same document up to positions (and block-string
    values as string values), and formatting the result gives the same text — for every
    configuration whose indentation consists of ignored bytes.  No hypothesis on the document and
    none on the encoding of the source is left. -/
theorem C12_format_roundtrip_source {cfg : Cfg} (hind : BlankIndent cfg) (L : Nat) (inp : Bytes) (d : QueryDoc)
    (hp : parseQuery L inp = .ok d) :
    ∃ d', parseQuery 0 (fmtQuery cfg d) = .ok d' ∧ d'.erasePos = (normFmt d).erasePos ∧
      fmtQuery cfg d' = fmtQuery cfg d :=
  C12_format_roundtrip_parsed hind inp d (ofRun_mono (stricter_zero L) _ _ d hp) (C12_parsed_formattable L inp d hp)

#print axioms C12_parsed_formattable
#print axioms C12_format_roundtrip_source
