import GqlProofs.Schema.Hyps
import GqlProofs.Schema.Complete
/-
  C07 — a loaded schema is closed and consistent.  Property theorems about `Gql.Load.load`
  (the model of `validator.ValidateSchemaDocument` that the driver runs) and the predicates of
  `Gql.Spec` (which the harness evaluates on the real loader's output).
-/
open Gql Gql.Load

theorem C07_closed_interfaces {sd : SchemaDoc} {s : Schema} (h : load sd = .ok s) : Spec.ClosedInterfaces s := by
  obtain ⟨st, r1, d1, F⟩ := loaded_facts h
  rw [F.eq]
  intro p hp i hi
  obtain ⟨d, hd, hcase⟩ := mem_mkSchema_types hp
  have hi' : i ∈ d.interfaces := by rcases hcase with e | ⟨e, _⟩ <;> (rw [e] at hi; exact hi)
  obtain ⟨t, ht, hk⟩ := (F.defOK _ hd).interfaces i hi'
  exact typeIs_mkSchema ht (by simp [hk])

theorem C07_closed_unionMembers {sd : SchemaDoc} {s : Schema} (h : load sd = .ok s) : Spec.ClosedUnionMembers s := by
  obtain ⟨st, r1, d1, F⟩ := loaded_facts h
  rw [F.eq]
  intro p hp m hm
  obtain ⟨d, hd, hcase⟩ := mem_mkSchema_types hp
  have hm' : m ∈ d.types := by rcases hcase with e | ⟨e, _⟩ <;> (rw [e] at hm; exact hm)
  obtain ⟨t, ht, hk⟩ := (F.defOK _ hd).members m hm'
  exact typeIs_mkSchema ht (by simp [hk])

/-- **no nil entry is ever stored** in `PossibleTypes` or `Implements`: in the state every validator
    runs in, whatever the document (also one that is later rejected) — the repaired loader skips
    undeclared union members and interfaces -/
theorem C07_relations_no_nil {sd : SchemaDoc} {st : LState} (h : buildState sd = .ok st) :
    (∀ p ∈ st.possible, ∀ e ∈ p.2, e ≠ none) ∧ (∀ p ∈ st.implements, ∀ e ∈ p.2, e ≠ none) := by
  have hrel := (buildState_inv h).2.2
  have h1 : st.possible = (buildRelations st.types).1 := congrArg Prod.fst hrel
  have h2 : st.implements = (buildRelations st.types).2 := congrArg Prod.snd hrel
  rw [h1, h2]
  exact buildRelations_noNil st.types

/-- keys and entries of `PossibleTypes` resolve; in particular no nil entry -/
theorem C07_closed_possibleTypes {sd : SchemaDoc} {s : Schema} (h : load sd = .ok s) : Spec.ClosedPossibleTypes s := by
  obtain ⟨st, r1, d1, F⟩ := loaded_facts h
  rw [F.eq]
  have hrel := buildRelations_inv F.typesInv F.refs
  rw [← F.rel] at hrel
  exact relOut_closed hrel.1

theorem C07_closed_implements {sd : SchemaDoc} {s : Schema} (h : load sd = .ok s) : Spec.ClosedImplements s := by
  obtain ⟨st, r1, d1, F⟩ := loaded_facts h
  rw [F.eq]
  have hrel := buildRelations_inv F.typesInv F.refs
  rw [← F.rel] at hrel
  exact relOut_closed hrel.2

theorem C07_closed_roots {sd : SchemaDoc} {s : Schema} (h : load sd = .ok s) : Spec.ClosedRoots s := by
  obtain ⟨st, r1, d1, F⟩ := loaded_facts h
  rw [F.eq]
  obtain ⟨h1, h2, h3⟩ := F.roots
  exact ⟨fun n hn => typeIs_any_mkSchema (h1 n hn), fun n hn => typeIs_any_mkSchema (h2 n hn),
         fun n hn => typeIs_any_mkSchema (h3 n hn)⟩

theorem C07_closed_directiveArgTypes {sd : SchemaDoc} {s : Schema} (h : load sd = .ok s) :
    Spec.ClosedDirectiveArgTypes s := by
  obtain ⟨st, r1, d1, F⟩ := loaded_facts h
  rw [F.eq]
  intro p hp a ha
  obtain ⟨⟨t, ht, hk⟩, _⟩ := validateArgs_pass (F.dirDefOK p hp) a ha
  exact typeIs_mkSchema ht (by rw [isInputKind_eq]; exact hk)

theorem C07_closed_keys {sd : SchemaDoc} {s : Schema} (h : load sd = .ok s) : Spec.KeysConsistent s := by
  obtain ⟨st, r1, d1, F⟩ := loaded_facts h
  rw [F.eq]
  have ht : KeysInv (·.name) (mkSchema sd st r1 d1).types := by
    rw [mkSchema_types]
    split
    · exact keysInv_modifyKV (fun d => rfl) F.typesInv
    · exact F.typesInv
  have hmap : ∀ {α} (l : List (Name × α)), l.map (·.1) = l.map Prod.fst := fun _ => rfl
  exact ⟨ht.2, F.dirsInv.2, by rw [hmap]; exact pairwiseDistinct_of_nodup ht.1,
         by rw [hmap]; exact pairwiseDistinct_of_nodup F.dirsInv.1⟩

theorem C07_closed_directiveUses {sd : SchemaDoc} {s : Schema} (h : load sd = .ok s) : Spec.ClosedDirectiveUses s := by
  obtain ⟨st, r1, d1, F⟩ := loaded_facts h
  rw [F.eq]
  refine ⟨?_, ?_, ?_⟩
  · intro p hp
    obtain ⟨d, hd, hcase⟩ := mem_mkSchema_types hp
    have D := F.defOK _ hd
    have hkind : p.2.kind = d.kind := by rcases hcase with e | ⟨e, _⟩ <;> rw [e] <;> rfl
    have hdirs : p.2.dirs = d.dirs := by rcases hcase with e | ⟨e, _⟩ <;> rw [e] <;> rfl
    have hvals : p.2.enumValues = d.enumValues := by rcases hcase with e | ⟨e, _⟩ <;> rw [e] <;> rfl
    refine ⟨?_, ?_, ?_⟩
    · rw [hdirs, hkind, kindLocation_eq]
      exact directiveIs_of_pass D.dirs
    · intro f hf
      have hf' : f ∈ d.fields ∨ f ∈ introspectionFields := by
        rcases hcase with e | ⟨e, _⟩
        · rw [e] at hf; exact Or.inl hf
        · rw [e] at hf; simpa [addIntrospection] using hf
      rcases hf' with hf' | hf'
      · refine ⟨?_, ?_⟩
        · rw [hkind]
          exact directiveIs_of_pass (D.fieldDirs f hf')
        · intro a ha
          exact directiveIs_of_pass (validateArgs_pass (D.fieldArgs f hf') a ha).2
      · simp only [introspectionFields, List.mem_cons, List.mem_nil_iff, or_false] at hf'
        rcases hf' with rfl | rfl
        · simp
        · simp
    · intro hk v hv
      rw [hvals] at hv
      rw [hkind] at hk
      exact directiveIs_of_pass (kindSpecific_enumDirs D.kindSpecific hk v hv)
  · intro d hd
    obtain ⟨dd, h1, h2⟩ := F.schemaDirs d hd
    have : (mkSchema sd st r1 d1).directives = st.directives := rfl
    simp only [Spec.directiveIs, this, h1]
    exact h2
  · intro p hp a ha
    exact directiveIs_of_pass (validateArgs_pass (F.dirDefOK p hp) a ha).2

/-- **C07_root_types_are_objects**: the root operation types of every loaded schema — declared by a
    schema definition / extension or inferred from the default names — are object types (GraphQL §3.3.1).
    Since the repair "a root operation type must be an object type"; before it `scalar Query`,
    `input Query { foo: String }`, `schema { query: Int }` and `interface Subscription { … }` loaded. -/
theorem C07_root_types_are_objects {sd : SchemaDoc} {s : Schema} (h : load sd = .ok s) :
    Spec.rootTypesAreObjects s = true :=
  loaded_rootTypesAreObjects h

/-- in particular the query root, which receives `__schema` / `__type`, is not an input object -/
theorem C07_query_root_not_input {sd : SchemaDoc} {s : Schema} (h : load sd = .ok s) : QueryRootNotInput s := by
  have hr := loaded_rootTypesAreObjects h
  have hk := C07_closed_keys h
  intro q d hq hmem hkind
  simp only [Spec.rootTypesAreObjects, List.all_cons, List.all_nil, Bool.and_true, Bool.and_eq_true, hq] at hr
  have h1 := hr.1
  have hn : (s.types.map Prod.fst).Nodup := nodup_of_pairwiseDistinct hk.2.2.1
  simp only [Spec.typeIs, lookup_of_mem_nodup hn hmem, hkind] at h1
  cases h1

/-- needs the introspection types (prelude).  (The former hypothesis `QueryRootNotInput` is now a
    theorem, `C07_query_root_not_input`: the loader used to append the output-typed introspection fields
    to whatever type was the query root.) -/
theorem C07_closed_fieldTypes {sd : SchemaDoc} {s : Schema} (h : load sd = .ok s)
    (hp : IntrospectionTypesDeclared sd) : Spec.ClosedFieldTypes s := by
  have hq := C07_query_root_not_input h
  obtain ⟨st, r1, d1, F⟩ := loaded_facts h
  have hq' := hq
  rw [F.eq] at hq' ⊢
  intro p hp' f hf
  obtain ⟨d, hd, hcase⟩ := mem_mkSchema_types hp'
  have D := F.defOK _ hd
  have hkind : p.2.kind = d.kind := by rcases hcase with e | ⟨e, _⟩ <;> rw [e] <;> rfl
  have hf' : f ∈ d.fields ∨ (f ∈ introspectionFields ∧ (mkSchema sd st r1 d1).query = some p.1) := by
    rcases hcase with e | ⟨e, hq⟩
    · rw [e] at hf; exact Or.inl hf
    · rw [e] at hf
      simp only [addIntrospection, List.mem_append] at hf
      rcases hf with hf | hf
      · exact Or.inl hf
      · exact Or.inr ⟨hf, hq⟩
  rcases hf' with hf' | ⟨hf', hroot⟩
  · obtain ⟨t, ht⟩ := D.fieldTypes f hf'
    obtain ⟨ho, hi⟩ := kindSpecific_fields D.kindSpecific hf' ht
    apply typeIs_mkSchema ht
    rw [hkind]
    cases hk : d.kind <;> simp only [Spec.fieldPosition, Spec.anyKind]
    · rw [isOutputKind_eq]; exact ho (Or.inl hk)
    · rw [isOutputKind_eq]; exact ho (Or.inr hk)
    · rw [isInputKind_eq]; exact hi hk
  · have hne : d.kind ≠ .inputObject := by
      have := hq' p.1 p.2 hroot hp'
      rwa [hkind] at this
    obtain ⟨ts, hts, hks⟩ := buildState_declares F.built hp.schema
    obtain ⟨tt, htt, hkt⟩ := buildState_declares F.built hp.type
    simp only [introspectionFields, List.mem_cons, List.mem_nil_iff, or_false] at hf'
    rcases hf' with rfl | rfl
    · apply typeIs_mkSchema hts
      rw [hkind, hks]
      cases hk : d.kind <;> simp_all [Spec.fieldPosition, Spec.anyKind, Spec.isOutputKind]
    · apply typeIs_mkSchema htt
      rw [hkind, hkt]
      cases hk : d.kind <;> simp_all [Spec.fieldPosition, Spec.anyKind, Spec.isOutputKind]

theorem C07_closed_argTypes {sd : SchemaDoc} {s : Schema} (h : load sd = .ok s)
    (hp : IntrospectionTypesDeclared sd) : Spec.ClosedArgTypes s := by
  obtain ⟨st, r1, d1, F⟩ := loaded_facts h
  rw [F.eq]
  intro p hp' f hf a ha
  obtain ⟨d, hd, hcase⟩ := mem_mkSchema_types hp'
  have D := F.defOK _ hd
  have hf' : f ∈ d.fields ∨ f ∈ introspectionFields := by
    rcases hcase with e | ⟨e, _⟩
    · rw [e] at hf; exact Or.inl hf
    · rw [e] at hf; simpa [addIntrospection] using hf
  rcases hf' with hf' | hf'
  · obtain ⟨⟨t, ht, hk⟩, _⟩ := validateArgs_pass (D.fieldArgs f hf') a ha
    exact typeIs_mkSchema ht (by rw [isInputKind_eq]; exact hk)
  · obtain ⟨t, ht, hk⟩ := buildState_declares F.built hp.string
    simp only [introspectionFields, List.mem_cons, List.mem_nil_iff, or_false] at hf'
    rcases hf' with rfl | rfl
    · simp at ha
    · simp only [List.mem_cons, List.mem_nil_iff, or_false] at ha
      subst ha
      exact typeIs_mkSchema ht (by rw [hk]; rfl)

/-- **C07_loaded_closed** : whatever `load` returns is closed — every name reachable from a field
    type, argument type, interface list, union member list, possible-types / implements entry,
    directive application or root resolves to a definition of the right kind, and no relation holds a
    nil entry.  Hypothesis: the introspection types are declared (the prelude is part of the document).
    (Formerly also "the query root is not an input object": now enforced by the loader.) -/
theorem C07_loaded_closed {sd : SchemaDoc} {s : Schema} (h : load sd = .ok s)
    (hp : IntrospectionTypesDeclared sd) : Spec.Closed s :=
  { fieldTypes := C07_closed_fieldTypes h hp, argTypes := C07_closed_argTypes h hp,
    directiveArgTypes := C07_closed_directiveArgTypes h, interfaces := C07_closed_interfaces h,
    unionMembers := C07_closed_unionMembers h, possibleTypes := C07_closed_possibleTypes h,
    implements := C07_closed_implements h, roots := C07_closed_roots h,
    directiveUses := C07_closed_directiveUses h, keys := C07_closed_keys h }

/- ------------------------------------------------------------------ never panics -/

/-- **C07_load_no_panic**: the loader never panics, whatever the document.  (Before the repair
    `schema.go` stored `schema.Types[t]` — nil for an undeclared union member — in `PossibleTypes` and
    `isCovariant` dereferenced it; the theorem needed the hypothesis `MembersDeclared`.) -/
theorem C07_load_no_panic (sd : SchemaDoc) : (load sd).isPanic = false := load_ne_panic sd

/-- the former panic witness `interface I { f: U }  type A implements I { f: A }  union U = X` now
    returns an error (kernel-checked) -/
theorem C07_load_former_panic_witness_rejected : ∃ e, load Examples.panicDoc = .err e := by
  cases h : load Examples.panicDoc with
  | err e => exact ⟨e, rfl⟩
  | ok s => have : (load Examples.panicDoc).isOk = false := by decide
            rw [h] at this; simp [LoadResult.isOk] at this
  | panic => have : (load Examples.panicDoc).isPanic = false := by decide
             rw [h] at this; simp [LoadResult.isPanic] at this

/-- … and, in general, whenever no nil entry was stored in `PossibleTypes` (kept: still true, now
    with a hypothesis that always holds) -/
theorem C07_load_no_panic_of_noNil {sd : SchemaDoc} (h : ∀ st, buildState sd = .ok st → NoNilPossible st) :
    (load sd).isPanic = false :=
  load_ne_panic_of_state h

/-- the order of a union's members no longer matters for the kind of outcome: `union U = A | X` and
    `union U = X` are both rejected with an error -/
example : (load Examples.noPanicDoc).isPanic = false ∧ (load Examples.noPanicDoc).isOk = false ∧
    (load Examples.panicDoc).isPanic = false ∧ (load Examples.panicDoc).isOk = false := by decide

/-- non-vacuity: a document that loads -/
example : (load Examples.okDoc).isOk = true := by decide

/- ------------------------------------------------------------------ the input-object query root -/

/-- the former counterexample of `ClosedFieldTypes`, kernel-checked: `input Query { foo: String }` is
    rejected with "Schema root query must be an object type, Query is a INPUT_OBJECT." at the position of
    the definition of `Query` (before the repair it loaded and received `__schema` / `__type`) -/
theorem C07_input_query_root_rejected :
    ∃ e, load Examples.inputQueryDoc = .err e ∧
      e.msg = Msg.rootNotObject opQuery (str "Query") .inputObject ∧ (e.line, e.src) = (1, 1) := by
  have key : (match load Examples.inputQueryDoc with
      | .err e => decide (e.msg = Msg.rootNotObject opQuery (str "Query") .inputObject ∧ (e.line, e.src) = (1, 1))
      | _ => false) = true := by decide
  cases h : load Examples.inputQueryDoc with
  | err e => rw [h] at key; exact ⟨e, rfl, of_decide_eq_true key⟩
  | ok s => rw [h] at key; cases key
  | panic => rw [h] at key; cases key

/-- … and the specification rejects it by the clause `rootTypesAreObjects` alone -/
theorem C07_input_query_root_illformed :
    Spec.rootTypesAreObjectsDoc Examples.inputQueryDoc = false ∧
    (Spec.clauses Examples.inputQueryDoc).filter (fun c => !c.2) = [("S.rootTypesAreObjects", false)] := by
  refine ⟨by decide, by decide⟩

/- ------------------------------------------------------------------ relations are exact -/

/-- `PossibleTypes` of an interface is exactly the set of object / interface types declaring it, and of
    a union exactly its member list.  (The former hypothesis `InputObjectsPlain` is gone: input objects
    no longer contribute to the relations.) -/
theorem C07_relations_possible_abstract {sd : SchemaDoc} {s : Schema} (h : load sd = .ok s) :
    Spec.possibleAbstractExact s = true := by
  obtain ⟨st, r1, d1, F⟩ := loaded_facts h
  rw [F.eq]
  simp only [Spec.possibleAbstractExact, List.all_eq_true]
  intro p' hp'
  rw [mkSchema_types_map F.typesInv.1] at hp'
  obtain ⟨p, hp, rfl⟩ := List.mem_map.mp hp'
  rw [finalDef_kind, finalDef_fst]
  have hl := lookup_final (sd := sd) (r1 := r1) (d1 := d1) (lookup_of_mem_nodup F.typesInv.1 hp)
  by_cases hk : p.2.kind = .interface
  · simp only [hk, BEq.rfl, Bool.true_or, Bool.not_true, Bool.false_or]
    rw [sameSet_iff]
    intro x
    simp only [Spec.impliedPossible, hl, finalDef_kind, hk]
    have := mem_final_filter (sd := sd) (st := st) (r1 := r1) (d1 := d1) F.typesInv.1
      (fun k i _ => (k == .object || k == .interface) && i.contains p.1) x
    exact (possibleInterface_exact F hp hk x).trans this.symm
  · by_cases hu : p.2.kind = .union
    · simp only [hu, BEq.rfl, Bool.or_true, Bool.not_true, Bool.false_or]
      rw [sameSet_iff]
      intro x
      simp only [Spec.impliedPossible, hl, finalDef_kind, hu, finalDef_types]
      exact possibleUnion_exact F hp hu x
    · simp [hk, hu]

/-- an object type is its own, only, possible type -/
theorem C07_relations_possible_object {sd : SchemaDoc} {s : Schema} (h : load sd = .ok s) :
    Spec.possibleObjectSelf s = true := by
  obtain ⟨st, r1, d1, F⟩ := loaded_facts h
  rw [F.eq]
  simp only [Spec.possibleObjectSelf, List.all_eq_true]
  intro p' hp'
  rw [mkSchema_types_map F.typesInv.1] at hp'
  obtain ⟨p, hp, rfl⟩ := List.mem_map.mp hp'
  rw [finalDef_kind, finalDef_fst]
  by_cases hk : p.2.kind = .object
  · simp only [hk, bne_self_eq_false, Bool.false_or]
    rw [sameSet_iff]
    intro x
    rw [possibleObject_exact F hp hk x]; simp
  · simp [hk]

/-- only object, interface and union types have possible types (formerly refuted: every input
    object used to be entered as its own possible type) -/
theorem C07_relations_possible_keys {sd : SchemaDoc} {s : Schema} (h : load sd = .ok s) :
    Spec.possibleNoOtherKeys s = true := by
  obtain ⟨st, r1, d1, F⟩ := loaded_facts h
  rw [F.eq]
  simp only [Spec.possibleNoOtherKeys, List.all_eq_true, Bool.or_eq_true]
  intro p hp
  right
  have hp' : p ∈ relOut st.possible := hp
  simp only [relOut, List.mem_map] at hp'
  obtain ⟨⟨k, vs⟩, hq, rfl⟩ := hp'
  obtain ⟨d, hl, hk⟩ := possible_keys_kind F hq
  have hfin := lookup_final (sd := sd) (r1 := r1) (d1 := d1) hl
  simp only at hfin
  simp only [Spec.kindOf, hfin, Option.map, finalDef_kind]
  rcases hk with hk | hk | hk <;> simp [hk]

/-- `Implements` of a type is exactly: the interfaces it declares and the unions listing it -/
theorem C07_relations_implements {sd : SchemaDoc} {s : Schema} (h : load sd = .ok s) :
    Spec.implementsExact s = true := by
  have hclosed := C07_closed_implements h
  obtain ⟨st, r1, d1, F⟩ := loaded_facts h
  rw [F.eq] at hclosed ⊢
  simp only [Spec.implementsExact, Bool.and_eq_true, List.all_eq_true]
  refine ⟨?_, ?_⟩
  · intro p' hp'
    rw [mkSchema_types_map F.typesInv.1] at hp'
    obtain ⟨p, hp, rfl⟩ := List.mem_map.mp hp'
    rw [finalDef_fst, sameSet_iff]
    intro x
    have hl := lookup_final (sd := sd) (r1 := r1) (d1 := d1) (lookup_of_mem_nodup F.typesInv.1 hp)
    simp only [Spec.impliedImplements, hl, finalDef_kind, finalDef_interfaces, List.mem_append]
    have := mem_final_filter (sd := sd) (st := st) (r1 := r1) (d1 := d1) F.typesInv.1
      (fun k _ t => k == .union && t.contains p.1) x
    rw [implements_exact F hp x]
    apply or_congr
    · by_cases hk : p.2.kind = .object ∨ p.2.kind = .interface
      · have : (p.2.kind == DefKind.object || p.2.kind == DefKind.interface) = true := by
          rcases hk with hk | hk <;> simp [hk]
        simp [this, hk]
      · have : (p.2.kind == DefKind.object || p.2.kind == DefKind.interface) = false := by
          simp only [not_or] at hk
          simp [hk.1, hk.2]
        simp [this, hk]
    · exact this.symm
  · intro p hp
    have := (hclosed p hp).1
    simp only [Spec.typeIs] at this
    cases hl : (mkSchema sd st r1 d1).types.lookup p.1 with
    | none => rw [hl] at this; simp at this
    | some d => simp

/-- three of the four clauses of `RelationsExact` (kept; the hypothesis `InputObjectsPlain` is gone) -/
theorem C07_relations_exact_partial {sd : SchemaDoc} {s : Schema} (h : load sd = .ok s) :
    Spec.possibleAbstractExact s = true ∧ Spec.possibleObjectSelf s = true ∧ Spec.implementsExact s = true :=
  ⟨C07_relations_possible_abstract h, C07_relations_possible_object h, C07_relations_implements h⟩

/-- **C07_relations_exact**: the possible-type and implements relations of every loaded schema are
    exactly the ones implied by the definitions (all four clauses, no hypothesis).  Before the repair
    the fourth clause failed: `case InputObject, Object:` registered input objects as possible types. -/
theorem C07_relations_exact {sd : SchemaDoc} {s : Schema} (h : load sd = .ok s) : Spec.RelationsExact s :=
  { possibleAbstractExact := C07_relations_possible_abstract h, possibleObjectSelf := C07_relations_possible_object h,
    possibleNoOtherKeys := C07_relations_possible_keys h, implementsExact := C07_relations_implements h }

/- ------------------------------------------------------------------ introspection fields, built-ins -/

/-- **C07_introspection_fields**: the query root of every loaded schema has exactly one field
    `__schema: __Schema!` (no arguments) and exactly one field `__type(name: String!): __Type` -/
theorem C07_introspection_fields {sd : SchemaDoc} {s : Schema} (h : load sd = .ok s) : Spec.IntrospectionFields s := by
  obtain ⟨st, r1, d1, F⟩ := loaded_facts h
  rw [F.eq]
  unfold Spec.IntrospectionFields Spec.introspectionFieldsB
  rw [mkSchema_query]
  cases hq : (finalRoots sd st r1).query with
  | none => rfl
  | some q =>
    have hsome := F.roots.1 q hq
    cases hl : st.types.lookup q with
    | none => rw [hl] at hsome; simp at hsome
    | some d =>
      have hfin := lookup_final (sd := sd) (r1 := r1) (d1 := d1) hl
      rw [hq] at hfin
      have hfd : (finalDef (some q) (q, d)).2 = addIntrospection d := by simp [finalDef]
      rw [hfd] at hfin
      simp only [hfin]
      have hnames := (F.defOK (q, d) (mem_of_lookup hl)).fieldNames
      have h1 : (addIntrospection d).fields.filter (·.name == str "__schema") = [introspectionFields[0]] := by
        simp only [addIntrospection, List.filter_append, filter_dunder_nil hnames (n := str "__schema") (by decide)]
        rfl
      have h2 : (addIntrospection d).fields.filter (·.name == str "__type") = [introspectionFields[1]] := by
        simp only [addIntrospection, List.filter_append, filter_dunder_nil hnames (n := str "__type") (by decide)]
        rfl
      rw [h1, h2]
      rfl

/-- **C07_prelude_present**: a schema loaded from a document that contains the prelude has the
    built-in scalars, the built-in directives and the introspection types -/
theorem C07_prelude_present {sd : SchemaDoc} {s : Schema} (h : load sd = .ok s) (hp : PreludeDeclared sd) :
    Spec.HasBuiltins s := by
  obtain ⟨st, r1, d1, F⟩ := loaded_facts h
  rw [F.eq]
  unfold Spec.HasBuiltins Spec.hasBuiltinsB
  simp only [Bool.and_eq_true, List.all_eq_true]
  refine ⟨⟨?_, ?_⟩, ?_⟩
  · intro n hn
    obtain ⟨d, hd, hk⟩ := buildState_declares F.built (hp.scalars n hn)
    exact typeIs_mkSchema hd (by simp [hk])
  · intro n hn
    obtain ⟨dd, hdd, hname⟩ := hp.directives n hn
    have hb := F.built
    unfold buildState at hb
    split at hb
    · simp at hb
    · split at hb
      · simp at hb
      · split at hb
        split at hb
        · simp at hb
        · rename_i dirs hdirs
          simp only [Except.ok.injEq] at hb
          subst hb
          have := (declareDirectives_keys hdirs).2 dd hdd
          rw [hname] at this
          exact this
  · intro p hp'
    obtain ⟨d, hd, hk⟩ := buildState_declares F.built (hp.types p hp')
    exact typeIs_mkSchema hd (by simp [hk])

/- ------------------------------------------------------------------ load vs WellFormed -/

/-
  Both directions are theorems about the model (below):
    ⇒  `C07_load_sound`     accepted ⇒ WellFormed, when no directive name is declared twice
    ⇐  `C07_load_complete`  WellFormed ⇒ accepted, for every merged document (`MergedDoc`)
    ⇔  `C07_load_iff_wellformed`  under the hypotheses of the ⇒ direction
  The ⇒ direction cannot lose its hypothesis: R7b (a builtin directive redeclared more than once is
  accepted and the last declaration wins, see `C07_load_iff_wellformed_counterexample_directive` and
  C17_directive_perm_counterexample).  The former witnesses R7c (`enum E { __A }`) and R7a (`f(a: String)`
  implementing `f(a: String!)`) are rejected since the repair: the two theorems below replace the former
  `…_counterexample_enumValue` / `…_counterexample_argType`.
-/

/-- R7c repaired, kernel-checked: an enum value named `__A` is rejected (the spec clause rejects it too) -/
theorem C07_load_enumValue_reserved_rejected :
    (load Examples.r7cDoc).isOk = false ∧ Spec.enumValueNamesNotReserved (.ofDoc Examples.r7cDoc) = false := by
  refine ⟨by decide, by decide⟩

/-- R7a repaired, kernel-checked: an implementing field may no longer weaken a non-null argument -/
theorem C07_load_argType_weakened_rejected :
    (load Examples.r7aDoc).isOk = false ∧ Spec.implementsFieldsOK (.ofDoc Examples.r7aDoc) = false := by
  refine ⟨by decide, by decide⟩

/-- R7b, kernel-checked: `directive @skip on FIELD  directive @skip on OBJECT` loads although the
    directive names are not unique — the ⇒ direction of the iff still fails on this clause -/
theorem C07_load_iff_wellformed_counterexample_directive :
    (load Examples.skipFO).isOk = true ∧ Spec.uniqueDirectiveNames Examples.skipFO = false ∧
    ¬ Spec.WellFormed Examples.skipFO := by
  refine ⟨by decide, by decide, fun h => absurd h.uniqueDirectiveNames (by decide)⟩

/-- **soundness, partial** (the ⇒ direction for the type-structure clauses): a document the loader
    accepts has unique type names, unique field names per merged type, resolving and correctly
    positioned field types, interfaces that are interfaces, union members that are objects, existing
    roots, transitively declared interfaces, no empty object/interface/input/enum, no reserved type,
    field or ENUM VALUE names, at most one `schema` block, every root operation type given at most ONCE,
    extensions of the base's kind, no enum value named `true`/`false`/`null`, and OBJECT types as root
    operation types (declared or inferred).
    (`hext`: extensions are not `builtIn` — the prelude has none.)
    `implementsFieldsOK` is `C07_load_sound_implementsFields`, the directive clauses are
    `C07_load_sound_directives`, all 27 clauses together `C07_load_sound` (below). -/
theorem C07_load_sound_partial {sd : SchemaDoc} {s : Schema} (h : load sd = .ok s)
    (hext : ∀ e ∈ sd.extensions, e.builtIn = false) : SoundClauses sd :=
  load_sound h hext

/-- **soundness for `implementsFieldsOK`** (the remaining type-structure clause): in a document the
    loader accepts, every implementer provides every field of its interfaces at a covariant type
    (`Spec.covariant`, the specification's IsValidImplementationFieldType, read off the DEFINITIONS —
    the loader decides it from `PossibleTypes`), takes every argument of the interface field at the
    IDENTICAL type, and adds no required argument.  `NamesLexical`: what the lexer guarantees — no
    empty definition name, no `!`/`[`/`]` inside a name of a field or argument type (`Type.String()`,
    which the repaired loader compares, is injective only on such names). -/
theorem C07_load_sound_implementsFields {sd : SchemaDoc} {s : Schema} (h : load sd = .ok s)
    (hext : ∀ e ∈ sd.extensions, e.builtIn = false) (hlex : NamesLexical sd) :
    Spec.implementsFieldsOK (.ofDoc sd) = true :=
  load_implementsFieldsOK h hext hlex

/-- non-vacuity: a document with interface implementations (one covariant through a union) that
    satisfies the hypotheses and loads -/
example : NamesLexical Examples.implOkDoc ∧ (load Examples.implOkDoc).isOk = true ∧
    Spec.implementsFieldsOK (.ofDoc Examples.implOkDoc) = true := ⟨by decide, by decide, by decide⟩

/-- **C07_load_sound — the ⇒ direction of "loads iff well formed"**, for documents in which no
    directive name is declared twice: every document the loader accepts satisfies EVERY clause of
    `Spec.WellFormed` (all 27, including `rootTypesAreObjects` since the repair of the root kinds).  The hypothesis `DirectiveNamesDistinct` cannot be dropped: a builtin
    directive redeclared more than once is accepted with the last declaration in force (finding R7b,
    `C07_load_iff_wellformed_counterexample_directive`), and the clauses then read another definition
    than the loader.  (`hext`, `NamesLexical`: guarantees of the prelude and of the lexer.) -/
theorem C07_load_sound {sd : SchemaDoc} {s : Schema} (h : load sd = .ok s)
    (hext : ∀ e ∈ sd.extensions, e.builtIn = false) (hlex : NamesLexical sd) (hd : DirectiveNamesDistinct sd) :
    Spec.WellFormed sd :=
  load_wellFormed h hext hlex hd

/-- the directive clauses alone (no `NamesLexical`) -/
theorem C07_load_sound_directives {sd : SchemaDoc} {s : Schema} (h : load sd = .ok s)
    (hext : ∀ e ∈ sd.extensions, e.builtIn = false) (hd : DirectiveNamesDistinct sd) : DirectiveClauses sd :=
  load_directive_clauses h hext hd

/-- non-vacuity: a document that declares and applies a directive (on a type and on an argument),
    satisfies the hypotheses and loads -/
example : NamesLexical Examples.dirOkDoc ∧ DirectiveNamesDistinct Examples.dirOkDoc ∧
    (load Examples.dirOkDoc).isOk = true ∧ (Spec.TypeSystem.ofDoc Examples.dirOkDoc).directiveUses.length = 2 :=
  ⟨by decide, by decide, by decide, by decide⟩

/-- non-vacuity of the spec: the small valid document is well formed and loads -/
example : Spec.WellFormed Examples.okDoc ∧ (load Examples.okDoc).isOk = true := ⟨by decide, by decide⟩

/- ------------------------------------------------------------------ completeness: WellFormed ⇒ loads -/

/-- **C07_load_complete — the ⇐ direction of "loads iff well formed"**: every merged document whose
    merged type system satisfies the 27 clauses of `Spec.WellFormed` is accepted by the loader.
    No clause is missing from the specification: each error site of validator/schema.go is excluded by
    one clause (the lemmas `load_<step>_ok_of_wf` in GqlProofs/Schema/Complete*.lean name the Go check and
    the clause).  `MergedDoc sd` says that `sd` has the SHAPE `parser.ParseSchemas(prelude, inputs…)`
    produces — no extension is marked built in, the directive definitions of source 0 (the prelude) are among
    the six names the loader lets a user redeclare and precede the user-written ones; it says nothing about
    the type system, and none of its three parts can be dropped (`C07_load_complete_needs_*` below).
    In particular a user may declare a prelude directive once more (`uniqueDirectiveNames` allows it, the
    loader keeps the user's declaration): the document loads. -/
theorem C07_load_complete (sd : SchemaDoc) (h : Spec.WellFormed sd) (hpre : MergedDoc sd) : ∃ s, load sd = .ok s :=
  load_complete h hpre

/-- the same for documents in which no directive name is declared twice (then the order of the sources
    does not matter): the hypotheses are those of the soundness theorem -/
theorem C07_load_complete_distinct (sd : SchemaDoc) (h : Spec.WellFormed sd)
    (hext : ∀ e ∈ sd.extensions, e.builtIn = false) (hd : DirectiveNamesDistinct sd) : ∃ s, load sd = .ok s :=
  load_complete_distinct h hext hd

/-- the stage lemmas, re-exported: the four maps are built … -/
theorem C07_load_complete_buildState (sd : SchemaDoc) (h : Spec.WellFormed sd) (hpre : MergedDoc sd) :
    ∃ st, buildState sd = .ok st :=
  load_buildState_ok_of_wf h hpre

/-- … and in that state the directive definition in force according to the specification (the user's,
    else the prelude's) is the one the loader stored, every type definition and every directive definition
    passes its validator -/
theorem C07_load_complete_validators (sd : SchemaDoc) (h : Spec.WellFormed sd) (hpre : MergedDoc sd) {st : LState}
    (hb : buildState sd = .ok st) :
    (∀ n, (Spec.TypeSystem.ofDoc sd).directive? n = st.directives.lookup n) ∧
    validateTypeDefinitions st = .pass ∧ validateDirectiveDefinitions st = .pass := by
  have hdir := fun n => spec_directive_eq_of_merged hb h.uniqueDirectiveNames hpre n
  have W : WfState sd st := ⟨h, hpre.extNotBuiltin, hb, hdir⟩
  exact ⟨hdir, load_validateTypeDefinitions_ok_of_wf W, load_validateDirectiveDefinitions_ok_of_wf W⟩

/-- **C07_load_iff_wellformed**: for documents in which no directive name is declared twice (and with
    the two guarantees of the prelude and of the lexer that soundness needs) the loader accepts EXACTLY
    the well-formed type systems. -/
theorem C07_load_iff_wellformed (sd : SchemaDoc) (hext : ∀ e ∈ sd.extensions, e.builtIn = false)
    (hlex : NamesLexical sd) (hd : DirectiveNamesDistinct sd) : (load sd).isOk = true ↔ Spec.WellFormed sd := by
  rw [isOk_iff]
  exact ⟨fun ⟨_, h⟩ => load_wellFormed h hext hlex hd, fun h => load_complete_distinct h hext hd⟩

/-- for every merged document: loading fails only if some clause fails (the contrapositive the harness
    observes as "go-rejects-spec-accepts" never happening) -/
theorem C07_load_rejects_only_illformed (sd : SchemaDoc) (hpre : MergedDoc sd) (h : (load sd).isOk = false) :
    Spec.wfB sd = false := by
  cases hw : Spec.wfB sd with
  | false => rfl
  | true =>
    obtain ⟨s, hs⟩ := load_complete ((Spec.wfB_iff sd).mp hw) hpre
    rw [hs] at h
    cases h

/-- non-vacuity: the example documents are merged documents; `redeclOkDoc` redeclares the prelude's
    `@skip` (so it is outside `DirectiveNamesDistinct`), is well formed and loads -/
example : MergedDoc Examples.okDoc ∧ MergedDoc Examples.implOkDoc ∧ MergedDoc Examples.dirOkDoc ∧
    Spec.WellFormed Examples.implOkDoc ∧ Spec.WellFormed Examples.dirOkDoc ∧
    MergedDoc Examples.redeclOkDoc ∧ Spec.WellFormed Examples.redeclOkDoc ∧ ¬ DirectiveNamesDistinct Examples.redeclOkDoc ∧
    (load Examples.redeclOkDoc).isOk = true := by
  refine ⟨by decide, by decide, by decide, by decide, by decide, by decide, by decide, by decide, by decide⟩

/-- `MergedDoc.preludeFirst` cannot be dropped: with the user's `directive @skip on OBJECT` placed
    BEFORE the prelude's `directive @skip on FIELD` the document is well formed (the specification reads the
    user's declaration) and is rejected (the loader keeps the last one) -/
theorem C07_load_complete_needs_preludeFirst :
    Spec.WellFormed Examples.redeclUserFirstDoc ∧ (load Examples.redeclUserFirstDoc).isOk = false ∧
    ¬ MergedDoc Examples.redeclUserFirstDoc := by
  refine ⟨by decide, by decide, by decide⟩

/-- `MergedDoc.preludeDirsBuiltin` cannot be dropped: a source-0 directive outside the loader's list of
    six, declared once more by the user ("Cannot redeclare directive foo.") -/
theorem C07_load_complete_needs_preludeDirsBuiltin :
    Spec.WellFormed Examples.redeclFooDoc ∧ (load Examples.redeclFooDoc).isOk = false ∧
    ¬ MergedDoc Examples.redeclFooDoc := by
  refine ⟨by decide, by decide, by decide⟩

/-- `MergedDoc.extNotBuiltin` cannot be dropped: `extend scalar __X` marked built in, without a base
    definition (the loader's stub is never built in, so the reserved name is rejected) -/
theorem C07_load_complete_needs_extNotBuiltin :
    Spec.WellFormed Examples.builtinExtDoc ∧ (load Examples.builtinExtDoc).isOk = false ∧
    ¬ MergedDoc Examples.builtinExtDoc := by
  refine ⟨by decide, by decide, by decide⟩
