import GqlProofs.Grammar.Sound
import GqlProofs.Grammar.Reject
import GqlProofs.Grammar.ParserFacts
import GqlProofs.Grammar.PrintSchema
/-
  C06 — the schema parser accepts exactly the type-system grammar, faithfully.

  Specification-side theorems about the grammar tables `gql` (start symbol
  `NT.typeSystemDocument`), the generic recogniser (driver ops `gs` / `gsc`) and the unparser
  `Print.printSchema` (op `unparses`); plus two theorems about the PARSER MODEL
  (`parseSchemaSrc`, `parseSchemas`: ops `ps` / `pss`): the built-in flag and the merge.
  The tie to the real parser is the check `C06` (harness/internal/props/grammarcheck.go).
-/
open Gql Gql.Lexer Gql.Grammar Gql.Parser Gql.Print

/-! ### the recogniser is sound -/

theorem C06_recognise_sound (ts : List Tok) (h : isTypeSystem ts = true) :
    Derivable gql .typeSystemDocument ts :=
  recognises_sound gql _ ts h

theorem C06_canonical_sound (ts out : List Tok) (h : canonical gql .typeSystemDocument ts = some out) :
    Derives gql (.nt .typeSystemDocument) ts out :=
  canonical_sound gql _ ts out h

/-! ### rejection classes, on the grammar tables -/

/-- the empty token sequence is not a type-system document; every document has ≥ 2 tokens -/
theorem C06_reject_classes_empty_document : ¬ Derivable gql .typeSystemDocument [] := by
  intro ⟨out, h⟩
  have := minLen_nt 24 h
  revert this; decide

/-- no `$` anywhere: every directive and default value of a type-system document is constant
    (in particular the directives of an input-object extension) -/
theorem C06_reject_classes_variable (ts : List Tok) (h : Derivable gql .typeSystemDocument ts) :
    ∀ t ∈ ts, t.kind ≠ .dollar := by
  obtain ⟨out, h⟩ := h
  exact typeSystem_no_dollar (by simp [typeSystemNT]) h

/-- the bracketed lists are never empty: `{ }` / `( )` are derivable from none of FieldsDefinition,
    ArgumentsDefinition, InputFieldsDefinition, EnumValuesDefinition; a schema definition needs
    its `{ operation : Type }` (6 tokens with the keyword), every extension extends something
    (≥ 4 tokens for a schema extension, ≥ 5 for a type extension such as `extend scalar S @d`) -/
theorem C06_reject_classes_empty_lists (ts out : List Tok) :
    (Derives gql (.nt .fieldsDefinition) ts out → 5 ≤ ts.length)
    ∧ (Derives gql (.nt .argumentsDefinition) ts out → 5 ≤ ts.length)
    ∧ (Derives gql (.nt .inputFieldsDefinition) ts out → 5 ≤ ts.length)
    ∧ (Derives gql (.nt .enumValuesDefinition) ts out → 3 ≤ ts.length)
    ∧ (Derives gql (.nt .unionMemberTypes) ts out → 2 ≤ ts.length)
    ∧ (Derives gql (.nt .implementsInterfaces) ts out → 2 ≤ ts.length)
    ∧ (Derives gql (.nt .schemaDefinition) ts out → 6 ≤ ts.length)
    ∧ (Derives gql (.nt .schemaExtension) ts out → 4 ≤ ts.length)
    ∧ (Derives gql (.nt .typeExtension) ts out → 5 ≤ ts.length) := by
  refine ⟨fun h => ?_, fun h => ?_, fun h => ?_, fun h => ?_, fun h => ?_, fun h => ?_, fun h => ?_, fun h => ?_,
    fun h => ?_⟩ <;> (have := minLen_nt 24 h; revert this; generalize ts.length = n; intro this)
  · have e : minLen gql 24 (.nt .fieldsDefinition) = 5 := by decide
    omega
  · have e : minLen gql 24 (.nt .argumentsDefinition) = 5 := by decide
    omega
  · have e : minLen gql 24 (.nt .inputFieldsDefinition) = 5 := by decide
    omega
  · have e : minLen gql 24 (.nt .enumValuesDefinition) = 3 := by decide
    omega
  · have e : minLen gql 24 (.nt .unionMemberTypes) = 2 := by decide
    omega
  · have e : minLen gql 24 (.nt .implementsInterfaces) = 2 := by decide
    omega
  · have e : minLen gql 24 (.nt .schemaDefinition) = 6 := by decide
    omega
  · have e : minLen gql 24 (.nt .schemaExtension) = 4 := by decide
    omega
  · have e : minLen gql 24 (.nt .typeExtension) = 5 := by decide
    omega

/-- `extend <kind> Name` alone (three tokens) extends nothing and is not derivable -/
theorem C06_reject_classes_extension_of_nothing (a b c : Tok) (out : List Tok) :
    ¬ Derives gql (.nt .typeSystemExtension) [a, b, c] out := by
  intro h
  have h := h.nt_inv
  rcases h.alt_inv with h | h
  · have := minLen_nt 24 h
    have e : minLen gql 24 (.nt .schemaExtension) = 4 := by decide
    simp only [List.length_cons, List.length_nil] at this
    omega
  · have := minLen_nt 24 h
    have e : minLen gql 24 (.nt .typeExtension) = 5 := by decide
    simp only [List.length_cons, List.length_nil] at this
    omega

/-- an enum value is a Name token other than `true`, `false`, `null` -/
theorem C06_reject_classes_enum_value (ts out : List Tok) (h : Derives gql (.nt .enumValue) ts out) :
    ∃ v, ts = [{ kind := .name, value := v }] ∧ v ≠ str "true" ∧ v ≠ str "false" ∧ v ≠ str "null" := by
  have h := h.nt_inv
  obtain ⟨t, e1, _, hp⟩ := h.tok_inv
  obtain ⟨k, v⟩ := t
  simp only [Bool.and_eq_true, beq_iff_eq, Bool.not_eq_true', List.contains_cons, List.contains_nil,
    Bool.or_false, Bool.or_eq_false_iff, beq_eq_false_iff_ne] at hp
  obtain ⟨hk, hv⟩ := hp
  subst hk
  exact ⟨v, e1, hv⟩

/-- an operation type is one of the three keywords as a NAME token (a String token whose content
    is `query` is not one) -/
theorem C06_reject_classes_operation_type (ts out : List Tok) (h : Derives gql (.nt .operationType) ts out) :
    ts = [{ kind := .name, value := str "query" }] ∨ ts = [{ kind := .name, value := str "mutation" }]
      ∨ ts = [{ kind := .name, value := str "subscription" }] := by
  have h := h.nt_inv
  have key : ∀ (w : Bytes) (ts out : List Tok), Derives gql (kw w) ts out → ts = [{ kind := .name, value := w }] := by
    intro w ts out d
    obtain ⟨t, e1, _, hp⟩ := d.tok_inv
    obtain ⟨k, v⟩ := t
    simp only [Bool.and_eq_true, beq_iff_eq] at hp
    obtain ⟨rfl, rfl⟩ := hp
    exact e1
  rcases h.alt_inv with h | h
  · exact Or.inl (key _ _ _ h)
  · rcases h.alt_inv with h | h
    · exact Or.inr (Or.inl (key _ _ _ h))
    · exact Or.inr (Or.inr (key _ _ _ h))

/-! ### the unparser stays inside the grammar -/

/-- The print of every well-formed type-system tree (`Print.WFSchema`: at least one definition;
    schema definitions list at least one operation type and only `query`/`mutation`/`subscription`;
    every extension extends something (`Print.ExtendsSomething`); directive definitions have at
    least one location, all among the 19 names; enum values are not `true`/`false`/`null`; all
    directives and default values are constant) is a sentence of the type-system grammar. -/
theorem C06_print_in_grammar (d : SchemaDoc) (h : WFSchema d) :
    Derivable gql .typeSystemDocument (printSchema d) :=
  (printSchema_in_grammar d h).derivable

/-- … and the print is its own canonical form (no leading `&` / `|`, no empty description, every
    description a String token) -/
theorem C06_print_canonical (d : SchemaDoc) (h : WFSchema d) :
    Derives gql (.nt .typeSystemDocument) (printSchema d) (printSchema d) :=
  printSchema_in_grammar d h

/-- non-vacuity: `scalar S  extend scalar S @d` is well-formed -/
example : WFSchema
    { schema := [], schemaExt := [], directives := [],
      definitions := [{ kind := .scalar, desc := [], name := str "S", dirs := [], interfaces := [], fields := [],
                        types := [], enumValues := [], pos := Pos.zero, builtIn := false }],
      extensions := [{ kind := .scalar, desc := [], name := str "S",
                       dirs := [{ name := str "d", args := [], pos := Pos.zero }], interfaces := [], fields := [],
                       types := [], enumValues := [], pos := Pos.zero, builtIn := false }] } := by
  refine ⟨by simp, by simp, by simp, by simp, ?_, ?_⟩
  · intro x hx; simp only [List.mem_singleton] at hx; subst hx
    exact ⟨by intro d hd; simp at hd, trivial⟩
  · intro x hx; simp only [List.mem_singleton] at hx; subst hx
    refine ⟨⟨?_, trivial⟩, by simp [ExtendsSomething]⟩
    intro d hd; simp only [List.mem_singleton] at hd; subst hd; intro a ha; simp at ha

/-! ### the parser model: built-in flag and merge -/

/-- `ParseSchema(src)` marks every definition and extension with the source's `BuiltIn` flag -/
theorem C06_builtin_flag (limit src : Nat) (builtIn : Bool) (inp : Bytes) (d : SchemaDoc)
    (h : parseSchemaSrc limit src builtIn inp = .ok d) :
    (∀ x ∈ d.definitions, x.builtIn = builtIn) ∧ (∀ x ∈ d.extensions, x.builtIn = builtIn) := by
  unfold parseSchemaSrc at h
  split at h
  · simp only [Result.ok.injEq] at h
    subst h
    simp only [setBuiltIn, List.mem_map]
    constructor <;> (rintro x ⟨y, _, rfl⟩; rfl)
  · rename_i r hne
    exact absurd h (by intro h'; cases r <;> simp_all)

/-- `ParseSchemas(src₁ … srcₖ)` succeeds only if every source parses, and then each of the five
    lists of the result is the concatenation, in source order, of the corresponding lists of the
    individual documents -/
theorem C06_merge_is_concat (limit : Nat) (srcs : List (Bool × Bytes)) (d : SchemaDoc)
    (h : parseSchemas limit srcs = .ok d) :
    ∃ ds : List SchemaDoc, ParsedFrom limit 0 srcs ds
      ∧ d.schema = ds.flatMap (·.schema) ∧ d.schemaExt = ds.flatMap (·.schemaExt)
      ∧ d.directives = ds.flatMap (·.directives) ∧ d.definitions = ds.flatMap (·.definitions)
      ∧ d.extensions = ds.flatMap (·.extensions) := by
  obtain ⟨ds, hp, rfl⟩ := parseSchemasFrom_ok limit srcs 0 SchemaDoc.empty d h
  obtain ⟨h1, h2, h3, h4, h5⟩ := foldl_merge_fields ds SchemaDoc.empty
  exact ⟨ds, hp, by simpa [SchemaDoc.empty] using h1, by simpa [SchemaDoc.empty] using h2,
    by simpa [SchemaDoc.empty] using h3, by simpa [SchemaDoc.empty] using h4, by simpa [SchemaDoc.empty] using h5⟩

#print axioms C06_print_in_grammar
#print axioms C06_print_canonical
#print axioms C06_recognise_sound
#print axioms C06_canonical_sound
#print axioms C06_reject_classes_empty_document
#print axioms C06_reject_classes_variable
#print axioms C06_reject_classes_empty_lists
#print axioms C06_reject_classes_extension_of_nothing
#print axioms C06_reject_classes_enum_value
#print axioms C06_reject_classes_operation_type
#print axioms C06_builtin_flag
#print axioms C06_merge_is_concat
