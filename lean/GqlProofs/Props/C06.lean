import GqlProofs.Grammar.Sound
import GqlProofs.Grammar.Reject
import GqlProofs.Grammar.ParserFacts
import GqlProofs.Grammar.PrintSchema
import GqlProofs.Parser.SoundSchemaTop
import GqlProofs.Parser.FwdSchemaTop
import GqlProofs.Parser.RetSchema
import GqlProofs.Grammar.Complete
import GqlProofs.Parser.CompleteSchemaTop
/-
  C06 — the schema parser accepts exactly the type-system grammar, faithfully.

  Specification-side theorems about the grammar tables `gql` (start symbol
  `NT.typeSystemDocument`), the generic recogniser (driver ops `gs` / `gsc`) and the unparser
  `Print.printSchema` (op `unparses`); plus theorems about the PARSER MODEL
  (`parseSchemaSrc`, `parseSchemas`: ops `ps` / `pss`): the built-in flag, the merge, and
  soundness — every accepted non-empty document without literal-named enum values is derivable
  and its tree unparses to a canonical form of the input (`C06_parse_sound`, `C06_parse_sound_<nt>`),
  completeness — every lexable input whose token sequence is derivable is accepted, and the unparse
  of the tree is the canonical output of EVERY derivation (`C06_parse_complete_canonical`,
  `C06_parse_complete_<nt>`) — and their consequences `C06_accepts_exactly`, `C06_canonical_unique`,
  `C06_parse_sound_canonical` (with the recogniser's `canonical`), `C06_accepts_iff_recognises`.
  The tie to the real parser is the check `C06` (harness/internal/props/grammarcheck.go).
-/
open Gql Gql.Lexer Gql.Grammar Gql.Parser Gql.Print

/-! ### the recogniser is sound -/

theorem C06_recognise_sound (ts : List Tok) (h : isTypeSystem ts = true) :
    Derivable gql .typeSystemDocument ts :=
  recognises_sound gql _ ts h

theorem C06_canonical_sound (ts out : List Tok) (h : canonical gql .typeSystemDocument ts = some out) :
    Derives gql (.nt .typeSystemDocument) ts out :=
  canonical_sound gql _ ts out h

/-! ### rejection classes, on the grammar tables -/

/-- the empty token sequence is not a type-system document; every document has ≥ 2 tokens -/
theorem C06_reject_classes_empty_document : ¬ Derivable gql .typeSystemDocument [] := by
  intro ⟨out, h⟩
  have := minLen_nt 24 h
  revert this; decide

/-- no `$` anywhere: every directive and default value of a type-system document is constant
    (in particular the directives of an input-object extension) -/
theorem C06_reject_classes_variable (ts : List Tok) (h : Derivable gql .typeSystemDocument ts) :
    ∀ t ∈ ts, t.kind ≠ .dollar := by
  obtain ⟨out, h⟩ := h
  exact typeSystem_no_dollar (by simp [typeSystemNT]) h

/-- the bracketed lists are never empty: `{ }` / `( )` are derivable from none of FieldsDefinition,
    ArgumentsDefinition, InputFieldsDefinition, EnumValuesDefinition; a schema definition needs
    its `{ operation : Type }` (6 tokens with the keyword), every extension extends something
    (≥ 4 tokens for a schema extension, ≥ 5 for a type extension such as `extend scalar S @d`) -/
theorem C06_reject_classes_empty_lists (ts out : List Tok) :
    (Derives gql (.nt .fieldsDefinition) ts out → 5 ≤ ts.length)
    ∧ (Derives gql (.nt .argumentsDefinition) ts out → 5 ≤ ts.length)
    ∧ (Derives gql (.nt .inputFieldsDefinition) ts out → 5 ≤ ts.length)
    ∧ (Derives gql (.nt .enumValuesDefinition) ts out → 3 ≤ ts.length)
    ∧ (Derives gql (.nt .unionMemberTypes) ts out → 2 ≤ ts.length)
    ∧ (Derives gql (.nt .implementsInterfaces) ts out → 2 ≤ ts.length)
    ∧ (Derives gql (.nt .schemaDefinition) ts out → 6 ≤ ts.length)
    ∧ (Derives gql (.nt .schemaExtension) ts out → 4 ≤ ts.length)
    ∧ (Derives gql (.nt .typeExtension) ts out → 5 ≤ ts.length) := by
  refine ⟨fun h => ?_, fun h => ?_, fun h => ?_, fun h => ?_, fun h => ?_, fun h => ?_, fun h => ?_, fun h => ?_,
    fun h => ?_⟩ <;> (have := minLen_nt 24 h; revert this; generalize ts.length = n; intro this)
  · have e : minLen gql 24 (.nt .fieldsDefinition) = 5 := by decide
    omega
  · have e : minLen gql 24 (.nt .argumentsDefinition) = 5 := by decide
    omega
  · have e : minLen gql 24 (.nt .inputFieldsDefinition) = 5 := by decide
    omega
  · have e : minLen gql 24 (.nt .enumValuesDefinition) = 3 := by decide
    omega
  · have e : minLen gql 24 (.nt .unionMemberTypes) = 2 := by decide
    omega
  · have e : minLen gql 24 (.nt .implementsInterfaces) = 2 := by decide
    omega
  · have e : minLen gql 24 (.nt .schemaDefinition) = 6 := by decide
    omega
  · have e : minLen gql 24 (.nt .schemaExtension) = 4 := by decide
    omega
  · have e : minLen gql 24 (.nt .typeExtension) = 5 := by decide
    omega

/-- `extend <kind> Name` alone (three tokens) extends nothing and is not derivable -/
theorem C06_reject_classes_extension_of_nothing (a b c : Tok) (out : List Tok) :
    ¬ Derives gql (.nt .typeSystemExtension) [a, b, c] out := by
  intro h
  have h := h.nt_inv
  rcases h.alt_inv with h | h
  · have := minLen_nt 24 h
    have e : minLen gql 24 (.nt .schemaExtension) = 4 := by decide
    simp only [List.length_cons, List.length_nil] at this
    omega
  · have := minLen_nt 24 h
    have e : minLen gql 24 (.nt .typeExtension) = 5 := by decide
    simp only [List.length_cons, List.length_nil] at this
    omega

/-- an enum value is a Name token other than `true`, `false`, `null` -/
theorem C06_reject_classes_enum_value (ts out : List Tok) (h : Derives gql (.nt .enumValue) ts out) :
    ∃ v, ts = [{ kind := .name, value := v }] ∧ v ≠ str "true" ∧ v ≠ str "false" ∧ v ≠ str "null" := by
  have h := h.nt_inv
  obtain ⟨t, e1, _, hp⟩ := h.tok_inv
  obtain ⟨k, v⟩ := t
  simp only [Bool.and_eq_true, beq_iff_eq, Bool.not_eq_true', List.contains_cons, List.contains_nil,
    Bool.or_false, Bool.or_eq_false_iff, beq_eq_false_iff_ne] at hp
  obtain ⟨hk, hv⟩ := hp
  subst hk
  exact ⟨v, e1, hv⟩

/-- an operation type is one of the three keywords as a NAME token (a String token whose content
    is `query` is not one) -/
theorem C06_reject_classes_operation_type (ts out : List Tok) (h : Derives gql (.nt .operationType) ts out) :
    ts = [{ kind := .name, value := str "query" }] ∨ ts = [{ kind := .name, value := str "mutation" }]
      ∨ ts = [{ kind := .name, value := str "subscription" }] := by
  have h := h.nt_inv
  have key : ∀ (w : Bytes) (ts out : List Tok), Derives gql (kw w) ts out → ts = [{ kind := .name, value := w }] := by
    intro w ts out d
    obtain ⟨t, e1, _, hp⟩ := d.tok_inv
    obtain ⟨k, v⟩ := t
    simp only [Bool.and_eq_true, beq_iff_eq] at hp
    obtain ⟨rfl, rfl⟩ := hp
    exact e1
  rcases h.alt_inv with h | h
  · exact Or.inl (key _ _ _ h)
  · rcases h.alt_inv with h | h
    · exact Or.inr (Or.inl (key _ _ _ h))
    · exact Or.inr (Or.inr (key _ _ _ h))

/-! ### the unparser stays inside the grammar -/

/-- The print of every well-formed type-system tree (`Print.WFSchema`: at least one definition;
    schema definitions list at least one operation type and only `query`/`mutation`/`subscription`;
    every extension extends something (`Print.ExtendsSomething`); directive definitions have at
    least one location, all among the 19 names; enum values are not `true`/`false`/`null`; all
    directives and default values are constant) is a sentence of the type-system grammar. -/
theorem C06_print_in_grammar (d : SchemaDoc) (h : WFSchema d) :
    Derivable gql .typeSystemDocument (printSchema d) :=
  (printSchema_in_grammar d h).derivable

/-- … and the print is its own canonical form (no leading `&` / `|`, no empty description, every
    description a String token) -/
theorem C06_print_canonical (d : SchemaDoc) (h : WFSchema d) :
    Derives gql (.nt .typeSystemDocument) (printSchema d) (printSchema d) :=
  printSchema_in_grammar d h

/-- non-vacuity: `scalar S  extend scalar S @d` is well-formed -/
example : WFSchema
    { schema := [], schemaExt := [], directives := [],
      definitions := [{ kind := .scalar, desc := [], name := str "S", dirs := [], interfaces := [], fields := [],
                        types := [], enumValues := [], pos := Pos.zero, builtIn := false }],
      extensions := [{ kind := .scalar, desc := [], name := str "S",
                       dirs := [{ name := str "d", args := [], pos := Pos.zero }], interfaces := [], fields := [],
                       types := [], enumValues := [], pos := Pos.zero, builtIn := false }] } := by
  refine ⟨by simp, by simp, by simp, by simp, ?_, ?_⟩
  · intro x hx; simp only [List.mem_singleton] at hx; subst hx
    exact ⟨by intro d hd; simp at hd, trivial⟩
  · intro x hx; simp only [List.mem_singleton] at hx; subst hx
    refine ⟨⟨?_, trivial⟩, by simp [ExtendsSomething]⟩
    intro d hd; simp only [List.mem_singleton] at hd; subst hd; intro a ha; simp at ha

/-! ### the parser model: built-in flag and merge -/

/-- `ParseSchema(src)` marks every definition and extension with the source's `BuiltIn` flag -/
theorem C06_builtin_flag (limit src : Nat) (builtIn : Bool) (inp : Bytes) (d : SchemaDoc)
    (h : parseSchemaSrc limit src builtIn inp = .ok d) :
    (∀ x ∈ d.definitions, x.builtIn = builtIn) ∧ (∀ x ∈ d.extensions, x.builtIn = builtIn) := by
  unfold parseSchemaSrc at h
  split at h
  · simp only [Result.ok.injEq] at h
    subst h
    simp only [setBuiltIn, List.mem_map]
    constructor <;> (rintro x ⟨y, _, rfl⟩; rfl)
  · rename_i r hne
    exact absurd h (by intro h'; cases r <;> simp_all)

/-- `ParseSchemas(src₁ … srcₖ)` succeeds only if every source parses, and then each of the five
    lists of the result is the concatenation, in source order, of the corresponding lists of the
    individual documents -/
theorem C06_merge_is_concat (limit : Nat) (srcs : List (Bool × Bytes)) (d : SchemaDoc)
    (h : parseSchemas limit srcs = .ok d) :
    ∃ ds : List SchemaDoc, ParsedFrom limit 0 srcs ds
      ∧ d.schema = ds.flatMap (·.schema) ∧ d.schemaExt = ds.flatMap (·.schemaExt)
      ∧ d.directives = ds.flatMap (·.directives) ∧ d.definitions = ds.flatMap (·.definitions)
      ∧ d.extensions = ds.flatMap (·.extensions) := by
  obtain ⟨ds, hp, rfl⟩ := parseSchemasFrom_ok limit srcs 0 SchemaDoc.empty d h
  obtain ⟨h1, h2, h3, h4, h5⟩ := foldl_merge_fields ds SchemaDoc.empty
  exact ⟨ds, hp, by simpa [SchemaDoc.empty] using h1, by simpa [SchemaDoc.empty] using h2,
    by simpa [SchemaDoc.empty] using h3, by simpa [SchemaDoc.empty] using h4, by simpa [SchemaDoc.empty] using h5⟩

/-! ### the parser is sound: accepted ⇒ derivable, and the tree is faithful

  Theorems about the schema parser model itself (`GqlModel/Parser/Schema.lean`, driver op `ps`).
  For the vocabulary (`Spec`, `Eats`, `tk`, `abs`) see the corresponding section of `Props/C05.lean`.
  Two spellings are not recorded in the tree, so here "faithful" is: the unparse of the tree is
  the canonical output of a derivation of the consumed tokens (descriptions become String tokens,
  empty descriptions and the optional leading `&` / `|` disappear). -/

/-- `Description?`: absent, or a String / BlockString token whose value is the description -/
theorem C06_parse_sound_description :
    Spec parseDescription (fun d a a' => ∃ u, Ate a a' u ∧
      Derives gql (.opt (.nt .description)) (tk u) (printDesc d) ∧
      (a.σ.head.kind ≠ .string → a.σ.head.kind ≠ .blockString → u = [] ∧ d = [])) := spec_parseDescription

/-- `ImplementsInterfaces?` (`OptD n ts out e`: absent exactly when `e`, else a derivation of `n`) -/
theorem C06_parse_sound_implements_interfaces (n : Nat) :
    Spec (parseImplementsInterfaces n) (fun ifs a a' => ∃ u, Ate a a' u ∧
      OptD .implementsInterfaces (tk u) (printImplements ifs) (ifs = [])) := spec_parseImplementsInterfaces n

theorem C06_parse_sound_union_member_types (n : Nat) :
    Spec (parseUnionMemberTypes n) (fun ts a a' => ∃ u, Ate a a' u ∧
      OptD .unionMemberTypes (tk u) (printMembers ts) (ts = [])) := spec_parseUnionMemberTypes n

theorem C06_parse_sound_directive_locations (n : Nat) :
    Spec (parseDirectiveLocations n) (Eats fun ls u =>
      ls ≠ [] ∧ (∀ l ∈ ls, l ∈ Gql.Grammar.directiveLocationNames) ∧
      Derives gql (.nt .directiveLocations) (tk u) (printSep .pipe ls)) := spec_parseDirectiveLocations n

theorem C06_parse_sound_arguments_definition (n : Nat) :
    Spec (parseArgumentDefs n) (Eats fun as u =>
      OptD .argumentsDefinition (tk u) (printArgDefs as) (as = []) ∧ ∀ a ∈ as, WFArgDef a) := spec_parseArgumentDefs n

theorem C06_parse_sound_fields_definition (n : Nat) :
    Spec (parseFieldsDefinition n) (Eats fun fs u =>
      OptD .fieldsDefinition (tk u) (printBlock printFieldDef fs) (fs = []) ∧ ∀ f ∈ fs, WFFieldDef f) :=
  spec_parseFieldsDefinition n

theorem C06_parse_sound_input_fields_definition (n : Nat) :
    Spec (parseInputFieldsDefinition n) (Eats fun fs u =>
      OptD .inputFieldsDefinition (tk u) (printBlock printInputField fs) (fs = []) ∧ ∀ f ∈ fs, WFInputField f) :=
  spec_parseInputFieldsDefinition n

/-- `EnumValuesDefinition?`: derivable provided no value is named `true` / `false` / `null` (the
    parser does not check this, see `C06_parse_enum_literal_counterexample`) -/
theorem C06_parse_sound_enum_values_definition (n : Nat) :
    Spec (parseEnumValuesDefinition n) (Eats fun es u =>
      ((∀ e ∈ es, notLiteralName e.name) → OptD .enumValuesDefinition (tk u) (printBlock printEnumVal es) (es = [])) ∧
      (es = [] → u = []) ∧ ∀ e ∈ es, ConstDirectives e.dirs) := spec_parseEnumValuesDefinition n

/-- `TypeDefinition` after its description: from the tokens `tsD` of the description and the
    tokens consumed by `parseTypeSystemDefinition` one gets a derivation of `TypeDefinition` -/
theorem C06_parse_sound_type_definition (n : Nat) (desc : Bytes) :
    Spec (parseTypeSystemDefinition n desc) (Eats fun d u => d.desc = desc ∧ (EnumOK d → WFDefBody d ∧
      ∀ tsD, Derives gql (.opt (.nt .description)) tsD (printDesc desc) →
        Derives gql (.nt .typeDefinition) (tsD ++ tk u) (printDefinition d))) :=
  (spec_parseTypeSystemDefinition n desc).mono fun _ _ _ _ e => e.mono fun d u ⟨hb, hd⟩ =>
    ⟨hd, fun hen => ⟨wf_of_body hb hen, fun tsD hD => derives_definition hb (hd ▸ hD) hen⟩⟩

/-- everything after `extend`… wait for the keyword: `extend` itself is consumed here too -/
theorem C06_parse_sound_extension (n : Nat) (doc : SchemaDoc) :
    Spec (parseTypeSystemExtension n doc) (Eats fun doc' u => ∃ it, PSItem it u ∧ doc' = doc.add it) :=
  spec_parseTypeSystemExtension n doc

theorem C06_parse_sound_schema_definition (n : Nat) (desc : Bytes) :
    Spec (parseSchemaDefinition n desc) (Eats fun sd u => sd.desc = desc ∧ WFSchemaDef sd ∧
      ∀ tsD, Derives gql (.opt (.nt .description)) tsD (printDesc desc) →
        Derives gql (.nt .schemaDefinition) (tsD ++ tk u) (printSchemaDef sd)) :=
  (spec_parseSchemaDefinition n desc).mono fun _ _ _ _ e => e.mono fun sd u ⟨hd, htk, hwf, _⟩ =>
    ⟨hd, hwf, fun tsD hD => by rw [htk]; exact derives_schemaDef sd hwf (hd ▸ hD)⟩

theorem C06_parse_sound_directive_definition (n : Nat) (desc : Bytes) :
    Spec (parseDirectiveDefinition n desc) (Eats fun dd u => dd.desc = desc ∧ WFDirectiveDef dd ∧
      ∀ tsD, Derives gql (.opt (.nt .description)) tsD (printDesc desc) →
        Derives gql (.nt .directiveDefinition) (tsD ++ tk u) (printDirectiveDef dd)) :=
  (spec_parseDirectiveDefinition n desc).mono fun _ _ _ _ e => e.mono fun dd u ⟨hd, hwf, _, hder⟩ =>
    ⟨hd, hwf, fun _ hD => hder hD⟩

/-- **Soundness of `ParseSchema`.**  If the parser accepts `inp` with a non-empty document `doc`
    none of whose enums has a value named `true`, `false` or `null` (`EnumOK`), then the lexer
    model succeeds on `inp`, the comment-free token sequence `ts` of `inp` is derivable from the
    type-system document grammar, the unparse of `doc` is a canonical form of `ts` (the output of
    a derivation of `ts`, definitions in source order), and `doc` is well-formed. -/
theorem C06_parse_sound (inp : Bytes) (doc : SchemaDoc) (h : parseSchema 0 inp = .ok doc)
    (hne : doc.schema ≠ [] ∨ doc.schemaExt ≠ [] ∨ doc.directives ≠ [] ∨ doc.definitions ≠ [] ∨ doc.extensions ≠ [])
    (henum : (∀ d ∈ doc.definitions, EnumOK d) ∧ (∀ d ∈ doc.extensions, EnumOK d)) :
    ∃ ts, tokensOf inp = some ts ∧ Derivable gql .typeSystemDocument ts ∧
      Derives gql (.nt .typeSystemDocument) ts (printSchema doc) ∧ WFSchema doc := by
  obtain ⟨d0, h0, rfl⟩ := parseSchemaSrc_ok.1 h
  obtain ⟨raw, eof, h1, h2, h3, _, h5, _⟩ := runSchema_sound 0 inp d0 h0
  have hne0 : SchemaDoc.nonEmpty d0 := by
    rw [nonEmpty_iff_docItems, ← docItems_setBuiltIn false]
    exact (nonEmpty_iff_docItems _).1 hne
  have hen0 : DocAll SItem.enumOK d0 :=
    DocAll_setBuiltIn_enum false d0 ⟨fun _ _ => trivial, fun _ _ => trivial, fun _ _ => trivial, henum.1, henum.2⟩
  obtain ⟨d, wf⟩ := h5 hne0 hen0
  rw [← printSchema_setBuiltIn false] at d
  exact ⟨_, tokensOf_of_done h1 h2 h3, ⟨_, d⟩, d, (WFSchema_iff _).2 ⟨hne, DocAll_setBuiltIn_WF false d0 ((WFSchema_iff d0).1 wf).2⟩⟩

/-- … under any token limit -/
theorem C06_parse_sound_limit (L : Nat) (inp : Bytes) (doc : SchemaDoc) (h : parseSchema L inp = .ok doc)
    (hne : doc.schema ≠ [] ∨ doc.schemaExt ≠ [] ∨ doc.directives ≠ [] ∨ doc.definitions ≠ [] ∨ doc.extensions ≠ [])
    (henum : (∀ d ∈ doc.definitions, EnumOK d) ∧ (∀ d ∈ doc.extensions, EnumOK d)) :
    ∃ ts, tokensOf inp = some ts ∧ Derivable gql .typeSystemDocument ts ∧
      Derives gql (.nt .typeSystemDocument) ts (printSchema doc) ∧ WFSchema doc :=
  C06_parse_sound inp doc (parseSchemaSrc_mono (stricter_zero L) 0 false inp doc h) hne henum

/-- an accepted document with an empty tree has no significant token -/
theorem C06_parse_empty_tree (inp : Bytes) (doc : SchemaDoc) (h : parseSchema 0 inp = .ok doc)
    (he : doc.schema = [] ∧ doc.schemaExt = [] ∧ doc.directives = [] ∧ doc.definitions = [] ∧ doc.extensions = []) :
    tokensOf inp = some [] := by
  obtain ⟨d0, h0, rfl⟩ := parseSchemaSrc_ok.1 h
  obtain ⟨raw, eof, h1, h2, h3, _, _, h6⟩ := runSchema_sound 0 inp d0 h0
  have : ¬ SchemaDoc.nonEmpty d0 := by
    rw [nonEmpty_iff_docItems, ← docItems_setBuiltIn false, ← nonEmpty_iff_docItems]
    intro hn
    rcases hn with h | h | h | h | h
    · exact h he.1
    · exact h he.2.1
    · exact h he.2.2.1
    · exact h he.2.2.2.1
    · exact h he.2.2.2.2
  rw [tokensOf_of_done h1 h2 h3, h6 this]; rfl

/-- FINDING: the schema parser accepts the empty document, which the grammar does not derive -/
theorem C06_parse_empty_counterexample :
    parseSchema 0 [] = .ok SchemaDoc.empty ∧ tokensOf [] = some [] ∧ ¬ Derivable gql .typeSystemDocument [] :=
  ⟨rfl, by decide, C06_reject_classes_empty_document⟩

/-- FINDING: the schema parser accepts `enum E{true}` (`parseEnumValueDefinition` takes any Name),
    but `EnumValue : Name but not true, false, null`: no derivation of `EnumValue` has the token
    `true`, and the recogniser rejects the whole token sequence.  (Same for `false` and `null`,
    in definitions and in `extend enum`.) -/
theorem C06_parse_enum_literal_counterexample :
    (parseSchema 0 [101,110,117,109,32,69,123,116,114,117,101,125]).isOk = true ∧
    tokensOf [101,110,117,109,32,69,123,116,114,117,101,125] =
      some [tName (str "enum"), tName (str "E"), tP .braceL, tName (str "true"), tP .braceR] ∧
    isTypeSystem [tName (str "enum"), tName (str "E"), tP .braceL, tName (str "true"), tP .braceR] = false ∧
    ∀ out, ¬ Derives gql (.nt .enumValue) [tName (str "true")] out := by
  refine ⟨by decide, by decide, by decide, fun out h => ?_⟩
  obtain ⟨v, hv, h1, _⟩ := C06_reject_classes_enum_value _ _ h
  simp only [tName, List.cons.injEq, Tok.mk.injEq, true_and, and_true] at hv
  exact h1 hv.symm

/-- non-vacuity of `C06_parse_sound`: `type A implements&B{a:C}` is accepted; the unparse drops the
    leading `&` -/
example : (parseSchema 0 [116,121,112,101,32,65,32,105,109,112,108,101,109,101,110,116,115,38,66,123,97,58,67,125]).isOk = true ∧
    (runSchema 0 0 [116,121,112,101,32,65,32,105,109,112,108,101,109,101,110,116,115,38,66,123,97,58,67,125]).1.definitions.map printDefinition
      = [[tKw "type", tName [65], tKw "implements", tName [66], tP .braceL, tName [97], tP .colon, tName [67], tP .braceR]] :=
  ⟨by decide, by decide⟩

/-! ### the converse on printed trees: parse ∘ print = id (up to positions and the `BuiltIn` flag)

  See the corresponding section of `Props/C05.lean` for `Fwd`, `Starts`, `erasePos`.

  What the tokens carry.  `printSchema` writes a description as ONE token of kind String whose value
  is the description text (nothing for the empty description); the parser reads the value of a
  String or BlockString token as the description.  The forward lemmas are proved for both spellings:
  `printItemK dk` is the unparse with descriptions as tokens of kind `dk`, `DescKind dk` says
  `dk = .string ∨ dk = .blockString`, and `printItemK (fun _ => .string) it = (sItem it).2` is what
  `printSchema` concatenates.

  Side conditions (`ItemOK`, `PrintableSchema`): what the grammar requires (root operation types
  present and named `query`/`mutation`/`subscription`, extensions extend something, directive
  locations valid and present, constants where the grammar says `[Const]`), the unprinted parts are
  what the parser builds (`DefOK`: the lists a kind does not use are empty, object fields have no
  default value, input fields no arguments; `ValueOK` for values; extensions have no description),
  and each of the five lists is in the order of its recorded positions.  Enum values named `true`,
  `false`, `null` are NOT excluded: the parser reads them back. -/

/-- **parse ∘ print** for type-system documents (any source index, any `BuiltIn` flag `b`) -/
theorem C06_parse_print (d : SchemaDoc) (hp : PrintableSchema d) (src : Nat) (b : Bool) (inp : Bytes)
    (htok : tokensOf inp = some (printSchema d)) :
    ∃ d', parseSchemaSrc 0 src b inp = .ok d' ∧ d'.erasePos = (setBuiltIn b d).erasePos :=
  parseSchemaSrc_print d hp src b inp htok

/-- for `ParseSchema` -/
theorem C06_parse_print_schema (d : SchemaDoc) (hp : PrintableSchema d) (inp : Bytes)
    (htok : tokensOf inp = some (printSchema d)) :
    ∃ d', parseSchema 0 inp = .ok d' ∧ d'.erasePos = (setBuiltIn false d).erasePos :=
  parseSchemaSrc_print d hp 0 false inp htok

/-- the same for any sequence of items in any order, each description `d` written as a String or
    BlockString token (`dk d`): every item comes back in its list, in item order -/
theorem C06_parse_print_items {dk : Bytes → Kind} (hdk : ∀ d, DescKind (dk d)) (items : List SItem) (hok : ∀ it ∈ items, ItemOK it)
    (src : Nat) (b : Bool) (inp : Bytes) (htok : tokensOf inp = some (items.flatMap (printItemK dk))) :
    ∃ d', parseSchemaSrc 0 src b inp = .ok d' ∧
      d'.erasePos = (setBuiltIn b (items.foldl SchemaDoc.add SchemaDoc.empty)).erasePos :=
  parseSchemaSrc_items hdk items hok src b inp htok

/-- every tree the schema parser returns is printable (its `BuiltIn` flags are those of the source) … -/
theorem C06_parse_printable (src : Nat) (b : Bool) (inp : Bytes) (d : SchemaDoc) (h : parseSchemaSrc 0 src b inp = .ok d) :
    PrintableSchema d :=
  parseSchemaSrc_printable src b inp d h

/-- … so **parse ∘ print ∘ parse = parse** (up to positions): unparse an accepted schema document,
    write the tokens in any way the lexer reads back, parse again with the same `BuiltIn` flag -/
theorem C06_parse_print_parse (src src' : Nat) (b : Bool) (inp inp' : Bytes) (d : SchemaDoc)
    (h : parseSchemaSrc 0 src b inp = .ok d) (htok : tokensOf inp' = some (printSchema d)) :
    ∃ d', parseSchemaSrc 0 src' b inp' = .ok d' ∧ d'.erasePos = d.erasePos :=
  parseSchemaSrc_print_parse src src' b inp inp' d h htok

/-- the pieces, bottom-up -/
theorem C06_parse_print_description {dk : Bytes → Kind} (hdk : ∀ d, DescKind (dk d)) (d : Bytes) (a : AS) (σ' : Stream)
    (hs : Starts a.σ (printDescK dk d) σ') (hfol : d = [] → NoDesc σ') :
    Fwd parseDescription a (fun x a' => x = d ∧ a'.σ = σ') :=
  fwd_description hdk d a σ' hs hfol

theorem C06_parse_print_implements_interfaces (ifs : List Name) (n : Nat) (a : AS) (σ' : Stream)
    (hs : Starts a.σ (printImplements ifs) σ') (hfol : σ'.head.kind ≠ .amp) (hfol0 : ifs = [] → NoImplements σ') :
    Fwd (parseImplementsInterfaces n) a (fun xs a' => xs = ifs ∧ a'.σ = σ') :=
  fwd_implements ifs n a σ' hs hfol hfol0

theorem C06_parse_print_union_member_types (ts : List Name) (n : Nat) (a : AS) (σ' : Stream)
    (hs : Starts a.σ (printMembers ts) σ') (hfol : σ'.head.kind ≠ .pipe) (hfol0 : ts = [] → σ'.head.kind ≠ .equals) :
    Fwd (parseUnionMemberTypes n) a (fun xs a' => xs = ts ∧ a'.σ = σ') :=
  fwd_unionMembers ts n a σ' hs hfol hfol0

theorem C06_parse_print_directive_locations (ls : List Name) (hne : ls ≠ [])
    (hl : ∀ l ∈ ls, l ∈ Gql.Grammar.directiveLocationNames) (n : Nat) (a : AS) (σ' : Stream)
    (hs : Starts a.σ (printSep .pipe ls) σ') (hfol : σ'.head.kind ≠ .pipe) :
    Fwd (parseDirectiveLocations n) a (fun xs a' => xs = ls ∧ a'.σ = σ') :=
  fwd_directiveLocations ls hne hl n a σ' hs hfol

theorem C06_parse_print_arguments_definition {dk : Bytes → Kind} (hdk : ∀ d, DescKind (dk d)) (xs : List ArgDef) (hok : ∀ x ∈ xs, ArgDefOK x)
    (n : Nat) (a : AS) (σ' : Stream) (hs : Starts a.σ (printArgDefsK dk xs) σ') (habs : xs = [] → σ'.head.kind ≠ .parenL) :
    Fwd (parseArgumentDefs n) a (fun ys a' => ys.map ArgDef.erasePos = xs.map ArgDef.erasePos ∧ a'.σ = σ') :=
  fwd_argDefs hdk xs hok n a σ' hs habs

theorem C06_parse_print_fields_definition {dk : Bytes → Kind} (hdk : ∀ d, DescKind (dk d)) (xs : List FieldDef) (hok : ∀ x ∈ xs, FieldDefOK x)
    (n : Nat) (a : AS) (σ' : Stream) (hs : Starts a.σ (printBlock (printFieldDefK dk) xs) σ')
    (habs : xs = [] → σ'.head.kind ≠ .braceL) :
    Fwd (parseFieldsDefinition n) a (fun ys a' => ys.map FieldDef.erasePos = xs.map FieldDef.erasePos ∧ a'.σ = σ') :=
  fwd_fieldDefs hdk xs hok n a σ' hs habs

theorem C06_parse_print_input_fields_definition {dk : Bytes → Kind} (hdk : ∀ d, DescKind (dk d)) (xs : List FieldDef)
    (hok : ∀ x ∈ xs, InputFieldOK x) (n : Nat) (a : AS) (σ' : Stream)
    (hs : Starts a.σ (printBlock (printInputFieldK dk) xs) σ') (habs : xs = [] → σ'.head.kind ≠ .braceL) :
    Fwd (parseInputFieldsDefinition n) a (fun ys a' => ys.map FieldDef.erasePos = xs.map FieldDef.erasePos ∧ a'.σ = σ') :=
  fwd_inputFields hdk xs hok n a σ' hs habs

theorem C06_parse_print_enum_values_definition {dk : Bytes → Kind} (hdk : ∀ d, DescKind (dk d)) (xs : List EnumValDef)
    (hok : ∀ x ∈ xs, EnumValOK x) (n : Nat) (a : AS) (σ' : Stream)
    (hs : Starts a.σ (printBlock (printEnumValK dk) xs) σ') (habs : xs = [] → σ'.head.kind ≠ .braceL) :
    Fwd (parseEnumValuesDefinition n) a (fun ys a' => ys.map EnumValDef.erasePos = xs.map EnumValDef.erasePos ∧ a'.σ = σ') :=
  fwd_enumVals hdk xs hok n a σ' hs habs

/-- a type definition after its description (`FolItem`: what follows is a description, a keyword
    other than `implements`, or EOF) -/
theorem C06_parse_print_type_definition {dk : Bytes → Kind} (hdk : ∀ d, DescKind (dk d)) (d : Definition) (hok : DefOK d) (n : Nat) (a : AS)
    (σ' : Stream) (hs : Starts a.σ (DefKind.keyword d.kind :: printDefBodyK dk d) σ') (hfol : FolItem σ') :
    Fwd (parseTypeSystemDefinition n d.desc) a
      (fun y a' => y.erasePos = ({ d with builtIn := false } : Definition).erasePos ∧ a'.σ = σ') :=
  fwd_typeSystemDefinition hdk d hok n a σ' hs hfol

/-- `extend …` (schema and type extensions) -/
theorem C06_parse_print_extension {dk : Bytes → Kind} (hdk : ∀ d, DescKind (dk d)) (it : SItem) (hok : ItemOK it)
    (hext : (∃ s, it = .schemaExt s) ∨ (∃ d, it = .extension d)) (n : Nat) (doc : SchemaDoc) (a : AS) (σ' : Stream)
    (hs : Starts a.σ (printItemK dk it) σ') (hfol : FolItem σ') :
    Fwd (parseTypeSystemExtension n doc) a (fun y a' => y.erasePos = doc.erasePos.add it.norm ∧ a'.σ = σ') :=
  fwd_typeSystemExtension hdk it hok hext n doc a σ' hs hfol

theorem C06_parse_print_schema_definition (s : SchemaDef) (hok : SchemaDefOK s) (n : Nat) (a : AS) (σ' : Stream)
    (hs : Starts a.σ (tKw "schema" :: printDirectives s.dirs ++ tP .braceL :: s.opTypes.flatMap printOpType ++ [tP .braceR]) σ') :
    Fwd (parseSchemaDefinition n s.desc) a (fun y a' => y.erasePos = s.erasePos ∧ a'.σ = σ') :=
  fwd_schemaDefinition s hok n a σ' hs

theorem C06_parse_print_directive_definition {dk : Bytes → Kind} (hdk : ∀ d, DescKind (dk d)) (d : DirectiveDef) (hok : DirectiveDefOK d)
    (n : Nat) (a : AS) (σ' : Stream)
    (hs : Starts a.σ (tKw "directive" :: tP .at :: tName d.name :: printArgDefsK dk d.args
      ++ (if d.repeatable then [tKw "repeatable"] else []) ++ tKw "on" :: printSep .pipe d.locations) σ')
    (hfol : σ'.head.kind ≠ .pipe) :
    Fwd (parseDirectiveDefinition n d.desc) a (fun y a' => y.erasePos = d.erasePos ∧ a'.σ = σ') :=
  fwd_directiveDefinition hdk d hok n a σ' hs hfol

/-! ### completeness: the schema parser accepts EXACTLY the type-system grammar

  Derivation-driven counterpart of the soundness section (`GqlProofs/Parser/CompleteSchema.lean`,
  `CompleteSchemaTop.lean`): for every nonterminal of the type-system grammar, a run of its parser
  program on a stream that starts with a token list the grammar derives (with canonical output
  `o`) ends live, consumes exactly those tokens, and the unparse of its result is `o`.  What the
  tokens carry of a description: its value; the kind of the token (String / BlockString) and an
  empty description are not in the tree, and the canonical form (`canonDescription`) drops them
  too.  The theorems are about lexable inputs (`tokensOf inp = some ts`). -/

/-- **Completeness.**  If the comment-free token sequence of `inp` is derivable from the
    type-system document grammar with canonical output `o`, then `ParseSchema` accepts `inp`,
    with a non-empty document whose unparse is `o` and whose enum values have grammar names. -/
theorem C06_parse_complete_canonical (src : Nat) (b : Bool) (inp : Bytes) (ts o : List Tok) (htok : tokensOf inp = some ts)
    (hd : Derives gql (.nt .typeSystemDocument) ts o) :
    ∃ d, parseSchemaSrc 0 src b inp = .ok d ∧ printSchema d = o ∧
      (d.schema ≠ [] ∨ d.schemaExt ≠ [] ∨ d.directives ≠ [] ∨ d.definitions ≠ [] ∨ d.extensions ≠ []) ∧ ((∀ x ∈ d.definitions, EnumOK x) ∧ (∀ x ∈ d.extensions, EnumOK x)) := by
  obtain ⟨d, h1, h2, h3, h4⟩ := parseSchema_complete src b inp ts o htok hd
  exact ⟨d, h1, h2, h3, h4.2.2.2.1, h4.2.2.2.2⟩

theorem C06_parse_complete (inp : Bytes) (ts : List Tok) (htok : tokensOf inp = some ts)
    (hd : Derivable gql .typeSystemDocument ts) :
    ∃ d, parseSchema 0 inp = .ok d ∧
      (d.schema ≠ [] ∨ d.schemaExt ≠ [] ∨ d.directives ≠ [] ∨ d.definitions ≠ [] ∨ d.extensions ≠ []) ∧ ((∀ x ∈ d.definitions, EnumOK x) ∧ (∀ x ∈ d.extensions, EnumOK x)) := by
  obtain ⟨o, hd⟩ := hd
  obtain ⟨d, h1, _, h3, h4⟩ := C06_parse_complete_canonical 0 false inp ts o htok hd
  exact ⟨d, h1, h3, h4⟩

/-- **The schema parser accepts exactly the type-system grammar**, up to its two recorded
    leniencies (the empty document, `C06_parse_empty_counterexample`; enum values named `true`,
    `false`, `null`, `C06_parse_enum_literal_counterexample`): `ParseSchema` returns a non-empty
    document without such enum values iff the lexer succeeds and the comment-free token sequence
    is derivable from the type-system document grammar. -/
theorem C06_accepts_exactly (inp : Bytes) :
    (∃ d, parseSchema 0 inp = .ok d ∧
      (d.schema ≠ [] ∨ d.schemaExt ≠ [] ∨ d.directives ≠ [] ∨ d.definitions ≠ [] ∨ d.extensions ≠ []) ∧ ((∀ x ∈ d.definitions, EnumOK x) ∧ (∀ x ∈ d.extensions, EnumOK x))) ↔
      ∃ ts, tokensOf inp = some ts ∧ Derivable gql .typeSystemDocument ts := by
  constructor
  · rintro ⟨d, h, hne, hen⟩
    obtain ⟨ts, h1, h2, _⟩ := C06_parse_sound inp d h hne hen
    exact ⟨ts, h1, h2⟩
  · rintro ⟨ts, h1, h2⟩
    exact C06_parse_complete inp ts h1 h2

/-- canonical outputs are unique on lexable token sequences -/
theorem C06_canonical_unique (inp : Bytes) (ts o₁ o₂ : List Tok) (htok : tokensOf inp = some ts)
    (h1 : Derives gql (.nt .typeSystemDocument) ts o₁) (h2 : Derives gql (.nt .typeSystemDocument) ts o₂) : o₁ = o₂ := by
  obtain ⟨d1, p1, e1, _⟩ := parseSchema_complete 0 false inp ts o₁ htok h1
  obtain ⟨d2, p2, e2, _⟩ := parseSchema_complete 0 false inp ts o₂ htok h2
  rw [p1] at p2
  cases p2
  rw [← e1, ← e2]

/-- every derivation of the token sequence of an accepted input has the unparse as its output -/
theorem C06_parse_faithful (inp : Bytes) (doc : SchemaDoc) (h : parseSchema 0 inp = .ok doc) (ts o : List Tok)
    (htok : tokensOf inp = some ts) (hd : Derives gql (.nt .typeSystemDocument) ts o) : o = printSchema doc := by
  obtain ⟨d, p, e, _⟩ := parseSchema_complete 0 false inp ts o htok hd
  have : parseSchema 0 inp = .ok d := p
  rw [h] at this
  cases this
  exact e.symm

/-! ### the recogniser decides the type-system grammar -/

theorem C06_recognises_complete (ts : List Tok) (h : Derivable gql .typeSystemDocument ts) : isTypeSystem ts = true :=
  recognises_complete _ ts h

theorem C06_recognises_iff (ts : List Tok) : isTypeSystem ts = true ↔ Derivable gql .typeSystemDocument ts :=
  recognises_iff _ ts

/-- **`C06_parse_sound` with the recogniser's `canonical`**: for an accepted non-empty document
    (with no enum value `true`/`false`/`null`) the recogniser returns a canonical form of the
    token sequence, and it IS the unparse of the tree. -/
theorem C06_parse_sound_canonical (inp : Bytes) (doc : SchemaDoc) (h : parseSchema 0 inp = .ok doc)
    (hne : doc.schema ≠ [] ∨ doc.schemaExt ≠ [] ∨ doc.directives ≠ [] ∨ doc.definitions ≠ [] ∨ doc.extensions ≠ [])
    (henum : ((∀ x ∈ doc.definitions, EnumOK x) ∧ (∀ x ∈ doc.extensions, EnumOK x))) :
    ∃ ts, tokensOf inp = some ts ∧ canonical gql .typeSystemDocument ts = some (printSchema doc) ∧ WFSchema doc := by
  obtain ⟨ts, h1, h2, _, h4⟩ := C06_parse_sound inp doc h hne henum
  obtain ⟨out, ho⟩ := canonical_complete _ ts h2
  exact ⟨ts, h1, by rw [ho, C06_parse_faithful inp doc h ts out h1 (C06_canonical_sound ts out ho)], h4⟩

/-- **the runtime comparison of the check C06, proved**: `ParseSchema` returns a non-empty document
    with grammar-named enum values iff the input lexes and the recogniser accepts its tokens -/
theorem C06_accepts_iff_recognises (inp : Bytes) :
    (∃ d, parseSchema 0 inp = .ok d ∧
      (d.schema ≠ [] ∨ d.schemaExt ≠ [] ∨ d.directives ≠ [] ∨ d.definitions ≠ [] ∨ d.extensions ≠ []) ∧ ((∀ x ∈ d.definitions, EnumOK x) ∧ (∀ x ∈ d.extensions, EnumOK x))) ↔
      ∃ ts, tokensOf inp = some ts ∧ isTypeSystem ts = true := by
  rw [C06_accepts_exactly]
  constructor
  · rintro ⟨ts, h1, h2⟩; exact ⟨ts, h1, C06_recognises_complete ts h2⟩
  · rintro ⟨ts, h1, h2⟩; exact ⟨ts, h1, (C06_recognises_iff ts).1 h2⟩

/-- the pieces (each: derivable token list at the head of the stream ⇒ the program ends live,
    consumes it, and the unparse of the result is the canonical output of the derivation) -/
theorem C06_parse_complete_description (ts o : List Tok) (hd : Derives gql (.opt (.nt .description)) ts o) (a : AS) (σ' : Stream)
    (hs : Starts a.σ ts σ') (hfol : ts = [] → NoDesc σ') :
    Fwd parseDescription a (fun d a' => printDesc d = o ∧ a'.σ = σ') := cpl_description ts o hd a σ' hs hfol

theorem C06_parse_complete_implements_interfaces (n : Nat) (ts o : List Tok) (hok : TsOK ts)
    (hd : Derives gql (.opt (.nt .implementsInterfaces)) ts o) (a : AS) (σ' : Stream) (hs : Starts a.σ ts σ')
    (hfol : σ'.head.kind ≠ .amp) (hfol0 : ts = [] → NoImplements σ') :
    Fwd (parseImplementsInterfaces n) a (fun xs a' => printImplements xs = o ∧ a'.σ = σ') :=
  cpl_implements n ts o hok hd a σ' hs hfol hfol0

theorem C06_parse_complete_union_member_types (n : Nat) (ts o : List Tok) (hok : TsOK ts)
    (hd : Derives gql (.opt (.nt .unionMemberTypes)) ts o) (a : AS) (σ' : Stream) (hs : Starts a.σ ts σ')
    (hfol : σ'.head.kind ≠ .pipe) (hfol0 : ts = [] → σ'.head.kind ≠ .equals) :
    Fwd (parseUnionMemberTypes n) a (fun xs a' => printMembers xs = o ∧ a'.σ = σ') :=
  cpl_unionMembers n ts o hok hd a σ' hs hfol hfol0

theorem C06_parse_complete_directive_locations (n : Nat) (ts o : List Tok) (hok : TsOK ts)
    (hd : Derives gql (.nt .directiveLocations) ts o) (a : AS) (σ' : Stream) (hs : Starts a.σ ts σ')
    (hfol : σ'.head.kind ≠ .pipe) :
    Fwd (parseDirectiveLocations n) a (fun xs a' => printSep .pipe xs = o ∧ a'.σ = σ') :=
  cpl_directiveLocations n ts o hok hd a σ' hs hfol

theorem C06_parse_complete_arguments_definition (n : Nat) (ts o : List Tok) (hok : TsOK ts)
    (hd : Derives gql (.opt (.nt .argumentsDefinition)) ts o) (a : AS) (σ' : Stream) (hs : Starts a.σ ts σ')
    (habs : ts = [] → σ'.head.kind ≠ .parenL) :
    Fwd (parseArgumentDefs n) a (fun ys a' => printArgDefs ys = o ∧ a'.σ = σ') := cpl_argDefs n ts o hok hd a σ' hs habs

theorem C06_parse_complete_fields_definition (n : Nat) (ts o : List Tok) (hok : TsOK ts)
    (hd : Derives gql (.opt (.nt .fieldsDefinition)) ts o) (a : AS) (σ' : Stream) (hs : Starts a.σ ts σ')
    (habs : ts = [] → σ'.head.kind ≠ .braceL) :
    Fwd (parseFieldsDefinition n) a (fun ys a' => printBlock printFieldDef ys = o ∧ a'.σ = σ') :=
  cpl_fieldDefs n ts o hok hd a σ' hs habs

theorem C06_parse_complete_input_fields_definition (n : Nat) (ts o : List Tok) (hok : TsOK ts)
    (hd : Derives gql (.opt (.nt .inputFieldsDefinition)) ts o) (a : AS) (σ' : Stream) (hs : Starts a.σ ts σ')
    (habs : ts = [] → σ'.head.kind ≠ .braceL) :
    Fwd (parseInputFieldsDefinition n) a (fun ys a' => printBlock printInputField ys = o ∧ a'.σ = σ') :=
  cpl_inputFields n ts o hok hd a σ' hs habs

theorem C06_parse_complete_enum_values_definition (n : Nat) (ts o : List Tok) (hok : TsOK ts)
    (hd : Derives gql (.opt (.nt .enumValuesDefinition)) ts o) (a : AS) (σ' : Stream) (hs : Starts a.σ ts σ')
    (habs : ts = [] → σ'.head.kind ≠ .braceL) :
    Fwd (parseEnumValuesDefinition n) a (fun ys a' => printBlock printEnumVal ys = o ∧
      (∀ e ∈ ys, notLiteralName e.name) ∧ a'.σ = σ') := cpl_enumVals n ts o hok hd a σ' hs habs

/-- a type definition after its description: `keyword body` -/
theorem C06_parse_complete_type_definition (n : Nat) (desc : Bytes) (k : DefKind) (tb ob : List Tok) (hok : TsOK tb)
    (hb : BodyD k tb ob) (a : AS) (σ' : Stream) (hs : Starts a.σ (DefKind.keyword k :: tb) σ') (hfol : FolItem σ') :
    Fwd (parseTypeSystemDefinition n desc) a (fun y a' => y.desc = desc ∧ y.kind = k ∧ printDefBody y = ob ∧ EnumOK y ∧
      KeyIn a.σ σ' y.pos.start ∧ a'.σ = σ') := cpl_typeSystemDefinition n desc k tb ob hok hb a σ' hs hfol

/-- the shapes behind `BodyD`: every TypeDefinition / TypeExtension sentence is `Description? keyword body` /
    `extend keyword body` (with a body that extends something) -/
theorem C06_type_definition_shape (ts o : List Tok) (h : Derives gql (.nt .typeDefinition) ts o) : ∃ k, DefShape k ts o :=
  inv_typeDefinition h

theorem C06_type_extension_shape (ts o : List Tok) (h : Derives gql (.nt .typeExtension) ts o) (hok : TsOK ts) :
    ∃ k, ExtShape k ts o := inv_typeExtension h hok

theorem C06_parse_complete_extension (n : Nat) (doc : SchemaDoc) (ts o : List Tok) (hok : TsOK ts)
    (hd : Derives gql (.nt .typeSystemExtension) ts o) (a : AS) (σ' : Stream) (hs : Starts a.σ ts σ') (hfol : FolItem σ') :
    Fwd (parseTypeSystemExtension n doc) a (fun y a' => ∃ it, y = doc.add it ∧ (sItem it).2 = o ∧ it.enumOK ∧
      KeyIn a.σ σ' (sItem it).1 ∧ a'.σ = σ') := cpl_typeSystemExtension n doc ts o hok hd a σ' hs hfol

#print axioms C06_print_in_grammar
#print axioms C06_print_canonical
#print axioms C06_recognise_sound
#print axioms C06_canonical_sound
#print axioms C06_reject_classes_empty_document
#print axioms C06_reject_classes_variable
#print axioms C06_reject_classes_empty_lists
#print axioms C06_reject_classes_extension_of_nothing
#print axioms C06_reject_classes_enum_value
#print axioms C06_reject_classes_operation_type
#print axioms C06_builtin_flag
#print axioms C06_merge_is_concat
#print axioms C06_parse_sound
#print axioms C06_parse_sound_limit
#print axioms C06_parse_sound_description
#print axioms C06_parse_sound_implements_interfaces
#print axioms C06_parse_sound_union_member_types
#print axioms C06_parse_sound_directive_locations
#print axioms C06_parse_sound_arguments_definition
#print axioms C06_parse_sound_fields_definition
#print axioms C06_parse_sound_input_fields_definition
#print axioms C06_parse_sound_enum_values_definition
#print axioms C06_parse_sound_type_definition
#print axioms C06_parse_sound_extension
#print axioms C06_parse_sound_schema_definition
#print axioms C06_parse_sound_directive_definition
#print axioms C06_parse_empty_tree
#print axioms C06_parse_empty_counterexample
#print axioms C06_parse_enum_literal_counterexample
#print axioms C06_parse_print
#print axioms C06_parse_print_schema
#print axioms C06_parse_print_items
#print axioms C06_parse_print_type_definition
#print axioms C06_parse_print_extension
#print axioms C06_parse_print_directive_definition
#print axioms C06_parse_printable
#print axioms C06_parse_print_parse
#print axioms C06_parse_complete_canonical
#print axioms C06_parse_complete
#print axioms C06_accepts_exactly
#print axioms C06_canonical_unique
#print axioms C06_parse_faithful
#print axioms C06_recognises_iff
#print axioms C06_parse_sound_canonical
#print axioms C06_accepts_iff_recognises
#print axioms C06_parse_complete_extension
