import GqlProofs.Lemmas.ErrorsLemmas
import GqlModel.ErrTemplates
/-
  C20 — "Every error returned by parsing, schema loading, validation or variable coercion has a
  non-empty message; validation errors name the rule that produced them and at least one
  location; errors from a named source carry that file name; the JSON encoding has the shape the
  GraphQL response format requires (message, locations with positive line and column, path of
  names and indices); and any error path encodes to JSON and decodes back to the same path."

  Model: `GqlModel/Errors.lean` (/repo/ast/path.go, /repo/gqlerror/error.go), tied to the code by
  check C20 (ops pathrt / pathenc / pathstr / errjson / errstr on every distinct error the
  error-biased generators reach plus a synthetic grid).  The message templates and the
  `addError` call sites are the REGENERATED table `Gen.errSites` / `Gen.addErrorSites`
  (harness/internal/extract/errsites.go); the clauses "non-empty message", "names the rule",
  "≥ 1 location", "carries the file" are judged on the real code by the check for every error
  reached; what is proved here is their static part over the table, plus the encoding clauses.
-/
open Gql Gql.Json Gql.Errors Gql.Gen Gql.ErrTemplates

/- ======================= paths ======================= -/

/-- Any error path whose indices are Go `int`s (int64; `PathIndex` is an `int`, the model's integers
    are unbounded) and whose names are well-formed UTF-8 encodes to JSON and decodes back to the
    same path. -/
theorem C20_path_roundtrip (p : Path)
    (hidx : ∀ i, PathElem.index i ∈ p → -(2 ^ 63 : Int) ≤ i ∧ i < (2 ^ 63 : Int))
    (hname : ∀ n, PathElem.name n ∈ p → sanitize n = n) :
    decPath (encPath p) = .ok p := by
  have h : ∀ e ∈ p, ElemInDomain e := by
    intro e he
    cases e with
    | name n => exact hname n he
    | index i => exact hidx i he
  simp [decPath, encPath, toList_ofList, decElems_enc p h]

/-- in particular the former failing paths (R20b, repaired: "path indices are read back exactly"):
    an index beyond 2^53 and the largest int64 come back unchanged -/
theorem C20_path_roundtrip_big_indices :
    decPath (encPath [.name (str "a"), .index (2 ^ 53 + 1), .index (2 ^ 63 - 1), .index (-(2 ^ 63))])
      = .ok [.name (str "a"), .index (2 ^ 53 + 1), .index (2 ^ 63 - 1), .index (-(2 ^ 63))] := by
  apply C20_path_roundtrip
  · intro i hi
    simp at hi
    rcases hi with h | h | h <;> subst h <;> decide
  · intro n hn
    simp at hn
    subst hn
    decide

/-- history (before the repair every index went through a float64): beyond 2^53 it came back
    different, and the largest int64 did not even stay positive (amd64 `int(float64)` of 2^63) -/
theorem C20_path_roundtrip_through_float_counterexample :
    indexThroughFloat 9007199254740993 = 9007199254740992 ∧ indexThroughFloat (2 ^ 63 - 1) = -(2 ^ 63) := by
  constructor <;> decide

/-- `Path.String()` of `variable.a[0].b` -/
example : Path.render [.name (str "variable"), .name (str "a"), .index 0, .name (str "b")] = str "variable.a[0].b" := by
  decide

/- ======================= JSON shape ======================= -/

/-- The encoding of ANY error whose locations are positive is an error object of the GraphQL
    response format: `message` (a string) first; then, each only when non-empty, `path` (an array of
    strings and integers), `locations` (an array of `{"line": l, "column": c}`, both ≥ 1) and
    `extensions` (an object); nothing else. -/
theorem C20_json_shape (e : Error) (hpos : ∀ l ∈ e.locations, 1 ≤ l.line ∧ 1 ≤ l.column) :
    responseShape (encError e) = true := by
  have hp : isArrayOf isPathElemJson (encPath e.path) = true := by
    simp only [encPath, isArrayOf]
    exact all_ofList_map encElem isPathElemJson e.path (fun x _ => isPathElemJson_enc x)
  have hl : isArrayOf isLocationObj (Json.arr (JList.ofList (e.locations.map encLocation))) = true := by
    simp only [isArrayOf]
    exact all_ofList_map encLocation isLocationObj e.locations
      (fun l hl => isLocationObj_enc l (hpos l hl).1 (hpos l hl).2)
  unfold encError
  by_cases h1 : e.path = [] <;> by_cases h2 : e.locations = [] <;> by_cases h3 : e.extensions = [] <;>
    simp (config := {decide := true}) [h1, h2, h3, JFields.ofList, responseShape, takeKey, isObject] <;>
    simp_all

/-- The positivity hypothesis is needed: `omitempty` drops a zero `column`, and the location object
    is then not `{line, column}`. -/
theorem C20_json_shape_zero_column_counterexample :
    responseShape (encError { message := str "m", locations := [⟨3, 0⟩] }) = false ∧
    (encError { message := str "m", locations := [⟨3, 0⟩] }).render
      = str "{\"message\":\"m\",\"locations\":[{\"line\":3}]}" := by
  constructor <;> decide

/-- `omitempty`: an error with nothing but a message encodes as `{"message": …}` -/
example : (encError { message := str "boom" }).render = str "{\"message\":\"boom\"}" := by decide

/- ======================= the file name ======================= -/

/-- An error built by `ErrorLocf` / `ErrorPosf` from a NAMED source carries `extensions.file`,
    exactly one location, and `Error()` starts with the file name and the line. -/
theorem C20_file_carried_locf (file : Bytes) (line col : Int) (msg : Bytes) (h : file ≠ []) :
    extGet kFile (errorLocf file line col msg).extensions = some (.str file) ∧
    (errorLocf file line col msg).locations = [⟨line, col⟩] := by
  simp [errorLocf, h, extGet]

/-- `SetFile` (used by the validator's `At` option) stores the name under `file`, whatever else
    the extensions hold. -/
theorem C20_file_carried_setFile (e : Error) (file : Bytes) (h : file ≠ []) :
    extGet kFile (e.setFile file).extensions = some (.str file) := by
  simp [Error.setFile, h, extGet_extSet]

/-- history (R20a, repaired: "the token limit error carries the file name of its source"): an error built
    with `fmt.Errorf`, as the token-limit error was, and wrapped the way `gqlparser.LoadQuery` wraps it
    (`gqlerror.Wrap`) has no location and no file, and prints as coming from "input". -/
theorem C20_plain_error_without_file_counterexample :
    let e : Error := { message := str "exceeded token limit of 2" }
    e.locations = [] ∧ extGet kFile e.extensions = none ∧
      e.render = str "input: exceeded token limit of 2" := by
  refine ⟨rfl, rfl, ?_⟩
  decide

/- ======================= the regenerated table ======================= -/

/-- F7: every error constructor call of the library (`ErrorLocf`, `ErrorPosf`, `ErrorPathf`,
    `Errorf`, `Message(`, `p.error(`, `makeError(`, `fmt.Errorf`) either has a LITERAL format that
    is non-empty and contains at least one character `fmt.Sprintf` copies verbatim (so the rendered
    message is non-empty whatever the arguments), or is `Message("%s", message)` next to a
    `message := fmt.Sprintf(<such a literal>, …)` in the same declaration, or is one of the three
    forwarders (`ErrorPosf`, `makeError`, `parser.error`) that pass their own `format` on. -/
theorem C20_templates_nonempty : ∀ s ∈ errSites, siteOK s = true := by
  have h : errSites.all siteOK = true := by decide +kernel
  exact fun s hs => List.all_eq_true.mp h s hs

/-- … in particular no literal format is the empty string. -/
theorem C20_templates_literal_nonempty : ∀ s ∈ errSites, s.literal = true → s.format ≠ "" := by
  intro s hs hl
  have h := C20_templates_nonempty s hs
  simp only [siteOK, hl, if_true, Bool.and_eq_true, bne_iff_ne] at h
  exact h.1.1

/-- F7: every `addError(…)` of every validation rule passes an `At(…)` option (its location) and a
    message option (`Message(…)` directly, or the option computed by `unexpectedTypeMessageOnly`,
    all of whose branches are `Message(<literal>, …)`). -/
theorem C20_addError_has_At_and_Message : ∀ a ∈ addErrorSites, addErrorOK a = true := by
  have h : addErrorSites.all addErrorOK = true := by decide +kernel
  exact fun a ha => List.all_eq_true.mp h a ha

theorem C20_addError_has_At : ∀ a ∈ addErrorSites, a.hasAt = true := by
  intro a ha
  have h := C20_addError_has_At_and_Message a ha
  simp only [addErrorOK, Bool.and_eq_true] at h
  exact h.1

/-- non-vacuity of the table -/
example : errSites.length ≥ 100 ∧ addErrorSites.length ≥ 50 := by decide +kernel
