import GqlProofs.Lexer.Pos
import GqlProofs.Lexer.SpecLex
import GqlProofs.Lexer.UniLex
/-
  C04 — every reported position is truthful (lexer part).

  `Spec.posAt / lineOf / colOfOffset` (GqlModel/Lexer/Spec.lean) define line and column of an offset
  by counting line terminators (LF, CR, CRLF once) over the prefix of the source.  The theorem says
  that every token the model's `lexAll` returns carries exactly that line and column for its start
  offset, and an extent inside the source.

  `C04_token_pos_ascii_partial` is the ASCII case, where byte offsets, rune offsets and code-point
  offsets coincide.  `C04_token_pos_utf8` is the full statement: for EVERY well-formed UTF-8 source
  (`Utf8.decode inp = some cps`) start / stop are offsets in CODE POINTS inside the decoded text, line
  and column are `Spec.posAt` on the decoded text (column counts code points, CRLF counts once, the
  BOM is one character).  `C04_tokens_are_spec_tokens_utf8`: the model's token list IS the list of
  the specification's tokens with the specification's positions.
  The `+ 1` for `String` tokens is the recorded known finding `string-column-off-by-one` (pinned by
  the repository's own parser tests): the theorems state the model's — and the code's — actual
  behaviour exactly, they do not hide it.
-/
open Gql Gql.Lexer Gql.Lexer.Spec

/-- what C04 requires of a token of source `inp` -/
def TokenTruthful (inp : Bytes) (t : Token) : Prop :=
  t.start ≤ t.stop ∧ t.stop ≤ inp.length ∧ t.line = lineOf inp t.start ∧
    t.col = colOfOffset inp t.start + (if t.kind = .string then 1 else 0)

theorem foldPos_off (s : PState) (l : List Nat) : (foldPos s l).off = s.off + l.length := by
  induction l generalizing s with
  | nil => simp
  | cons b t ih =>
    simp only [foldPos_cons, ih, List.length_cons]
    unfold posStep
    split
    · split <;> simp <;> omega
    · split <;> simp <;> omega

theorem posAt_prefix (pre rest : Bytes) : posAt (pre ++ rest) pre.length = foldPos PState.init pre := by
  simp [posAt, foldPos]

theorem lexFuel_truthful (inp : Bytes) (hA : Ascii inp) (fuel : Nat) (pre rest : Bytes) (c : Cur)
    (acc : List Token) (hsplit : inp = pre ++ rest) (hinv : Inv (foldPos PState.init pre) c rest)
    (hacc : ∀ t ∈ acc, TokenTruthful inp t) :
    ∀ t ∈ (lexFuel fuel rest c acc).tokens, TokenTruthful inp t := by
  induction fuel generalizing pre rest c acc with
  | zero => simpa [lexFuel, LexOut.tokens] using hacc
  | succ n ih =>
    have hAr : Ascii rest := by rw [hsplit] at hA; exact Ascii_append_right hA
    have hp := readToken_pos rest c _ hAr hinv
    unfold lexFuel
    split
    · simpa [LexOut.tokens] using hacc
    · rename_i t rest' c' heq
      rw [heq] at hp
      obtain ⟨ign, x, e1, e2, e3, e4, e5, e6, e7⟩ := hp
      have hoff : (foldPos (foldPos PState.init pre) ign).off = (pre ++ ign).length := by
        rw [← foldPos_append, foldPos_off]; simp [PState.init]
      have hpos : posAt inp (pre ++ ign).length = foldPos (foldPos PState.init pre) ign := by
        have : inp = (pre ++ ign) ++ (x ++ rest') := by rw [hsplit, e1]; simp
        rw [this, posAt_prefix, foldPos_append]
      have ht : TokenTruthful inp t := by
        refine ⟨e6, ?_, ?_, ?_⟩
        · have : inp.length = pre.length + ign.length + x.length + rest'.length := by
            rw [hsplit, e1]; simp; omega
          rw [hoff] at e7; simp at e7; omega
        · rw [e4, e3, hoff, lineOf, hpos]
        · rw [e5, e3, hoff, colOfOffset, lineStartOf, hpos, colOf]
      have hacc' : ∀ u ∈ t :: acc, TokenTruthful inp u := by
        intro u hu
        simp at hu
        rcases hu with rfl | hu
        · exact ht
        · exact hacc u hu
      split
      · intro u hu
        simp [LexOut.tokens] at hu
        exact hacc' u (by simp; rcases hu with hu | hu <;> simp [hu])
      · exact ih (pre ++ ign ++ x) rest' c' (t :: acc) (by rw [hsplit, e1]; simp)
          (by rw [List.append_assoc, foldPos_append]; exact e2) hacc'

/-- Every token of an ASCII source carries the line and column that the position specification
    computes from the source text for the token's start offset, and its extent lies inside the
    source (String tokens: column + 1, the recorded known finding). -/
theorem C04_token_pos_ascii_partial (inp : Bytes) (hA : Ascii inp) :
    ∀ t ∈ (lexAll inp).tokens, TokenTruthful inp t := by
  have hinit : Inv (foldPos PState.init []) Cur.init inp := by
    refine ⟨⟨rfl, rfl, rfl, rfl⟩, ?_⟩
    simp [PState.init]
  exact lexFuel_truthful inp hA _ [] inp Cur.init [] rfl hinit (by simp)

/-- Corollary for everything except quoted strings: line and column are exactly the specified ones. -/
theorem C04_token_pos_ascii_nonstring (inp : Bytes) (hA : Ascii inp) (t : Token)
    (ht : t ∈ (lexAll inp).tokens) (hk : t.kind ≠ .string) :
    t.line = lineOf inp t.start ∧ t.col = colOfOffset inp t.start := by
  have := C04_token_pos_ascii_partial inp hA t ht
  exact ⟨this.2.2.1, by simpa [hk] using this.2.2.2⟩

-- the hypothesis is satisfiable and the statement is not vacuous
example : Ascii (str "{ a }") := by
  intro b hb
  simp [str] at hb
  omega

/-! ### positions of the specification's tokens -/

/-- the model token the specification prescribes for its token `s` of source `inp`: kind, value,
    extent from the lexical grammar, line and column from the position specification
    (`Spec.toToken`), with the recorded `+ 1` on the column of String tokens -/
def specTokenView (inp : Bytes) (s : STok) : Token :=
  { Spec.toToken inp s with col := colOfOffset inp s.start + (if s.kind = .string then 1 else 0) }

theorem tokens_eq_of_obs (inp : Bytes) : ∀ (ts : List Token) (toks : List STok),
    ts.map obsT = toks.map obsS → (∀ t ∈ ts, TokenTruthful inp t) → ts = toks.map (specTokenView inp) := by
  intro ts
  induction ts with
  | nil => intro toks h _; cases toks with
    | nil => rfl
    | cons s r => simp at h
  | cons t r ih =>
    intro toks h htr
    cases toks with
    | nil => simp at h
    | cons s r' =>
      simp only [List.map_cons, List.cons.injEq] at h ⊢
      obtain ⟨h1, h2⟩ := h
      refine ⟨?_, ih r' h2 (fun u hu => htr u (List.mem_cons_of_mem _ hu))⟩
      obtain ⟨_, _, hl, hcol⟩ := htr t (by simp)
      simp only [obsT, obsS, Prod.mk.injEq] at h1
      obtain ⟨k1, k2, k3, k4⟩ := h1
      cases t with
      | mk kind value start stop line col =>
        simp only at k1 k2 k3 k4 hl hcol
        subst k1 k2 k3 k4
        simp [specTokenView, Spec.toToken, hl, hcol]

/-- Every token of the lexical grammar is reported by the model with exactly the line and column
    of the position specification: for ASCII sources (block strings as in `C03_lex_ascii`) the
    model's token list IS the list of the specification's tokens, each with kind / value / extent
    from `Spec.lex` and line / column from `Spec.lineOf` / `Spec.colOfOffset` (String tokens:
    column + 1, the recorded known finding), followed by the EOF token or the error. -/
theorem C04_tokens_are_spec_tokens_ascii (inp : Bytes) (hA : Ascii inp)
    (hb : BlocksOK (inp.length + 1) inp = true) :
    match Spec.lex inp with
    | .ok toks => ∃ eof, lexAll inp = .done (toks.map (specTokenView inp) ++ [eof]) ∧ eof.kind = .eof
    | .error toks => ∃ e, lexAll inp = .fail (toks.map (specTokenView inp)) e := by
  have h := lexAll_lex inp hA hb
  have htr := C04_token_pos_ascii_partial inp hA
  cases hs : Spec.lex inp with
  | ok toks =>
    rw [hs] at h
    obtain ⟨ts, eof, e1, e2, _, e4⟩ := h
    rw [e1] at htr
    have := tokens_eq_of_obs inp ts toks e4 (fun t ht => htr t (by simp [LexOut.tokens, ht]))
    exact ⟨eof, by rw [e1, this], e2⟩
  | error toks =>
    rw [hs] at h
    obtain ⟨ts, e, e1, e4⟩ := h
    rw [e1] at htr
    have := tokens_eq_of_obs inp ts toks e4 (fun t ht => htr t (by simp [LexOut.tokens, ht]))
    exact ⟨e, by rw [e1, this]⟩

/-! ### every well-formed UTF-8 source -/

/-- Every token of a well-formed UTF-8 source `inp` with code points `cps` carries the line and
    column that the position specification computes on the DECODED text for the token's start offset
    (offsets count code points: a multi-byte character is one column, CRLF is one line terminator,
    the BOM is one character), and its extent lies inside the decoded text (String tokens: column
    + 1, the recorded known finding).  No hypothesis on block strings. -/
theorem C04_token_pos_utf8 (inp : Bytes) (cps : List Nat) (h : Utf8.decode inp = some cps) :
    ∀ t ∈ (lexAll inp).tokens, TokenTruthful cps t := by
  obtain ⟨h1, h2⟩ := Utf8.decode_sound inp cps h
  rw [← h1]
  exact lexAll_truthful_u cps h2

/-- the same on the code points -/
theorem C04_token_pos_scalars (cps : List Nat) (hs : AllScalar cps) :
    ∀ t ∈ (lexAll (utf8Encode cps)).tokens, TokenTruthful cps t :=
  lexAll_truthful_u cps hs

/-- Corollary for everything except quoted strings: line and column are exactly the specified ones. -/
theorem C04_token_pos_utf8_nonstring (inp : Bytes) (cps : List Nat) (h : Utf8.decode inp = some cps)
    (t : Token) (ht : t ∈ (lexAll inp).tokens) (hk : t.kind ≠ .string) :
    t.line = lineOf cps t.start ∧ t.col = colOfOffset cps t.start := by
  have := C04_token_pos_utf8 inp cps h t ht
  exact ⟨this.2.2.1, by simpa [hk] using this.2.2.2⟩

/-- Every token of the lexical grammar is reported by the model with exactly the line and column
    of the position specification: for every well-formed UTF-8 source (block strings as in
    `C03_lex_utf8`) the model's token list IS the list of the specification's tokens of the decoded
    text, each with kind / value / extent from `Spec.lex` and line / column from `Spec.lineOf` /
    `Spec.colOfOffset` (String tokens: column + 1), followed by the EOF token or the error. -/
theorem C04_tokens_are_spec_tokens_utf8 (inp : Bytes) (cps : List Nat) (h : Utf8.decode inp = some cps)
    (hb : BlocksOK (cps.length + 1) cps = true) :
    match Spec.lex cps with
    | .ok toks => ∃ eof, lexAll inp = .done (toks.map (specTokenView cps) ++ [eof]) ∧ eof.kind = .eof
    | .error toks => ∃ e, lexAll inp = .fail (toks.map (specTokenView cps)) e := by
  obtain ⟨h1, h2⟩ := Utf8.decode_sound inp cps h
  have hl := lexAll_lex_u cps h2 hb
  have htr := C04_token_pos_utf8 inp cps h
  rw [h1] at hl
  cases hs : Spec.lex cps with
  | ok toks =>
    rw [hs] at hl
    obtain ⟨ts, eof, e1, e2, _, e4⟩ := hl
    rw [e1] at htr
    have := tokens_eq_of_obs cps ts toks e4 (fun t ht => htr t (by simp [LexOut.tokens, ht]))
    exact ⟨eof, by rw [e1, this], e2⟩
  | error toks =>
    rw [hs] at hl
    obtain ⟨ts, e, e1, e4⟩ := hl
    rw [e1] at htr
    have := tokens_eq_of_obs cps ts toks e4 (fun t ht => htr t (by simp [LexOut.tokens, ht]))
    exact ⟨e, by rw [e1, this]⟩

-- non-vacuity: `é` (two bytes) then a name on the next line after CRLF; the name is at line 2 column 1
example : Utf8.decode [35, 0xC3, 0xA9, 13, 10, 97] = some [35, 0xE9, 13, 10, 97] := by decide
example : lineOf [35, 0xE9, 13, 10, 97] 4 = 2 ∧ colOfOffset [35, 0xE9, 13, 10, 97] 4 = 1 := by decide

#print axioms C04_tokens_are_spec_tokens_ascii
#print axioms C04_token_pos_ascii_partial
#print axioms C04_token_pos_utf8
#print axioms C04_token_pos_scalars
#print axioms C04_token_pos_utf8_nonstring
#print axioms C04_tokens_are_spec_tokens_utf8
