import GqlProofs.Lemmas.ArgMapLemmas
import GqlProofs.Lemmas.VarsFixtures
/-
  C15 — argument resolution is total and ordered literal > variable > default.

  Model: `argumentMap vdefs (some defs) args vars` = `Field.ArgumentMap` / `Directive.ArgumentMap`
  (ast/argmap.go `arg2map`, ast/value.go `Value.Value`), with `vdefs` the variable definitions the
  value nodes are linked to and `defs` the argument definitions of the field / directive.
  Specification: `argValueSpec` / `argSpec` / `argHasValue` (GqlModel/Vars/Spec.lean).

  FULL STATEMENT of C15_total (false of the pinned tree, R15):
      ∀ vdefs defs args vars, ∃ m, argumentMap vdefs (some defs) args vars = .ok m
  for every field / directive of a document that passed validation.  Validation lets a custom
  scalar argument carry ANY literal, and `Value.Value` fails on an Int literal beyond int64 / a
  Float literal beyond float64, which `arg2map` turns into a panic: `C15_total_counterexample`.
  `C15_total` is proved under the hypothesis that the literals convert (`convertsB`).  Repair that
  makes the full statement true: make `Value.Value` total (integer beyond int64 → float64, float
  beyond float64 → ±Inf, no error), or reject such literals in validation (contradicts C08).
-/
open Gql Gql.Fixtures

/-- Under the hypothesis that every literal converts, computing the argument map returns normally. -/
theorem C15_total (vdefs : List VarDef) (defs : List ArgDef) (args : List Argument) (vars : VarMap)
    (hargs : ∀ a ∈ args, convertsB a.value = true)
    (hdefs : ∀ d ∈ defs, ∀ dv, d.default = some dv → convertsB dv = true)
    (hvd : DefaultsConvert vdefs) :
    ∃ m, argumentMap vdefs (some defs) args vars = .ok m := by
  simp only [argumentMap, arg2map]
  exact arg2mapLoop_ok vdefs args vars hargs hvd defs .nil hdefs

/-- R15: `f(c: 99999999999999999999)` with `c: Custom` panics (and so does `1e999`). -/
theorem C15_total_counterexample :
    argumentMap [] (some [argDef "c" (named "Custom")]) [arg "c" (lit .int "99999999999999999999")] .nil
        = .panic (str "strconv.ParseInt: parsing \"99999999999999999999\": value out of range")
    ∧ argumentMap [] (some [argDef "c" (named "Custom")]) [arg "c" (lit .float "1e999")] .nil
        = .panic (str "strconv.ParseFloat: parsing \"1e999\": value out of range") := by
  constructor <;> rfl

/-- The argument map contains exactly the arguments that have a value. -/
theorem C15_exact_keys (vdefs : List VarDef) (defs : List ArgDef) (args : List Argument) (vars m : VarMap)
    (h : argumentMap vdefs (some defs) args vars = .ok m) (k : Bytes) :
    m.contains k = defs.any (fun d => decide (d.name = k) && argHasValue args vars d) := by
  simp only [argumentMap, arg2map] at h
  simpa [GoFields.contains, GoFields.lookup] using arg2mapLoop_keys defs .nil m h k

/-- Every declared argument gets the value the specification prescribes (literal written, else the
    supplied variable's value, else the variable's default, else the argument's default; absent
    when it has none of these).  Hypotheses: argument names are unique; leaves are written as the
    lexer produces them; the variables map passed coercion, i.e. holds every variable that has a
    default (C14_defaults). -/
theorem C15_precedence (vdefs : List VarDef) (defs : List ArgDef) (args : List Argument) (vars m : VarMap)
    (hnodup : (defs.map (·.name)).Nodup)
    (hargs : ∀ a ∈ args, wellLexedB a.value = true)
    (hdefs : ∀ d ∈ defs, ∀ dv, d.default = some dv → wellLexedB dv = true)
    (hsup : DefaultsSupplied vdefs vars)
    (h : argumentMap vdefs (some defs) args vars = .ok m) :
    ∀ d ∈ defs, argValueSpec vdefs args vars d = (m.lookup d.name).map some := by
  simp only [argumentMap, arg2map] at h
  exact arg2mapLoop_spec hsup hargs defs .nil m hnodup hdefs (fun _ _ => rfl) h

/-- Without `DefaultsSupplied` the statement fails: a variable written as the whole argument and
    missing from the map falls through to the ARGUMENT's default, skipping the variable's default
    (harmless after coercion, which enters the variable's default into the map). -/
theorem C15_precedence_counterexample_unsupplied_default :
    let vdefs : List VarDef := [{ var := str "v", type := named "Int", default := some (lit .int "1"), dirs := [], pos := Pos.zero }]
    let defs := [argDef "x" (named "Int") (some (lit .int "2"))]
    let args := [arg "x" (lit .variable "v")]
    argumentMap vdefs (some defs) args .nil = .ok (.cons (str "x") (.int .int64 2) .nil)
    ∧ argValueSpec vdefs args .nil (argDef "x" (named "Int") (some (lit .int "2"))) = some (some (.int .int64 1)) := by
  constructor <;> rfl

/-- FINDING (cross-operation default leak).  `Value.VariableDefinition` of a variable inside a
    fragment is the definition of the LAST operation that spreads the fragment.  Executing
    `query A($v: Int) { ...F }` with no variables while `query B($v: Int = 2) { ...F }` exists,
    `fragment F on Query { f(l: [$v]) }`: the link is B's definition, so the code yields `[2]`, whereas
    the specification with A's definitions (no default) yields `[null]`. -/
theorem C15_precedence_counterexample_linked_default :
    let defB : List VarDef := [{ var := str "v", type := named "Int", default := some (lit .int "2"), dirs := [], pos := Pos.zero }]
    let defA : List VarDef := [{ var := str "v", type := named "Int", default := none, dirs := [], pos := Pos.zero }]
    let defs := [argDef "l" (listOf (named "Int"))]
    let args := [arg "l" (.mk .list [] (.cons [] (lit .variable "v") Pos.zero .nil) Pos.zero)]
    argumentMap defB (some defs) args .nil = .ok (.cons (str "l") (.slice .iface (.cons (.int .int64 2) .nil)) .nil)
    ∧ argSpec defA defs args .nil = some (.cons (str "l") (.slice .iface (.cons .nil .nil)) .nil) := by
  constructor <;> rfl

/- non-vacuity: the hypotheses of C15_total / C15_precedence are satisfiable and the conclusion is
   not the empty map -/
example :
    argumentMap [] (some [argDef "x" (named "Int") (some (lit .int "2")), argDef "y" (named "Int")])
      [arg "y" (lit .variable "v")] (varsV (int 7))
      = .ok (.cons (str "x") (.int .int64 2) (.cons (str "y") (.int .int 7) .nil)) := by rfl
