import GqlProofs.Lemmas.ArgMapLemmas
import GqlProofs.Lemmas.VarsFixtures
import GqlProofs.Lemmas.VarsLemmas
/-
  C15 — argument resolution is total and ordered literal > variable > default.

  Model: `argumentMap vdefs (some defs) args vars` = `Field.ArgumentMap` / `Directive.ArgumentMap`
  (ast/argmap.go `arg2map`, ast/value.go `Value.Value`), with `vdefs` the variable definitions the
  value nodes are linked to and `defs` the argument definitions of the field / directive.
  Specification: `argValueSpec` / `argSpec` / `argHasValue` (GqlModel/Vars/Spec.lean).

  FULL STATEMENT of C15_total:
      ∀ vdefs defs args vars, ∃ m, argumentMap vdefs (some defs) args vars = .ok m
  for every field / directive of a document that passed validation.  It was false of the pinned
  tree (R15: a custom-scalar argument may carry ANY literal, `Value.Value` failed on an Int literal
  beyond int64 / a Float literal beyond float64, and `arg2map` turns the error into a panic).
  REPAIRED: `Value.Value` converts every number literal (integer beyond int64 → the float64 of its
  text, float beyond float64 → ±Inf), so the only hypothesis left is that the leaves are written as
  the lexer writes them (`wellLexedB`: Int `-?[0-9]+`, Float `-?[0-9]+(\.[0-9]+)?([eE][+-]?[0-9]+)?`,
  Boolean `true`/`false`) and that variable defaults are constants — both hold of every parsed
  document.  `C15_total_syntaxOk` is the same statement under the weaker, model-level hypothesis
  that `strconv` finds no SYNTAX error in a leaf; `C15_total_needs_wellLexed` shows that a
  hand-built AST with a malformed leaf (which no parser produces) still panics.
-/
open Gql Gql.Fixtures

/-- Computing the argument map returns normally whenever no Int / Float / Boolean leaf is a syntax
    error for `strconv` (ranges no longer matter). -/
theorem C15_total_syntaxOk (vdefs : List VarDef) (defs : List ArgDef) (args : List Argument) (vars : VarMap)
    (hargs : ∀ a ∈ args, syntaxOkB a.value = true)
    (hdefs : ∀ d ∈ defs, ∀ dv, d.default = some dv → syntaxOkB dv = true)
    (hvd : DefaultsSyntaxOk vdefs) :
    ∃ m, argumentMap vdefs (some defs) args vars = .ok m := by
  simp only [argumentMap, arg2map]
  exact arg2mapLoop_ok vdefs args vars hargs hvd defs .nil hdefs

/-- Computing the argument map returns normally for literals as the lexer writes them — whatever
    their magnitude (no hypothesis on ranges: R15 is repaired). -/
theorem C15_total (vdefs : List VarDef) (defs : List ArgDef) (args : List Argument) (vars : VarMap)
    (hargs : ∀ a ∈ args, wellLexedB a.value = true)
    (hdefs : ∀ d ∈ defs, ∀ dv, d.default = some dv → wellLexedB dv = true)
    (hvd : DefaultsLexed vdefs) :
    ∃ m, argumentMap vdefs (some defs) args vars = .ok m :=
  C15_total_syntaxOk vdefs defs args vars
    (fun a ha => wellLexed_syntaxOk _ (hargs a ha))
    (fun d hd dv hdv => wellLexed_syntaxOk _ (hdefs d hd dv hdv))
    (defaultsLexed_syntaxOk hvd)

/-- R15 repaired (former witness): `f(c: 99999999999999999999)` with `c: Custom` yields the map
    `{c: float64("99999999999999999999")}` = `{c: 1e20}`. -/
theorem C15_total_R15_int_returns :
    argumentMap [] (some [argDef "c" (named "Custom")]) [arg "c" (lit .int "99999999999999999999")] .nil
        = .ok (.cons (str "c") (.float false (str "99999999999999999999")) .nil)
    ∧ argSpec [] [argDef "c" (named "Custom")] [arg "c" (lit .int "99999999999999999999")] .nil
        = some (.cons (str "c") (.float false (str "99999999999999999999")) .nil) := by
  constructor <;> rfl

/-- R15 repaired (former witness): `f(c: 1e999)` yields `{c: float64("1e999")}` = `{c: +Inf}`. -/
theorem C15_total_R15_float_returns :
    argumentMap [] (some [argDef "c" (named "Custom")]) [arg "c" (lit .float "1e999")] .nil
        = .ok (.cons (str "c") (.float false (str "1e999")) .nil)
    ∧ argSpec [] [argDef "c" (named "Custom")] [arg "c" (lit .float "1e999")] .nil
        = some (.cons (str "c") (.float false (str "1e999")) .nil) := by
  constructor <;> rfl

/-- The remaining hypothesis is needed: a hand-built `IntValue` node with the text `1x` (no lexer
    produces it) still makes `arg2map` panic. -/
theorem C15_total_needs_wellLexed :
    argumentMap [] (some [argDef "c" (named "Custom")]) [arg "c" (lit .int "1x")] .nil
        = .panic (str "strconv.ParseInt: parsing \"1x\": invalid syntax") := by
  rfl

/-- The argument map contains exactly the arguments that have a value. -/
theorem C15_exact_keys (vdefs : List VarDef) (defs : List ArgDef) (args : List Argument) (vars m : VarMap)
    (h : argumentMap vdefs (some defs) args vars = .ok m) (k : Bytes) :
    m.contains k = defs.any (fun d => decide (d.name = k) && argHasValue args vars d) := by
  simp only [argumentMap, arg2map] at h
  simpa [GoFields.contains, GoFields.lookup] using arg2mapLoop_keys defs .nil m h k

/-- Every declared argument gets the value the specification prescribes (literal written, else the
    supplied variable's value, else the variable's default, else the argument's default; absent
    when it has none of these).  Hypotheses: argument names are unique; leaves are written as the
    lexer produces them; the variables map passed coercion, i.e. holds every variable that has a
    default (C14_defaults). -/
theorem C15_precedence (vdefs : List VarDef) (defs : List ArgDef) (args : List Argument) (vars m : VarMap)
    (hnodup : (defs.map (·.name)).Nodup)
    (hargs : ∀ a ∈ args, wellLexedB a.value = true)
    (hdefs : ∀ d ∈ defs, ∀ dv, d.default = some dv → wellLexedB dv = true)
    (hsup : DefaultsSupplied vdefs vars)
    (h : argumentMap vdefs (some defs) args vars = .ok m) :
    ∀ d ∈ defs, argValueSpec vdefs args vars d = (m.lookup d.name).map some := by
  simp only [argumentMap, arg2map] at h
  exact arg2mapLoop_spec hsup hargs defs .nil m hnodup hdefs (fun _ _ => rfl) h

/-- C15 for the operation being EXECUTED: `linked` are the variable definitions the value nodes
    are linked to, `opDefs` the variable definitions of the operation whose coerced variables are
    passed.  With the EXPLICIT hypothesis `LinksAgree linked opDefs` (true in every single-operation
    document, and whenever no other operation spreading the same fragment declares a variable of
    the same name with a different default) every declared argument gets the value the
    specification prescribes for the executed operation. -/
theorem C15_precedence_linked (linked opDefs : List VarDef) (defs : List ArgDef) (args : List Argument) (vars m : VarMap)
    (hlinks : LinksAgree linked opDefs)
    (hnodup : (defs.map (·.name)).Nodup)
    (hargs : ∀ a ∈ args, wellLexedB a.value = true)
    (hdefs : ∀ d ∈ defs, ∀ dv, d.default = some dv → wellLexedB dv = true)
    (hsup : DefaultsSupplied opDefs vars)
    (h : argumentMap linked (some defs) args vars = .ok m) :
    ∀ d ∈ defs, argValueSpec opDefs args vars d = (m.lookup d.name).map some := by
  have hsup' : DefaultsSupplied linked vars := by
    intro n d hf hd
    have hl := hlinks n
    rw [hf] at hl
    cases hd' : d.default with
    | none => simp [hd'] at hd
    | some dv =>
      simp only [Option.bind, hd'] at hl
      cases ho : findVarDef opDefs n with
      | none => simp [ho] at hl
      | some d2 =>
        simp only [ho] at hl
        exact hsup n d2 ho (by rw [← hl]; rfl)
  intro d hd
  have := C15_precedence linked defs args vars m hnodup hargs hdefs hsup' h d hd
  rw [← this]
  simp only [argValueSpec, varDefaultSpec_congr hlinks]


/-- C15 for exactly the maps the property speaks of — "every variables map that passed coercion":
    `vars` IS what `VariableValues` returned for the executed operation (`coerce s op supplied = ok vars`).
    The hypothesis `DefaultsSupplied` of `C15_precedence` is then a consequence (every declared variable
    with a default has an entry, holding its COERCED default when the variable was omitted:
    `C14_defaults`), so nothing is assumed about the map beyond its origin. -/
theorem C15_precedence_coerced (s : Schema) (op : OperationDef) (supplied vars : VarMap)
    (defs : List ArgDef) (args : List Argument) (m : VarMap)
    (hco : coerce s op supplied = .ok vars)
    (hnodup : (defs.map (·.name)).Nodup)
    (hargs : ∀ a ∈ args, wellLexedB a.value = true)
    (hdefs : ∀ d ∈ defs, ∀ dv, d.default = some dv → wellLexedB dv = true)
    (h : argumentMap op.vars (some defs) args vars = .ok m) :
    ∀ d ∈ defs, argValueSpec op.vars args vars d = (m.lookup d.name).map some := by
  have hsup : DefaultsSupplied op.vars vars := by
    intro n d hf hd
    have hmem : d ∈ op.vars := findVarDef_mem hf
    have hn : d.var = n := by
      have := List.find?_some hf
      simpa using this
    rw [← hn]
    exact coerceLoop_defaults op.vars .nil vars hco d hmem hd
  exact C15_precedence op.vars defs args vars m hnodup hargs hdefs hsup h

/-- … and for a fragment whose variable nodes are linked to another operation's definitions -/
theorem C15_precedence_linked_coerced (s : Schema) (op : OperationDef) (linked : List VarDef) (supplied vars : VarMap)
    (defs : List ArgDef) (args : List Argument) (m : VarMap)
    (hco : coerce s op supplied = .ok vars)
    (hlinks : LinksAgree linked op.vars)
    (hnodup : (defs.map (·.name)).Nodup)
    (hargs : ∀ a ∈ args, wellLexedB a.value = true)
    (hdefs : ∀ d ∈ defs, ∀ dv, d.default = some dv → wellLexedB dv = true)
    (h : argumentMap linked (some defs) args vars = .ok m) :
    ∀ d ∈ defs, argValueSpec op.vars args vars d = (m.lookup d.name).map some := by
  have hsup : DefaultsSupplied op.vars vars := by
    intro n d hf hd
    have hmem : d ∈ op.vars := findVarDef_mem hf
    have hn : d.var = n := by
      have := List.find?_some hf
      simpa using this
    rw [← hn]
    exact coerceLoop_defaults op.vars .nil vars hco d hmem hd
  exact C15_precedence_linked linked op.vars defs args vars m hlinks hnodup hargs hdefs hsup h

/- non-vacuity of `C15_precedence_coerced`, on the case a seeded change broke (C15-d1): the omitted
   variable `$v: [Int] = 5` arrives in the coerced map as a LIST, and that list is what the argument gets -/
example : ∃ m am t xs, coerce schema (opWith (listOf (named "Int")) (some (lit .int "5"))) .nil = .ok m ∧
    argumentMap (opWith (listOf (named "Int")) (some (lit .int "5"))).vars (some [argDef "l" (listOf (named "Int"))])
      [arg "l" (lit .variable "v")] m = .ok am ∧ am.lookup (str "l") = m.lookup (str "v")
      ∧ m.lookup (str "v") = some (.slice t xs) :=
  ⟨_, _, _, _, by rfl, by rfl, by rfl, by rfl⟩

/-- Without `DefaultsSupplied` the statement fails: a variable written as the whole argument and
    missing from the map falls through to the ARGUMENT's default, skipping the variable's default
    (harmless after coercion, which enters the variable's default into the map). -/
theorem C15_precedence_counterexample_unsupplied_default :
    let vdefs : List VarDef := [{ var := str "v", type := named "Int", default := some (lit .int "1"), dirs := [], pos := Pos.zero }]
    let defs := [argDef "x" (named "Int") (some (lit .int "2"))]
    let args := [arg "x" (lit .variable "v")]
    argumentMap vdefs (some defs) args .nil = .ok (.cons (str "x") (.int .int64 2) .nil)
    ∧ argValueSpec vdefs args .nil (argDef "x" (named "Int") (some (lit .int "2"))) = some (some (.int .int64 1)) := by
  constructor <;> rfl

/-- KNOWN FINDING, not repaired (cross-operation default leak; a repair needs an operation
    parameter on `ArgumentMap`).  The hypothesis `LinksAgree` of `C15_precedence_linked` is needed.  `Value.VariableDefinition` of a variable inside a
    fragment is the definition of the LAST operation that spreads the fragment.  Executing
    `query A($v: Int) { ...F }` with no variables while `query B($v: Int = 2) { ...F }` exists,
    `fragment F on Query { f(l: [$v]) }`: the link is B's definition, so the code yields `[2]`, whereas
    the specification with A's definitions (no default) yields `[null]`. -/
theorem C15_precedence_counterexample_linked_default :
    let defB : List VarDef := [{ var := str "v", type := named "Int", default := some (lit .int "2"), dirs := [], pos := Pos.zero }]
    let defA : List VarDef := [{ var := str "v", type := named "Int", default := none, dirs := [], pos := Pos.zero }]
    let defs := [argDef "l" (listOf (named "Int"))]
    let args := [arg "l" (.mk .list [] (.cons [] (lit .variable "v") Pos.zero .nil) Pos.zero)]
    argumentMap defB (some defs) args .nil = .ok (.cons (str "l") (.slice .iface (.cons (.int .int64 2) .nil)) .nil)
    ∧ argSpec defA defs args .nil = some (.cons (str "l") (.slice .iface (.cons .nil .nil)) .nil)
    ∧ ¬ LinksAgree defB defA := by
  refine ⟨by rfl, by rfl, ?_⟩
  intro h
  have := h (str "v")
  simp [findVarDef, Option.bind] at this

/- non-vacuity: the hypotheses of C15_total / C15_precedence are satisfiable and the conclusion is
   not the empty map -/
example :
    argumentMap [] (some [argDef "x" (named "Int") (some (lit .int "2")), argDef "y" (named "Int")])
      [arg "y" (lit .variable "v")] (varsV (int 7))
      = .ok (.cons (str "x") (.int .int64 2) (.cons (str "y") (.int .int 7) .nil)) := by rfl
