import GqlProofs.Lemmas.VarsLemmas
import GqlProofs.Lemmas.ConformsLemmas
import GqlProofs.Lemmas.VarsFixtures
import GqlProofs.Lemmas.VarsFuel
/-
  C14 — variable coercion is total and type-conforming.

  Model: `coerce s op vars` = `validator.VariableValues(schema, op, variables)` (validator/vars.go),
  outcomes `ok m | err msg path | panic msg | outOfFuel`.  Specification: `Conforms`, `Coercible`
  (GqlModel/Vars/Spec.lean; built-in scalars are judged by the COMPATIBLE KIND TABLE (C14) written
  there), and `ConformsExceptTypename` / `CoercibleExceptTypename`, which grant the one exception
  the implementation still needs (known finding R14c: the undeclared key `__typename` is tolerated
  in input objects and handed on).

  Hypotheses used below, all of them facts about loaded schemas / Go values, none about the
  variables supplied:
    InputsClosed s       every input-object field has an input type that exists (C07)
    InputFieldsNodup s   the fields of an input object have different names (C07)
    EnumNamesPlain s     enum value names are Names (they do not start with `<`)
    wfFieldsB true vars  the REPRESENTATION INVARIANT of `GoVal`: the nil interface occurs only in
                         `interface{}`-typed containers, map keys are pairwise different.  Typed
                         slices and typed maps of every element type are inside it.

  History of the statements (all repaired in the tree, the model follows):
    R14a  a null list item meeting a list type panicked         → `C14_total_R14a_*`
    R14d  a coerced list item was discarded                      → `C14_conforms_R14d_*`
    typed maps: `SetMapIndex` panicked when a coerced field was not assignable to the element type
          of a typed map; now the map is copied                  → `C14_total_typedMap_returns`
    R14b  enum values were matched with `strings.EqualFold`      → `C14_rejects_enum_other_case`
  Still open (known finding): R14c                               → `C14_conforms_counterexample_typename`
-/
open Gql Gql.Fixtures

/-- Coercion returns normally — values or an error, never a panic — for every operation over a
    schema whose input types are closed and EVERY variables map of the domain (nil, bool, ints,
    floats, json.Number, strings, slices and maps of any element type, arbitrarily nested).
    `hwf` is the representation invariant of `GoVal`, not a restriction on the Go values. -/
theorem C14_total (s : Schema) (op : OperationDef) (vars : VarMap)
    (hclosed : InputsClosed s)
    (hop : ∀ v ∈ op.vars, ∃ d, s.type? v.type.name = some d)
    (hwf : wfFieldsB true vars = true) :
    ∀ msg, coerce s op vars ≠ .panic msg := by
  intro msg h
  have := coerceLoop_noPanic s op vars hclosed hwf op.vars .nil hop
  unfold coerce at h
  simp [h, NoPanic] at this

/-- … and the fuel of the model is an artefact without consequence: coercion RETURNS — values or
    an error (`outOfFuel` is never the outcome: `fuelFor` suffices). -/
theorem C14_total_returns (s : Schema) (op : OperationDef) (vars : VarMap)
    (hclosed : InputsClosed s) (hfn : InputFieldsNodup s)
    (hop : ∀ v ∈ op.vars, ∃ d, s.type? v.type.name = some d)
    (hwf : wfFieldsB true vars = true) :
    (∃ m, coerce s op vars = .ok m) ∨ (∃ msg path alts, coerce s op vars = .err msg path alts) := by
  have h1 := C14_total s op vars hclosed hop hwf
  have h2 := coerceLoop_fuel s hfn op vars op.vars .nil (fun _ h => h)
  unfold coerce at h1 h2 ⊢
  cases h : coerceLoop s op vars op.vars .nil with
  | ok m => exact Or.inl ⟨m, rfl⟩
  | err msg path alts => exact Or.inr ⟨msg, path, alts, rfl⟩
  | panic msg => exact absurd h (h1 msg)
  | outOfFuel => simp [h, NotFuel] at h2

/-- former witness of the typed-map panic: `$v: In` with `map[string]int{"l": 1}` (the coerced list
    `[[1]]` is not assignable to `int`) now returns a copy of the object as
    `map[string]interface{}{"l": []interface{}{[]int{1}}}`, which conforms. -/
theorem C14_total_typedMap_returns :
    coerce schema (opWith (named "In")) (varsV (.map (.int .int) (.cons (str "l") (int 1) .nil)))
        = .ok (varsV (imap [(str "l", islice [.slice (.int .int) (.cons (int 1) .nil)])]))
    ∧ Conforms schema (named "In") (imap [(str "l", islice [.slice (.int .int) (.cons (int 1) .nil)])]) := by
  refine ⟨by rfl, by decide⟩

/-- a typed map whose entries all fit is returned as it is (no copy): `map[string]int{"a": 1}`. -/
theorem C14_total_typedMap_kept :
    coerce schema (opWith (named "In")) (varsV (.map (.int .int) (.cons (str "a") (int 1) .nil)))
        = .ok (varsV (.map (.int .int) (.cons (str "a") (int 1) .nil))) := by
  rfl

/-- former R14a witness: `query($v: [[Int]])` with `{"v": [null]}` returns `{"v": [null]}`. -/
theorem C14_total_R14a_returns :
    coerce schema (opWith (listOf (listOf (named "Int")))) (varsV (islice [.nil])) = .ok (varsV (islice [.nil])) := by
  rfl

/-- former R14a witness without any variable supplied: `query($v: [[Int]] = [null])` and the empty
    map returns the default `{"v": [null]}`. -/
theorem C14_total_R14a_default_returns :
    coerce schema
      (opWith (listOf (listOf (named "Int"))) (some (.mk .list [] (.cons [] (lit .null "null") Pos.zero .nil) Pos.zero))) .nil
      = .ok (varsV (islice [.nil])) := by
  rfl

/-- former R14a witness inside an input object: `query($v: In)` with `{"v": {"l": [[1, null], null]}}`
    returns the map unchanged. -/
theorem C14_total_R14a_field_returns :
    coerce schema (opWith (named "In"))
      (varsV (imap [(str "l", islice [islice [int 1, .nil], .nil])]))
      = .ok (varsV (imap [(str "l", islice [islice [int 1, .nil], .nil])])) := by
  rfl

/-- a null list item at a NON-NULL list element type is an error, not a panic -/
theorem C14_total_R14a_nonnull_errors :
    coerce schema (opWith (listOf (listOf (named "Int") true))) (varsV (islice [.nil]))
      = .err (str "cannot be null") [.name (str "variable"), .name (str "v"), .idx 0] [] := by
  rfl

/-- Absent variables take their defaults (1): every declared variable that has a default has an
    entry in the result — the hypothesis `DefaultsSupplied` of C15_precedence. -/
theorem C14_defaults_supplied (s : Schema) (op : OperationDef) (vars m : VarMap)
    (h : coerce s op vars = .ok m) : DefaultsSupplied op.vars m := by
  intro n d hf hd
  have hmem : d ∈ op.vars := findVarDef_mem hf
  have hn : d.var = n := by
    have := List.find?_some hf
    simpa using this
  rw [← hn]
  exact coerceLoop_defaults op.vars .nil m h d hmem hd

/-- Absent variables take their defaults (2): with unique variable names, the entry of an absent
    variable is exactly what coercing its converted default value `x` stores. -/
theorem C14_defaults (s : Schema) (op : OperationDef) (vars m : VarMap)
    (hnodup : (op.vars.map (·.var)).Nodup)
    (h : coerce s op vars = .ok m)
    (v : VarDef) (hv : v ∈ op.vars) (habsent : vars.lookup v.var = none)
    (dv : Value) (x : GoVal) (hdv : v.default = some dv) (hx : valueValueConst dv = .ok x) :
    ∃ acc c, coerceSupplied s op v acc x = .ok c ∧ m.lookup v.var = c.lookup v.var := by
  obtain ⟨acc, c, h1, h2, _⟩ := coerceLoop_entry op.vars .nil m hnodup h v hv
  have hs : suppliedValue vars v = .ok (some x) := by simp [suppliedValue, habsent, hdv, hx]
  rcases coerceVar_shape h1 with ⟨_, e⟩ | ⟨x', y, e1, e2, _⟩
  · rw [hs] at e; simp at e
  · rw [hs] at e1; cases e1
    exact ⟨acc, c, e2, h2⟩

/-- When coercion returns values, the value of EVERY declared variable — scalar, enum, input
    object (recursive ones included), under any list nesting — conforms to its declared type:
    non-null positions never hold null, lists hold conforming items (nesting exact), input objects
    contain only declared fields (EXCEPT the key `__typename`, R14c) with every required field
    present, enums hold declared values, built-in scalars hold a value of a compatible kind. -/
theorem C14_conforms (s : Schema) (op : OperationDef) (vars m : VarMap)
    (hclosed : InputsClosed s) (hfn : InputFieldsNodup s) (hplain : EnumNamesPlain s)
    (hnodup : (op.vars.map (·.var)).Nodup)
    (hwf : wfFieldsB true vars = true)
    (h : coerce s op vars = .ok m) :
    ∀ v ∈ op.vars, ∀ y, m.lookup v.var = some y → ConformsExceptTypename s v.type y := by
  intro v hv y hy
  obtain ⟨acc, c, h1, h2, h3⟩ := coerceLoop_entry op.vars .nil m hnodup h v hv
  have hty := coerceVar_inputType h1
  rcases coerceVar_shape h1 with ⟨e, _⟩ | ⟨x, y', e1, e2, _⟩
  · rw [h2, e, h3] at hy; simp [GoFields.lookup] at hy
  · obtain ⟨⟨y'', e3, hc⟩, _⟩ := coerceSupplied_conforms s hclosed hfn hplain op v acc c x hty (suppliedValue_wf hwf e1) e2
    rw [h2, e3, GoFields.lookup_set] at hy
    simp at hy; subst hy; exact hc

/-- "Only declared fields", with the hypothesis made explicit: a returned value in which no object
    has the key `__typename` conforms WITHOUT any exception. -/
theorem C14_conforms_declared_only (s : Schema) (op : OperationDef) (vars m : VarMap)
    (hclosed : InputsClosed s) (hfn : InputFieldsNodup s) (hplain : EnumNamesPlain s)
    (hnodup : (op.vars.map (·.var)).Nodup)
    (hwf : wfFieldsB true vars = true)
    (h : coerce s op vars = .ok m) :
    ∀ v ∈ op.vars, ∀ y, m.lookup v.var = some y → noTypenameB y = true → Conforms s v.type y := by
  intro v hv y hy hno
  exact conforms_dropT s false v.type y hno (C14_conforms s op vars m hclosed hfn hplain hnodup hwf h v hv y hy)

/-- The key `__typename` is only handed on, never invented: when no object inside what is supplied
    for a variable (its entry in the variables map, else its converted default value) has that
    key, the value returned for the variable conforms WITHOUT any exception. -/
theorem C14_conforms_no_typename_supplied (s : Schema) (op : OperationDef) (vars m : VarMap)
    (hclosed : InputsClosed s) (hfn : InputFieldsNodup s) (hplain : EnumNamesPlain s)
    (hnodup : (op.vars.map (·.var)).Nodup)
    (hwf : wfFieldsB true vars = true)
    (h : coerce s op vars = .ok m)
    (v : VarDef) (hv : v ∈ op.vars)
    (hsup : ∀ x, suppliedValue vars v = .ok (some x) → noTypenameB x = true) :
    ∀ y, m.lookup v.var = some y → Conforms s v.type y := by
  intro y hy
  apply C14_conforms_declared_only s op vars m hclosed hfn hplain hnodup hwf h v hv y hy
  obtain ⟨acc, c, h1, h2, h3⟩ := coerceLoop_entry op.vars .nil m hnodup h v hv
  rcases coerceVar_shape h1 with ⟨e, _⟩ | ⟨x, y', e1, e2, _⟩
  · rw [h2, e, h3] at hy; simp [GoFields.lookup] at hy
  · obtain ⟨y'', e3, hn⟩ := coerceSupplied_noTypename (hsup x e1) e2
    rw [h2, e3, GoFields.lookup_set] at hy
    simp at hy; subst hy; exact hn

/-- R14c (known finding, not repaired): the undeclared key `__typename` is accepted and handed on;
    the returned value is not `Conforms`, only `ConformsExceptTypename`. -/
theorem C14_conforms_counterexample_typename :
    coerce schema (opWith (named "In")) (varsV (imap [(str "a", int 1), (str "__typename", .str (str "In"))]))
        = .ok (varsV (imap [(str "a", int 1), (str "__typename", .str (str "In"))]))
    ∧ ¬ Conforms schema (named "In") (imap [(str "a", int 1), (str "__typename", .str (str "In"))])
    ∧ ¬ Coercible schema (named "In") (imap [(str "a", int 1), (str "__typename", .str (str "In"))])
    ∧ ConformsExceptTypename schema (named "In") (imap [(str "a", int 1), (str "__typename", .str (str "In"))]) := by
  refine ⟨by rfl, by decide, by decide, by decide⟩

/-- any OTHER undeclared key is an error -/
theorem C14_rejects_undeclared_key :
    coerce schema (opWith (named "In")) (varsV (imap [(str "a", int 1), (str "zzz", int 2)]))
        = .err (str "unknown field") [.name (str "variable"), .name (str "v"), .name (str "zzz")] [] := by
  rfl

/-- Coercion returns an error rather than values whenever a supplied value cannot conform (up to
    the `__typename` exception): every variable type, every nesting. -/
theorem C14_rejects (s : Schema) (op : OperationDef) (vars : VarMap)
    (hclosed : InputsClosed s) (hfn : InputFieldsNodup s) (hplain : EnumNamesPlain s)
    (hnodup : (op.vars.map (·.var)).Nodup)
    (hwf : wfFieldsB true vars = true)
    (v : VarDef) (hv : v ∈ op.vars)
    (x : GoVal) (hx : vars.lookup v.var = some x) (hbad : ¬ CoercibleExceptTypename s v.type x) :
    ∀ m, coerce s op vars ≠ .ok m := by
  intro m h
  obtain ⟨acc, c, h1, _, _⟩ := coerceLoop_entry op.vars .nil m hnodup h v hv
  have hty := coerceVar_inputType h1
  have hs : suppliedValue vars v = .ok (some x) := by simp [suppliedValue, hx]
  rcases coerceVar_shape h1 with ⟨_, e⟩ | ⟨x', y', e1, e2, _⟩
  · rw [hs] at e; simp at e
  · rw [hs] at e1; cases e1
    exact hbad (coerceSupplied_conforms s hclosed hfn hplain op v acc c x hty (suppliedValue_wf hwf hs) e2).2

/-- … and without the exception when no object of the supplied value has the key `__typename`. -/
theorem C14_rejects_declared_only (s : Schema) (op : OperationDef) (vars : VarMap)
    (hclosed : InputsClosed s) (hfn : InputFieldsNodup s) (hplain : EnumNamesPlain s)
    (hnodup : (op.vars.map (·.var)).Nodup)
    (hwf : wfFieldsB true vars = true)
    (v : VarDef) (hv : v ∈ op.vars)
    (x : GoVal) (hx : vars.lookup v.var = some x) (hno : noTypenameB x = true) (hbad : ¬ Coercible s v.type x) :
    ∀ m, coerce s op vars ≠ .ok m :=
  C14_rejects s op vars hclosed hfn hplain hnodup hwf v hv x hx
    (fun hc => hbad (conforms_dropT s true v.type x hno hc))

/-- R14b repaired (former witness): `$v: Color` with "red" for `enum Color { RED }` is an error now;
    the value is not coercible. -/
theorem C14_rejects_enum_other_case :
    coerce schema (opWith (named "Color")) (varsV (.str (str "red")))
        = .err (str "red is not a valid Color") [.name (str "variable"), .name (str "v")] []
    ∧ ¬ CoercibleExceptTypename schema (named "Color") (.str (str "red"))
    ∧ coerce schema (opWith (named "Color")) (varsV (.str (str "RED"))) = .ok (varsV (.str (str "RED"))) := by
  refine ⟨by rfl, by decide, by rfl⟩

/-- former R14d witness: `$v: [[Int]]` = `[1,2]` yields `[[1],[2]]`, which conforms. -/
theorem C14_conforms_R14d_returns :
    coerce schema (opWith (listOf (listOf (named "Int")))) (varsV (islice [int 1, int 2]))
        = .ok (varsV (islice [.slice (.int .int) (.cons (int 1) .nil), .slice (.int .int) (.cons (int 2) .nil)]))
    ∧ Conforms schema (listOf (listOf (named "Int")))
        (islice [.slice (.int .int) (.cons (int 1) .nil), .slice (.int .int) (.cons (int 2) .nil)])
    ∧ Coercible schema (listOf (listOf (named "Int"))) (islice [int 1, int 2])
    ∧ ¬ Conforms schema (listOf (listOf (named "Int"))) (islice [int 1, int 2]) := by
  refine ⟨by rfl, by decide, by decide, by decide⟩

/-- `$v: [[Int]]` = `1` yields `[[1]]` (as `[]interface{}{[]int{1}}`). -/
theorem C14_conforms_R14d_single_returns :
    coerce schema (opWith (listOf (listOf (named "Int")))) (varsV (int 1))
        = .ok (varsV (islice [.slice (.int .int) (.cons (int 1) .nil)]))
    ∧ Conforms schema (listOf (listOf (named "Int"))) (islice [.slice (.int .int) (.cons (int 1) .nil)]) := by
  refine ⟨by rfl, by decide⟩

/-- a typed list `[]int{1,2}` for `[[Int]]` cannot hold the coerced items: the result is rebuilt as
    `[]interface{}{[]int{1}, []int{2}}`. -/
theorem C14_conforms_R14d_typed_returns :
    coerce schema (opWith (listOf (listOf (named "Int")))) (varsV (.slice (.int .int) (.cons (int 1) (.cons (int 2) .nil))))
        = .ok (varsV (islice [.slice (.int .int) (.cons (int 1) .nil), .slice (.int .int) (.cons (int 2) .nil)])) := by
  rfl

/-- the same inside an input object: `$v: In` = `{"l": [1, [2]]}` yields `{"l": [[1], [2]]}`. -/
theorem C14_conforms_R14d_field_returns :
    coerce schema (opWith (named "In")) (varsV (imap [(str "l", islice [int 1, islice [int 2]])]))
        = .ok (varsV (imap [(str "l", islice [.slice (.int .int) (.cons (int 1) .nil), islice [int 2]])]))
    ∧ Conforms schema (named "In") (imap [(str "l", islice [.slice (.int .int) (.cons (int 1) .nil), islice [int 2]])]) := by
  refine ⟨by rfl, by decide⟩

/-- The compatible kind table at work (these were counted as violations while the check demanded
    strict GraphQL input coercion; C14 only asks for "a value of a compatible kind"): `Int` holds a
    fractional float64, `Int` holds the string "12", `String` holds a json.Number — each returned
    unchanged and `Conforms`; a string that does not spell an integer is rejected for `Int`. -/
theorem C14_conforms_compatible_kinds :
    (coerce schema (opWith (named "Int")) (varsV (.float false (str "1.5"))) = .ok (varsV (.float false (str "1.5")))
      ∧ Conforms schema (named "Int") (.float false (str "1.5")))
    ∧ (coerce schema (opWith (named "Int")) (varsV (.str (str "12"))) = .ok (varsV (.str (str "12")))
      ∧ Conforms schema (named "Int") (.str (str "12")))
    ∧ (coerce schema (opWith (named "String")) (varsV (.jsonNumber (str "12"))) = .ok (varsV (.jsonNumber (str "12")))
      ∧ Conforms schema (named "String") (.jsonNumber (str "12")))
    ∧ (coerce schema (opWith (named "Int")) (varsV (.str (str "1.5")))
        = .err (str "cannot use string as Int") [.name (str "variable"), .name (str "v")] []
      ∧ ¬ Coercible schema (named "Int") (.str (str "1.5"))) := by
  refine ⟨⟨by rfl, by decide⟩, ⟨by rfl, by decide⟩, ⟨by rfl, by decide⟩, ⟨by rfl, by decide⟩⟩

/- non-vacuity of the hypotheses of C14_total / C14_conforms / C14_rejects on the fixture schema -/
example : EnumNamesPlain schema := by
  intro n d h ev hev
  have hm := lookup_mem (show schema.types.lookup n = some d from h)
  simp only [schema, List.mem_cons, Prod.mk.injEq, List.not_mem_nil, or_false] at hm
  rcases hm with ⟨_, rfl⟩ | ⟨_, rfl⟩ | ⟨_, rfl⟩ | ⟨_, rfl⟩ | ⟨_, rfl⟩ | ⟨_, rfl⟩ <;>
    simp [mkDef, colorDef, inDef] at hev
  subst hev; decide
example : InputFieldsNodup schema := by
  intro n d h hk
  have hm := lookup_mem (show schema.types.lookup n = some d from h)
  simp only [schema, List.mem_cons, Prod.mk.injEq, List.not_mem_nil, or_false] at hm
  rcases hm with ⟨_, rfl⟩ | ⟨_, rfl⟩ | ⟨_, rfl⟩ | ⟨_, rfl⟩ | ⟨_, rfl⟩ | ⟨_, rfl⟩ <;> decide
example : InputsClosed schema := by
  intro n d h hk f hf
  have hm := lookup_mem (show schema.types.lookup n = some d from h)
  simp only [schema, List.mem_cons, Prod.mk.injEq, List.not_mem_nil, or_false] at hm
  rcases hm with ⟨_, rfl⟩ | ⟨_, rfl⟩ | ⟨_, rfl⟩ | ⟨_, rfl⟩ | ⟨_, rfl⟩ | ⟨_, rfl⟩ <;>
    simp [mkDef, colorDef, inDef, mkField] at hk hf
  rcases hf with rfl | rfl
  · exact ⟨mkDef .scalar "Int", by rfl, Or.inl rfl⟩
  · exact ⟨mkDef .scalar "Int", by rfl, Or.inl rfl⟩
example : coerce schema (opWith (listOf (named "Color"))) (varsV (.str (str "RED")))
    = .ok (varsV (.slice .string (.cons (.str (str "RED")) .nil))) := by rfl
example : ¬ CoercibleExceptTypename schema (named "Color") (.str (str "GREEN")) := by decide
/- an operation with a default, coerced with the empty map, returns the default -/
example : coerce schema (opWith (named "Int") (some (lit .int "5"))) .nil
    = .ok (.cons (str "v") (.int .int64 5) .nil) := by rfl
/- null list items, typed slices, typed maps of any element type are inside `wfB` -/
example : wfFieldsB true (varsV (islice [.nil, islice [int 2, .nil], .slice (.int .int) (.cons (int 3) .nil),
    imap [(str "l", islice [.nil])], .map (.int .int) (.cons (str "l") (int 1) .nil),
    .map (.slice .float32) (.cons (str "l") (.slice .float32 (.cons (.float true (str "1.5")) .nil)) .nil)])) = true := by decide
