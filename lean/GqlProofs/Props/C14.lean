import GqlProofs.Lemmas.VarsLemmas
import GqlProofs.Lemmas.VarsFixtures
/-
  C14 — variable coercion is total and type-conforming.

  Model: `coerce s op vars` = `validator.VariableValues(schema, op, variables)` (validator/vars.go),
  outcomes `ok m | err msg path | panic msg | outOfFuel`.  Specification: `Conforms`, `Coercible`,
  `conformsWith` (GqlModel/Vars/Spec.lean).

  ────────────────────────────────────────────────────────────────────────────────────────────
  FULL STATEMENT of C14_total (FALSE of the pinned tree, R14a):

      theorem C14_total (s op vars) (schema closed, vars JSON-like) : ∀ msg, coerce s op vars ≠ .panic msg

  `validateVarType` handles an invalid (null) reflect.Value only AFTER the list branch; a `null`
  list item whose expected type is itself a list reaches `val.Type()` on the zero Value
  (`C14_total_counterexample`; it also fires with NO variables supplied, from a default value
  `[null]`: `C14_total_counterexample_default`).  `C14_total_partial` excludes exactly this with
  the hypothesis `safeB`: no list of the supplied values / converted defaults holds a null item
  (and no typed map occurs — the second panic of the pinned tree, a `SetMapIndex` assignability
  panic for e.g. `map[string]string{"c": "1"}` against a field `c: [Int!]`, lies outside the
  JSON-like domain).  Repair that makes the full statement true for the JSON-like domain: handle
  the invalid value before the list branch (`legacyNullIntoListPanics := false` in
  GqlModel/Vars/Model.lean models it; the proof of C14_total_partial does not unfold that switch
  and needs `safeItemsB` only to know that list items are not null).
  ────────────────────────────────────────────────────────────────────────────────────────────
-/
open Gql Gql.Fixtures

/-- R14a: `query($v: [[Int]])` with `{"v": [null]}` panics in `reflect.Value.Type`. -/
theorem C14_total_counterexample :
    coerce schema (opWith (listOf (listOf (named "Int")))) (varsV (islice [.nil])) = .panic typeOnZeroMsg := by
  rfl

/-- R14a without any variable supplied: `query($v: [[Int]] = [null])` and the empty map. -/
theorem C14_total_counterexample_default :
    coerce schema
      (opWith (listOf (listOf (named "Int"))) (some (.mk .list [] (.cons [] (lit .null "null") Pos.zero .nil) Pos.zero))) .nil
      = .panic typeOnZeroMsg := by
  rfl

/-- R14a inside an input object: `query($v: In)` with `{"v": {"l": [[1, null], null]}}`. -/
theorem C14_total_counterexample_field :
    coerce schema (opWith (named "In"))
      (varsV (imap [(str "l", islice [islice [int 1, .nil], .nil])])) = .panic typeOnZeroMsg := by
  rfl

/-- Coercion returns normally (values or an error, never a panic) for every operation over a
    schema whose input types are closed and every variables map / default value without a null
    list item (`safeB`). -/
theorem C14_total_partial (s : Schema) (op : OperationDef) (vars : VarMap)
    (hclosed : InputsClosed s)
    (hop : ∀ v ∈ op.vars, ∃ d, s.type? v.type.name = some d)
    (hvars : safeFieldsB vars = true)
    (hdef : ∀ v ∈ op.vars, ∀ dv x, v.default = some dv → valueValueConst dv = .ok x → safeB x = true) :
    ∀ msg, coerce s op vars ≠ .panic msg := by
  intro msg h
  have := coerceLoop_noPanic s op vars hclosed hvars op.vars .nil hop hdef
  unfold coerce at h
  simp [h, NoPanic] at this

/-- Absent variables take their defaults (1): every declared variable that has a default has an
    entry in the result — the hypothesis `DefaultsSupplied` of C15_precedence. -/
theorem C14_defaults_supplied (s : Schema) (op : OperationDef) (vars m : VarMap)
    (h : coerce s op vars = .ok m) : DefaultsSupplied op.vars m := by
  intro n d hf hd
  have hmem : d ∈ op.vars := findVarDef_mem hf
  have hn : d.var = n := by
    have := List.find?_some hf
    simpa using this
  rw [← hn]
  exact coerceLoop_defaults op.vars .nil m h d hmem hd

/-- Absent variables take their defaults (2): with unique variable names, the entry of an absent
    variable is exactly what coercing its converted default value `x` stores. -/
theorem C14_defaults (s : Schema) (op : OperationDef) (vars m : VarMap)
    (hnodup : (op.vars.map (·.var)).Nodup)
    (h : coerce s op vars = .ok m)
    (v : VarDef) (hv : v ∈ op.vars) (habsent : vars.lookup v.var = none)
    (dv : Value) (x : GoVal) (hdv : v.default = some dv) (hx : valueValueConst dv = .ok x) :
    ∃ acc c, coerceSupplied s op v acc x = .ok c ∧ m.lookup v.var = c.lookup v.var := by
  obtain ⟨acc, c, h1, h2, _⟩ := coerceLoop_entry op.vars .nil m hnodup h v hv
  have hs : suppliedValue vars v = .ok (some x) := by simp [suppliedValue, habsent, hdv, hx]
  rcases coerceVar_shape h1 with ⟨_, e⟩ | ⟨x', y, e1, e2, _⟩
  · rw [hs] at e; simp at e
  · rw [hs] at e1; cases e1
    exact ⟨acc, c, e2, h2⟩

/- non-vacuity of C14_total_partial / C14_defaults: an operation with a default, coerced with the
   empty map, returns the default -/
example : coerce schema (opWith (named "Int") (some (lit .int "5"))) .nil
    = .ok (.cons (str "v") (.int .int64 5) .nil) := by rfl
example : safeFieldsB (varsV (islice [int 1, islice [int 2]])) = true := by decide
