import GqlProofs.Lemmas.VarsLemmas
import GqlProofs.Lemmas.ConformsLemmas
import GqlProofs.Lemmas.VarsFixtures
/-
  C14 — variable coercion is total and type-conforming.

  Model: `coerce s op vars` = `validator.VariableValues(schema, op, variables)` (validator/vars.go),
  outcomes `ok m | err msg path | panic msg | outOfFuel`.  Specification: `Conforms`, `Coercible`,
  `conformsWith` (GqlModel/Vars/Spec.lean).

  ────────────────────────────────────────────────────────────────────────────────────────────
  FULL STATEMENT of C14_total:

      theorem C14_total (s op vars) (schema closed, vars JSON-like) : ∀ msg, coerce s op vars ≠ .panic msg

  R14a (REPAIRED in validator/vars.go, `legacyNullIntoListPanics = false` in the model): the list
  branch of `validateVarType` used to reach `val.Type()` on the zero Value for a `null` list item
  whose expected type is itself a list; now `if !val.IsValid() { return val, nil }` comes first.
  The three former witnesses are kept as theorems of normal return (`C14_total_R14a_returns`,
  `…_default_returns`, `…_field_returns`).

  `C14_total_partial` is the full statement for every variables map that satisfies `safeB`
  (GqlModel/Vars/Spec.lean).  Since the repair `safeB` no longer forbids null list items; what
  remains is
    (1) no TYPED MAP (`map[string]string`, `map[string]int`, …): the `SetMapIndex` assignability
        panic — e.g. `map[string]string{"c": "1"}` against a field `c: [Int!]`, the coerced `[]string`
        is not assignable to `string` — is STILL in the tree (X-vars: 71 of 4·10^5 triples).
        Everything `encoding/json` decodes uses `map[string]interface{}` and satisfies (1);
    (2) a null item occurs only in `[]interface{}` slices.  This is not a restriction on Go values
        (an element of a typed slice is never the nil interface) but the representation invariant
        of `GoVal` (`wfB`) restricted to slices: the model of the list loop asks for the element's
        `Type()` when a typed slice "holds" `.nil` at a non-null named element type.
  The hypothesis on default values is gone: converted literals are always safe
  (`valueValueConst_safe`).
  ────────────────────────────────────────────────────────────────────────────────────────────
-/
open Gql Gql.Fixtures

/-- former R14a witness: `query($v: [[Int]])` with `{"v": [null]}` now returns `{"v": [null]}`. -/
theorem C14_total_R14a_returns :
    coerce schema (opWith (listOf (listOf (named "Int")))) (varsV (islice [.nil])) = .ok (varsV (islice [.nil])) := by
  rfl

/-- former R14a witness without any variable supplied: `query($v: [[Int]] = [null])` and the empty
    map now returns the default `{"v": [null]}`. -/
theorem C14_total_R14a_default_returns :
    coerce schema
      (opWith (listOf (listOf (named "Int"))) (some (.mk .list [] (.cons [] (lit .null "null") Pos.zero .nil) Pos.zero))) .nil
      = .ok (varsV (islice [.nil])) := by
  rfl

/-- former R14a witness inside an input object: `query($v: In)` with `{"v": {"l": [[1, null], null]}}`
    now returns the map unchanged. -/
theorem C14_total_R14a_field_returns :
    coerce schema (opWith (named "In"))
      (varsV (imap [(str "l", islice [islice [int 1, .nil], .nil])]))
      = .ok (varsV (imap [(str "l", islice [islice [int 1, .nil], .nil])])) := by
  rfl

/-- a null list item at a NON-NULL list element type is an error, not a panic -/
theorem C14_total_R14a_nonnull_errors :
    coerce schema (opWith (listOf (listOf (named "Int") true))) (varsV (islice [.nil]))
      = .err (str "cannot be null") [.name (str "variable"), .name (str "v"), .idx 0] [] := by
  rfl

/-- Coercion returns normally (values or an error, never a panic) for every operation over a
    schema whose input types are closed and every variables map without typed maps (`safeB`:
    null list items are allowed; default values need no hypothesis). -/
theorem C14_total_partial (s : Schema) (op : OperationDef) (vars : VarMap)
    (hclosed : InputsClosed s)
    (hop : ∀ v ∈ op.vars, ∃ d, s.type? v.type.name = some d)
    (hvars : safeFieldsB vars = true) :
    ∀ msg, coerce s op vars ≠ .panic msg := by
  intro msg h
  have := coerceLoop_noPanic s op vars hclosed hvars op.vars .nil hop
  unfold coerce at h
  simp [h, NoPanic] at this

/-- C14_total for the domain of `encoding/json`: a variables map in which every container is a
    `[]interface{}` or a `map[string]interface{}` (null items and entries allowed) is coerced
    without a panic.  FALSE before the repair of R14a (`C14_total_R14a_returns` was its
    counterexample). -/
theorem C14_total_jsonLike (s : Schema) (op : OperationDef) (vars : VarMap)
    (hclosed : InputsClosed s)
    (hop : ∀ v ∈ op.vars, ∃ d, s.type? v.type.name = some d)
    (hvars : jsonLikeFieldsB vars = true) :
    ∀ msg, coerce s op vars ≠ .panic msg :=
  C14_total_partial s op vars hclosed hop (jsonLikeFields_safe vars hvars)

/-- the remaining panic of the list/object walk (typed maps, outside `safeB`): `$v: In` with
    `map[string]int{"l": 1}` — the coerced list is not assignable to `int` (`SetMapIndex`). -/
theorem C14_total_counterexample_typedMap :
    ∃ msg, coerce schema (opWith (named "In")) (varsV (.map (.int .int) (.cons (str "l") (int 1) .nil))) = .panic msg :=
  ⟨_, rfl⟩

/-- Absent variables take their defaults (1): every declared variable that has a default has an
    entry in the result — the hypothesis `DefaultsSupplied` of C15_precedence. -/
theorem C14_defaults_supplied (s : Schema) (op : OperationDef) (vars m : VarMap)
    (h : coerce s op vars = .ok m) : DefaultsSupplied op.vars m := by
  intro n d hf hd
  have hmem : d ∈ op.vars := findVarDef_mem hf
  have hn : d.var = n := by
    have := List.find?_some hf
    simpa using this
  rw [← hn]
  exact coerceLoop_defaults op.vars .nil m h d hmem hd

/-- Absent variables take their defaults (2): with unique variable names, the entry of an absent
    variable is exactly what coercing its converted default value `x` stores. -/
theorem C14_defaults (s : Schema) (op : OperationDef) (vars m : VarMap)
    (hnodup : (op.vars.map (·.var)).Nodup)
    (h : coerce s op vars = .ok m)
    (v : VarDef) (hv : v ∈ op.vars) (habsent : vars.lookup v.var = none)
    (dv : Value) (x : GoVal) (hdv : v.default = some dv) (hx : valueValueConst dv = .ok x) :
    ∃ acc c, coerceSupplied s op v acc x = .ok c ∧ m.lookup v.var = c.lookup v.var := by
  obtain ⟨acc, c, h1, h2, _⟩ := coerceLoop_entry op.vars .nil m hnodup h v hv
  have hs : suppliedValue vars v = .ok (some x) := by simp [suppliedValue, habsent, hdv, hx]
  rcases coerceVar_shape h1 with ⟨_, e⟩ | ⟨x', y, e1, e2, _⟩
  · rw [hs] at e; simp at e
  · rw [hs] at e1; cases e1
    exact ⟨acc, c, e2, h2⟩

/-
  ────────────────────────────────────────────────────────────────────────────────────────────
  FULL STATEMENTS of C14_conforms / C14_rejects (both FALSE of the tree):

      theorem C14_conforms : coerce s op vars = .ok m → ∀ v ∈ op.vars, ∀ y, m.lookup v.var = some y → Conforms s v.type y
      theorem C14_rejects  : (∃ v ∈ op.vars, ∃ x, vars.lookup v.var = some x ∧ ¬ Coercible s v.type x) → ∀ m, coerce s op vars ≠ .ok m

  R14d (REPAIRED by r14d.patch, `legacyDiscardNestedListResult = false` in the model): the coerced
  list item used to be discarded (`_, err := v.validateVarType(typ.Elem, field)`), so `$v: [[Int]]`
  = `[1,2]` returned `[1,2]`; now the coerced item is stored back and the result is `[[1],[2]]`.
  The former witness is kept as a theorem of conforming return (`C14_conforms_R14d_returns`, plus
  `…_single_returns`, `…_field_returns`, `…_typed_returns`).

  The code is still more lenient than the strict reading at FIVE points; each has a kernel-checked
  counterexample below and is one field of `Leniency` (GqlModel/Vars/Spec.lean):
    enumFold (R14b)         `$v: Color` = "red" is accepted for `enum Color { RED }`
    typenameKey (R14c)      an input object keeps the undeclared key `__typename`
    fractionalInt           `$v: Int` = 1.5 (float64) is accepted
    numericStrings          `$v: Int` = "12" (a string) is accepted
    jsonNumberAsString      `$v: String` = json.Number("12") is accepted
  (the sixth field, `flatNested`, now only describes SUPPLIED values: the single-value-to-list
  coercion of the GraphQL spec, part of `Coercible`).
  `C14_conforms_partial` is the statement with `conformsWith .afterR14d` (the five leniencies, list
  nesting EXACT) in place of `Conforms` — before the repair it could only be stated with
  `.legacy`, i.e. granting `flatNested` to results; `C14_rejects_partial` is the statement with
  `conformsWith .legacy` (five leniencies + single-value-to-list coercion) in place of `Coercible`.
  Both are PROVED for variables whose named type is a scalar or an enum under any list nesting
  (`LeafTyped`).  NOT FINISHED: the same statement for input-object types (the `fieldLoop`
  invariant: keys preserved, every visited entry replaced by a conforming value, required fields
  present; needs unique field names and unique map keys).  For input objects the claim is covered
  by exploration only: the harness judges every value Go returns with `conformsWith .afterR14d`
  and `.legacy` (C14 check: no violation in 4·10^5 results) and attributes each strict violation
  to the leniencies above.
  Repairs that make the strict statements true: compare enum names exactly, reject `__typename` /
  fractional floats for Int / strings for Int and Float / json.Number for String.
  ────────────────────────────────────────────────────────────────────────────────────────────
-/

/-- former R14d witness: `$v: [[Int]]` = `[1,2]` now yields `[[1],[2]]`, which conforms strictly. -/
theorem C14_conforms_R14d_returns :
    coerce schema (opWith (listOf (listOf (named "Int")))) (varsV (islice [int 1, int 2]))
        = .ok (varsV (islice [.slice (.int .int) (.cons (int 1) .nil), .slice (.int .int) (.cons (int 2) .nil)]))
    ∧ Conforms schema (listOf (listOf (named "Int")))
        (islice [.slice (.int .int) (.cons (int 1) .nil), .slice (.int .int) (.cons (int 2) .nil)])
    ∧ Coercible schema (listOf (listOf (named "Int"))) (islice [int 1, int 2]) := by
  refine ⟨by rfl, by decide, by decide⟩

/-- `$v: [[Int]]` = `1` yields `[[1]]` (as `[]interface{}{[]int{1}}`). -/
theorem C14_conforms_R14d_single_returns :
    coerce schema (opWith (listOf (listOf (named "Int")))) (varsV (int 1))
        = .ok (varsV (islice [.slice (.int .int) (.cons (int 1) .nil)]))
    ∧ Conforms schema (listOf (listOf (named "Int"))) (islice [.slice (.int .int) (.cons (int 1) .nil)]) := by
  refine ⟨by rfl, by decide⟩

/-- a typed list `[]int{1,2}` for `[[Int]]` cannot hold the coerced items: the result is rebuilt as
    `[]interface{}{[]int{1}, []int{2}}`. -/
theorem C14_conforms_R14d_typed_returns :
    coerce schema (opWith (listOf (listOf (named "Int")))) (varsV (.slice (.int .int) (.cons (int 1) (.cons (int 2) .nil))))
        = .ok (varsV (islice [.slice (.int .int) (.cons (int 1) .nil), .slice (.int .int) (.cons (int 2) .nil)])) := by
  rfl

/-- the same inside an input object: `$v: In` = `{"l": [1, [2]]}` yields `{"l": [[1], [2]]}`. -/
theorem C14_conforms_R14d_field_returns :
    coerce schema (opWith (named "In")) (varsV (imap [(str "l", islice [int 1, islice [int 2]])]))
        = .ok (varsV (imap [(str "l", islice [.slice (.int .int) (.cons (int 1) .nil), islice [int 2]])]))
    ∧ Conforms schema (named "In") (imap [(str "l", islice [.slice (.int .int) (.cons (int 1) .nil), islice [int 2]])]) := by
  refine ⟨by rfl, by decide⟩

/-- R14b: enum values are matched case-insensitively. -/
theorem C14_conforms_counterexample_enumFold :
    coerce schema (opWith (named "Color")) (varsV (.str (str "red"))) = .ok (varsV (.str (str "red")))
    ∧ ¬ Conforms schema (named "Color") (.str (str "red"))
    ∧ ¬ Coercible schema (named "Color") (.str (str "red")) := by
  refine ⟨by rfl, by decide, by decide⟩

/-- R14c: the undeclared key `__typename` is accepted and kept. -/
theorem C14_conforms_counterexample_typename :
    coerce schema (opWith (named "In")) (varsV (imap [(str "a", int 1), (str "__typename", .str (str "In"))]))
        = .ok (varsV (imap [(str "a", int 1), (str "__typename", .str (str "In"))]))
    ∧ ¬ Conforms schema (named "In") (imap [(str "a", int 1), (str "__typename", .str (str "In"))]) := by
  refine ⟨by rfl, by decide⟩

/-- `Int` accepts a fractional float. -/
theorem C14_conforms_counterexample_fractionalInt :
    coerce schema (opWith (named "Int")) (varsV (.float false (str "1.5"))) = .ok (varsV (.float false (str "1.5")))
    ∧ ¬ Conforms schema (named "Int") (.float false (str "1.5")) := by
  refine ⟨by rfl, by decide⟩

/-- `Int` accepts a string whose text parses as an integer. -/
theorem C14_conforms_counterexample_numericString :
    coerce schema (opWith (named "Int")) (varsV (.str (str "12"))) = .ok (varsV (.str (str "12")))
    ∧ ¬ Conforms schema (named "Int") (.str (str "12")) := by
  refine ⟨by rfl, by decide⟩

/-- `String` accepts a json.Number. -/
theorem C14_conforms_counterexample_jsonNumber :
    coerce schema (opWith (named "String")) (varsV (.jsonNumber (str "12"))) = .ok (varsV (.jsonNumber (str "12")))
    ∧ ¬ Conforms schema (named "String") (.jsonNumber (str "12")) := by
  refine ⟨by rfl, by decide⟩

/-- When coercion returns values, the value of every declared variable of a scalar- or enum-based
    type (any list nesting) conforms to its declared type up to the FIVE enumerated leniencies; in
    particular every list position holds a list of exactly the declared depth (false before the
    repair of R14d, where only `conformsWith .legacy` — `flatNested` granted — could be proved).
    `hwf` (new with the repair of R14a) is the representation invariant of `GoVal`, true of every
    Go value: `.nil` only inside `interface{}` containers.  Before the repair an ill-formed typed
    slice "holding" `.nil` at a list element type made the model panic; now the model returns it,
    and `.slice (.slice int) [.nil]` would be a non-conforming result for `[[Int]!]`. -/
theorem C14_conforms_partial (s : Schema) (op : OperationDef) (vars m : VarMap)
    (hplain : EnumNamesPlain s) (hnodup : (op.vars.map (·.var)).Nodup)
    (hwf : wfFieldsB true vars = true)
    (h : coerce s op vars = .ok m) :
    ∀ v ∈ op.vars, LeafTyped s v.type → ∀ y, m.lookup v.var = some y → conformsWith .afterR14d s v.type y = true := by
  intro v hv ht y hy
  obtain ⟨acc, c, h1, h2, h3⟩ := coerceLoop_entry op.vars .nil m hnodup h v hv
  rcases coerceVar_shape h1 with ⟨e, _⟩ | ⟨x, y', e1, e2, _⟩
  · rw [h2, e, h3] at hy; simp [GoFields.lookup] at hy
  · obtain ⟨⟨y'', e3, hc⟩, _⟩ := coerceSupplied_conforms s hplain op v acc c x ht (suppliedValue_wf hwf e1) e2
    rw [h2, e3, GoFields.lookup_set] at hy
    simp at hy; subst hy; exact hc

/-- Coercion returns an error rather than values whenever a supplied value of a scalar- or
    enum-based type cannot conform even with the five leniencies and single-value-to-list coercion.
    `hwf`: see C14_conforms_partial. -/
theorem C14_rejects_partial (s : Schema) (op : OperationDef) (vars : VarMap)
    (hplain : EnumNamesPlain s) (hnodup : (op.vars.map (·.var)).Nodup)
    (hwf : wfFieldsB true vars = true)
    (v : VarDef) (hv : v ∈ op.vars) (ht : LeafTyped s v.type)
    (x : GoVal) (hx : vars.lookup v.var = some x) (hbad : conformsWith .legacy s v.type x = false) :
    ∀ m, coerce s op vars ≠ .ok m := by
  intro m h
  obtain ⟨acc, c, h1, _, _⟩ := coerceLoop_entry op.vars .nil m hnodup h v hv
  have hs : suppliedValue vars v = .ok (some x) := by simp [suppliedValue, hx]
  rcases coerceVar_shape h1 with ⟨_, e⟩ | ⟨x', y', e1, e2, _⟩
  · rw [hs] at e; simp at e
  · rw [hs] at e1; cases e1
    have := (coerceSupplied_conforms s hplain op v acc c x ht (suppliedValue_wf hwf hs) e2).2
    simp [CL, hbad] at this

/- non-vacuity of the hypotheses of C14_conforms_partial / C14_rejects_partial -/
example : EnumNamesPlain schema := by
  intro n d h ev hev
  have hm := lookup_mem (show schema.types.lookup n = some d from h)
  simp only [schema, List.mem_cons, Prod.mk.injEq, List.not_mem_nil, or_false] at hm
  rcases hm with ⟨_, rfl⟩ | ⟨_, rfl⟩ | ⟨_, rfl⟩ | ⟨_, rfl⟩ | ⟨_, rfl⟩ | ⟨_, rfl⟩ <;>
    simp [mkDef, colorDef, inDef] at hev
  subst hev; decide
example : LeafTyped schema (listOf (listOf (named "Color"))) := ⟨colorDef, by rfl, Or.inr rfl⟩
example : coerce schema (opWith (listOf (named "Color"))) (varsV (.str (str "RED")))
    = .ok (varsV (.slice .string (.cons (.str (str "RED")) .nil))) := by rfl
example : conformsWith .afterR14d schema (listOf (listOf (named "Int"))) (islice [int 1, int 2]) = false := by decide
example : conformsWith .legacy schema (named "Color") (.str (str "GREEN")) = false := by decide

/- non-vacuity of C14_total_partial / C14_defaults: an operation with a default, coerced with the
   empty map, returns the default -/
example : coerce schema (opWith (named "Int") (some (lit .int "5"))) .nil
    = .ok (.cons (str "v") (.int .int64 5) .nil) := by rfl
example : safeFieldsB (varsV (islice [int 1, islice [int 2]])) = true := by decide
/- null list items, typed slices and nested `map[string]interface{}` maps are inside `safeB` / `wfB` -/
example : safeFieldsB (varsV (islice [.nil, islice [int 2, .nil], .slice (.int .int) (.cons (int 3) .nil),
    imap [(str "l", islice [.nil])]])) = true := by decide
example : jsonLikeFieldsB (varsV (islice [.nil, imap [(str "l", islice [islice [int 1, .nil], .nil])]])) = true := by decide
example : wfFieldsB true (varsV (islice [.nil, .map (.int .int) (.cons (str "l") (int 1) .nil)])) = true := by decide
