import GqlProofs.Gen.Accounted
import GqlProofs.Lexer.BlockSpec
import GqlProofs.Lexer.Pos
import GqlProofs.Lexer.NumFollow
/-
  C03 — tokenisation conforms to the lexical grammar (theorem-backed parts).

  The specification is `GqlModel/Lexer/Spec.lean` (written from the October 2021 grammar over code
  points, independent of the model).  What is PROVED here about the model that the driver runs and
  that ./check C03 ties to lexer.ReadToken:

   * `C03_blockstring_eq_spec`  — the block string value algorithm is BlockStringValue() of the spec;
   * `C03_punctuators_eq_spec`  — the punctuator table is the spec's Punctuator production;
   * `C03_number_lookahead`     — an Int/Float token is never directly followed by a digit, `.` or a
                                   NameStart (the look-ahead restriction; repaired finding R3a);
   * `C03_name_maximal`         — a Name token is a maximal run of name characters (maximal munch);
   * `C03_ignored_only_ws`      — what `ws` skips between tokens is made of Ignored characters only
                                   (blank, comma, line terminators; on ASCII sources) and it stops
                                   exactly in front of a non-ignored character.

  NOT proved (covered by the exhaustive three-way enumeration of ./check C03 over lex19 / block6 /
  lexraw16 and the random sweeps): the full equivalence `lexAll inp ≈ Spec.lex (decode inp)` for
  strings with escapes, comments, and non-ASCII sources:
      theorem C03_lex_sound_complete (cps) : lexAll (utf8Encode cps) ≈ Spec.lex cps
  Known finding (not a theorem): a block string is closed by the LAST three quotes of a longer run.
-/
open Gql Gql.Lexer

/-- The model's `blockStringValue` (lexer/blockstring.go) is the specification's BlockStringValue()
    on every raw value without CR (the lexer turns CR and CRLF into LF before calling it). -/
theorem C03_blockstring_eq_spec (raw : Bytes) (h : 13 ∉ raw) :
    blockStringValue raw = Spec.blockStringValue raw :=
  blockStringValue_eq_spec raw h

/-- The single-byte punctuators of `ReadToken` are exactly the spec's Punctuator production
    (`...` is handled separately on both sides). -/
theorem C03_punctuators_eq_spec (b : Nat) : punct b = Spec.punctOf b := by
  by_cases hb : b < 126
  · have : ∀ b < 126, punct b = Spec.punctOf b := by decide
    exact this b hb
  · have h1 : punct b = none := by
      cases h : punct b with
      | none => rfl
      | some k =>
        have hm := lookup_mem punctTable b k h
        have : ∀ p ∈ punctTable, p.1 < 126 := by decide
        exact absurd (this (b, k) hm) hb
    rw [h1]
    have n : ∀ k, k < 126 → ¬ b = k := fun k hk => by omega
    simp only [Spec.punctOf, n 33 (by decide), n 36 (by decide), n 38 (by decide), n 40 (by decide),
      n 41 (by decide), n 58 (by decide), n 61 (by decide), n 64 (by decide), n 91 (by decide),
      n 93 (by decide), n 123 (by decide), n 124 (by decide), n 125 (by decide), if_false]

/-- An Int or Float token is never directly followed by a digit, a dot or a name start:
    `readNumber` either fails or leaves a rest that satisfies the look-ahead restriction. -/
theorem C03_number_lookahead (start : Cur) (rest0 : Bytes) (t : Token) (r : Bytes) (c' : Cur)
    (h : readNumber start rest0 = .tok t r c') : numFollowBad r = false := by
  have key : (readNumber start rest0).followOK := by
    unfold readNumber readNumberCore
    split
    · split
      · simp [Step.followOK, mkErr]
      · unfold numFrac
        split
        · simp only []; split
          · simp [Step.followOK, mkErr]
          · exact numExp_followOK _ _ _ _ _
        · exact numExp_followOK _ _ _ _ _
    · split
      · simp [Step.followOK, mkErr]
      · unfold numFrac
        split
        · simp only []; split
          · simp [Step.followOK, mkErr]
          · exact numExp_followOK _ _ _ _ _
        · exact numExp_followOK _ _ _ _ _
  rw [h] at key
  exact key

/-- `numFollowBad` is the negation of the spec's `numberFollowOk` on ASCII (bytes < 128 are the
    code points; a byte ≥ 128 starts a multi-byte character, which is no Digit, `.` or NameStart). -/
theorem C03_lookahead_is_spec (b : Nat) (t : Bytes) (hb : b < 128) :
    numFollowBad (b :: t) = !Spec.numberFollowOk (b :: t) := by
  have : ∀ b < 128, (b == 46 || isNameCont b) = !(!(Spec.isDigitC b || b == 46 || Spec.isNameStartC b)) := by decide
  simpa [numFollowBad, Spec.numberFollowOk] using this b hb

/-- Maximal munch for names: the bytes `nameSpan` takes are all name characters and what it leaves
    does not start with one. -/
theorem C03_name_maximal (l : Bytes) :
    (∀ b ∈ (nameSpan l).1, isNameCont b = true) ∧
    (match (nameSpan l).2 with | [] => True | b :: _ => isNameCont b = false) ∧
    l = (nameSpan l).1 ++ (nameSpan l).2 := by
  fun_induction nameSpan l with
  | case1 => simp
  | case2 b tl hb n r heq ih =>
    simp only [heq] at ih
    refine ⟨?_, ih.2.1, by simp [← ih.2.2]⟩
    intro x hx
    simp at hx
    rcases hx with rfl | hx
    · exact hb
    · exact ih.1 x hx
  | case3 b tl hb => simp; simpa using hb

/-- `isNameCont` is the spec's NameContinue on ASCII code points. -/
theorem C03_name_class_is_spec (b : Nat) (hb : b < 128) : isNameCont b = Spec.isNameContinueC b := by
  have : ∀ b < 128, isNameCont b = Spec.isNameContinueC b := by decide
  exact this b hb

/-- What `ws` skips consists of Ignored characters of the grammar only (ASCII sources: TAB, space,
    comma, LF, CR), and it stops exactly in front of a character that is not one of them. -/
theorem C03_ignored_only_ws (rest : Bytes) (c : Cur) (hA : Ascii rest) :
    ∃ ign, rest = ign ++ (ws rest c).1 ∧ (∀ b ∈ ign, b = 9 ∨ b = 32 ∨ b = 44 ∨ b = 10 ∨ b = 13) ∧
      (match (ws rest c).1 with
       | [] => True
       | b :: _ => ¬ (b = 9 ∨ b = 32 ∨ b = 44 ∨ b = 10 ∨ b = 13)) := by
  fun_induction ws rest c with
  | case1 c => exact ⟨[], rfl, by simp, trivial⟩
  | case2 b r c hb ih =>
    obtain ⟨ign, h1, h2, h3⟩ := ih (Ascii_tail hA)
    refine ⟨b :: ign, by simp [← h1], ?_, h3⟩
    intro x hx; simp at hx; rcases hx with rfl | hx
    · omega
    · exact h2 x hx
  | case3 r c hb1 ih =>
    obtain ⟨ign, h1, h2, h3⟩ := ih (Ascii_tail hA)
    refine ⟨10 :: ign, by simp [← h1], ?_, h3⟩
    intro x hx; simp at hx; rcases hx with rfl | hx
    · omega
    · exact h2 x hx
  | case4 c r' hb1 hb2 ih =>
    obtain ⟨ign, h1, h2, h3⟩ := ih (Ascii_tail (Ascii_tail hA))
    refine ⟨13 :: 10 :: ign, by simp [← h1], ?_, h3⟩
    intro x hx; simp at hx; rcases hx with rfl | rfl | hx
    · omega
    · omega
    · exact h2 x hx
  | case5 c r hr' hb1 hb2 ih =>
    obtain ⟨ign, h1, h2, h3⟩ := ih (Ascii_tail hA)
    refine ⟨13 :: ign, by simp [← h1], ?_, h3⟩
    intro x hx; simp at hx; rcases hx with rfl | hx
    · omega
    · exact h2 x hx
  | case6 => exact absurd (Ascii_head hA) (by omega)
  | case7 => exact absurd (Ascii_head hA) (by omega)
  | case8 b r c hb1 hb2 hb3 hb4 => exact ⟨[], rfl, by simp, by simp; omega⟩

-- non-vacuity
example : blockStringValue (str "  a\n    b") = str "  a\nb" := by decide

/-! ### facts regenerated from /repo's sources on every run (GqlModel/Gen/Facts.lean) -/

/-- lexer/token.go's kind constants are, in order, the kinds of the model (`Kind.toNat` is the Go iota). -/
theorem C03_gen_token_kinds_agree :
    Gql.Gen.tokenKinds = ["Invalid", "EOF", "Bang", "Dollar", "Amp", "ParenL", "ParenR", "Spread", "Colon",
      "Equals", "At", "BracketL", "BracketR", "BraceL", "BraceR", "Pipe", "Name", "Int", "Float", "String",
      "BlockString", "Comment"] := by decide

/-- The `case c: return s.makeValueToken(K, "")` clauses of ReadToken are exactly the model's
    punctuator table (byte, kind number). -/
theorem C03_gen_punctuators_agree :
    Gql.Gen.punctCases.map (fun p => (p.1, Gql.Gen.tokenKinds.idxOf p.2)) =
      punctTable.map (fun p => (p.1, p.2.toNat)) := by decide

/-- The single-character escapes of readString are exactly the model's `escapeOut`. -/
theorem C03_gen_escapes_agree :
    (∀ p ∈ Gql.Gen.stringEscapes, escapeOut p.1 = some p.2) ∧
    (∀ e, e < 128 → (escapeOut e).isSome → (Gql.Gen.stringEscapes.lookup e).isSome) := by decide
