import GqlProofs.Gen.Accounted
import GqlProofs.Lexer.BlockSpec
import GqlProofs.Lexer.Pos
import GqlProofs.Lexer.NumFollow
import GqlProofs.Lexer.SpecStep
import GqlProofs.Lexer.SpecLex
import GqlProofs.Lexer.UniLex
/-
  C03 — tokenisation conforms to the lexical grammar (theorem-backed parts).

  The specification is `GqlModel/Lexer/Spec.lean` (written from the October 2021 grammar over code
  points, independent of the model).  What is PROVED here about the model that the driver runs and
  that ./check C03 ties to lexer.ReadToken:

   * `C03_blockstring_eq_spec`  — the block string value algorithm is BlockStringValue() of the spec;
   * `C03_punctuators_eq_spec`  — the punctuator table is the spec's Punctuator production;
   * `C03_number_lookahead`     — an Int/Float token is never directly followed by a digit, `.` or a
                                   NameStart (the look-ahead restriction; repaired finding R3a);
   * `C03_name_maximal`         — a Name token is a maximal run of name characters (maximal munch);
   * `C03_ignored_only_ws`      — what `ws` skips between tokens is made of Ignored characters only
                                   (blank, comma, line terminators; on ASCII sources) and it stops
                                   exactly in front of a non-ignored character.

   * `C03_step_ascii`           — one `ReadToken` step equals one lexical item of the specification on
                                   ASCII text (kinds, values, extents; fails exactly where the grammar
                                   admits no token), `C03_block_ascii` for block strings;
   * `C03_lex_ascii`            — whole ASCII sources: `lexAll inp` and `Spec.lex inp` produce the same
                                   tokens up to the end or the first error (hypothesis `BlocksOK`: no
                                   block string is closed by a run of more than three quotes).

   * `C03_lex_utf8`             — EVERY well-formed UTF-8 source (`Utf8.decode inp = some cps`, a strict
                                   decoder characterised by `C03_utf8_decode_iff`): `lexAll inp` and `Spec.lex cps` produce the
                                   same tokens (kinds, values through UTF-8, extents in code points) up to
                                   the end or the first error, under `BlocksOK` on the decoded text;
                                   `C03_lex_scalars` is the same for `utf8Encode cps`, `C03_step_utf8` /
                                   `C03_block_utf8` the per-step forms, `C03_ws_utf8` the Ignored run (BOM
                                   included), `C03_lex_utf8_no_block`, `C03_lex_utf8_outcome` corollaries.
                                   The ASCII theorems above are special cases (`Utf8.decode_ascii`).
   * `C03_lex_invalid_utf8_partial` — outside the property (invalid UTF-8): a byte ≥ 128 where a token
                                   must start always fails with `Cannot parse the unexpected character`.

  Model and specification differ on no well-formed UTF-8 input except for the
  known finding (`C03_block_long_run_counterexample`, characterised exactly by `C03_block_ascii` /
  `C03_block_utf8`): a block string is closed by the LAST three quotes of a longer run.
-/
open Gql Gql.Lexer

/-- The model's `blockStringValue` (lexer/blockstring.go) is the specification's BlockStringValue()
    on every raw value without CR (the lexer turns CR and CRLF into LF before calling it). -/
theorem C03_blockstring_eq_spec (raw : Bytes) (h : 13 ∉ raw) :
    blockStringValue raw = Spec.blockStringValue raw :=
  blockStringValue_eq_spec raw h

/-- The single-byte punctuators of `ReadToken` are exactly the spec's Punctuator production
    (`...` is handled separately on both sides). -/
theorem C03_punctuators_eq_spec (b : Nat) : punct b = Spec.punctOf b := by
  by_cases hb : b < 126
  · have : ∀ b < 126, punct b = Spec.punctOf b := by decide
    exact this b hb
  · have h1 : punct b = none := by
      cases h : punct b with
      | none => rfl
      | some k =>
        have hm := lookup_mem punctTable b k h
        have : ∀ p ∈ punctTable, p.1 < 126 := by decide
        exact absurd (this (b, k) hm) hb
    rw [h1]
    have n : ∀ k, k < 126 → ¬ b = k := fun k hk => by omega
    simp only [Spec.punctOf, n 33 (by decide), n 36 (by decide), n 38 (by decide), n 40 (by decide),
      n 41 (by decide), n 58 (by decide), n 61 (by decide), n 64 (by decide), n 91 (by decide),
      n 93 (by decide), n 123 (by decide), n 124 (by decide), n 125 (by decide), if_false]

/-- An Int or Float token is never directly followed by a digit, a dot or a name start:
    `readNumber` either fails or leaves a rest that satisfies the look-ahead restriction. -/
theorem C03_number_lookahead (start : Cur) (rest0 : Bytes) (t : Token) (r : Bytes) (c' : Cur)
    (h : readNumber start rest0 = .tok t r c') : numFollowBad r = false := by
  have key : (readNumber start rest0).followOK := by
    unfold readNumber readNumberCore
    split
    · split
      · simp [Step.followOK, mkErr]
      · unfold numFrac
        split
        · simp only []; split
          · simp [Step.followOK, mkErr]
          · exact numExp_followOK _ _ _ _ _
        · exact numExp_followOK _ _ _ _ _
    · split
      · simp [Step.followOK, mkErr]
      · unfold numFrac
        split
        · simp only []; split
          · simp [Step.followOK, mkErr]
          · exact numExp_followOK _ _ _ _ _
        · exact numExp_followOK _ _ _ _ _
  rw [h] at key
  exact key

/-- `numFollowBad` is the negation of the spec's `numberFollowOk` on ASCII (bytes < 128 are the
    code points; a byte ≥ 128 starts a multi-byte character, which is no Digit, `.` or NameStart). -/
theorem C03_lookahead_is_spec (b : Nat) (t : Bytes) (hb : b < 128) :
    numFollowBad (b :: t) = !Spec.numberFollowOk (b :: t) := by
  have : ∀ b < 128, (b == 46 || isNameCont b) = !(!(Spec.isDigitC b || b == 46 || Spec.isNameStartC b)) := by decide
  simpa [numFollowBad, Spec.numberFollowOk] using this b hb

/-- Maximal munch for names: the bytes `nameSpan` takes are all name characters and what it leaves
    does not start with one. -/
theorem C03_name_maximal (l : Bytes) :
    (∀ b ∈ (nameSpan l).1, isNameCont b = true) ∧
    (match (nameSpan l).2 with | [] => True | b :: _ => isNameCont b = false) ∧
    l = (nameSpan l).1 ++ (nameSpan l).2 := by
  fun_induction nameSpan l with
  | case1 => simp
  | case2 b tl hb n r heq ih =>
    simp only [heq] at ih
    refine ⟨?_, ih.2.1, by simp [← ih.2.2]⟩
    intro x hx
    simp at hx
    rcases hx with rfl | hx
    · exact hb
    · exact ih.1 x hx
  | case3 b tl hb => simp; simpa using hb

/-- `isNameCont` is the spec's NameContinue on ASCII code points. -/
theorem C03_name_class_is_spec (b : Nat) (hb : b < 128) : isNameCont b = Spec.isNameContinueC b := by
  have : ∀ b < 128, isNameCont b = Spec.isNameContinueC b := by decide
  exact this b hb

/-- What `ws` skips consists of Ignored characters of the grammar only (ASCII sources: TAB, space,
    comma, LF, CR), and it stops exactly in front of a character that is not one of them. -/
theorem C03_ignored_only_ws (rest : Bytes) (c : Cur) (hA : Ascii rest) :
    ∃ ign, rest = ign ++ (ws rest c).1 ∧ (∀ b ∈ ign, b = 9 ∨ b = 32 ∨ b = 44 ∨ b = 10 ∨ b = 13) ∧
      (match (ws rest c).1 with
       | [] => True
       | b :: _ => ¬ (b = 9 ∨ b = 32 ∨ b = 44 ∨ b = 10 ∨ b = 13)) := by
  fun_induction ws rest c with
  | case1 c => exact ⟨[], rfl, by simp, trivial⟩
  | case2 b r c hb ih =>
    obtain ⟨ign, h1, h2, h3⟩ := ih (Ascii_tail hA)
    refine ⟨b :: ign, by simp [← h1], ?_, h3⟩
    intro x hx; simp at hx; rcases hx with rfl | hx
    · omega
    · exact h2 x hx
  | case3 r c hb1 ih =>
    obtain ⟨ign, h1, h2, h3⟩ := ih (Ascii_tail hA)
    refine ⟨10 :: ign, by simp [← h1], ?_, h3⟩
    intro x hx; simp at hx; rcases hx with rfl | hx
    · omega
    · exact h2 x hx
  | case4 c r' hb1 hb2 ih =>
    obtain ⟨ign, h1, h2, h3⟩ := ih (Ascii_tail (Ascii_tail hA))
    refine ⟨13 :: 10 :: ign, by simp [← h1], ?_, h3⟩
    intro x hx; simp at hx; rcases hx with rfl | rfl | hx
    · omega
    · omega
    · exact h2 x hx
  | case5 c r hr' hb1 hb2 ih =>
    obtain ⟨ign, h1, h2, h3⟩ := ih (Ascii_tail hA)
    refine ⟨13 :: ign, by simp [← h1], ?_, h3⟩
    intro x hx; simp at hx; rcases hx with rfl | hx
    · omega
    · exact h2 x hx
  | case6 => exact absurd (Ascii_head hA) (by omega)
  | case7 => exact absurd (Ascii_head hA) (by omega)
  | case8 b r c hb1 hb2 hb3 hb4 => exact ⟨[], rfl, by simp, by simp; omega⟩

-- non-vacuity
example : blockStringValue (str "  a\n    b") = str "  a\nb" := by decide

/-! ### facts regenerated from /repo's sources on every run (GqlModel/Gen/Facts.lean) -/

/-- lexer/token.go's kind constants are, in order, the kinds of the model (`Kind.toNat` is the Go iota). -/
theorem C03_gen_token_kinds_agree :
    Gql.Gen.tokenKinds = ["Invalid", "EOF", "Bang", "Dollar", "Amp", "ParenL", "ParenR", "Spread", "Colon",
      "Equals", "At", "BracketL", "BracketR", "BraceL", "BraceR", "Pipe", "Name", "Int", "Float", "String",
      "BlockString", "Comment"] := by decide

/-- The `case c: return s.makeValueToken(K, "")` clauses of ReadToken are exactly the model's
    punctuator table (byte, kind number). -/
theorem C03_gen_punctuators_agree :
    Gql.Gen.punctCases.map (fun p => (p.1, Gql.Gen.tokenKinds.idxOf p.2)) =
      punctTable.map (fun p => (p.1, p.2.toNat)) := by decide

/-- The single-character escapes of readString are exactly the model's `escapeOut`. -/
theorem C03_gen_escapes_agree :
    (∀ p ∈ Gql.Gen.stringEscapes, escapeOut p.1 = some p.2) ∧
    (∀ e, e < 128 → (escapeOut e).isSome → (Gql.Gen.stringEscapes.lookup e).isSome) := by decide

/-! ### per-step equivalence of the model with the specification on ASCII sources -/

/-- what `ws` leaves starts a token or is the end of the text (`NotIgnoredHead l` is
    `match l with | [] => True | b :: _ => ¬ (b = 9 ∨ b = 32 ∨ b = 44 ∨ b = 10 ∨ b = 13)`) -/
theorem C03_ws_leaves_token_start (rest : Bytes) (c : Cur) (hA : Ascii rest) :
    NotIgnoredHead (ws rest c).1 := by
  obtain ⟨ign, _, _, h3⟩ := C03_ignored_only_ws rest c hA
  unfold NotIgnoredHead
  split
  · trivial
  · rename_i b t heq
    rw [heq] at h3
    exact h3

/-- One `ReadToken` step after `ws` (`readTokenBody`) against one lexical item of the specification
    (`Spec.item`), for an ASCII text whose head is not an Ignored character (what `ws` leaves, see
    `C03_ignored_only_ws`):
     1. the item is EOF exactly at the end of the text, and the model then returns the EOF token;
     2. the item is never `Ignored`;
     3. a token item other than a block string is exactly what the model returns: kind, semantic value
        (UTF-8 of the specification's code points), extent `n`, start and stop offsets, cursor;
     4. where the grammar admits no token the model fails (block strings included);
     5. conversely a model token other than EOF / BlockString is the specification's token;
     6. conversely a model failure is a place where the grammar admits no token.
    Block strings: `C03_block_ascii`. -/
theorem C03_step_ascii (rest1 : Bytes) (c1 : Cur) (hA : Ascii rest1) (hH : NotIgnoredHead rest1) :
    (Spec.item rest1 = .eof ↔ rest1 = []) ∧
    (rest1 = [] → readTokenBody rest1 c1 =
        .tok (Token.mk .eof [] c1.endR c1.endR c1.line (colOf c1.endR c1.ls)) [] c1) ∧
    (∀ n, Spec.item rest1 ≠ .ignored n) ∧
    (∀ k v n, Spec.item rest1 = .token k v n → k ≠ .blockString →
      ∃ t c', readTokenBody rest1 c1 = .tok t (rest1.drop n) c' ∧ t.kind = k ∧ t.value = utf8Encode v ∧
        t.start = c1.endR ∧ t.stop = c1.endR + n ∧ c'.endR = c1.endR + n) ∧
    (Spec.item rest1 = .error → ∃ e, readTokenBody rest1 c1 = .err e) ∧
    (∀ t rest' c', readTokenBody rest1 c1 = .tok t rest' c' → t.kind ≠ .eof → t.kind ≠ .blockString →
      ∃ v n, Spec.item rest1 = .token t.kind v n ∧ t.value = utf8Encode v ∧ rest' = rest1.drop n ∧
        t.start = c1.endR ∧ t.stop = c1.endR + n) ∧
    (∀ e, readTokenBody rest1 c1 = .err e → Spec.item rest1 = .error) := by
  have core := step_core rest1 c1 hA hH
  have heof : rest1 = [] → readTokenBody rest1 c1 =
        .tok (Token.mk .eof [] c1.endR c1.endR c1.line (colOf c1.endR c1.ls)) [] c1 := by
    intro h; subst h; simp [readTokenBody, simpleTok, Cur.adv]
  -- a block-string item makes the model return a BlockString token
  have hblk : ∀ v n, Spec.item rest1 = .token .blockString v n →
      ∃ t r' c', readTokenBody rest1 c1 = .tok t r' c' ∧ t.kind = .blockString := by
    intro v n hit
    rw [hit] at core
    simp only [CoreOK, if_true] at core
    obtain ⟨body, raw, nb, r, rfl, hbb, _, _⟩ := core
    obtain ⟨t, c', e1, e2, _⟩ := step_block body c1 (Ascii_tail (Ascii_tail (Ascii_tail hA))) raw nb r hbb
    exact ⟨t, _, c', e1, e2⟩
  refine ⟨?_, heof, ?_, ?_, ?_, ?_, ?_⟩
  · constructor
    · intro h; rw [h] at core; exact core
    · intro h; subst h; rfl
  · intro n h; rw [h] at core; exact core
  · intro k v n h hk
    rw [h] at core
    simp only [CoreOK, hk, if_false] at core
    obtain ⟨t, c', e1, e2, e3, e4, e5, e6, _⟩ := core
    exact ⟨t, c', e1, e2, e3, e4, e5, e6⟩
  · intro h; rw [h] at core; exact core
  · intro t rest' c' hm hk1 hk2
    cases hit : Spec.item rest1 with
    | eof =>
      rw [hit] at core
      rw [heof core] at hm
      injection hm with h1 _ _
      subst h1
      exact absurd rfl hk1
    | ignored n => rw [hit] at core; exact core.elim
    | error =>
      rw [hit] at core
      obtain ⟨e, he⟩ := core
      rw [he] at hm; cases hm
    | token k v n =>
      by_cases hk : k = .blockString
      · subst hk
        obtain ⟨t', r', c'', e1, e2⟩ := hblk v n hit
        rw [e1] at hm
        injection hm with h1 _ _
        subst h1
        exact absurd e2 hk2
      · rw [hit] at core
        simp only [CoreOK, hk, if_false] at core
        obtain ⟨t', c'', e1, e2, e3, e4, e5, _, _⟩ := core
        rw [e1] at hm
        injection hm with h1 h2 _
        subst h1
        exact ⟨v, n, by rw [e2], e3, h2.symm, e4, e5⟩
  · intro e hm
    cases hit : Spec.item rest1 with
    | eof =>
      rw [hit] at core
      rw [heof core] at hm; cases hm
    | ignored n => rw [hit] at core; exact core.elim
    | error => rfl
    | token k v n =>
      by_cases hk : k = .blockString
      · subst hk
        obtain ⟨t', r', c'', e1, _⟩ := hblk v n hit
        rw [e1] at hm; cases hm
      · rw [hit] at core
        simp only [CoreOK, hk, if_false] at core
        obtain ⟨t', c'', e1, _⟩ := core
        rw [e1] at hm; cases hm

/-- Block strings.  For an ASCII body after the opening `"""`:
     * the grammar admits no block string here (`blockBody = none`: unterminated, or a control
       character) iff the model fails;
     * otherwise the item of the specification is the BlockString token with BlockStringValue(raw)
       and extent `nb + 3`, and the model returns a BlockString token with the same start and stop
       whose value and consumed extent additionally include the `quoteRun r` quotes that directly
       follow the specification's closing `"""` (the model closes with the LAST three quotes of a
       longer run: recorded known finding);
     * under `NoLongQuoteRun body` (no quote follows the first unescaped `"""`) the two coincide:
       value (UTF-8 of the specification's value), rest and cursor. -/
theorem C03_block_ascii (body : Bytes) (c1 : Cur) (hA : Ascii body) :
    match Spec.blockBody body with
    | none => Spec.item (34 :: 34 :: 34 :: body) = .error ∧
        ∃ e, readTokenBody (34 :: 34 :: 34 :: body) c1 = .err e
    | some (raw, nb, r) =>
      Spec.item (34 :: 34 :: 34 :: body) = .token .blockString (Spec.blockStringValue raw) (nb + 3) ∧
      r = (34 :: 34 :: 34 :: body).drop (nb + 3) ∧
      ∃ t c', readTokenBody (34 :: 34 :: 34 :: body) c1 = .tok t (r.drop (quoteRun r)) c' ∧
        t.kind = .blockString ∧ t.start = c1.endR ∧ t.stop = c1.endR + (nb + 3) ∧
        c'.endR = c1.endR + (nb + 3) + quoteRun r ∧
        t.value = blockStringValue (normCR raw ++ List.replicate (quoteRun r) 34) ∧
        (NoLongQuoteRun body = true →
          t.value = utf8Encode (Spec.blockStringValue raw) ∧
          r.drop (quoteRun r) = (34 :: 34 :: 34 :: body).drop (nb + 3) ∧ c'.endR = c1.endR + (nb + 3)) := by
  cases hbb : Spec.blockBody body with
  | none =>
    have hm := readBlockLoop_spec c1 body (c1.adv 3 3) [] hA
    rw [hbb] at hm
    refine ⟨by rw [item_block, hbb], ?_⟩
    rw [readTokenBody_block]
    exact hm
  | some p =>
    obtain ⟨raw, nb, r⟩ := p
    obtain ⟨t, c', e1, e2, e3, e4, e5, e6, e7⟩ := step_block body c1 hA raw nb r hbb
    refine ⟨by rw [item_block, hbb], e7, t, c', e1, e2, e3, e4, e5, e6, ?_⟩
    intro hq
    obtain ⟨t', c'', f1, _, f3, _, _, f6, _⟩ := step_block_ok body c1 hA raw nb r hbb hq
    rw [e1] at f1
    injection f1 with g1 g2 g3
    subst g1; subst g3
    exact ⟨f3, g2, f6⟩

/-- Without the hypothesis the two disagree: on `"""a""""` the specification's token is the block
    string `a` of 7 characters (leaving one `"`), the model's token has the value `a"` and consumes
    all 8 characters. -/
theorem C03_block_long_run_counterexample :
    let src : Bytes := [34, 34, 34, 97, 34, 34, 34, 34]
    Ascii src ∧ NoLongQuoteRun (src.drop 3) = false ∧
    Spec.item src = .token .blockString [97] 7 ∧
    ∃ t c', readTokenBody src Cur.init = .tok t [] c' ∧ t.kind = .blockString ∧ t.value = [97, 34] ∧
      t.stop = 7 ∧ c'.endR = 8 := by
  intro src
  have hA : Ascii src := by intro b hb; simp [src] at hb; omega
  have hbb : Spec.blockBody [97, 34, 34, 34, 34] = some ([97], 4, [34]) := by
    rw [blockBody_plain 97 _ (by intro r e; simp at e) (by intro r e; simp at e), blockBody_close]
    rfl
  have hq : quoteRun [34] = 1 := by simp [quoteRun]
  have hb := C03_block_ascii [97, 34, 34, 34, 34] Cur.init (Ascii_tail (Ascii_tail (Ascii_tail hA)))
  rw [hbb] at hb
  obtain ⟨h1, _, t, c', e1, e2, e3, e4, e5, e6, _⟩ := hb
  refine ⟨hA, ?_, ?_, t, c', ?_, e2, ?_, ?_, ?_⟩
  · simp [src, NoLongQuoteRun, hbb, hq]
  · rw [h1]; rfl
  · rw [e1, hq]; rfl
  · rw [e6, hq]; decide
  · rw [e4]; rfl
  · rw [e5, hq]; rfl

-- non-vacuity of the step theorem's token clause
example : Spec.item [123, 32] = .token .braceL [] 1 := by rfl

/-! ### whole inputs -/

/-- The token sequence of the model equals the token sequence of the lexical grammar, and the model
    fails exactly where the grammar admits no token — for ASCII sources in which every block string
    met at an item boundary satisfies `NoLongQuoteRun` (`BlocksOK`, a decidable walk over the items
    of the specification):
     * `Spec.lex inp = .ok toks`    ⇒ `lexAll inp = .done (ts ++ [eof])`, `eof` the EOF token, and `ts`
       agrees with `toks` token by token in kind, value (UTF-8 of the specification's code points),
       start and stop (`obsT t = (t.kind, t.value, t.start, t.stop)`, `obsS s = (s.kind, utf8Encode
       s.value, s.start, s.stop)`);
     * `Spec.lex inp = .error toks` ⇒ `lexAll inp = .fail ts e` with the same agreement of the tokens
       lexed before the error.
    Since `Spec.lex` is total and the two outcomes are disjoint on both sides this is an equivalence.
    Line and column: `C04_tokens_are_spec_tokens_ascii`. -/
theorem C03_lex_ascii (inp : Bytes) (hA : Ascii inp) (hb : BlocksOK (inp.length + 1) inp = true) :
    match Spec.lex inp with
    | .ok toks => ∃ ts eof, lexAll inp = .done (ts ++ [eof]) ∧ eof.kind = .eof ∧ eof.value = [] ∧
        ts.map obsT = toks.map obsS
    | .error toks => ∃ ts e, lexAll inp = .fail ts e ∧ ts.map obsT = toks.map obsS :=
  lexAll_lex inp hA hb

/-- Unconditional form for ASCII sources without three consecutive quotes (no block strings). -/
theorem C03_lex_ascii_no_block (inp : Bytes) (hA : Ascii inp) (hq : NoTripleQuote inp = true) :
    match Spec.lex inp with
    | .ok toks => ∃ ts eof, lexAll inp = .done (ts ++ [eof]) ∧ eof.kind = .eof ∧ eof.value = [] ∧
        ts.map obsT = toks.map obsS
    | .error toks => ∃ ts e, lexAll inp = .fail ts e ∧ ts.map obsT = toks.map obsS :=
  lexAll_lex inp hA (BlocksOK_of_noTriple _ inp hq)

/-- The model never runs out of fuel and succeeds iff the grammar tokenises the whole source
    (same hypotheses). -/
theorem C03_lex_ascii_outcome (inp : Bytes) (hA : Ascii inp) (hb : BlocksOK (inp.length + 1) inp = true) :
    ((∃ toks, Spec.lex inp = .ok toks) ↔ ∃ ts, lexAll inp = .done ts) ∧
    ((∃ toks, Spec.lex inp = .error toks) ↔ ∃ ts e, lexAll inp = .fail ts e) := by
  have h := C03_lex_ascii inp hA hb
  cases hs : Spec.lex inp with
  | ok toks =>
    rw [hs] at h
    obtain ⟨ts, eof, e1, _⟩ := h
    refine ⟨⟨fun _ => ⟨_, e1⟩, fun _ => ⟨toks, rfl⟩⟩, ⟨?_, ?_⟩⟩
    · intro ⟨_, h⟩; cases h
    · intro ⟨_, _, h⟩; rw [e1] at h; cases h
  | error toks =>
    rw [hs] at h
    obtain ⟨ts, e, e1, _⟩ := h
    refine ⟨⟨?_, ?_⟩, ⟨fun _ => ⟨_, _, e1⟩, fun _ => ⟨toks, rfl⟩⟩⟩
    · intro ⟨_, h⟩; cases h
    · intro ⟨_, h⟩; rw [e1] at h; cases h

-- the hypotheses are satisfiable and the conclusion is not vacuous
example : BlocksOK 40 (str "{ a(x: \"s\\n\", y: 1.5e3) \"\"\"b\"\"\" }") = true := by decide
example : (match Spec.lex (str "{ a }") with | .ok ts => ts.length | _ => 0) = 3 := by decide

/-! ### every well-formed UTF-8 source

  The model works on BYTES (`utf8Encode cps`), the specification on the CODE POINTS `cps`; a
  well-formed UTF-8 source is the encoding of exactly one list of Unicode scalar values
  (`Utf8.decode`, a strict decoder: `Utf8.decode_sound`, `Utf8.decode_encode`, `C03_utf8_decode_iff`). -/

/-- the strict decoder and `utf8Encode` are inverse: `Utf8.decode inp = some cps` iff `cps` is a list
    of Unicode scalar values whose UTF-8 encoding is `inp` -/
theorem C03_utf8_decode_iff (inp : Bytes) (cps : List Nat) :
    Utf8.decode inp = some cps ↔ (AllScalar cps ∧ utf8Encode cps = inp) := by
  constructor
  · intro h; have := Utf8.decode_sound inp cps h; exact ⟨this.2, this.1⟩
  · intro ⟨h1, h2⟩; rw [← h2]; exact Utf8.decode_encode cps h1

/-- What `ws` skips on a well-formed UTF-8 text is a run `ign` of code points each of which is an
    Ignored character of the grammar (TAB, space, comma, LF, CR, U+FEFF — the BOM bytes `EF BB BF`
    count as ONE character), and it stops exactly in front of a character that is none of them
    (or at the end); the rune counter advances by the number of code points skipped. -/
theorem C03_ws_utf8 (cps : List Nat) (c : Cur) (hs : AllScalar cps) :
    ∃ ign cps1, cps = ign ++ cps1 ∧ (ws (utf8Encode cps) c).1 = utf8Encode cps1 ∧
      (∀ x ∈ ign, x = 9 ∨ x = 32 ∨ x = 44 ∨ x = 10 ∨ x = 13 ∨ x = 0xFEFF) ∧ NotIgnoredHeadU cps1 ∧
      (ws (utf8Encode cps) c).2.endR = c.endR + ign.length := by
  have key : ∀ (bs : Bytes) (c : Cur) (cps : List Nat), AllScalar cps → bs = utf8Encode cps →
      ∃ ign cps1, cps = ign ++ cps1 ∧ (ws bs c).1 = utf8Encode cps1 ∧
        (∀ x ∈ ign, x = 9 ∨ x = 32 ∨ x = 44 ∨ x = 10 ∨ x = 13 ∨ x = 0xFEFF) := by
    intro bs c
    fun_induction ws bs c
    case case1 c => intro cps hs hbs; exact ⟨[], cps, rfl, by simpa using hbs, by simp⟩
    case case2 b r c hb ih =>
      intro cps hs hbs
      obtain ⟨t, rfl, e, hst⟩ := enc_ascii_head hs hbs.symm (by omega)
      obtain ⟨ign, cps1, e1, e2, e3⟩ := ih t hst e
      refine ⟨b :: ign, cps1, by simp [e1], e2, ?_⟩
      intro x hx; simp at hx; rcases hx with rfl | hx
      · omega
      · exact e3 x hx
    case case3 r c hb1 ih =>
      intro cps hs hbs
      obtain ⟨t, rfl, e, hst⟩ := enc_ascii_head hs hbs.symm (by omega)
      obtain ⟨ign, cps1, e1, e2, e3⟩ := ih t hst e
      refine ⟨10 :: ign, cps1, by simp [e1], e2, ?_⟩
      intro x hx; simp at hx; rcases hx with rfl | hx
      · omega
      · exact e3 x hx
    case case4 c r' hb1 hb2 ih =>
      intro cps hs hbs
      obtain ⟨t, rfl, e, hst⟩ := enc_ascii_prefix [13, 10] hs (by simpa using hbs.symm)
        (by intro x hx; simp at hx; omega)
      obtain ⟨ign, cps1, e1, e2, e3⟩ := ih t hst e
      refine ⟨13 :: 10 :: ign, cps1, by simp [e1], e2, ?_⟩
      intro x hx; simp at hx; rcases hx with rfl | rfl | hx
      · omega
      · omega
      · exact e3 x hx
    case case5 c r hr' hb1 hb2 ih =>
      intro cps hs hbs
      obtain ⟨t, rfl, e, hst⟩ := enc_ascii_head hs hbs.symm (by omega)
      obtain ⟨ign, cps1, e1, e2, e3⟩ := ih t hst e
      refine ⟨13 :: ign, cps1, by simp [e1], e2, ?_⟩
      intro x hx; simp at hx; rcases hx with rfl | hx
      · omega
      · exact e3 x hx
    case case6 c r' _ _ _ ih =>
      intro cps hs hbs
      obtain ⟨cp, t, rfl, hcs, hc128, hst, e⟩ := enc_high_head hs hbs.symm (by omega)
      obtain ⟨rfl, e'⟩ := enc_bom hcs e.symm
      obtain ⟨ign, cps1, e1, e2, e3⟩ := ih t hst e'.symm
      refine ⟨0xFEFF :: ign, cps1, by simp [e1], e2, ?_⟩
      intro x hx; simp at hx; rcases hx with rfl | hx
      · omega
      · exact e3 x hx
    case case7 => intro cps hs hbs; exact ⟨[], cps, rfl, hbs, by simp⟩
    case case8 => intro cps hs hbs; exact ⟨[], cps, rfl, hbs, by simp⟩
  obtain ⟨ign, cps1, e0, h1, _, hH, h4, _, _⟩ := ws_u (utf8Encode cps) c cps hs rfl
  obtain ⟨ign', cps1', e0', h1', h3'⟩ := key (utf8Encode cps) c cps hs rfl
  -- the two decompositions coincide: both rests have the same encoding
  have hlen : cps1.length = cps1'.length := by
    have hsc : AllScalar cps1' := by rw [e0'] at hs; exact AllScalar_append_right hs
    have hsc1 : AllScalar cps1 := by rw [e0] at hs; exact AllScalar_append_right hs
    have d1 := Utf8.decode_encode cps1 hsc1
    have d2 := Utf8.decode_encode cps1' hsc
    rw [← h1, h1'] at d1
    rw [d1] at d2
    injection d2 with d2
    rw [d2]
  have hign : ign = ign' := by
    have h := e0.symm.trans e0'
    have hl : ign.length = ign'.length := by
      have := congrArg List.length h
      simp at this; omega
    exact (List.append_inj h hl).1
  subst hign
  exact ⟨ign, cps1, e0, h1, h3', hH, h4⟩

/-- One `ReadToken` step after `ws` (`readTokenBody`, run on the BYTES `utf8Encode cps1`) against one
    lexical item of the specification (`Spec.item`, on the CODE POINTS `cps1`), for every text of
    Unicode scalar values whose head is not an Ignored character (what `ws` leaves, `C03_ws_utf8`).
    Same seven clauses as `C03_step_ascii`; extents `n` are counted in code points, the rest of the
    model is the encoding of the rest of the specification.  In particular a non-ASCII character
    where a token must start is an error on both sides (clauses 4 and 6). -/
theorem C03_step_utf8 (cps1 : List Nat) (c1 : Cur) (hs : AllScalar cps1) (hH : NotIgnoredHeadU cps1) :
    (Spec.item cps1 = .eof ↔ cps1 = []) ∧
    (cps1 = [] → readTokenBody (utf8Encode cps1) c1 =
        .tok (Token.mk .eof [] c1.endR c1.endR c1.line (colOf c1.endR c1.ls)) [] c1) ∧
    (∀ n, Spec.item cps1 ≠ .ignored n) ∧
    (∀ k v n, Spec.item cps1 = .token k v n → k ≠ .blockString →
      ∃ t c', readTokenBody (utf8Encode cps1) c1 = .tok t (utf8Encode (cps1.drop n)) c' ∧ t.kind = k ∧
        t.value = utf8Encode v ∧ t.start = c1.endR ∧ t.stop = c1.endR + n ∧ c'.endR = c1.endR + n) ∧
    (Spec.item cps1 = .error → ∃ e, readTokenBody (utf8Encode cps1) c1 = .err e) ∧
    (∀ t rest' c', readTokenBody (utf8Encode cps1) c1 = .tok t rest' c' → t.kind ≠ .eof →
      t.kind ≠ .blockString →
      ∃ v n, Spec.item cps1 = .token t.kind v n ∧ t.value = utf8Encode v ∧
        rest' = utf8Encode (cps1.drop n) ∧ t.start = c1.endR ∧ t.stop = c1.endR + n) ∧
    (∀ e, readTokenBody (utf8Encode cps1) c1 = .err e → Spec.item cps1 = .error) := by
  have core := step_core_u cps1 c1 hs hH
  have heof : cps1 = [] → readTokenBody (utf8Encode cps1) c1 =
        .tok (Token.mk .eof [] c1.endR c1.endR c1.line (colOf c1.endR c1.ls)) [] c1 := by
    intro h; subst h; simp [utf8Encode_nil, readTokenBody, simpleTok, Cur.adv]
  have hblk : ∀ v n, Spec.item cps1 = .token .blockString v n →
      ∃ t r' c', readTokenBody (utf8Encode cps1) c1 = .tok t r' c' ∧ t.kind = .blockString := by
    intro v n hit
    rw [hit] at core
    simp only [CoreOKU, if_true] at core
    obtain ⟨body, raw, nb, r, rfl, hbb, _, _⟩ := core
    have hm := step_block_u body c1 ⟨c1.line, c1.ls, c1.endR + 3, false⟩
      (AllScalar_tail (AllScalar_tail (AllScalar_tail hs))) ⟨⟨rfl, rfl, rfl⟩, by simp⟩
    rw [hbb] at hm
    obtain ⟨c', x, _, _, _, _, e5⟩ := hm
    exact ⟨_, _, c', e5, rfl⟩
  refine ⟨?_, heof, ?_, ?_, ?_, ?_, ?_⟩
  · constructor
    · intro h; rw [h] at core; exact core
    · intro h; subst h; rfl
  · intro n h; rw [h] at core; exact core
  · intro k v n h hk
    rw [h] at core
    simp only [CoreOKU, hk, if_false] at core
    obtain ⟨⟨t, c', e1, e2, e3, e4, e5, e6, _⟩, _⟩ := core
    exact ⟨t, c', e1, e2, e3, e4, e5, e6⟩
  · intro h; rw [h] at core; exact core
  · intro t rest' c' hm hk1 hk2
    cases hit : Spec.item cps1 with
    | eof =>
      rw [hit] at core
      rw [heof core] at hm
      injection hm with h1 _ _
      subst h1
      exact absurd rfl hk1
    | ignored n => rw [hit] at core; exact core.elim
    | error =>
      rw [hit] at core
      obtain ⟨e, he⟩ := core
      rw [he] at hm; cases hm
    | token k v n =>
      by_cases hk : k = .blockString
      · subst hk
        obtain ⟨t', r', c'', e1, e2⟩ := hblk v n hit
        rw [e1] at hm
        injection hm with h1 _ _
        subst h1
        exact absurd e2 hk2
      · rw [hit] at core
        simp only [CoreOKU, hk, if_false] at core
        obtain ⟨⟨t', c'', e1, e2, e3, e4, e5, _, _⟩, _⟩ := core
        rw [e1] at hm
        injection hm with h1 h2 _
        subst h1
        exact ⟨v, n, by rw [e2], e3, h2.symm, e4, e5⟩
  · intro e hm
    cases hit : Spec.item cps1 with
    | eof =>
      rw [hit] at core
      rw [heof core] at hm; cases hm
    | ignored n => rw [hit] at core; exact core.elim
    | error => rfl
    | token k v n =>
      by_cases hk : k = .blockString
      · subst hk
        obtain ⟨t', r', c'', e1, _⟩ := hblk v n hit
        rw [e1] at hm; cases hm
      · rw [hit] at core
        simp only [CoreOKU, hk, if_false] at core
        obtain ⟨⟨t', c'', e1, _⟩, _⟩ := core
        rw [e1] at hm; cases hm

/-- Block strings over arbitrary scalars (same statement as `C03_block_ascii`): the grammar admits
    no block string iff the model fails; otherwise the model's token has the specification's start
    and stop, and its value and consumed extent additionally include the `quoteRun r` quotes that
    directly follow the specification's closing quotes (recorded known finding); under
    `NoLongQuoteRun body` value (UTF-8 of BlockStringValue(raw)), rest and cursor coincide. -/
theorem C03_block_utf8 (body : List Nat) (c1 : Cur) (hs : AllScalar body) :
    match Spec.blockBody body with
    | none => Spec.item (34 :: 34 :: 34 :: body) = .error ∧
        ∃ e, readTokenBody (utf8Encode (34 :: 34 :: 34 :: body)) c1 = .err e
    | some (raw, nb, r) =>
      Spec.item (34 :: 34 :: 34 :: body) = .token .blockString (Spec.blockStringValue raw) (nb + 3) ∧
      r = (34 :: 34 :: 34 :: body).drop (nb + 3) ∧
      ∃ t c', readTokenBody (utf8Encode (34 :: 34 :: 34 :: body)) c1 =
          .tok t (utf8Encode (r.drop (quoteRun r))) c' ∧
        t.kind = .blockString ∧ t.start = c1.endR ∧ t.stop = c1.endR + (nb + 3) ∧
        c'.endR = c1.endR + (nb + 3) + quoteRun r ∧
        t.value = blockStringValue (utf8Encode (normCR raw) ++ List.replicate (quoteRun r) 34) ∧
        (NoLongQuoteRun body = true →
          t.value = utf8Encode (Spec.blockStringValue raw) ∧
          r.drop (quoteRun r) = (34 :: 34 :: 34 :: body).drop (nb + 3) ∧ c'.endR = c1.endR + (nb + 3)) := by
  have hm := step_block_u body c1 ⟨c1.line, c1.ls, c1.endR + 3, false⟩ hs ⟨⟨rfl, rfl, rfl⟩, by simp⟩
  cases hbb : Spec.blockBody body with
  | none =>
    rw [hbb] at hm
    exact ⟨by rw [item_block, hbb], hm⟩
  | some p =>
    obtain ⟨raw, nb, r⟩ := p
    rw [hbb] at hm
    obtain ⟨c', x, e1, e2, e3, e4, e5⟩ := hm
    have hd : r = (34 :: 34 :: 34 :: body).drop (nb + 3) := by
      have := blockBody_drop hbb
      simpa using this.symm
    refine ⟨by rw [item_block, hbb], hd, _, c', e5, rfl, rfl, by simp [Cur.adv]; omega,
      by rw [e4]; simp [Cur.adv]; omega, by simp, ?_⟩
    intro hq
    have hq0 : quoteRun r = 0 := by
      unfold NoLongQuoteRun at hq
      rw [hbb] at hq
      simpa using hq
    refine ⟨?_, by rw [hq0, ← hd]; simp, by rw [e4, hq0]; simp [Cur.adv]; omega⟩
    simp only [hq0, List.replicate_zero, List.append_nil, List.reverse_nil, List.nil_append]
    rw [blockStringValue_enc _ (blockBody_scalar hbb hs), model_value_eq_spec]

/-- `C03_lex_utf8` stated on the code points: the model run on `utf8Encode cps` against the
    specification run on `cps`, for every list of Unicode scalar values. -/
theorem C03_lex_scalars (cps : List Nat) (hs : AllScalar cps) (hb : BlocksOK (cps.length + 1) cps = true) :
    match Spec.lex cps with
    | .ok toks => ∃ ts eof, lexAll (utf8Encode cps) = .done (ts ++ [eof]) ∧ eof.kind = .eof ∧
        eof.value = [] ∧ ts.map obsT = toks.map obsS
    | .error toks => ∃ ts e, lexAll (utf8Encode cps) = .fail ts e ∧ ts.map obsT = toks.map obsS :=
  lexAll_lex_u cps hs hb

/-- The token sequence of the model equals the token sequence of the lexical grammar, and the model
    fails exactly where the grammar admits no token — for EVERY well-formed UTF-8 source `inp`
    (`Utf8.decode inp = some cps`: `cps` are its code points) in which every block string met at an
    item boundary satisfies `NoLongQuoteRun` (`BlocksOK` on the decoded text):
     * `Spec.lex cps = .ok toks`    ⇒ `lexAll inp = .done (ts ++ [eof])`, `eof` the EOF token, and `ts`
       agrees with `toks` token by token in kind, value (UTF-8 of the specification's code points),
       start and stop (offsets in CODE POINTS: `obsT t = (t.kind, t.value, t.start, t.stop)`,
       `obsS s = (s.kind, utf8Encode s.value, s.start, s.stop)`);
     * `Spec.lex cps = .error toks` ⇒ `lexAll inp = .fail ts e` with the same agreement of the tokens
       lexed before the error.
    Line and column: `C04_tokens_are_spec_tokens_utf8`. -/
theorem C03_lex_utf8 (inp : Bytes) (cps : List Nat) (h : Utf8.decode inp = some cps)
    (hb : BlocksOK (cps.length + 1) cps = true) :
    match Spec.lex cps with
    | .ok toks => ∃ ts eof, lexAll inp = .done (ts ++ [eof]) ∧ eof.kind = .eof ∧ eof.value = [] ∧
        ts.map obsT = toks.map obsS
    | .error toks => ∃ ts e, lexAll inp = .fail ts e ∧ ts.map obsT = toks.map obsS := by
  obtain ⟨h1, h2⟩ := Utf8.decode_sound inp cps h
  rw [← h1]
  exact lexAll_lex_u cps h2 hb

/-- the same with the hypothesis `Utf8.valid inp` of the property text -/
theorem C03_lex_utf8_valid (inp : Bytes) (h : Utf8.valid inp) :
    ∃ cps, Utf8.decode inp = some cps ∧ (BlocksOK (cps.length + 1) cps = true →
      match Spec.lex cps with
      | .ok toks => ∃ ts eof, lexAll inp = .done (ts ++ [eof]) ∧ eof.kind = .eof ∧ eof.value = [] ∧
          ts.map obsT = toks.map obsS
      | .error toks => ∃ ts e, lexAll inp = .fail ts e ∧ ts.map obsT = toks.map obsS) := by
  unfold Utf8.valid at h
  cases hd : Utf8.decode inp with
  | none => rw [hd] at h; cases h
  | some cps => exact ⟨cps, rfl, fun hb => C03_lex_utf8 inp cps hd hb⟩

/-- Unconditional form for well-formed UTF-8 sources without three consecutive quotes. -/
theorem C03_lex_utf8_no_block (inp : Bytes) (cps : List Nat) (h : Utf8.decode inp = some cps)
    (hq : NoTripleQuote cps = true) :
    match Spec.lex cps with
    | .ok toks => ∃ ts eof, lexAll inp = .done (ts ++ [eof]) ∧ eof.kind = .eof ∧ eof.value = [] ∧
        ts.map obsT = toks.map obsS
    | .error toks => ∃ ts e, lexAll inp = .fail ts e ∧ ts.map obsT = toks.map obsS :=
  C03_lex_utf8 inp cps h (BlocksOK_of_noTriple _ cps hq)

/-- The model never runs out of fuel and succeeds iff the grammar tokenises the whole source. -/
theorem C03_lex_utf8_outcome (inp : Bytes) (cps : List Nat) (h : Utf8.decode inp = some cps)
    (hb : BlocksOK (cps.length + 1) cps = true) :
    ((∃ toks, Spec.lex cps = .ok toks) ↔ ∃ ts, lexAll inp = .done ts) ∧
    ((∃ toks, Spec.lex cps = .error toks) ↔ ∃ ts e, lexAll inp = .fail ts e) := by
  have h := C03_lex_utf8 inp cps h hb
  cases hs : Spec.lex cps with
  | ok toks =>
    rw [hs] at h
    obtain ⟨ts, eof, e1, _⟩ := h
    refine ⟨⟨fun _ => ⟨_, e1⟩, fun _ => ⟨toks, rfl⟩⟩, ⟨?_, ?_⟩⟩
    · intro ⟨_, h⟩; cases h
    · intro ⟨_, _, h⟩; rw [e1] at h; cases h
  | error toks =>
    rw [hs] at h
    obtain ⟨ts, e, e1, _⟩ := h
    refine ⟨⟨?_, ?_⟩, ⟨fun _ => ⟨_, _, e1⟩, fun _ => ⟨toks, rfl⟩⟩⟩
    · intro ⟨_, h⟩; cases h
    · intro ⟨_, h⟩; rw [e1] at h; cases h

/-- Outside the property (the specification is about well-formed sources), but cheap and exact: a
    byte ≥ 128 where a token must start — the lead byte of a valid multi-byte character, a stray
    continuation byte or any other invalid byte alike — always fails, at the cursor, with the
    message built from that single BYTE read as a code point (Go: `string(rune(byte))`). -/
theorem C03_lex_invalid_utf8_partial (b : Nat) (tl : Bytes) (c : Cur) (hb : 128 ≤ b) :
    readTokenBody (b :: tl) c =
      .err { msg := str "Cannot parse the unexpected character \"" ++ encodeRune b ++ str "\".",
             line := c.line, col := colOf c.endR c.ls } := by
  rw [readTokenBody_bad b tl c (punct_high (by omega)) (by omega) (by omega)
    (by simp [isNameStart]; omega) (by simp [isDigit]; omega) (by omega)]
  have h1 : ¬ (b < 32 ∧ b ≠ 9 ∧ b ≠ 10 ∧ b ≠ 13) := by omega
  have h2 : ¬ b = 39 := by omega
  simp only [unexpectedChar, h1, h2, if_false, mkErr]

/-- Outside the property as well, and exact: since the repair of `readString` (the default branch
    appends the SOURCE bytes to the buffer) the string loop does not depend on whether an escape
    sequence has been seen (`buf`): with or without escapes the value of a String token keeps the raw
    bytes of every unescaped character, ill-formed UTF-8 included (`"\t\xFF"` has the value 09 FF;
    before the repair 09 EF BF BD).  Block strings still re-encode what they decode. -/
theorem C03_string_loop_buf_irrelevant (q : Cur) (l : Bytes) (c : Cur) (acc : Bytes) (b1 b2 : Bool) :
    readStringLoop q l c acc b1 = readStringLoop q l c acc b2 :=
  readStringLoop_buf_irrelevant q l c acc b1 b2

example : ∃ c', readToken [34, 92, 116, 255, 34] Cur.init =
    .tok { kind := .string, value := [9, 255], start := 0, stop := 5, line := 1, col := 2 } [] c' := by
  simp [readToken, ws, readTokenBody, isNameStart, isDigit, readStringLoop.eq_def, decodeRune, runeError,
    escapeOut, Cur.init, Cur.adv, colOf]

-- non-ASCII sources: two-byte character in a string, a comment with a three-byte character, BOM
example : Utf8.decode [0xEF, 0xBB, 0xBF, 34, 0xC3, 0xA9, 34] = some [0xFEFF, 34, 0xE9, 34] := by decide
example : (match Spec.lex [0xFEFF, 34, 0xE9, 34] with | .ok ts => ts.map obsS | _ => []) =
    [(Kind.string, [0xC3, 0xA9], 1, 4)] := by decide
example : BlocksOK 5 [0xFEFF, 34, 0xE9, 34] = true := by decide

#print axioms C03_step_ascii
#print axioms C03_block_ascii
#print axioms C03_block_long_run_counterexample
#print axioms C03_lex_ascii
#print axioms C03_lex_ascii_no_block
#print axioms C03_lex_ascii_outcome
#print axioms C03_utf8_decode_iff
#print axioms C03_ws_utf8
#print axioms C03_step_utf8
#print axioms C03_block_utf8
#print axioms C03_lex_scalars
#print axioms C03_lex_utf8
#print axioms C03_lex_utf8_valid
#print axioms C03_lex_utf8_no_block
#print axioms C03_lex_utf8_outcome
#print axioms C03_lex_invalid_utf8_partial
#print axioms C03_string_loop_buf_irrelevant
