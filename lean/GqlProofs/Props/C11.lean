import GqlProofs.Effects.Interleave
/-
  C11 — "Validating documents, coercing variables, resolving arguments and formatting never
  modify a loaded schema, and any number of goroutines may do these things concurrently on one
  shared schema (each with its own document) without data races; every concurrent call returns
  exactly what the same call returns when run alone."                                   (PARTIAL)

  What is proved (logic part): in the generic model of `GqlModel/Effects.lean` — calls as step
  machines over a heap whose locations are tagged `schema | doc i | vars i | fresh i` — the
  ownership discipline (every call reads only the schema and what it owns, writes only what it
  owns) implies that EVERY interleaving of the calls' steps gives each call exactly the control
  state, the termination behaviour and the result of running it alone, and leaves every schema
  location as it was.
  What ties the discipline to the code (static part): `gen_stores_accounted` — every store site
  the extractor finds in validator/, validator/rules/, ast/argmap.go, ast/value.go, formatter/ is
  classified by hand, none as `schema`; `registry` (the global rule set) and `construction`
  (schema loading) sites are confined to functions no operation of the property executes.
  What is measured, not proved (runtime part, check C11): data-race freedom under the Go memory
  model (race detector over random histories on the real code), a deep snapshot of the shared
  schema before/after, and every concurrent result against its sequential twin.
-/
open Gql.Effects

variable {σ ρ : Type}

/-- Every interleaving is, for each call, indistinguishable from running that call alone for the
    same number of its own steps: same control state, same view of the heap it may read, same
    "finished or not", same result. -/
theorem C11_interleaving_equiv (calls : Nat → Call σ ρ) (hd : ∀ k, Disciplined k (calls k))
    (h0 : Heap) (sched : List Nat) (i : Nat) :
    let inter := run calls sched (start calls h0)
    let alone := runAlone calls i (sched.count i) (start calls h0)
    inter.st i = alone.st i ∧
    (∀ l, readable i l → inter.heap l = alone.heap l) ∧
    (finished calls i inter ↔ finished calls i alone) ∧
    (calls i).result (inter.st i) = (calls i).result (alone.st i) := by
  intro inter alone
  have h : Agree i inter alone := run_agree_alone calls hd i sched _ _ (Agree.refl i _)
  refine ⟨h.1, h.2, ?_, by rw [h.1]⟩
  unfold finished
  rw [h.1, (hd i).reads _ _ _ h.2]

/-- No interleaving changes a schema location. -/
theorem C11_schema_unchanged (calls : Nat → Call σ ρ) (hd : ∀ k, Disciplined k (calls k))
    (h0 : Heap) (sched : List Nat) (l : Loc) (hl : l.owner = .schema) :
    (run calls sched (start calls h0)).heap l = h0 l :=
  run_schema calls hd sched _ l hl

/-- A call that has finished in the interleaving has finished alone as well, after the same
    number of steps, with the same result: "returns exactly what the same call returns when run
    alone". -/
theorem C11_result_alone (calls : Nat → Call σ ρ) (hd : ∀ k, Disciplined k (calls k))
    (h0 : Heap) (sched : List Nat) (i : Nat)
    (hfin : finished calls i (run calls sched (start calls h0))) :
    finished calls i (runAlone calls i (sched.count i) (start calls h0)) ∧
    (calls i).result ((run calls sched (start calls h0)).st i)
      = (calls i).result ((runAlone calls i (sched.count i) (start calls h0)).st i) := by
  have h := C11_interleaving_equiv calls hd h0 sched i
  exact ⟨h.2.2.1.mp hfin, h.2.2.2⟩

/-- F6: every store site extracted from the sources is classified, in order, under exactly its
    key, and none is classified `schema`.  A new, vanished or reshaped store breaks this. -/
theorem gen_stores_accounted : storesMatch Gql.Gen.stores accountedStores = true := by decide +kernel

theorem gen_stores_placement : accountedStores.all classPlacementOK = true := by decide +kernel


/-- The static tie: every store site of the anchored files is classified and none writes a loaded
    schema; mapped into the model, a site run by call `i` writes a location call `i` owns (or is a
    `registry` site, which no operation of the property executes). -/
theorem C11_stores_accounted :
    storesMatch Gql.Gen.stores accountedStores = true ∧
    accountedStores.all classPlacementOK = true ∧
    ∀ kc ∈ accountedStores, ∀ i : Nat, ∀ o, kc.2.owner i = some o → o ≠ .schema := by
  refine ⟨gen_stores_accounted, gen_stores_placement, ?_⟩
  have h : accountedStores.all (fun kc => kc.2 != .schema) = true := by decide +kernel
  intro kc hkc i o ho
  have hne : kc.2 ≠ .schema := by simpa using List.all_eq_true.mp h kc hkc
  cases hc : kc.2 with
  | schema => exact absurd hc hne
  | doc => rw [hc] at ho; simp only [StoreClass.owner, Option.some.injEq] at ho; subst ho; simp
  | vars => rw [hc] at ho; simp only [StoreClass.owner, Option.some.injEq] at ho; subst ho; simp
  | fresh => rw [hc] at ho; simp only [StoreClass.owner, Option.some.injEq] at ho; subst ho; simp
  | construction => rw [hc] at ho; simp only [StoreClass.owner, Option.some.injEq] at ho; subst ho; simp
  | registry => rw [hc] at ho; simp [StoreClass.owner] at ho

/- ---------------- a concrete instance (non-vacuity) ---------------- -/

/-- Call `k` ("validate document k"): reads schema cell 0, then writes it, plus one, into cell 0
    of its own document (an annotation), then finishes and returns what it wrote. -/
def demoCall (k : Nat) : Call (Option Nat) (Option Nat) where
  init := none
  step := fun s h =>
    match s with
    | none => let v := h ⟨.schema, 0⟩ + 1; some (some v, [(⟨.doc k, 0⟩, v)])
    | some _ => none
  result := id

theorem demoCall_disciplined (k : Nat) : Disciplined k (demoCall k) where
  reads := by
    intro s h h' hag
    cases s with
    | none =>
      have : h ⟨.schema, 0⟩ = h' ⟨.schema, 0⟩ := hag _ (Or.inl rfl)
      simp [demoCall, this]
    | some _ => rfl
  writes := by
    intro s h s' ws hs w hw
    cases s with
    | none =>
      simp only [demoCall, Option.some.injEq, Prod.mk.injEq] at hs
      obtain ⟨_, rfl⟩ := hs
      simp only [List.mem_singleton] at hw
      subst hw
      exact Or.inl rfl
    | some _ => simp [demoCall] at hs

/-- two goroutines, steps interleaved 1,0,0,1: each ends with the result it has alone (schema cell
    0 holds 41, so both return 42), and the schema cell still holds 41 -/
example :
    let h0 : Heap := fun l => if l = ⟨.schema, 0⟩ then 41 else 0
    let c := run demoCall [1, 0, 0, 1] (start demoCall h0)
    (demoCall 0).result (c.st 0) = some 42 ∧ (demoCall 1).result (c.st 1) = some 42 ∧
      c.heap ⟨.schema, 0⟩ = 41 ∧ c.heap ⟨.doc 0, 0⟩ = 42 ∧ c.heap ⟨.doc 1, 0⟩ = 42 := by
  decide

example (h0 : Heap) (sched : List Nat) (l : Loc) (hl : l.owner = .schema) :
    (run demoCall sched (start demoCall h0)).heap l = h0 l :=
  C11_schema_unchanged demoCall demoCall_disciplined h0 sched l hl

/-- the discipline is needed: a call that writes the schema is seen by the others -/
def rogueCall (k : Nat) : Call (Option Nat) (Option Nat) where
  init := none
  step := fun s h =>
    match s with
    | none =>
      if k = 0 then some (some 0, [(⟨.schema, 0⟩, 7)])            -- call 0 "memoises" into the schema
      else some (some (h ⟨.schema, 0⟩), [])                        -- the others read that cell
    | some _ => none
  result := id

theorem C11_interleaving_counterexample_without_discipline :
    let h0 : Heap := fun _ => 0
    (rogueCall 1).result ((run rogueCall [0, 1] (start rogueCall h0)).st 1) = some 7 ∧
    (rogueCall 1).result ((runAlone rogueCall 1 1 (start rogueCall h0)).st 1) = some 0 := by
  decide
