import GqlProofs.Schema.Perm
import GqlProofs.Schema.ErrLoc
import GqlProofs.Schema.Examples
/-
  C17 — schema loading is order- and split-independent.
-/
open Gql Gql.Load

/-- merging parsed sources is list concatenation, component by component … -/
theorem C17_merge_is_concat (a b : SchemaDoc) :
    (a.merge b).schema = a.schema ++ b.schema ∧ (a.merge b).schemaExt = a.schemaExt ++ b.schemaExt ∧
    (a.merge b).directives = a.directives ++ b.directives ∧ (a.merge b).definitions = a.definitions ++ b.definitions ∧
    (a.merge b).extensions = a.extensions ++ b.extensions := ⟨rfl, rfl, rfl, rfl, rfl⟩

/-- … so loading the sources in another order loads a document whose five lists are permutations
    of the original ones (every re-partition of the definitions over sources reduces to a permutation) -/
theorem C17_merge_comm_perm (a b : SchemaDoc) :
    (a.merge b).schema.Perm (b.merge a).schema ∧ (a.merge b).schemaExt.Perm (b.merge a).schemaExt ∧
    (a.merge b).directives.Perm (b.merge a).directives ∧ (a.merge b).definitions.Perm (b.merge a).definitions ∧
    (a.merge b).extensions.Perm (b.merge a).extensions :=
  ⟨List.perm_append_comm, List.perm_append_comm, List.perm_append_comm, List.perm_append_comm, List.perm_append_comm⟩

theorem C17_merge_assoc (a b c : SchemaDoc) : (a.merge b).merge c = a.merge (b.merge c) := by
  simp [SchemaDoc.merge, List.append_assoc]

/-- R17a (kernel-checked): two `extend schema { query: … }` blocks load in both orders, with
    different query roots — the loaded schema depends on the order of the sources -/
theorem C17_schema_perm_counterexample :
    ∃ sd sd' s s', sd'.schemaExt.Perm sd.schemaExt ∧ sd'.definitions = sd.definitions ∧
      load sd = .ok s ∧ load sd' = .ok s' ∧ s.query ≠ s'.query := by
  refine ⟨Examples.rootsAB, Examples.rootsBA,
    mkSchema Examples.rootsAB (match buildState Examples.rootsAB with | .ok st => st | .error _ => default)
      { query := some (str "B"), mutation := none, subscription := none } [],
    mkSchema Examples.rootsBA (match buildState Examples.rootsBA with | .ok st => st | .error _ => default)
      { query := some (str "A"), mutation := none, subscription := none } [], ?_, rfl, rfl, rfl, by decide⟩
  exact List.Perm.swap _ _ _

/-- R7b (kernel-checked): a redeclared builtin directive — the LAST declaration wins, so the order of
    the sources decides which definition of `@skip` the schema contains -/
theorem C17_directive_perm_counterexample :
    ∃ sd sd' s s', sd'.directives.Perm sd.directives ∧ load sd = .ok s ∧ load sd' = .ok s' ∧
      (s.directives.lookup (str "skip")).map (·.locations) ≠ (s'.directives.lookup (str "skip")).map (·.locations) := by
  refine ⟨Examples.skipFO, Examples.skipOF,
    mkSchema Examples.skipFO (match buildState Examples.skipFO with | .ok st => st | .error _ => default) noRoots [],
    mkSchema Examples.skipOF (match buildState Examples.skipOF with | .ok st => st | .error _ => default) noRoots [],
    List.Perm.swap _ _ _, rfl, rfl, by decide⟩

/-- the KIND of failure depends on the order of the definitions: with `union U = X` (X undeclared)
    written before `type T implements U`, the loader panics; written after it, the loader returns an error -/
theorem C17_verdict_perm_counterexample :
    ∃ sd sd', sd'.definitions.Perm sd.definitions ∧ sd'.extensions = sd.extensions ∧
      (load sd).isPanic = true ∧ (load sd').isPanic = false := by
  refine ⟨Examples.orderUT, Examples.orderTU, ?_, rfl, by decide, by decide⟩
  simp only [Examples.orderUT, Examples.orderTU, Examples.doc]
  apply List.Perm.append_left
  exact List.Perm.cons _ (List.Perm.cons _ (List.Perm.swap _ _ _))

/- ------------------------------------------------------------------ permuting the definitions -/

/-- **order independence of the verdict**: if `sd'` is `sd` with its type definitions permuted
    (`DefsPerm`: `definitions` permuted arbitrarily; `extensions`, `directives`, `schema`, `schemaExt`
    unchanged), then `sd'` loads iff `sd` loads.  (The *kind* of failure — error vs panic — and the
    reported error may differ: `C17_verdict_perm_counterexample`.) -/
theorem C17_ok_perm_definitions {sd sd' : SchemaDoc} (hp : DefsPerm sd sd') : (load sd').isOk = (load sd).isOk := by
  rw [Bool.eq_iff_iff, isOk_iff, isOk_iff]
  constructor
  · intro ⟨s, h⟩; exact load_ok_of_defsPerm hp.symm h
  · intro ⟨s, h⟩; exact load_ok_of_defsPerm hp h

/-- **order independence of the result**: the two loaded schemas have the same roots, schema
    directives, description and directive definitions, the same types up to the order of the map
    entries, and the same `PossibleTypes` / `Implements` lists up to order -/
theorem C17_schema_perm_definitions {sd sd' : SchemaDoc} (hp : DefsPerm sd sd') {s s' : Schema}
    (h : load sd = .ok s) (h' : load sd' = .ok s') : SchemaEquiv s s' := by
  obtain ⟨s'', h'', E⟩ := load_defsPerm_equiv hp h
  rw [h'] at h''
  simp only [LoadResult.ok.injEq] at h''
  subst h''
  exact E

/-- non-vacuity: a loading document and a proper permutation of it -/
example : DefsPerm Examples.rootsAB { Examples.rootsAB with definitions := Examples.rootsAB.definitions.reverse } ∧
    (load Examples.rootsAB).isOk = true :=
  ⟨⟨List.reverse_perm _, rfl, rfl, rfl, rfl⟩, by decide⟩

/-- **a load error names a file in which one of the nodes involved was written**: the error's
    (line, column, source index) are those of a node of the merged document (`docPositions`: the
    positions of definitions, extensions, fields, field types, arguments, argument types, applied
    directives and their arguments, directive definitions, schema blocks and operation types), so the
    reported file is the source that node was parsed from.
    (The same statement is the loader half of C04, `C04_schema_error_loc`.) -/
theorem C17_error_file {sd : SchemaDoc} {e : LoadError} (he : load sd = .err e) :
    ∃ p ∈ docPositions sd, e.line = p.line ∧ e.col = p.col ∧ e.src = p.src :=
  load_error_at_node he

/-- non-vacuity: a rejected document -/
example : ∃ e, load Examples.noPanicDoc = .err e := by
  cases h : load Examples.noPanicDoc with
  | err e => exact ⟨e, rfl⟩
  | ok s => have : (load Examples.noPanicDoc).isOk = false := by decide
            rw [h] at this; simp [LoadResult.isOk] at this
  | panic => have : (load Examples.noPanicDoc).isPanic = false := by decide
             rw [h] at this; simp [LoadResult.isPanic] at this
