import GqlProofs.Schema.Sound
import GqlProofs.Schema.ErrLoc
import GqlProofs.Schema.Examples
import GqlProofs.Schema.WfPerm
/-
  C17 — schema loading is order- and split-independent.
-/
open Gql Gql.Load

/-- merging parsed sources is list concatenation, component by component … -/
theorem C17_merge_is_concat (a b : SchemaDoc) :
    (a.merge b).schema = a.schema ++ b.schema ∧ (a.merge b).schemaExt = a.schemaExt ++ b.schemaExt ∧
    (a.merge b).directives = a.directives ++ b.directives ∧ (a.merge b).definitions = a.definitions ++ b.definitions ∧
    (a.merge b).extensions = a.extensions ++ b.extensions := ⟨rfl, rfl, rfl, rfl, rfl⟩

/-- … so loading the sources in another order loads a document whose five lists are permutations
    of the original ones (every re-partition of the definitions over sources reduces to a permutation) -/
theorem C17_merge_comm_perm (a b : SchemaDoc) :
    (a.merge b).schema.Perm (b.merge a).schema ∧ (a.merge b).schemaExt.Perm (b.merge a).schemaExt ∧
    (a.merge b).directives.Perm (b.merge a).directives ∧ (a.merge b).definitions.Perm (b.merge a).definitions ∧
    (a.merge b).extensions.Perm (b.merge a).extensions :=
  ⟨List.perm_append_comm, List.perm_append_comm, List.perm_append_comm, List.perm_append_comm, List.perm_append_comm⟩

theorem C17_merge_assoc (a b c : SchemaDoc) : (a.merge b).merge c = a.merge (b.merge c) := by
  simp [SchemaDoc.merge, List.append_assoc]

/-- **R17a repaired**: a document that gives some operation a root type more than once — in the
    schema definition, in its extensions, or across them — is rejected.  The hypothesis counts entry
    points, so it does not depend on the order of the blocks (`C17_rootsOnce_perm`): the repeated-root
    document is rejected in EVERY order.  (Before the repair both orders loaded, with different roots.) -/
theorem C17_repeated_root_rejected {sd : SchemaDoc} (h : Spec.rootOperationTypesOnce sd = false) :
    (load sd).isOk = false := by
  cases hl : load sd with
  | ok s => rw [load_rootsOnce hl] at h; cases h
  | err e => rfl
  | panic => rfl

/-- the hypothesis of `C17_repeated_root_rejected` is invariant under reordering the `extend schema` blocks -/
theorem C17_rootsOnce_perm {sd sd' : SchemaDoc} (h1 : sd'.schema = sd.schema) (h2 : sd'.schemaExt.Perm sd.schemaExt) :
    Spec.rootOperationTypesOnce sd' = Spec.rootOperationTypesOnce sd := by
  have hp : (((sd'.schema ++ sd'.schemaExt).flatMap (·.opTypes)).map (·.op)).Perm
      (((sd.schema ++ sd.schemaExt).flatMap (·.opTypes)).map (·.op)) := by
    rw [h1]
    exact ((h2.append_left sd.schema).flatMap_right _).map _
  simp only [Spec.rootOperationTypesOnce, (hp.filter _).length_eq]

/-- the former witness of order dependence, kernel-checked: `extend schema { query: A }` and
    `extend schema { query: B }` are rejected in both orders -/
theorem C17_repeated_root_witness :
    Examples.rootsBA.schemaExt.Perm Examples.rootsAB.schemaExt ∧ Examples.rootsBA.definitions = Examples.rootsAB.definitions ∧
    (load Examples.rootsAB).isOk = false ∧ (load Examples.rootsBA).isOk = false :=
  ⟨List.Perm.swap _ _ _, rfl, C17_repeated_root_rejected (by decide), C17_repeated_root_rejected (by decide)⟩

/-- R7b (kernel-checked): a redeclared builtin directive — the LAST declaration wins, so the order of
    the sources decides which definition of `@skip` the schema contains -/
theorem C17_directive_perm_counterexample :
    ∃ sd sd' s s', sd'.directives.Perm sd.directives ∧ load sd = .ok s ∧ load sd' = .ok s' ∧
      (s.directives.lookup (str "skip")).map (·.locations) ≠ (s'.directives.lookup (str "skip")).map (·.locations) := by
  refine ⟨Examples.skipFO, Examples.skipOF,
    mkSchema Examples.skipFO (match buildState Examples.skipFO with | .ok st => st | .error _ => default) noRoots [],
    mkSchema Examples.skipOF (match buildState Examples.skipOF with | .ok st => st | .error _ => default) noRoots [],
    List.Perm.swap _ _ _, rfl, rfl, by decide⟩

/-- the KIND of outcome no longer depends on the order of the definitions: the loader never panics,
    so two documents that differ by a permutation of their definitions both return an error or both
    load (`C17_ok_perm_definitions`).  (Before the repair `union U = X` written before
    `type T implements U` made the loader panic, written after it the loader returned an error.) -/
theorem C17_verdict_perm_definitions {sd sd' : SchemaDoc} (hp : DefsPerm sd sd') :
    (load sd').isPanic = false ∧ (load sd).isPanic = false ∧ (load sd').isOk = (load sd).isOk := by
  refine ⟨load_ne_panic sd', load_ne_panic sd, ?_⟩
  rw [Bool.eq_iff_iff, isOk_iff, isOk_iff]
  constructor
  · intro ⟨s, h⟩; exact load_ok_of_defsPerm hp.symm h
  · intro ⟨s, h⟩; exact load_ok_of_defsPerm hp h

/-- the former witness, kernel-checked: both orders of `union U = X` / `type T implements U` are
    rejected with an error -/
theorem C17_verdict_perm_witness :
    Examples.orderTU.definitions.Perm Examples.orderUT.definitions ∧
    (load Examples.orderUT).isPanic = false ∧ (load Examples.orderUT).isOk = false ∧
    (load Examples.orderTU).isPanic = false ∧ (load Examples.orderTU).isOk = false := by
  refine ⟨?_, by decide, by decide, by decide, by decide⟩
  simp only [Examples.orderUT, Examples.orderTU, Examples.doc]
  apply List.Perm.append_left
  exact List.Perm.cons _ (List.Perm.cons _ (List.Perm.swap _ _ _))

/- ------------------------------------------------------------------ permuting the definitions -/

/-- **order independence of the verdict**: if `sd'` is `sd` with its type definitions permuted
    (`DefsPerm`: `definitions` permuted arbitrarily; `extensions`, `directives`, `schema`, `schemaExt`
    unchanged), then `sd'` loads iff `sd` loads.  (Neither panics: `C17_verdict_perm_definitions`; the
    reported error may differ — e.g. which of two equal type names is blamed.) -/
theorem C17_ok_perm_definitions {sd sd' : SchemaDoc} (hp : DefsPerm sd sd') : (load sd').isOk = (load sd).isOk := by
  rw [Bool.eq_iff_iff, isOk_iff, isOk_iff]
  constructor
  · intro ⟨s, h⟩; exact load_ok_of_defsPerm hp.symm h
  · intro ⟨s, h⟩; exact load_ok_of_defsPerm hp h

/-- **order independence of the result**: the two loaded schemas have the same roots, schema
    directives, description and directive definitions, the same types up to the order of the map
    entries, and the same `PossibleTypes` / `Implements` lists up to order -/
theorem C17_schema_perm_definitions {sd sd' : SchemaDoc} (hp : DefsPerm sd sd') {s s' : Schema}
    (h : load sd = .ok s) (h' : load sd' = .ok s') : SchemaEquiv s s' := by
  obtain ⟨s'', h'', E⟩ := load_defsPerm_equiv hp h
  rw [h'] at h''
  simp only [LoadResult.ok.injEq] at h''
  subst h''
  exact E

/-- non-vacuity: a loading document and a proper permutation of it -/
example : DefsPerm Examples.okDoc { Examples.okDoc with definitions := Examples.okDoc.definitions.reverse } ∧
    (load Examples.okDoc).isOk = true :=
  ⟨⟨List.reverse_perm _, rfl, rfl, rfl, rfl⟩, by decide⟩

/-- **a load error names a file in which one of the nodes involved was written**: the error's
    (line, column, source index) are those of a node of the merged document (`docPositions`: the
    positions of definitions, extensions, fields, field types, arguments, argument types, applied
    directives and their arguments, directive definitions, schema blocks and operation types), so the
    reported file is the source that node was parsed from.
    (The same statement is the loader half of C04, `C04_schema_error_loc`.) -/
theorem C17_error_file {sd : SchemaDoc} {e : LoadError} (he : load sd = .err e) :
    ∃ p ∈ docPositions sd, e.line = p.line ∧ e.col = p.col ∧ e.src = p.src :=
  load_error_at_node he

/-- non-vacuity: a rejected document -/
example : ∃ e, load Examples.noPanicDoc = .err e := by
  cases h : load Examples.noPanicDoc with
  | err e => exact ⟨e, rfl⟩
  | ok s => have : (load Examples.noPanicDoc).isOk = false := by decide
            rw [h] at this; simp [LoadResult.isOk] at this
  | panic => have : (load Examples.noPanicDoc).isPanic = false := by decide
             rw [h] at this; simp [LoadResult.isPanic] at this

/- ------------------------------------------------------------------ every order of the sources -/

/-- **the specification is order independent**: `Spec.WellFormed` has the same verdict on two merged
    documents whose five lists (definitions, EXTENSIONS, directive definitions, schema definitions, schema
    extensions) are permutations of each other — that is, whatever the order in which the sources are
    merged and however the definitions are split over the sources.  (`hext`: no extension is marked built
    in.)  Permuting extensions reorders the fields / interfaces / members / values of the merged types;
    the clauses are compared up to that (`DefEquiv`). -/
theorem C17_wellFormed_perm {sd sd' : SchemaDoc} (hp : SourcesPerm sd sd')
    (hext : ∀ e ∈ sd.extensions, e.builtIn = false) : Spec.WellFormed sd' ↔ Spec.WellFormed sd :=
  WellFormed_perm_iff hp hext

/-- **C17_verdict_perm_sources — loading succeeds for one order of the sources iff it succeeds for every
    order.**  `SourcesPerm` permutes all five lists of the merged document (not only `definitions`, as
    `C17_verdict_perm_definitions` does): by soundness (`C07_load_sound`) and completeness
    (`C07_load_complete`) the loader accepts exactly the well-formed type systems, and well-formedness
    is order independent (`C17_wellFormed_perm`).  Hypotheses, on ONE of the two documents (they are
    order independent themselves): the two guarantees of the prelude and the lexer, and that no directive
    name is declared twice — which cannot be dropped, `C17_directive_perm_counterexample`. -/
theorem C17_verdict_perm_sources {sd sd' : SchemaDoc} (hp : SourcesPerm sd sd')
    (hext : ∀ e ∈ sd.extensions, e.builtIn = false) (hlex : NamesLexical sd) (hd : DirectiveNamesDistinct sd) :
    (load sd').isPanic = false ∧ (load sd).isPanic = false ∧ (load sd').isOk = (load sd).isOk :=
  ⟨load_ne_panic sd', load_ne_panic sd, load_isOk_sourcesPerm hp hext hlex hd⟩

/-- the same about the list of parsed sources: merging them in any other order gives a document with the
    same verdict -/
theorem C17_verdict_perm_source_list {l l' : List SchemaDoc} (hp : l'.Perm l)
    (hext : ∀ e ∈ (mergeAll l).extensions, e.builtIn = false) (hlex : NamesLexical (mergeAll l))
    (hd : DirectiveNamesDistinct (mergeAll l)) : (load (mergeAll l')).isOk = (load (mergeAll l)).isOk :=
  load_isOk_sourcesPerm (mergeAll_perm hp) hext hlex hd

/-- permuting only the definitions is the special case without hypotheses -/
theorem C17_defsPerm_is_sourcesPerm {sd sd' : SchemaDoc} (hp : DefsPerm sd sd') : SourcesPerm sd sd' := hp.sources

/-- non-vacuity: a well-formed document with an extension, and the same with definitions and extensions
    reversed; both load -/
example :
    let sd := Examples.doc (Examples.miniPrelude ++ [Examples.typeA, Examples.typeB])
      (exts := [Examples.defn .object "A" 3 [Examples.fld "x" (Examples.ty "Int")],
                Examples.defn .object "A" 4 [Examples.fld "y" (Examples.ty "Int")]])
    let sd' := { sd with definitions := sd.definitions.reverse, extensions := sd.extensions.reverse }
    SourcesPerm sd sd' ∧ NamesLexical sd ∧ DirectiveNamesDistinct sd ∧ Spec.WellFormed sd ∧
    (load sd).isOk = true ∧ (load sd').isOk = true := by
  refine ⟨⟨List.reverse_perm _, List.reverse_perm _, .refl _, .refl _, .refl _⟩, by decide, by decide, by decide,
    by decide, by decide⟩
