import GqlProofs.Schema.NoPanic
/-
  Truthfulness of load errors (the loader half of C04): the (line, column, source) of every error
  `load` returns is the position of a node of the document.  Stated parametrically: for EVERY
  predicate `P` on positions that holds of all node positions of the document, the error's location
  is the location of some `p` with `P p`.
-/
set_option linter.unusedSimpArgs false
namespace Gql.Load
open Gql

def DirsIn (P : Pos → Prop) (ds : List Directive) : Prop := ∀ d ∈ ds, P d.pos ∧ ∀ a ∈ d.args, P a.pos
def ArgsIn (P : Pos → Prop) (as : List ArgDef) : Prop := ∀ a ∈ as, P a.pos ∧ P a.type.pos ∧ DirsIn P a.dirs
def FieldsIn (P : Pos → Prop) (fs : List FieldDef) : Prop :=
  ∀ f ∈ fs, P f.pos ∧ P f.type.pos ∧ ArgsIn P f.args ∧ DirsIn P f.dirs
def DefIn (P : Pos → Prop) (d : Definition) : Prop :=
  P d.pos ∧ DirsIn P d.dirs ∧ FieldsIn P d.fields ∧ ∀ v ∈ d.enumValues, P v.pos ∧ DirsIn P v.dirs
def DirDefIn (P : Pos → Prop) (dd : DirectiveDef) : Prop := P dd.pos ∧ ArgsIn P dd.args
def SchemaDefIn (P : Pos → Prop) (s : SchemaDef) : Prop := P s.pos ∧ DirsIn P s.dirs ∧ ∀ o ∈ s.opTypes, P o.pos

/-- `P` holds of the position of every node of the document that the loader can blame -/
structure DocIn (P : Pos → Prop) (sd : SchemaDoc) : Prop where
  definitions : ∀ d ∈ sd.definitions, DefIn P d
  extensions : ∀ d ∈ sd.extensions, DefIn P d
  directives : ∀ dd ∈ sd.directives, DirDefIn P dd
  schema : ∀ s ∈ sd.schema, SchemaDefIn P s
  schemaExt : ∀ s ∈ sd.schemaExt, SchemaDefIn P s

/-- the error is located at some position satisfying `P` -/
def At (P : Pos → Prop) (e : LoadError) : Prop := ∃ p, P p ∧ e.line = p.line ∧ e.col = p.col ∧ e.src = p.src

def ChkAt (P : Pos → Prop) (c : Chk) : Prop := ∀ e, c = .fail e → At P e

theorem at_errorPosf {P : Pos → Prop} {p : Pos} (hp : P p) (m : Bytes) : At P (errorPosf p m) := ⟨p, hp, rfl, rfl, rfl⟩

theorem chkAt_failAt {P : Pos → Prop} {p : Pos} (hp : P p) (m : Bytes) : ChkAt P (failAt p m) := by
  intro e he
  simp only [failAt, Chk.fail.injEq] at he
  subst he; exact at_errorPosf hp m

theorem chkAt_pass {P : Pos → Prop} : ChkAt P .pass := by intro e he; simp at he
theorem chkAt_panic {P : Pos → Prop} : ChkAt P .panic := by intro e he; simp at he

theorem chkAt_andThen {P : Pos → Prop} {a : Chk} {b : Unit → Chk} (ha : ChkAt P a) (hb : ChkAt P (b ())) :
    ChkAt P (a.andThen b) := by
  cases a with
  | pass => exact hb
  | fail e => exact ha
  | panic => exact chkAt_panic

theorem chkAt_each {P : Pos → Prop} {α} {xs : List α} {f : α → Chk} (h : ∀ x ∈ xs, ChkAt P (f x)) :
    ChkAt P (each xs f) := by
  induction xs with
  | nil => exact chkAt_pass
  | cons x rest ih =>
    simp only [each]
    exact chkAt_andThen (h x (by simp)) (ih fun y hy => h y (by simp [hy]))

theorem chkAt_ite {P : Pos → Prop} {c : Prop} [Decidable c] {a b : Chk} (ha : ChkAt P a) (hb : ChkAt P b) :
    ChkAt P (if c then a else b) := by split <;> assumption

theorem validateName_at {P : Pos → Prop} {p : Pos} (hp : P p) (n : Name) : ChkAt P (validateName p n) := by
  unfold validateName; exact chkAt_ite (chkAt_failAt hp _) chkAt_pass

theorem validateTypeRef_at {P : Pos → Prop} (st : LState) {t : GType} (hp : P t.pos) : ChkAt P (validateTypeRef st t) := by
  unfold validateTypeRef; split
  · exact chkAt_failAt hp _
  · exact chkAt_pass

theorem validateDirectives_at {P : Pos → Prop} (st : LState) {ds : List Directive} (h : DirsIn P ds)
    (loc : Bytes) (cur : Option Name) : ChkAt P (validateDirectives st ds loc cur) := by
  unfold validateDirectives
  apply chkAt_each
  intro dir hdir
  obtain ⟨hp, hargs⟩ := h dir hdir
  unfold validateDirectiveUse
  apply chkAt_andThen (validateName_at hp _)
  apply chkAt_andThen
  · split
    · exact chkAt_ite (chkAt_failAt hp _) chkAt_pass
    · exact chkAt_pass
  split
  · exact chkAt_failAt hp _
  · apply chkAt_andThen (chkAt_ite chkAt_pass (chkAt_failAt hp _))
    apply chkAt_andThen
    · apply chkAt_each
      intro a ha
      split
      · exact chkAt_failAt (hargs a ha) _
      · exact chkAt_pass
    · apply chkAt_each
      intro sa _
      split
      · split
        · exact chkAt_failAt hp _
        · exact chkAt_ite (chkAt_failAt hp _) chkAt_pass
      · exact chkAt_pass

theorem validateArgs_at {P : Pos → Prop} (st : LState) {as : List ArgDef} (h : ArgsIn P as) (cur : Option Name) :
    ChkAt P (validateArgs st as cur) := by
  unfold validateArgs
  apply chkAt_each
  intro a ha
  obtain ⟨hp, ht, hd⟩ := h a ha
  apply chkAt_andThen (validateName_at hp _)
  apply chkAt_andThen (validateTypeRef_at st ht)
  apply chkAt_andThen
  · split
    · exact chkAt_panic
    · exact chkAt_ite chkAt_pass (chkAt_failAt hp _)
  · exact validateDirectives_at st hd _ _

theorem mem_of_find {α} {l : List α} {p : α → Bool} {x : α} (h : l.find? p = some x) : x ∈ l :=
  List.mem_of_find?_eq_some h

theorem validateImplements_at {P : Pos → Prop} (st : LState) {d : Definition} (hd : DefIn P d) (i : Name) :
    ChkAt P (validateImplements st d i) := by
  obtain ⟨hp, _, hf, _⟩ := hd
  unfold validateImplements
  split
  · exact chkAt_failAt hp _
  · apply chkAt_ite (chkAt_failAt hp _)
    apply chkAt_andThen
    · apply chkAt_each
      intro rf _
      unfold validateImplementsField
      split
      · exact chkAt_failAt hp _
      · rename_i found hfound
        obtain ⟨hfp, _, hfa, _⟩ := hf found (mem_of_find hfound)
        apply chkAt_andThen
        · split
          · exact chkAt_panic
          · exact chkAt_pass
          · exact chkAt_failAt hfp _
        apply chkAt_andThen
        · apply chkAt_each
          intro ra _
          split
          · exact chkAt_failAt hfp _
          · rename_i fa hfa'
            exact chkAt_ite chkAt_pass (chkAt_failAt (hfa fa (mem_of_find hfa')).1 _)
        · apply chkAt_each
          intro fa hfa'
          exact chkAt_ite (chkAt_failAt (hfa fa hfa').1 _) chkAt_pass
    · unfold validateTypeImplementsAncestors
      split
      · exact chkAt_failAt hp _
      · apply chkAt_each
        intro t _
        exact chkAt_ite chkAt_pass (chkAt_ite (chkAt_failAt hp _) (chkAt_failAt hp _))

theorem checkUniqueFields_at {P : Pos → Prop} (dn : Name) {fs : List FieldDef} (h : ∀ f ∈ fs, P f.pos) :
    ChkAt P (checkUniqueFields dn fs) := by
  induction fs with
  | nil => exact chkAt_pass
  | cons f rest ih =>
    simp only [checkUniqueFields]
    apply chkAt_andThen
    · apply chkAt_each
      intro f2 hf2
      exact chkAt_ite (chkAt_failAt (h f2 (by simp [hf2])) _) chkAt_pass
    · exact ih fun f hf => h f (by simp [hf])

theorem validateKindSpecific_at {P : Pos → Prop} (st : LState) {d : Definition} (hd : DefIn P d) :
    ChkAt P (validateKindSpecific st d) := by
  obtain ⟨hp, _, hf, hv⟩ := hd
  unfold validateKindSpecific
  split
  · apply chkAt_ite (chkAt_failAt hp _)
    apply chkAt_each
    intro f hf'
    split
    · exact chkAt_ite chkAt_pass (chkAt_failAt (hf f hf').1 _)
    · exact chkAt_pass
  · apply chkAt_ite (chkAt_failAt hp _)
    apply chkAt_each
    intro f hf'
    split
    · exact chkAt_ite chkAt_pass (chkAt_failAt (hf f hf').1 _)
    · exact chkAt_pass
  · apply chkAt_ite (chkAt_failAt hp _)
    apply chkAt_each
    intro v hv'
    apply chkAt_andThen (chkAt_ite (chkAt_failAt hp _) chkAt_pass)
    apply chkAt_andThen (validateName_at (hv v hv').1 _)
    exact validateDirectives_at st (hv v hv').2 _ _
  · apply chkAt_ite (chkAt_failAt hp _)
    apply chkAt_each
    intro f hf'
    split
    · exact chkAt_ite chkAt_pass (chkAt_failAt (hf f hf').1 _)
    · exact chkAt_pass
  · exact chkAt_pass
  · exact chkAt_pass

theorem validateDefinition_at {P : Pos → Prop} (st : LState) {d : Definition} (hd : DefIn P d) :
    ChkAt P (validateDefinition st d) := by
  have hd' := hd
  obtain ⟨hp, hdirs, hf, _⟩ := hd
  unfold validateDefinition
  apply chkAt_andThen
  · apply chkAt_each
    intro f hf'
    obtain ⟨hfp, hft, hfa, hfd⟩ := hf f hf'
    apply chkAt_andThen (validateName_at hfp _)
    apply chkAt_andThen (validateTypeRef_at st hft)
    apply chkAt_andThen (validateArgs_at st hfa _)
    exact validateDirectives_at st hfd _ _
  apply chkAt_andThen
  · apply chkAt_each
    intro m _
    split
    · exact chkAt_failAt hp _
    · exact chkAt_ite chkAt_pass (chkAt_failAt hp _)
  apply chkAt_andThen
  · exact chkAt_each fun i _ => validateImplements_at st hd' i
  apply chkAt_andThen (validateKindSpecific_at st hd')
  apply chkAt_andThen (checkUniqueFields_at _ fun f hf' => (hf f hf').1)
  apply chkAt_andThen (chkAt_ite (validateName_at hp _) chkAt_pass)
  exact validateDirectives_at st hdirs _ _

/-- nodes of the state come from the document -/
def StateIn (P : Pos → Prop) (st : LState) : Prop :=
  (∀ p ∈ st.types, DefIn P p.2) ∧ (∀ p ∈ st.directives, DirDefIn P p.2)

theorem validateTypeDefinitions_at {P : Pos → Prop} {st : LState} (h : StateIn P st) :
    ChkAt P (validateTypeDefinitions st) := by
  unfold validateTypeDefinitions
  apply chkAt_each
  intro k _
  simp only [LState.type?]
  split
  · rename_i d hd
    exact validateDefinition_at st (h.1 (k, d) (mem_of_lookup hd))
  · exact chkAt_panic

theorem validateDirectiveDefinitions_at {P : Pos → Prop} {st : LState} (h : StateIn P st) :
    ChkAt P (validateDirectiveDefinitions st) := by
  unfold validateDirectiveDefinitions
  apply chkAt_each
  intro k _
  split
  · rename_i dd hdd
    obtain ⟨hp, ha⟩ := h.2 (k, dd) (mem_of_lookup hdd)
    unfold validateDirectiveDef
    exact chkAt_andThen (validateName_at hp _) (validateArgs_at st ha _)
  · exact chkAt_panic

theorem defIn_applyExt {P : Pos → Prop} {ext d : Definition} (he : DefIn P ext) (hd : DefIn P d) :
    DefIn P (applyExt ext d) := by
  obtain ⟨_, e2, e3, e4⟩ := he
  obtain ⟨d1, d2, d3, d4⟩ := hd
  refine ⟨d1, ?_, ?_, ?_⟩
  · intro x hx
    simp only [applyExt, List.mem_append] at hx
    rcases hx with hx | hx
    · exact d2 x hx
    · exact e2 x hx
  · intro x hx
    simp only [applyExt, List.mem_append] at hx
    rcases hx with hx | hx
    · exact d3 x hx
    · exact e3 x hx
  · intro x hx
    simp only [applyExt, List.mem_append] at hx
    rcases hx with hx | hx
    · exact d4 x hx
    · exact e4 x hx

theorem defIn_extStub {P : Pos → Prop} {ext : Definition} (he : DefIn P ext) : DefIn P (extStub ext) := by
  refine ⟨he.1, ?_, ?_, ?_⟩ <;> (intro x hx; simp [extStub] at hx)

theorem foldExtensions_defIn {P : Pos → Prop} {l : List Definition} {t : List (Name × Definition)}
    (hl : ∀ e ∈ l, DefIn P e) (ht : ∀ p ∈ t, DefIn P p.2) :
    (∀ r, foldExtensions l t = .ok r → ∀ p ∈ r, DefIn P p.2) ∧ (∀ e, foldExtensions l t = .error e → At P e) := by
  induction l generalizing t with
  | nil =>
    refine ⟨fun r h => ?_, fun e h => ?_⟩
    · simp [foldExtensions] at h; subst h; exact ht
    · simp [foldExtensions] at h
  | cons ext rest ih =>
    have hext := hl ext (by simp)
    have hb : ∀ p ∈ ensureBase ext t, DefIn P p.2 := by
      unfold ensureBase
      split
      · exact ht
      · intro p hp
        simp only [List.mem_append, List.mem_singleton] at hp
        rcases hp with hp | hp
        · exact ht p hp
        · subst hp; exact defIn_extStub hext
    have hm : ∀ p ∈ modifyKV ext.name (applyExt ext) (ensureBase ext t), DefIn P p.2 := by
      intro p hp
      obtain ⟨k, v⟩ := p
      rcases mem_modifyKV hp with hp | ⟨_, v0, hv0, hv⟩
      · exact hb _ hp
      · subst hv; exact defIn_applyExt hext (hb _ hv0)
    have ih' := ih (fun e he => hl e (by simp [he])) hm
    refine ⟨fun r h => ?_, fun e h => ?_⟩
    · simp only [foldExtensions] at h
      split at h
      · simp only [Except.ok.injEq] at h; subst h; exact hb
      · split at h
        · simp at h
        · exact ih'.1 r h
    · simp only [foldExtensions] at h
      split at h
      · simp at h
      · split at h
        · simp only [Except.error.injEq] at h; subst h; exact at_errorPosf hext.1 _
        · exact ih'.2 e h

theorem declareTypes_at {P : Pos → Prop} {l : List Definition} {acc : List (Name × Definition)}
    (hl : ∀ d ∈ l, DefIn P d) (hacc : ∀ p ∈ acc, DefIn P p.2) :
    (∀ r, declareTypes l acc = .ok r → ∀ p ∈ r, DefIn P p.2) ∧ (∀ e, declareTypes l acc = .error e → At P e) := by
  induction l generalizing acc with
  | nil =>
    refine ⟨fun r h => ?_, fun e h => ?_⟩
    · simp [declareTypes] at h; subst h; exact hacc
    · simp [declareTypes] at h
  | cons d rest ih =>
    have hacc' : ∀ p ∈ acc ++ [(d.name, d)], DefIn P p.2 := by
      intro p hp
      simp only [List.mem_append, List.mem_singleton] at hp
      rcases hp with hp | hp
      · exact hacc p hp
      · subst hp; exact hl d (by simp)
    have ih' := ih (fun e he => hl e (by simp [he])) hacc'
    refine ⟨fun r h => ?_, fun e h => ?_⟩
    · simp only [declareTypes] at h
      split at h
      · simp at h
      · exact ih'.1 r h
    · simp only [declareTypes] at h
      split at h
      · simp only [Except.error.injEq] at h; subst h; exact at_errorPosf (hl d (by simp)).1 _
      · exact ih'.2 e h

theorem declareDirectives_at {P : Pos → Prop} {l : List DirectiveDef} {acc : List (Name × DirectiveDef)}
    (hl : ∀ d ∈ l, DirDefIn P d) (hacc : ∀ p ∈ acc, DirDefIn P p.2) :
    (∀ r, declareDirectives l acc = .ok r → ∀ p ∈ r, DirDefIn P p.2) ∧
    (∀ e, declareDirectives l acc = .error e → At P e) := by
  induction l generalizing acc with
  | nil =>
    refine ⟨fun r h => ?_, fun e h => ?_⟩
    · simp [declareDirectives] at h; subst h; exact hacc
    · simp [declareDirectives] at h
  | cons d rest ih =>
    have hacc' : ∀ p ∈ insertKV d.name d acc, DirDefIn P p.2 := by
      intro p hp
      rcases mem_insertKV hp with hp | hp
      · subst hp; exact hl d (by simp)
      · exact hacc p hp
    have ih' := ih (fun e he => hl e (by simp [he])) hacc'
    refine ⟨fun r h => ?_, fun e h => ?_⟩
    · simp only [declareDirectives] at h
      split at h
      · simp at h
      · exact ih'.1 r h
    · simp only [declareDirectives] at h
      split at h
      · simp only [Except.error.injEq] at h; subst h; exact at_errorPosf (hl d (by simp)).1 _
      · exact ih'.2 e h

theorem buildState_at {P : Pos → Prop} {sd : SchemaDoc} (h : DocIn P sd) :
    (∀ st, buildState sd = .ok st → StateIn P st) ∧ (∀ e, buildState sd = .error e → At P e) := by
  have h0 := declareTypes_at (P := P) (l := sd.definitions) (acc := []) h.definitions (by simp)
  have h2 := declareDirectives_at (P := P) (l := sd.directives) (acc := []) h.directives (by simp)
  refine ⟨fun st hst => ?_, fun e he => ?_⟩
  · unfold buildState at hst
    split at hst
    · simp at hst
    · rename_i t0 ht0
      have h1 := foldExtensions_defIn (P := P) (l := sd.extensions) (t := t0) h.extensions (h0.1 t0 ht0)
      split at hst
      · simp at hst
      · rename_i t1 ht1
        split at hst
        split at hst
        · simp at hst
        · rename_i dirs hd
          simp only [Except.ok.injEq] at hst
          subst hst
          exact ⟨h1.1 t1 ht1, h2.1 dirs hd⟩
  · unfold buildState at he
    split at he
    · rename_i e' he'
      simp only [Except.error.injEq] at he; subst he
      exact h0.2 e' he'
    · rename_i t0 ht0
      have h1 := foldExtensions_defIn (P := P) (l := sd.extensions) (t := t0) h.extensions (h0.1 t0 ht0)
      split at he
      · rename_i e' he'
        simp only [Except.error.injEq] at he; subst he
        exact h1.2 e' he'
      · split at he
        split at he
        · rename_i e' he'
          simp only [Except.error.injEq] at he; subst he
          exact h2.2 e' he'
        · simp at he

theorem setRoots_at {P : Pos → Prop} {types : List (Name × Definition)} {l : List OpTypeDef} (hl : ∀ o ∈ l, P o.pos)
    (r : Roots) : ∀ e, setRoots types l r = .error e → At P e := by
  induction l generalizing r with
  | nil => intro e he; simp [setRoots] at he
  | cons o rest ih =>
    intro e he
    simp only [setRoots] at he
    have ho := hl o (by simp)
    have hrest : ∀ o' ∈ rest, P o'.pos := fun o' ho' => hl o' (by simp [ho'])
    split at he
    · simp only [Except.error.injEq] at he
      subst he; exact at_errorPosf ho _
    · repeat' split at he
      all_goals first
        | exact ih hrest _ e he
        | (simp only [Except.error.injEq] at he
           subst he; exact at_errorPosf ho _)

theorem applySchemaDefs_at {P : Pos → Prop} (st : LState) {l : List SchemaDef} (hl : ∀ s ∈ l, SchemaDefIn P s)
    (r : Roots) (acc : List Directive) : ∀ e, applySchemaDefs st l r acc = .err e → At P e := by
  induction l generalizing r acc with
  | nil => intro e he; simp [applySchemaDefs] at he
  | cons s rest ih =>
    intro e he
    simp only [applySchemaDefs] at he
    obtain ⟨_, hd, ho⟩ := hl s (by simp)
    split at he
    · exact ih (fun s' hs' => hl s' (by simp [hs'])) _ _ e he
    · unfold applySchemaDef at he
      split at he
      · rename_i e' he'
        simp only [RootsResult.err.injEq] at he
        subst he
        exact setRoots_at ho r e' he'
      · split at he
        · rename_i e' he'
          simp only [RootsResult.err.injEq] at he
          subst he
          exact validateDirectives_at st hd _ _ e' he'
        · simp at he
        · simp at he

/-- the root-kind check blames the position of the root type's definition -/
theorem checkRootKind_at {P : Pos → Prop} {st : LState} (h : StateIn P st) (op : Bytes) (root : Option Name) :
    ChkAt P (checkRootKind st op root) := by
  unfold checkRootKind
  split
  · exact chkAt_pass
  · rename_i n
    split
    · exact chkAt_pass
    · rename_i d hd
      exact chkAt_ite (chkAt_failAt (h.1 (n, d) (mem_of_lookup hd)).1 _) chkAt_pass

theorem checkRootKinds_at {P : Pos → Prop} {st : LState} (h : StateIn P st) (r : Roots) :
    ChkAt P (checkRootKinds st r) := by
  unfold checkRootKinds
  exact chkAt_andThen (checkRootKind_at h _ _) (chkAt_andThen (checkRootKind_at h _ _) (checkRootKind_at h _ _))

/-- **truthful load errors**: whatever error `load` returns is located at the position of a node of
    the document (for every `P` that contains the positions of the document's nodes) -/
theorem load_error_loc {P : Pos → Prop} {sd : SchemaDoc} (h : DocIn P sd) {e : LoadError} (he : load sd = .err e) :
    At P e := by
  unfold load at he
  have hb := buildState_at h
  split at he
  · rename_i e' he'
    simp only [LoadResult.err.injEq] at he
    subst he; exact hb.2 e' he'
  · rename_i st hst
    have hb := hb.1 st hst
    unfold finish at he
    split at he
    · rename_i a b c hs
      simp only [LoadResult.err.injEq] at he
      subst he
      exact at_errorPosf (h.schema b (by rw [hs]; simp)).1 _
    · split at he
      · rename_i e' he'
        simp only [LoadResult.err.injEq] at he
        subst he
        exact applySchemaDefs_at st h.schema _ _ e' he'
      · simp at he
      · split at he
        · rename_i e' he'
          simp only [LoadResult.err.injEq] at he
          subst he
          exact applySchemaDefs_at st h.schemaExt _ _ e' he'
        · simp at he
        · split at he
          · rename_i e' he'
            simp only [LoadResult.err.injEq] at he
            subst he
            exact validateTypeDefinitions_at hb e' he'
          · simp at he
          · split at he
            · rename_i e' he'
              simp only [LoadResult.err.injEq] at he
              subst he
              exact validateDirectiveDefinitions_at hb e' he'
            · simp at he
            · split at he
              · rename_i e' he'
                simp only [LoadResult.err.injEq] at he
                subst he
                exact checkRootKinds_at hb _ e' he'
              · simp at he
              · simp at he

end Gql.Load

namespace Gql.Load
open Gql

/- the positions of the nodes of a document, as an explicit list -/
def dirPositions (ds : List Directive) : List Pos := ds.flatMap fun d => d.pos :: d.args.map (·.pos)
def argDefPositions (as : List ArgDef) : List Pos := as.flatMap fun a => a.pos :: a.type.pos :: dirPositions a.dirs
def fieldPositions (fs : List FieldDef) : List Pos :=
  fs.flatMap fun f => f.pos :: f.type.pos :: (argDefPositions f.args ++ dirPositions f.dirs)
def defPositions (d : Definition) : List Pos :=
  d.pos :: (dirPositions d.dirs ++ fieldPositions d.fields ++ d.enumValues.flatMap fun v => v.pos :: dirPositions v.dirs)
def dirDefPositions (dd : DirectiveDef) : List Pos := dd.pos :: argDefPositions dd.args
def schemaDefPositions (s : SchemaDef) : List Pos := s.pos :: (dirPositions s.dirs ++ s.opTypes.map (·.pos))
def docPositions (sd : SchemaDoc) : List Pos :=
  (sd.definitions ++ sd.extensions).flatMap defPositions ++ sd.directives.flatMap dirDefPositions ++
  (sd.schema ++ sd.schemaExt).flatMap schemaDefPositions

theorem dirsIn_of {P : Pos → Prop} {ds : List Directive} (h : ∀ p ∈ dirPositions ds, P p) : DirsIn P ds := by
  intro d hd
  refine ⟨h _ (List.mem_flatMap.mpr ⟨d, hd, by simp⟩), fun a ha => h _ (List.mem_flatMap.mpr ⟨d, hd, ?_⟩)⟩
  simp only [List.mem_cons, List.mem_map]
  exact Or.inr ⟨a, ha, rfl⟩

theorem argsIn_of {P : Pos → Prop} {as : List ArgDef} (h : ∀ p ∈ argDefPositions as, P p) : ArgsIn P as := by
  intro a ha
  refine ⟨h _ (List.mem_flatMap.mpr ⟨a, ha, by simp⟩), h _ (List.mem_flatMap.mpr ⟨a, ha, by simp⟩), ?_⟩
  apply dirsIn_of
  intro p hp
  exact h p (List.mem_flatMap.mpr ⟨a, ha, by simp [hp]⟩)

theorem fieldsIn_of {P : Pos → Prop} {fs : List FieldDef} (h : ∀ p ∈ fieldPositions fs, P p) : FieldsIn P fs := by
  intro f hf
  refine ⟨h _ (List.mem_flatMap.mpr ⟨f, hf, by simp⟩), h _ (List.mem_flatMap.mpr ⟨f, hf, by simp⟩), ?_, ?_⟩
  · apply argsIn_of
    intro p hp
    exact h p (List.mem_flatMap.mpr ⟨f, hf, by simp [hp]⟩)
  · apply dirsIn_of
    intro p hp
    exact h p (List.mem_flatMap.mpr ⟨f, hf, by simp [hp]⟩)

theorem defIn_of {P : Pos → Prop} {d : Definition} (h : ∀ p ∈ defPositions d, P p) : DefIn P d := by
  refine ⟨h _ (by simp [defPositions]), ?_, ?_, ?_⟩
  · apply dirsIn_of
    intro p hp; exact h p (by simp [defPositions, hp])
  · apply fieldsIn_of
    intro p hp; exact h p (by simp [defPositions, hp])
  · intro v hv
    have hsub : ∀ p ∈ v.pos :: dirPositions v.dirs, P p := by
      intro p hp
      apply h p
      simp only [defPositions, List.mem_cons, List.mem_append, List.mem_flatMap]
      exact Or.inr (Or.inr ⟨v, hv, by simpa using hp⟩)
    refine ⟨hsub _ (by simp), ?_⟩
    apply dirsIn_of
    intro p hp
    exact hsub p (by simp [hp])

theorem docIn_positions (sd : SchemaDoc) : DocIn (· ∈ docPositions sd) sd := by
  refine ⟨?_, ?_, ?_, ?_, ?_⟩
  · intro d hd
    apply defIn_of
    intro p hp
    simp only [docPositions, List.mem_append, List.mem_flatMap]
    exact Or.inl (Or.inl ⟨d, Or.inl hd, hp⟩)
  · intro d hd
    apply defIn_of
    intro p hp
    simp only [docPositions, List.mem_append, List.mem_flatMap]
    exact Or.inl (Or.inl ⟨d, Or.inr hd, hp⟩)
  · intro dd hdd
    have hsub : ∀ p ∈ dirDefPositions dd, p ∈ docPositions sd := by
      intro p hp
      simp only [docPositions, List.mem_append, List.mem_flatMap]
      exact Or.inl (Or.inr ⟨dd, hdd, hp⟩)
    refine ⟨hsub _ (by simp [dirDefPositions]), ?_⟩
    apply argsIn_of
    intro p hp; exact hsub p (by simp [dirDefPositions, hp])
  · intro s hs
    have hsub : ∀ p ∈ schemaDefPositions s, p ∈ docPositions sd := by
      intro p hp
      simp only [docPositions, List.mem_append, List.mem_flatMap]
      exact Or.inr ⟨s, Or.inl hs, hp⟩
    refine ⟨hsub _ (by simp [schemaDefPositions]), ?_, ?_⟩
    · apply dirsIn_of
      intro p hp; exact hsub p (by simp [schemaDefPositions, hp])
    · intro o ho
      apply hsub
      simp only [schemaDefPositions, List.mem_cons, List.mem_append, List.mem_map]
      exact Or.inr (Or.inr ⟨o, ho, rfl⟩)
  · intro s hs
    have hsub : ∀ p ∈ schemaDefPositions s, p ∈ docPositions sd := by
      intro p hp
      simp only [docPositions, List.mem_append, List.mem_flatMap]
      exact Or.inr ⟨s, Or.inr hs, hp⟩
    refine ⟨hsub _ (by simp [schemaDefPositions]), ?_, ?_⟩
    · apply dirsIn_of
      intro p hp; exact hsub p (by simp [schemaDefPositions, hp])
    · intro o ho
      apply hsub
      simp only [schemaDefPositions, List.mem_cons, List.mem_append, List.mem_map]
      exact Or.inr (Or.inr ⟨o, ho, rfl⟩)

/-- every load error is located (line, column, source index) at a node of the document -/
theorem load_error_at_node {sd : SchemaDoc} {e : LoadError} (he : load sd = .err e) :
    ∃ p ∈ docPositions sd, e.line = p.line ∧ e.col = p.col ∧ e.src = p.src := by
  obtain ⟨p, hp, h⟩ := load_error_loc (docIn_positions sd) he
  exact ⟨p, hp, h⟩

end Gql.Load
