import GqlProofs.Schema.Hyps
import GqlModel.Schema.Merged
/-
  Completeness of the loader, part 1: the four maps are built (`buildState` succeeds) for every
  well-formed merged document, and the directive map agrees with the specification's
  "directive definition in force" (`Spec.TypeSystem.directive?`).

  `MergedDoc sd` is the hypothesis "sd is a merged document as `parser.ParseSchemas` builds it with the
  prelude as source 0": it is about the SHAPE of the document only (which source a node came from and in
  which order the sources were merged), never about the type system it describes.
-/
set_option linter.unusedSimpArgs false
namespace Gql.Load
open Gql

/- ------------------------------------------------------------------ the hypothesis on the document -/

/-- **the document is a merge of the prelude (source 0) followed by user sources**, as
    `parser.ParseSchemas(append([]*Source{Prelude}, inputs...))` builds it (the Boolean form
    `Spec.mergedB`, GqlModel/Schema/Merged.lean, is what the driver op `merged` evaluates on every
    document of the harness):
    * `extNotBuiltin` — no extension is marked built in (the prelude has no `extend`);
    * `preludeDirsBuiltin` — the directive definitions of source 0 are among the six the loader knows as
      built in (`include skip deprecated specifiedBy defer oneOf`: true of `validator/imported/prelude.graphql`);
    * `preludeFirst` — `Merge` appends, and the prelude is the first source. -/
structure MergedDoc (sd : SchemaDoc) : Prop where
  extNotBuiltin : ∀ e ∈ sd.extensions, e.builtIn = false
  preludeDirsBuiltin : ∀ d ∈ sd.directives, Spec.userWritten d.pos = false → builtinDirectiveNames.contains d.name = true
  preludeFirst : Spec.preludeFirstB sd.directives = true

theorem mergedB_iff (sd : SchemaDoc) : Spec.mergedB sd = true ↔ MergedDoc sd := by
  simp only [Spec.mergedB, Spec.mergedClauses, List.all_cons, List.all_nil, Bool.and_true, Bool.and_eq_true,
    List.all_eq_true, Bool.not_eq_true', Bool.or_eq_true]
  constructor
  · rintro ⟨a, b, c⟩
    refine ⟨a, ?_, c⟩
    intro d hd hu
    rcases b d hd with h | h
    · rw [hu] at h; cases h
    · exact h
  · rintro ⟨a, b, c⟩
    refine ⟨a, ?_, c⟩
    intro d hd
    cases hu : Spec.userWritten d.pos with
    | true => exact Or.inl rfl
    | false => exact Or.inr (b d hd hu)

instance (sd : SchemaDoc) : Decidable (MergedDoc sd) := decidable_of_iff _ (mergedB_iff sd)

/-- the split the ordering gives: prelude part, then user part -/
theorem preludeFirst_split {l : List DirectiveDef} (h : Spec.preludeFirstB l = true) :
    ∃ P U, l = P ++ U ∧ (∀ d ∈ P, Spec.userWritten d.pos = false) ∧ (∀ d ∈ U, Spec.userWritten d.pos = true) := by
  induction l with
  | nil => exact ⟨[], [], rfl, by simp, by simp⟩
  | cons d rest ih =>
    simp only [Spec.preludeFirstB, Bool.and_eq_true, Bool.or_eq_true, Bool.not_eq_true', List.all_eq_true] at h
    obtain ⟨h1, h2⟩ := h
    rcases h1 with h1 | h1
    · obtain ⟨P, U, e, hP, hU⟩ := ih h2
      refine ⟨d :: P, U, by rw [e]; rfl, ?_, hU⟩
      intro x hx
      simp only [List.mem_cons] at hx
      rcases hx with hx | hx
      · subst hx; exact h1
      · exact hP x hx
    · cases hd : Spec.userWritten d.pos with
      | false =>
        obtain ⟨P, U, e, hP, hU⟩ := ih h2
        refine ⟨d :: P, U, by rw [e]; rfl, ?_, hU⟩
        intro x hx
        simp only [List.mem_cons] at hx
        rcases hx with hx | hx
        · subst hx; exact hd
        · exact hP x hx
      | true =>
        refine ⟨[], d :: rest, rfl, by simp, ?_⟩
        intro x hx
        simp only [List.mem_cons] at hx
        rcases hx with hx | hx
        · subst hx; exact hd
        · exact h1 x hx

/- ------------------------------------------------------------------ pairwiseDistinct -/

theorem nodup_of_pairwiseDistinct {l : List Name} (h : Spec.pairwiseDistinct l = true) : l.Nodup := by
  induction l with
  | nil => exact List.nodup_nil
  | cons x rest ih =>
    simp only [Spec.pairwiseDistinct, Bool.and_eq_true, Bool.not_eq_true'] at h
    rw [List.nodup_cons]
    refine ⟨?_, ih h.2⟩
    intro hm
    have := List.contains_iff_mem.mpr hm
    rw [h.1] at this
    cases this

/- ------------------------------------------------------------------ step 1: the definitions loop -/

/-- **schema.go:29 "Cannot redeclare type"** is excluded by `uniqueTypeNames` -/
theorem load_declareTypes_ok_of_wf {sd : SchemaDoc} (h : Spec.uniqueTypeNames sd = true) :
    declareTypes sd.definitions [] = .ok (sd.definitions.map fun d => (d.name, d)) := by
  have := declareTypes_ok (l := sd.definitions) (acc := []) (by simp) (nodup_of_pairwiseDistinct h)
  simpa using this

/- ------------------------------------------------------------------ step 2: the extensions loop -/

/-- the kind condition `foldExtensions` checks, stated on the list still to be folded -/
def ExtKindsOK (l : List Definition) (t : List (Name × Definition)) : Prop :=
  ∀ e ∈ l, match t.lookup e.name with
    | some d => d.kind = e.kind
    | none => match l.find? (·.name == e.name) with
      | some e0 => e0.kind = e.kind
      | none => True

theorem foldExtensions_ok_of_kinds {l : List Definition} {t : List (Name × Definition)} (h : ExtKindsOK l t) :
    ∃ r, foldExtensions l t = .ok r := by
  induction l generalizing t with
  | nil => exact ⟨t, rfl⟩
  | cons ext rest ih =>
    simp only [foldExtensions]
    have hbase := lookup_ensureBase ext t ext.name
    cases hb : (ensureBase ext t).lookup ext.name with
    | none =>
      have := lookup_ensureBase_self ext t
      rw [hb] at this; simp at this
    | some d =>
      simp only
      have hk : d.kind = ext.kind := by
        rw [hb] at hbase
        cases hl : t.lookup ext.name with
        | some d0 =>
          simp only [hl, Option.some.injEq] at hbase
          have := h ext (by simp)
          simp only [hl] at this
          rw [hbase]; exact this
        | none =>
          simp only [hl, ↓reduceIte, Option.some.injEq] at hbase
          rw [hbase]; rfl
      have hk' : (d.kind != ext.kind) = false := by simp [hk]
      simp only [hk', Bool.false_eq_true, ↓reduceIte]
      apply ih
      intro e he
      have hE := h e (by simp [he])
      rw [lookup_modifyKV, lookup_ensureBase]
      by_cases hn : e.name = ext.name
      · simp only [hn, ↓reduceIte]
        rw [hn] at hE
        cases hl : t.lookup ext.name with
        | some d0 =>
          simp only [hl] at hE ⊢
          simpa [applyExt] using hE
        | none =>
          simp only [hl, List.find?_cons, BEq.rfl, ↓reduceIte] at hE ⊢
          simpa [applyExt, extStub] using hE
      · have hne : (ext.name == e.name) = false := by simp [Ne.symm hn]
        simp only [hn, ↓reduceIte]
        cases hl : t.lookup e.name with
        | some d0 => simp only [hl] at hE ⊢; exact hE
        | none =>
          simp only [hl, List.find?_cons, hne] at hE ⊢
          exact hE

/-- **schema.go:49 "Cannot extend type … because the base type is a …"** is excluded by
    `extensionKindsMatch` -/
theorem load_foldExtensions_ok_of_wf {sd : SchemaDoc} (h : Spec.extensionKindsMatch sd = true) :
    ∃ r, foldExtensions sd.extensions (sd.definitions.map fun d => (d.name, d)) = .ok r := by
  apply foldExtensions_ok_of_kinds
  intro e he
  simp only [Spec.extensionKindsMatch, List.all_eq_true] at h
  have := h e he
  rw [lookup_map_pairs]
  cases hd : sd.definitions.find? (·.name == e.name) with
  | some d => simp only [hd] at this ⊢; simpa using this
  | none =>
    simp only [hd] at this ⊢
    cases hx : sd.extensions.find? (·.name == e.name) with
    | some e0 => simp only [hx] at this ⊢; simpa using this
    | none => trivial

/- ------------------------------------------------------------------ step 4: the directive definitions loop -/

theorem lookup_insertKV {α} (k n : Name) (v : α) (l : List (Name × α)) :
    (insertKV k v l).lookup n = if n = k then some v else l.lookup n := by
  induction l with
  | nil =>
    simp only [insertKV, List.lookup]
    by_cases h : n = k
    · subst h; simp
    · have : (n == k) = false := by simp [h]
      simp [this, h]
  | cons p rest ih =>
    obtain ⟨k', v'⟩ := p
    simp only [insertKV]
    by_cases hq : k' = k
    · subst hq
      simp only [BEq.rfl, ↓reduceIte, List.lookup]
      by_cases h : n = k'
      · subst h; simp
      · have : (n == k') = false := by simp [h]
        simp [this, h]
    · have hq' : (k' == k) = false := by simp [hq]
      simp only [hq', Bool.false_eq_true, ↓reduceIte, List.lookup]
      by_cases h : n = k'
      · subst h
        have : ¬ (n = k) := hq
        simp [this]
      · have : (n == k') = false := by simp [h]
        simp only [this, ih]

/-- names occurring at most once -/
def onceIn (l : List DirectiveDef) (n : Name) : Prop := (l.filter (·.name == n)).length ≤ 1

/-- the loop passes when every declaration either has a built-in name or is the only one of its name -/
theorem declareDirectives_ok_of {l : List DirectiveDef} {acc : List (Name × DirectiveDef)}
    (h : ∀ dd ∈ l, builtinDirectiveNames.contains dd.name = true ∨ (acc.lookup dd.name = none ∧ onceIn l dd.name)) :
    ∃ r, declareDirectives l acc = .ok r := by
  induction l generalizing acc with
  | nil => exact ⟨acc, rfl⟩
  | cons dd rest ih =>
    simp only [declareDirectives]
    have hcond : ((acc.lookup dd.name).isSome && !builtinDirectiveNames.contains dd.name) = false := by
      rcases h dd (by simp) with hb | ⟨hn, _⟩
      · rw [hb]; simp
      · rw [hn]; simp
    simp only [hcond, Bool.false_eq_true, ↓reduceIte]
    apply ih
    intro d' hd'
    rcases h d' (by simp [hd']) with hb | ⟨hn, honce⟩
    · exact Or.inl hb
    · right
      have hne : d'.name ≠ dd.name := by
        intro e
        unfold onceIn at honce
        simp only [List.filter_cons, e, BEq.rfl, ↓reduceIte, List.length_cons] at honce
        have hmem : d' ∈ rest.filter (·.name == dd.name) := List.mem_filter.mpr ⟨hd', by simp [e]⟩
        have := List.length_pos_of_mem hmem
        omega
      refine ⟨by rw [lookup_insertKV]; simp [hne, hn], ?_⟩
      unfold onceIn at honce ⊢
      have : (dd.name == d'.name) = false := by simp [Ne.symm hne]
      simpa [List.filter_cons, this] using honce

theorem length_filter_name_le_one {l : List DirectiveDef} (hn : (l.map (·.name)).Nodup) (n : Name) :
    (l.filter (·.name == n)).length ≤ 1 := by
  induction l with
  | nil => simp
  | cons d rest ih =>
    simp only [List.map_cons, List.nodup_cons] at hn
    simp only [List.filter_cons]
    split
    · rename_i hd
      have hd : d.name = n := by simpa using hd
      have : rest.filter (·.name == n) = [] := by
        rw [List.filter_eq_nil_iff]
        intro x hx he
        apply hn.1
        rw [hd]
        exact List.mem_map.mpr ⟨x, hx, by simpa using he⟩
      simp [this]
    · exact ih hn.2

/-- **schema.go:107 "Cannot redeclare directive"** is excluded by `uniqueDirectiveNames` in a merged
    document -/
theorem load_declareDirectives_ok_of_wf {sd : SchemaDoc} (h : Spec.uniqueDirectiveNames sd = true) (hm : MergedDoc sd) :
    ∃ r, declareDirectives sd.directives [] = .ok r := by
  apply declareDirectives_ok_of
  intro dd hdd
  cases hb : builtinDirectiveNames.contains dd.name with
  | true => exact Or.inl rfl
  | false =>
    right
    refine ⟨rfl, ?_⟩
    simp only [Spec.uniqueDirectiveNames, Bool.and_eq_true] at h
    have hU := nodup_of_pairwiseDistinct h.1
    -- every declaration of this name is user-written
    have hall : sd.directives.filter (·.name == dd.name) =
        (sd.directives.filter (fun d => Spec.userWritten d.pos)).filter (·.name == dd.name) := by
      rw [List.filter_filter]
      apply List.filter_congr
      intro x hx
      cases hxn : (x.name == dd.name) with
      | false => simp
      | true =>
        have hxn' : x.name = dd.name := by simpa using hxn
        cases hu : Spec.userWritten x.pos with
        | true => simp
        | false =>
          have := hm.preludeDirsBuiltin x hx hu
          rw [hxn', hb] at this
          cases this
    unfold onceIn
    rw [hall]
    exact length_filter_name_le_one hU dd.name

/- ------------------------------------------------------------------ the state exists -/

/-- **`load_buildState_ok_of_wf`**: the three fallible loops that build the maps (definitions,
    extensions, directive definitions) all pass for a well-formed merged document -/
theorem load_buildState_ok_of {sd : SchemaDoc} (h : Spec.WellFormed sd)
    (hdirs : ∃ r, declareDirectives sd.directives [] = .ok r) : ∃ st, buildState sd = .ok st := by
  obtain ⟨t1, h1⟩ := load_foldExtensions_ok_of_wf h.extensionKindsMatch
  obtain ⟨dirs, hd⟩ := hdirs
  unfold buildState
  rw [load_declareTypes_ok_of_wf h.uniqueTypeNames]
  simp only [h1, hd]
  exact ⟨_, rfl⟩

theorem load_buildState_ok_of_wf {sd : SchemaDoc} (h : Spec.WellFormed sd) (hm : MergedDoc sd) :
    ∃ st, buildState sd = .ok st :=
  load_buildState_ok_of h (load_declareDirectives_ok_of_wf h.uniqueDirectiveNames hm)

/- ------------------------------------------------------------------ the directive in force -/

/-- the last declaration of `n` in the list (what the loop leaves in the map), starting from `init` -/
def lastD (init : Option DirectiveDef) (l : List DirectiveDef) (n : Name) : Option DirectiveDef :=
  l.foldl (fun o d => if d.name == n then some d else o) init

theorem declareDirectives_lookup {l : List DirectiveDef} {acc r : List (Name × DirectiveDef)}
    (h : declareDirectives l acc = .ok r) (n : Name) : r.lookup n = lastD (acc.lookup n) l n := by
  induction l generalizing acc with
  | nil => simp [declareDirectives] at h; subst h; rfl
  | cons dd rest ih =>
    simp only [declareDirectives] at h
    split at h
    · simp at h
    · rw [ih h, lookup_insertKV]
      simp only [lastD, List.foldl_cons]
      by_cases hn : n = dd.name
      · subst hn; simp
      · have : (dd.name == n) = false := by simp [Ne.symm hn]
        simp [hn, this]

theorem lastD_append (init : Option DirectiveDef) (a b : List DirectiveDef) (n : Name) :
    lastD init (a ++ b) n = lastD (lastD init a n) b n := by
  simp [lastD, List.foldl_append]

/-- with distinct names the last declaration is the first (only) one -/
theorem lastD_nodup {l : List DirectiveDef} (hn : (l.map (·.name)).Nodup) (init : Option DirectiveDef) (n : Name) :
    lastD init l n = match l.find? (·.name == n) with
      | some d => some d
      | none => init := by
  induction l generalizing init with
  | nil => rfl
  | cons d rest ih =>
    simp only [List.map_cons, List.nodup_cons] at hn
    simp only [lastD, List.foldl_cons, List.find?_cons]
    have ih' := ih hn.2
    simp only [lastD] at ih'
    rw [ih']
    cases hd : (d.name == n) with
    | false => simp
    | true =>
      have hd' : d.name = n := by simpa using hd
      have : rest.find? (·.name == n) = none := by
        rw [List.find?_eq_none]
        intro x hx he
        apply hn.1
        rw [hd']
        exact List.mem_map.mpr ⟨x, hx, by simpa using he⟩
      simp [this]

theorem find?_congr_mem {α} {l : List α} {p q : α → Bool} (h : ∀ x ∈ l, p x = q x) : l.find? p = l.find? q := by
  induction l with
  | nil => rfl
  | cons x rest ih =>
    simp only [List.find?_cons, h x (by simp)]
    rw [ih (fun y hy => h y (by simp [hy]))]

theorem filter_eq_self_of {α} {l : List α} {p : α → Bool} (h : ∀ x ∈ l, p x = true) : l.filter p = l :=
  List.filter_eq_self.mpr h

theorem filter_eq_nil_of {α} {l : List α} {p : α → Bool} (h : ∀ x ∈ l, p x = false) : l.filter p = [] := by
  rw [List.filter_eq_nil_iff]
  intro x hx hp
  rw [h x hx] at hp
  cases hp

/-- **bridge for directives**: in a merged document with unique directive names (per provenance), the
    definition the specification regards as in force — the user's, else the prelude's — is the one the
    loader's loop leaves in `schema.Directives` (the LAST declaration) -/
theorem spec_directive_eq_of_merged {sd : SchemaDoc} {st : LState} (hb : buildState sd = .ok st)
    (hu : Spec.uniqueDirectiveNames sd = true) (hm : MergedDoc sd) (n : Name) :
    (Spec.TypeSystem.ofDoc sd).directive? n = st.directives.lookup n := by
  have hdirs : declareDirectives sd.directives [] = .ok st.directives := by
    unfold buildState at hb
    split at hb
    · simp at hb
    · split at hb
      · simp at hb
      · split at hb
        split at hb
        · simp at hb
        · rename_i dirs hd
          simp only [Except.ok.injEq] at hb
          subst hb
          exact hd
  rw [declareDirectives_lookup hdirs n]
  obtain ⟨P, U, hl, hP, hU⟩ := preludeFirst_split hm.preludeFirst
  simp only [Spec.uniqueDirectiveNames, Bool.and_eq_true] at hu
  have hfU : sd.directives.filter (fun d => Spec.userWritten d.pos) = U := by
    rw [hl, List.filter_append, filter_eq_nil_of hP, filter_eq_self_of hU]; rfl
  have hfP : sd.directives.filter (fun d => !Spec.userWritten d.pos) = P := by
    rw [hl, List.filter_append, filter_eq_self_of (fun x hx => by simp [hP x hx]),
      filter_eq_nil_of (fun x hx => by simp [hU x hx])]
    simp
  have hnU : (U.map (·.name)).Nodup := by rw [← hfU]; exact nodup_of_pairwiseDistinct hu.1
  have hnP : (P.map (·.name)).Nodup := by rw [← hfP]; exact nodup_of_pairwiseDistinct hu.2
  unfold Spec.TypeSystem.directive? Spec.TypeSystem.ofDoc
  simp only [List.lookup]
  rw [hl, lastD_append, lastD_nodup hnU, lastD_nodup hnP]
  have h1 : (P ++ U).find? (fun d => d.name == n && Spec.userWritten d.pos) = U.find? (·.name == n) := by
    rw [List.find?_append]
    have : P.find? (fun d => d.name == n && Spec.userWritten d.pos) = none := by
      rw [List.find?_eq_none]
      intro x hx
      simp [hP x hx]
    rw [this]
    simp only [Option.none_or]
    exact find?_congr_mem (fun x hx => by simp [hU x hx])
  rw [h1, List.find?_append]
  cases hfu : U.find? (·.name == n) with
  | some d => rfl
  | none => cases P.find? (·.name == n) <;> rfl

/-- every entry of the directive map is a declaration of the document -/
theorem declareDirectives_mem {l : List DirectiveDef} {acc r : List (Name × DirectiveDef)}
    (h : declareDirectives l acc = .ok r) : ∀ p ∈ r, p ∈ acc ∨ p.2 ∈ l := by
  induction l generalizing acc with
  | nil => simp [declareDirectives] at h; subst h; exact fun p hp => Or.inl hp
  | cons dd rest ih =>
    simp only [declareDirectives] at h
    split at h
    · simp at h
    · intro p hp
      rcases ih h p hp with hp | hp
      · rcases mem_insertKV hp with hp | hp
        · right; subst hp; simp
        · exact Or.inl hp
      · right; simp [hp]

theorem state_directives_mem {sd : SchemaDoc} {st : LState} (hb : buildState sd = .ok st) :
    ∀ p ∈ st.directives, p.2 ∈ sd.directives := by
  unfold buildState at hb
  split at hb
  · simp at hb
  · split at hb
    · simp at hb
    · split at hb
      split at hb
      · simp at hb
      · rename_i dirs hd
        simp only [Except.ok.injEq] at hb
        subst hb
        intro p hp
        rcases declareDirectives_mem hd p hp with h | h
        · simp at h
        · exact h

/-- every entry of the type map is a definition of the specification's merged type system -/
theorem state_types_mem_spec {sd : SchemaDoc} {st : LState} (hb : buildState sd = .ok st)
    (hext : ∀ e ∈ sd.extensions, e.builtIn = false) {p : Name × Definition} (hp : p ∈ st.types) :
    p.2 ∈ (Spec.TypeSystem.ofDoc sd).types ∧ p.2.name = p.1 := by
  have hinv := (buildState_inv hb).1
  have hl : st.types.lookup p.1 = some p.2 := lookup_of_mem_nodup hinv.1 hp
  have := spec_type_eq hb hext p.1
  rw [hl] at this
  unfold Spec.TypeSystem.type? at this
  exact ⟨List.mem_of_find?_eq_some this, hinv.2 p hp⟩

end Gql.Load
