import GqlModel.Schema.Model
import GqlModel.Schema.Spec
/- small documents used as kernel-checked witnesses -/
namespace Gql.Examples
open Gql

def pos (line : Nat) (src : Nat := 1) : Pos := { start := 0, stop := 0, line := line, col := 1, src := src }
def ty (n : String) (nn : Bool := false) : GType := .named (str n) nn (pos 0)
def arg (n : String) (t : GType) : ArgDef := { desc := [], name := str n, default := none, type := t, dirs := [], pos := pos 0 }
def fld (n : String) (t : GType) (args : List ArgDef := []) : FieldDef :=
  { desc := [], name := str n, args := args, default := none, type := t, dirs := [], pos := pos 0 }
def defn (k : DefKind) (n : String) (line : Nat) (fields : List FieldDef := []) (interfaces : List String := [])
    (types : List String := []) (values : List String := []) (builtIn : Bool := false) : Definition :=
  { kind := k, desc := [], name := str n, dirs := [], interfaces := interfaces.map str, fields := fields,
    types := types.map str, enumValues := values.map fun v => { desc := [], name := str v, dirs := [], pos := pos line },
    pos := pos line (if builtIn then 0 else 1), builtIn := builtIn }
def doc (defs : List Definition) (exts : List Definition := []) (dirs : List DirectiveDef := [])
    (schemaExt : List SchemaDef := []) : SchemaDoc :=
  { schema := [], schemaExt := schemaExt, directives := dirs, definitions := defs, extensions := exts }

/-- a three-type stand-in for the prelude: what the introspection fields refer to -/
def miniPrelude : List Definition :=
  [ defn .scalar "String" 1 (builtIn := true), defn .scalar "Int" 2 (builtIn := true),
    defn .object "__Schema" 3 [fld "description" (ty "String")] (builtIn := true),
    defn .object "__Type" 4 [fld "name" (ty "String")] (builtIn := true) ]

/-- `interface I { f: U }  type A implements I { f: A }  union U = X` — X is not declared -/
def panicDoc : SchemaDoc :=
  doc (miniPrelude ++
    [ defn .interface "I" 1 [fld "f" (ty "U")],
      defn .object "A" 2 [fld "f" (ty "A")] (interfaces := ["I"]),
      defn .union "U" 3 (types := ["X"]) ])

/-- the same with `union U = A | X`: loads past `isCovariant` and is rejected when `U` is validated -/
def noPanicDoc : SchemaDoc :=
  doc (miniPrelude ++
    [ defn .interface "I" 1 [fld "f" (ty "U")],
      defn .object "A" 2 [fld "f" (ty "A")] (interfaces := ["I"]),
      defn .union "U" 3 (types := ["A", "X"]) ])

/-- `input Query { foo: String }` : the query root is inferred by name, whatever its kind -/
def inputQueryDoc : SchemaDoc := doc (miniPrelude ++ [ defn .inputObject "Query" 1 [fld "foo" (ty "String")] ])

/-- `type Query { a: Int }` -/
def okDoc : SchemaDoc := doc (miniPrelude ++ [ defn .object "Query" 1 [fld "a" (ty "Int")] ])

end Gql.Examples

namespace Gql.Examples
open Gql

def opType (op ty : String) : OpTypeDef := { op := str op, type := str ty, pos := pos 0 }
def extSchema (line : Nat) (ots : List OpTypeDef) : SchemaDef := { desc := [], dirs := [], opTypes := ots, pos := pos line }

def typeA : Definition := defn .object "A" 1 [fld "a" (ty "Int")]
def typeB : Definition := defn .object "B" 2 [fld "b" (ty "Int")]

/-- R17a: `extend schema { query: A }` then `extend schema { query: B }` -/
def rootsAB : SchemaDoc := doc (miniPrelude ++ [typeA, typeB]) (schemaExt := [extSchema 3 [opType "query" "A"], extSchema 4 [opType "query" "B"]])
def rootsBA : SchemaDoc := doc (miniPrelude ++ [typeA, typeB]) (schemaExt := [extSchema 4 [opType "query" "B"], extSchema 3 [opType "query" "A"]])

def dirDef (n : String) (line : Nat) (locs : List String) (src : Nat := 1) : DirectiveDef :=
  { desc := [], name := str n, args := [], locations := locs.map str, repeatable := false, pos := pos line src }

/-- R7b: `directive @skip on FIELD` and `directive @skip on OBJECT`, in both orders -/
def skipFO : SchemaDoc := doc (miniPrelude ++ [typeA]) (dirs := [dirDef "skip" 1 ["FIELD"], dirDef "skip" 2 ["OBJECT"]])
def skipOF : SchemaDoc := doc (miniPrelude ++ [typeA]) (dirs := [dirDef "skip" 2 ["OBJECT"], dirDef "skip" 1 ["FIELD"]])

/-- `interface I { f: U }  type A implements I { f: T }  type T implements U { a: Int }  union U = X`
    with `U` declared before / after `T` -/
def defI : Definition := defn .interface "I" 1 [fld "f" (ty "U")]
def defA : Definition := defn .object "A" 2 [fld "f" (ty "T")] (interfaces := ["I"])
def defT : Definition := defn .object "T" 3 [fld "a" (ty "Int")] (interfaces := ["U"])
def defU : Definition := defn .union "U" 4 (types := ["X"])
def orderUT : SchemaDoc := doc (miniPrelude ++ [defI, defA, defU, defT])
def orderTU : SchemaDoc := doc (miniPrelude ++ [defI, defA, defT, defU])

end Gql.Examples

namespace Gql.Examples
open Gql

/-- R7c: `enum E { __A }  type Query { e: E }` -/
def r7cDoc : SchemaDoc :=
  doc (miniPrelude ++ [ defn .enum "E" 1 (values := ["__A"]), defn .object "Query" 2 [fld "e" (ty "E")] ])

/-- R7a: `interface I { f(a: String!): Int }  type T implements I { f(a: String): Int }` -/
def r7aDoc : SchemaDoc :=
  doc (miniPrelude ++
    [ defn .interface "I" 1 [fld "f" (ty "Int") [arg "a" (ty "String" true)]],
      defn .object "T" 2 [fld "f" (ty "Int") [arg "a" (ty "String")]] (interfaces := ["I"]) ])

/-- `interface I { f(a: String!): Int }  type T implements I { f(a: String!): Int }  union U = T`
    plus `interface J { g: U }  type V implements J { g: T }` (covariant through the union) -/
def implOkDoc : SchemaDoc :=
  doc (miniPrelude ++
    [ defn .interface "I" 1 [fld "f" (ty "Int") [arg "a" (ty "String" true)]],
      defn .object "T" 2 [fld "f" (ty "Int") [arg "a" (ty "String" true)]] (interfaces := ["I"]),
      defn .union "U" 3 (types := ["T"]),
      defn .interface "J" 4 [fld "g" (ty "U")],
      defn .object "V" 5 [fld "g" (ty "T")] (interfaces := ["J"]) ])

/-- `directive @tag(name: String!) on OBJECT | ARGUMENT_DEFINITION`
    `type Query @tag(name: "q") { a(x: Int @tag(name: "x")): Int }` -/
def tagUse (v : String) : Directive :=
  { name := str "tag", args := [{ name := str "name", value := .mk .string (str v) .nil (pos 0), pos := pos 0 }], pos := pos 0 }
def dirOkDoc : SchemaDoc :=
  doc (miniPrelude ++
    [ { defn .object "Query" 2
          [ { fld "a" (ty "Int") [ { arg "x" (ty "Int") with dirs := [tagUse "x"] } ] with dirs := [] } ]
        with dirs := [tagUse "q"] } ])
    (dirs := [ { desc := [], name := str "tag", args := [arg "name" (ty "String" true)],
                 locations := [str "OBJECT", str "ARGUMENT_DEFINITION"], repeatable := false, pos := pos 1 } ])

end Gql.Examples

namespace Gql.Examples
open Gql

/- documents for the completeness theorem and its hypothesis `MergedDoc` -/

def skipUse : Directive := { name := str "skip", args := [], pos := pos 0 }
def typeASkip : Definition := { typeA with dirs := [skipUse] }

/-- prelude `directive @skip on FIELD` (source 0), then the user's `directive @skip on OBJECT`, and
    `type A @skip { a: Int }`: the user's declaration is in force -/
def redeclOkDoc : SchemaDoc :=
  doc (miniPrelude ++ [typeASkip]) (dirs := [dirDef "skip" 1 ["FIELD"] 0, dirDef "skip" 2 ["OBJECT"] 1])

/-- the same with the user's declaration placed BEFORE the prelude's (not a merge `ParseSchemas` builds) -/
def redeclUserFirstDoc : SchemaDoc :=
  doc (miniPrelude ++ [typeASkip]) (dirs := [dirDef "skip" 2 ["OBJECT"] 1, dirDef "skip" 1 ["FIELD"] 0])

/-- a source-0 directive that is not one of the loader's six built-ins, declared once more by the user -/
def redeclFooDoc : SchemaDoc :=
  doc (miniPrelude ++ [typeA]) (dirs := [dirDef "foo" 1 ["FIELD"] 0, dirDef "foo" 2 ["OBJECT"] 1])

/-- `extend scalar __X` marked built in, without a base definition -/
def builtinExtDoc : SchemaDoc := doc (miniPrelude ++ [typeA]) (exts := [defn .scalar "__X" 1 (builtIn := true)])

end Gql.Examples
