import GqlProofs.Schema.Sound
/-
  Soundness of the loader for the clause `Spec.implementsFieldsOK`: implementers provide every
  interface field covariantly, take every interface argument at the identical type, and add no
  required argument.

  Two bridges are needed:
  * `Type.String()` (`GType.render`) is injective on type expressions whose names are lexical
    GraphQL names (no `!`, `[`, `]`): the repaired loader compares argument types by their rendering;
  * the loader's `isCovariant` (which reads `PossibleTypes`) computes the specification's
    `IsValidImplementationFieldType` (`Spec.covariant`, which reads the definitions) in the state of a
    document that loads.
-/
set_option linter.unusedSimpArgs false
namespace Gql.Load
open Gql

/- ------------------------------------------------------------------ lexical names -/

/-- no `!`, `[`, `]` (bytes 33, 91, 93): true of every Name token -/
def plainName (n : Name) : Prop := ∀ c ∈ n, c ≠ 33 ∧ c ≠ 91 ∧ c ≠ 93

/-- every name inside the type expression is non-empty and plain (what the lexer guarantees) -/
def Lexical : GType → Prop
  | .named n _ _ => n ≠ [] ∧ plainName n
  | .list e _ _ => Lexical e

instance (n : Name) : Decidable (plainName n) := by unfold plainName; infer_instance

instance decLexical : (t : GType) → Decidable (Lexical t)
  | .named n _ _ => (inferInstance : Decidable (n ≠ [] ∧ plainName n))
  | .list e _ _ => decLexical e

def special (c : Nat) : Prop := c = 33 ∨ c = 91 ∨ c = 93

/-- a plain prefix followed by a special byte splits uniquely -/
theorem split_unique {n m : Name} (hn : plainName n) (hm : plainName m) {c c' : Nat} (hc : special c) (hc' : special c')
    {x y : Bytes} (h : n ++ c :: x = m ++ c' :: y) : n = m ∧ c = c' ∧ x = y := by
  induction n generalizing m with
  | nil =>
    cases m with
    | nil => simp at h; exact ⟨rfl, h.1, h.2⟩
    | cons b m' =>
      simp at h
      have := hm b (by simp)
      rcases hc with hc | hc | hc <;> (rw [← h.1, hc] at this; simp at this)
  | cons a n' ih =>
    cases m with
    | nil =>
      simp at h
      have := hn a (by simp)
      rcases hc' with hc' | hc' | hc' <;> (rw [h.1, hc'] at this; simp at this)
    | cons b m' =>
      simp only [List.cons_append, List.cons.injEq] at h
      obtain ⟨h1, h2, h3⟩ := ih (fun c hc => hn c (by simp [hc])) (fun c hc => hm c (by simp [hc])) h.2
      exact ⟨by rw [h.1, h1], h2, h3⟩

def sfx (nn : Bool) : Bytes := if nn then [33] else []

theorem render_named (n : Name) (nn : Bool) (p : Pos) : (GType.named n nn p).render = n ++ sfx nn := rfl
theorem render_list (e : GType) (nn : Bool) (p : Pos) : (GType.list e nn p).render = 91 :: e.render ++ 93 :: sfx nn := rfl

theorem sfx_cancel {a b : Bool} {x y : Bytes} (h : sfx a ++ 93 :: x = sfx b ++ 93 :: y) : a = b ∧ x = y := by
  cases a <;> cases b <;> simp [sfx] at h ⊢ <;> exact h

/-- renderings followed by `]` determine the type expression (up to positions) and the rest -/
theorem render_sep (a : GType) : ∀ (b : GType) (x y : Bytes), Lexical a → Lexical b →
    a.render ++ 93 :: x = b.render ++ 93 :: y → Spec.sameType a b = true ∧ x = y := by
  induction a with
  | named n nn p =>
    intro b x y ha hb h
    cases b with
    | named m mn q =>
      rw [render_named, render_named, List.append_assoc, List.append_assoc] at h
      cases nn <;> cases mn <;> simp only [sfx, Bool.false_eq_true, ↓reduceIte, List.nil_append, List.cons_append] at h
      · obtain ⟨h1, _, h3⟩ := split_unique ha.2 hb.2 (Or.inr (Or.inr rfl)) (Or.inr (Or.inr rfl)) h
        exact ⟨by simp [Spec.sameType, h1], h3⟩
      · obtain ⟨_, h2, _⟩ := split_unique ha.2 hb.2 (Or.inr (Or.inr rfl)) (Or.inl rfl) h
        simp at h2
      · obtain ⟨_, h2, _⟩ := split_unique ha.2 hb.2 (Or.inl rfl) (Or.inr (Or.inr rfl)) h
        simp at h2
      · obtain ⟨h1, _, h3⟩ := split_unique ha.2 hb.2 (Or.inl rfl) (Or.inl rfl) h
        simp only [List.cons.injEq, true_and] at h3
        exact ⟨by simp [Spec.sameType, h1], h3⟩
    | list eb bn q =>
      rw [render_named, render_list, List.append_assoc] at h
      have h' : n ++ (sfx nn ++ 93 :: x) = ([] : Name) ++ 91 :: (eb.render ++ 93 :: sfx bn ++ 93 :: y) := by
        simpa using h
      cases nn <;> simp only [sfx, Bool.false_eq_true, ↓reduceIte, List.nil_append, List.cons_append] at h'
      · obtain ⟨_, h2, _⟩ := split_unique (m := []) ha.2 (by intro c hc; simp at hc) (Or.inr (Or.inr rfl)) (Or.inr (Or.inl rfl)) h'
        simp at h2
      · obtain ⟨_, h2, _⟩ := split_unique (m := []) ha.2 (by intro c hc; simp at hc) (Or.inl rfl) (Or.inr (Or.inl rfl)) h'
        simp at h2
  | list ea an p ih =>
    intro b x y ha hb h
    cases b with
    | named m mn q =>
      rw [render_named, render_list, List.append_assoc] at h
      have h' : m ++ (sfx mn ++ 93 :: y) = ([] : Name) ++ 91 :: (ea.render ++ 93 :: sfx an ++ 93 :: x) := by
        simpa using h.symm
      cases mn <;> simp only [sfx, Bool.false_eq_true, ↓reduceIte, List.nil_append, List.cons_append] at h'
      · obtain ⟨_, h2, _⟩ := split_unique (m := []) hb.2 (by intro c hc; simp at hc) (Or.inr (Or.inr rfl)) (Or.inr (Or.inl rfl)) h'
        simp at h2
      · obtain ⟨_, h2, _⟩ := split_unique (m := []) hb.2 (by intro c hc; simp at hc) (Or.inl rfl) (Or.inr (Or.inl rfl)) h'
        simp at h2
    | list eb bn q =>
      rw [render_list, render_list] at h
      have h' : ea.render ++ 93 :: (sfx an ++ 93 :: x) = eb.render ++ 93 :: (sfx bn ++ 93 :: y) := by
        simpa using h
      obtain ⟨h1, h2⟩ := ih eb _ _ ha hb h'
      obtain ⟨h3, h4⟩ := sfx_cancel h2
      exact ⟨by simp [Spec.sameType, h1, h3], h4⟩

/-- `Type.String()` is injective (up to positions) on lexical type expressions -/
theorem render_inj {a b : GType} (ha : Lexical a) (hb : Lexical b) (h : a.render = b.render) : Spec.sameType a b = true :=
  (render_sep a b [] [] ha hb (by rw [h])).1

/- ------------------------------------------------------------------ isCovariant computes Spec.covariant -/

section
variable {sd : SchemaDoc} {s : Schema} {st : LState} {r1 : Roots} {d1 : List Directive}

theorem Facts.noNilPossible (F : Facts sd s st r1 d1) : NoNilPossible st := noNil_of_buildState F.built

theorem Facts.lookup_self (F : Facts sd s st r1 d1) {p : Name × Definition} (hp : p ∈ st.types) :
    st.types.lookup p.1 = some p.2 := lookup_of_mem_nodup F.typesInv.1 hp

/-- membership in `PossibleTypes[rn]`, read off the definitions (for `an ≠ rn`) -/
theorem Facts.possible_iff (F : Facts sd s st r1 d1) {rn an : Name} (hne : rn ≠ an) :
    some an ∈ entriesOf st.possible rn ↔
      ∃ ad rd, st.types.lookup an = some ad ∧ st.types.lookup rn = some rd ∧
        (ad.kind = .object ∨ ad.kind = .interface) ∧
        ((rd.kind = .union ∧ an ∈ rd.types) ∨ (rd.kind = .interface ∧ rn ∈ ad.interfaces)) := by
  have e1 : st.possible = (buildRelations st.types).1 := congrArg Prod.fst F.rel
  rw [e1, mem_possible_iff]
  constructor
  · rintro ⟨p, hp, hmem⟩
    have D := F.defOK p hp
    rcases mem_possPushes.mp hmem with ⟨hk, hname, _, t, ht, he⟩ | ⟨hk, hi, he⟩ | ⟨_, hname, he⟩
    · obtain ⟨td, htd, hkd⟩ := D.members t ht
      rw [ptrOf_self F.typesInv htd] at he
      have hat : an = t := Option.some.inj he
      subst hat
      refine ⟨td, p.2, htd, ?_, Or.inl hkd, Or.inl ⟨hk, ht⟩⟩
      rw [hname, F.name_eq hp]; exact F.lookup_self hp
    · have hat : an = p.2.name := Option.some.inj he
      obtain ⟨intf, hl, hki⟩ := D.interfaces rn hi
      refine ⟨p.2, intf, ?_, hl, hk, Or.inr ⟨hki, hi⟩⟩
      rw [hat, F.name_eq hp]; exact F.lookup_self hp
    · have hat : an = p.2.name := Option.some.inj he
      exact absurd (hname.trans hat.symm) hne
  · rintro ⟨ad, rd, ha, hr, hka, hcase⟩
    have hma := mem_of_lookup ha
    have hmr := mem_of_lookup hr
    rcases hcase with ⟨hku, hmem⟩ | ⟨_, hmem⟩
    · exact ⟨(rn, rd), hmr, mem_possPushes.mpr (Or.inl ⟨hku, (F.name_eq hmr).symm, rfl, an, hmem,
        (ptrOf_self F.typesInv ha).symm⟩)⟩
    · exact ⟨(an, ad), hma, mem_possPushes.mpr (Or.inr (Or.inl ⟨hka, hmem, congrArg some (F.name_eq hma).symm⟩))⟩

/-- the loader's `isCovariant` is the specification's `IsValidImplementationFieldType`, in the state
    of a document that loads (`hty`: the spec's merged type system resolves names like the state;
    `hempty`: no type has the empty name; `hr`: the interface's field type is lexical) -/
theorem isCovariant_eq_spec (F : Facts sd s st r1 d1) {ts : Spec.TypeSystem}
    (hty : ∀ n, ts.type? n = st.types.lookup n) (hempty : st.types.lookup [] = none) :
    ∀ (r a : GType), Lexical r → isCovariant st r a = some (Spec.covariant ts r a) := by
  intro r
  induction r with
  | named rn rnn rp =>
    intro a hr
    cases a with
    | named an ann ap =>
      unfold isCovariant
      simp only [Spec.covariant, GType.nonNull, namedOf]
      by_cases h1 : (rnn && !ann) = true
      · have : (!rnn || ann) = false := by cases rnn <;> cases ann <;> simp_all
        simp [h1, this]
      · have h1' : (!rnn || ann) = true := by cases rnn <;> cases ann <;> simp_all
        simp only [h1, Bool.false_eq_true, ↓reduceIte, h1', Bool.true_and]
        by_cases h2 : rn = an
        · subst h2; simp
        · have h2' : (rn == an) = false := by simp [h2]
          simp only [h2', Bool.false_eq_true, ↓reduceIte, Bool.false_or]
          have hnn : ∀ e ∈ entriesOf st.possible rn, e ≠ none := by
            intro e he
            unfold entriesOf at he
            cases hl : st.possible.lookup rn with
            | none => simp [hl] at he
            | some vs => rw [hl] at he; exact F.noNilPossible (rn, vs) (mem_of_lookup hl) e he
          show possibleHas (entriesOf st.possible rn) an = _
          rw [possibleHas_of_noNil hnn, hty, hty]
          congr 1
          have := F.possible_iff h2
          cases hla : st.types.lookup an with
          | none =>
            have hf : ¬ (some an ∈ entriesOf st.possible rn) := by
              rw [this]; rintro ⟨ad, rd, ha, _⟩; rw [hla] at ha; cases ha
            simp [hf]
          | some ad =>
            cases hlr : st.types.lookup rn with
            | none =>
              have hf : ¬ (some an ∈ entriesOf st.possible rn) := by
                rw [this]; rintro ⟨ad, rd, _, hr', _⟩; rw [hlr] at hr'; cases hr'
              simp [hf]
            | some rd =>
              rw [Bool.eq_iff_iff, decide_eq_true_eq, this]
              simp only [hla, hlr, Option.some.injEq, exists_and_left, exists_eq_left', Bool.and_eq_true,
                Bool.or_eq_true, beq_iff_eq, List.contains_iff_mem]
    | list ae ann ap =>
      unfold isCovariant
      simp only [Spec.covariant, GType.nonNull, namedOf]
      by_cases h1 : (rnn && !ann) = true
      · simp [h1]
      · simp only [h1, Bool.false_eq_true, ↓reduceIte]
        have h2 : (rn == ([] : Name)) = false := by
          have := hr.1
          simp [this]
        simp only [h2, Bool.false_eq_true, ↓reduceIte]
        have hnn : ∀ e ∈ entriesOf st.possible rn, e ≠ none := by
          intro e he
          unfold entriesOf at he
          cases hl : st.possible.lookup rn with
          | none => simp [hl] at he
          | some vs => rw [hl] at he; exact F.noNilPossible (rn, vs) (mem_of_lookup hl) e he
        show possibleHas (entriesOf st.possible rn) [] = _
        rw [possibleHas_of_noNil hnn]
        congr 1
        have hf : ¬ (some ([] : Name) ∈ entriesOf st.possible rn) := by
          intro hmem
          unfold entriesOf at hmem
          cases hl : st.possible.lookup rn with
          | none => simp [hl] at hmem
          | some vs =>
            rw [hl] at hmem
            obtain ⟨n, hn, hres⟩ := (F.relInv.1 (rn, vs) (mem_of_lookup hl)).2 _ hmem
            have : n = [] := (Option.some.inj hn).symm
            rw [this, hempty] at hres
            simp at hres
        simp [hf]
  | list re rnn rp ih =>
    intro a hr
    cases a with
    | named an ann ap => simp [isCovariant, Spec.covariant]
    | list ae ann ap =>
      simp only [isCovariant, Spec.covariant]
      by_cases h1 : (rnn && !ann) = true
      · have : (!rnn || ann) = false := by cases rnn <;> cases ann <;> simp_all
        simp [h1, this]
      · have h1' : (!rnn || ann) = true := by cases rnn <;> cases ann <;> simp_all
        simp only [h1, Bool.false_eq_true, ↓reduceIte, h1', Bool.true_and]
        exact ih ae hr

end

/- ------------------------------------------------------------------ the clause implementsFieldsOK -/

/-- what the lexer guarantees about the names the clause looks at: no definition or extension has the
    empty name; field types and argument types are lexical type expressions -/
def NamesLexical (sd : SchemaDoc) : Prop :=
  ∀ d ∈ sd.definitions ++ sd.extensions, d.name ≠ [] ∧ ∀ f ∈ d.fields, Lexical f.type ∧ ∀ a ∈ f.args, Lexical a.type

instance (sd : SchemaDoc) : Decidable (NamesLexical sd) := by unfold NamesLexical; infer_instance

/-- fields of merged definitions come from the fields written in the document -/
theorem foldExtensions_fields {P : FieldDef → Prop} {l : List Definition} {types r : List (Name × Definition)}
    (h : foldExtensions l types = .ok r) (hl : ∀ e ∈ l, ∀ f ∈ e.fields, P f)
    (ht : ∀ p ∈ types, ∀ f ∈ p.2.fields, P f) : ∀ p ∈ r, ∀ f ∈ p.2.fields, P f := by
  induction l generalizing types with
  | nil => simp [foldExtensions] at h; subst h; exact ht
  | cons ext rest ih =>
    simp only [foldExtensions] at h
    have hb : ∀ p ∈ ensureBase ext types, ∀ f ∈ p.2.fields, P f := by
      unfold ensureBase
      split
      · exact ht
      · intro p hp
        simp only [List.mem_append, List.mem_singleton] at hp
        rcases hp with hp | hp
        · exact ht p hp
        · subst hp; simp [extStub]
    split at h
    · simp at h; subst h; exact hb
    · split at h
      · simp at h
      · apply ih h (fun e he => hl e (by simp [he]))
        intro p hp f hf
        obtain ⟨k, v⟩ := p
        rcases mem_modifyKV hp with hp | ⟨_, v0, hv0, hv⟩
        · exact hb _ hp f hf
        · subst hv
          simp only [applyExt, List.mem_append] at hf
          rcases hf with hf | hf
          · exact hb _ hv0 f hf
          · exact hl ext (by simp) f hf

theorem state_fields_lexical {sd : SchemaDoc} {st : LState} (h : buildState sd = .ok st) (hlex : NamesLexical sd) :
    ∀ p ∈ st.types, ∀ f ∈ p.2.fields, Lexical f.type ∧ ∀ a ∈ f.args, Lexical a.type := by
  unfold buildState at h
  split at h
  · simp at h
  · rename_i t0 h0
    split at h
    · simp at h
    · rename_i t1 h1
      split at h
      split at h
      · simp at h
      · simp only [Except.ok.injEq] at h
        subst h
        apply foldExtensions_fields (P := fun f => Lexical f.type ∧ ∀ a ∈ f.args, Lexical a.type) h1
        · intro e he f hf
          exact (hlex e (by simp [he])).2 f hf
        · intro p hp f hf
          rcases declareTypes_entries h0 p hp with hp | hp
          · simp at hp
          · exact (hlex p.2 (by simp [hp])).2 f hf

theorem state_no_empty_name {sd : SchemaDoc} {st : LState} (h : buildState sd = .ok st) (hlex : NamesLexical sd) :
    st.types.lookup [] = none := by
  rw [state_lookup h]
  have h1 : sd.definitions.find? (·.name == ([] : Name)) = none := by
    rw [List.find?_eq_none]
    intro d hd he
    exact (hlex d (by simp [hd])).1 (by simpa using he)
  have h2 : sd.extensions.filter (·.name == ([] : Name)) = [] := by
    rw [List.filter_eq_nil_iff]
    intro d hd he
    exact (hlex d (by simp [hd])).1 (by simpa using he)
  rw [h1, h2]; rfl

/-- **soundness for `implementsFieldsOK`**: in a document the loader accepts, every implementer
    provides every field of its interfaces at a covariant type, takes every argument of the interface
    field at the IDENTICAL type, and adds no required argument -/
theorem load_implementsFieldsOK {sd : SchemaDoc} {s : Schema} (h : load sd = .ok s)
    (hext : ∀ e ∈ sd.extensions, e.builtIn = false) (hlex : NamesLexical sd) :
    Spec.implementsFieldsOK (.ofDoc sd) = true := by
  obtain ⟨st, r1, d1, F⟩ := loaded_facts h
  have hmem : ∀ d ∈ (Spec.TypeSystem.ofDoc sd).types, (d.name, d) ∈ st.types :=
    fun d hd => spec_types_mem F.built hext hd
  have hty := spec_type_eq F.built hext
  have hfl := state_fields_lexical F.built hlex
  have hempty := state_no_empty_name F.built hlex
  simp only [Spec.implementsFieldsOK, List.all_eq_true]
  intro d hd i hi
  have hdm := hmem d hd
  have himpl := (F.defOK _ hdm).implements i hi
  rw [hty i]
  unfold validateImplements LState.type? at himpl
  cases hl : st.types.lookup i with
  | none => rfl
  | some intf =>
    simp only [hl] at himpl ⊢
    split at himpl
    · simp at himpl
    · simp only [andThen_eq_pass, each_eq_pass] at himpl
      simp only [Bool.or_eq_true, List.all_eq_true]
      right
      intro rf hrf
      have hfield := himpl.1 rf hrf
      have hrfl := hfl (i, intf) (mem_of_lookup hl) rf hrf
      unfold validateImplementsField fieldForName at hfield
      cases hfind : d.fields.find? (fun f => f.name == rf.name) with
      | none => simp [hfind] at hfield
      | some f =>
        have hfmem : f ∈ d.fields := List.mem_of_find?_eq_some hfind
        have hffl := hfl (d.name, d) hdm f hfmem
        simp only [hfind, andThen_eq_pass, each_eq_pass] at hfield
        obtain ⟨hcov, hargs, hextra⟩ := hfield
        simp only [Bool.and_eq_true, List.all_eq_true]
        refine ⟨⟨?_, ?_⟩, ?_⟩
        · have := isCovariant_eq_spec F hty hempty rf.type f.type hrfl.1
          rw [this] at hcov
          cases hc : Spec.covariant (Spec.TypeSystem.ofDoc sd) rf.type f.type with
          | true => rfl
          | false => simp [hc] at hcov
        · intro ra hra
          have := hargs ra hra
          unfold argDefForName at this
          cases hfa : f.args.find? (fun a => a.name == ra.name) with
          | none => simp [hfa] at this
          | some fa =>
            simp only [hfa] at this ⊢
            split at this
            · rename_i heq
              exact render_inj (hrfl.2 ra hra) (hffl.2 fa (List.mem_of_find?_eq_some hfa)) (by simpa using heq)
            · simp at this
        · intro fa hfa
          have := hextra fa hfa
          unfold argDefForName at this
          split at this
          · simp at this
          · rename_i hcond
            cases h1 : (rf.args.find? (fun a => a.name == fa.name)).isSome with
            | true => simp
            | false =>
              have h1' : (rf.args.find? (fun a => a.name == fa.name)).isNone = true := by
                cases hx : rf.args.find? (fun a => a.name == fa.name) <;> simp_all
              simp only [h1', Bool.true_and] at hcond
              simp only [Bool.false_or, Bool.not_eq_true']
              cases hc : (fa.type.nonNull && fa.default.isNone) with
              | false => rfl
              | true => exact absurd hc hcond

end Gql.Load
